package main

// prov.go - E-PROV: backward provenance slice of an SSA value. The slice is followed through
// phi / extract / index / field / slice / conversions / concatenation / local allocations (all stores into them)
// and, context-sensitively, into same-module callees (results of calls) up to a depth bound. It ends in
// terminal *sources* and records every *transformer* (operation that can change the datum) on the way.
// A rule then states which sources and which transformers are acceptable.

import (
	"fmt"
	"go/token"
	"go/types"
	"sort"

	"golang.org/x/tools/go/ssa"
)

type provOp struct {
	Kind  string // "call:<callee>", "convert:<from>-><to>", "binop:+", "strslice", "unop:!", "len"
	Instr ssa.Instruction
}

type provSrc struct {
	Kind  string // param, const, global, field, fresh, zero, deref, freevar, func, closure, callresult
	V     ssa.Value
	Field *types.Var
	Name  string
}

type frame struct {
	call ssa.CallInstruction
	fn   *ssa.Function
}

type Prov struct {
	w        *World
	root     *ssa.Function
	maxDepth int
	// opaque: callee short names that must not be entered even though they have a body (treated as external calls)
	opaque map[string]bool
	// stopAt: values at which the slice stops and which are reported as sources of kind "stop"
	stopAt func(v ssa.Value) bool
	seen   map[string]bool
	Ops    []provOp
	Srcs   []provSrc
}

func NewProv(w *World, root *ssa.Function) *Prov {
	return &Prov{w: w, root: root, maxDepth: 4, opaque: map[string]bool{}, seen: map[string]bool{}}
}

func (p *Prov) addOp(kind string, in ssa.Instruction) { p.Ops = append(p.Ops, provOp{kind, in}) }
func (p *Prov) addSrc(s provSrc)                      { p.Srcs = append(p.Srcs, s) }

// Slice computes the provenance of v (a value of p.root).
func (p *Prov) Slice(v ssa.Value) *Prov {
	p.follow(v, nil)
	return p
}

func rootOfAddr(v ssa.Value) ssa.Value {
	for {
		switch x := v.(type) {
		case *ssa.FieldAddr:
			v = x.X
		case *ssa.IndexAddr:
			// only arrays addressed through a pointer stay inside the same allocation
			if _, ok := x.X.Type().Underlying().(*types.Pointer); ok {
				v = x.X
			} else {
				return v
			}
		default:
			return v
		}
	}
}

// storesInto returns the values stored anywhere inside the allocation a (flow-insensitive).
func storesInto(a *ssa.Alloc) []ssa.Value {
	var out []ssa.Value
	fn := a.Parent()
	for _, f := range funcsWithAnon(fn) {
		eachInstr(f, func(in ssa.Instruction) {
			if st, ok := in.(*ssa.Store); ok {
				if rootOfAddr(st.Addr) == ssa.Value(a) {
					out = append(out, st.Val)
				}
			}
		})
	}
	return out
}

func (p *Prov) key(v ssa.Value, stack []frame) string {
	k := fmt.Sprintf("%p", v)
	if len(stack) > 0 {
		k += fmt.Sprintf("@%p", stack[len(stack)-1].call)
	}
	return k
}

func (p *Prov) follow(v ssa.Value, stack []frame) {
	if v == nil {
		return
	}
	k := p.key(v, stack)
	if p.seen[k] {
		return
	}
	p.seen[k] = true
	if p.stopAt != nil && p.stopAt(v) {
		p.addSrc(provSrc{Kind: "stop", V: v, Name: v.Name()})
		return
	}
	switch x := v.(type) {
	case *ssa.Const:
		p.addSrc(provSrc{Kind: "const", V: x, Name: x.String()})
	case *ssa.Global:
		p.addSrc(provSrc{Kind: "globaladdr", V: x, Name: shortName(x.String())})
	case *ssa.Function:
		p.addSrc(provSrc{Kind: "func", V: x, Name: short(x)})
	case *ssa.Builtin:
		p.addSrc(provSrc{Kind: "func", V: x, Name: x.Name()})
	case *ssa.FreeVar:
		p.addSrc(provSrc{Kind: "freevar", V: x, Name: x.Name()})
	case *ssa.Parameter:
		// parameter of an entered callee: continue in the caller with the matching argument
		for i := len(stack) - 1; i >= 0; i-- {
			if stack[i].fn == x.Parent() {
				args := stack[i].call.Common().Args
				for j, prm := range x.Parent().Params {
					if prm == x && j < len(args) {
						p.follow(args[j], stack[:i])
						return
					}
				}
			}
		}
		p.addSrc(provSrc{Kind: "param", V: x, Name: short(x.Parent()) + ":" + x.Name()})
	case *ssa.Phi:
		for _, e := range x.Edges {
			p.follow(e, stack)
		}
	case *ssa.Extract:
		switch t := x.Tuple.(type) {
		case *ssa.Call:
			p.followCall(t, x.Index, stack)
		case *ssa.Next:
			if r, ok := t.Iter.(*ssa.Range); ok {
				p.follow(r.X, stack)
			} else {
				p.follow(t.Iter, stack)
			}
		case *ssa.Lookup:
			p.follow(t.X, stack)
		case *ssa.TypeAssert:
			p.follow(t.X, stack)
		case *ssa.UnOp: // <-ch, ok
			p.addOp("unop:"+t.Op.String(), t)
			p.follow(t.X, stack)
		default:
			p.addSrc(provSrc{Kind: "unknown", V: x, Name: x.String()})
		}
	case *ssa.Call:
		p.followCall(x, 0, stack)
	case *ssa.UnOp:
		if x.Op == token.MUL {
			p.followLoad(x, stack)
		} else {
			p.addOp("unop:"+x.Op.String(), x)
			p.follow(x.X, stack)
		}
	case *ssa.BinOp:
		p.addOp("binop:"+x.Op.String(), x)
		p.follow(x.X, stack)
		p.follow(x.Y, stack)
	case *ssa.Convert:
		p.addOp("convert:"+typeString(x.X.Type())+"->"+typeString(x.Type()), x)
		p.follow(x.X, stack)
	case *ssa.ChangeType:
		p.follow(x.X, stack)
	case *ssa.ChangeInterface:
		p.follow(x.X, stack)
	case *ssa.MakeInterface:
		p.follow(x.X, stack)
	case *ssa.TypeAssert:
		p.follow(x.X, stack)
	case *ssa.SliceToArrayPointer:
		p.follow(x.X, stack)
	case *ssa.Slice:
		if b, ok := x.X.Type().Underlying().(*types.Basic); ok && b.Info()&types.IsString != 0 && (x.Low != nil || x.High != nil) {
			p.addOp("strslice", x)
		}
		// slicing a pointer to a local array: continue with the stores into the array
		if a, ok := rootOfAddr(x.X).(*ssa.Alloc); ok {
			p.followAlloc(a, stack)
		} else {
			p.follow(x.X, stack)
		}
	case *ssa.Index:
		p.follow(x.X, stack)
	case *ssa.Lookup:
		p.follow(x.X, stack)
	case *ssa.Field:
		p.follow(x.X, stack)
	case *ssa.FieldAddr, *ssa.IndexAddr:
		// an address used as a value (e.g. &x.f passed on)
		if a, ok := rootOfAddr(x).(*ssa.Alloc); ok {
			p.followAlloc(a, stack)
		} else {
			p.addSrc(provSrc{Kind: "addr", V: x, Name: x.String()})
		}
	case *ssa.Alloc:
		p.followAlloc(x, stack)
	case *ssa.MakeSlice, *ssa.MakeMap, *ssa.MakeChan:
		p.addSrc(provSrc{Kind: "fresh", V: x, Name: x.String()})
	case *ssa.MakeClosure:
		p.addSrc(provSrc{Kind: "closure", V: x, Name: x.String()})
	case *ssa.Range:
		p.follow(x.X, stack)
	case *ssa.Next:
		if r, ok := x.Iter.(*ssa.Range); ok {
			p.follow(r.X, stack)
		}
	default:
		p.addSrc(provSrc{Kind: "unknown", V: v, Name: v.String()})
	}
}

func (p *Prov) followAlloc(a *ssa.Alloc, stack []frame) {
	k := p.key(a, stack) + "/alloc"
	if p.seen[k] {
		return
	}
	p.seen[k] = true
	vals := storesInto(a)
	if len(vals) == 0 {
		p.addSrc(provSrc{Kind: "zero", V: a, Name: a.Comment})
	}
	for _, v := range vals {
		p.follow(v, stack)
	}
}

func (p *Prov) followLoad(ld *ssa.UnOp, stack []frame) {
	addr := ld.X
	root := rootOfAddr(addr)
	if a, ok := root.(*ssa.Alloc); ok {
		p.followAlloc(a, stack)
		return
	}
	switch x := addr.(type) {
	case *ssa.Global:
		p.addSrc(provSrc{Kind: "global", V: x, Name: shortName(x.String())})
	case *ssa.FieldAddr:
		p.addSrc(provSrc{Kind: "field", V: ld, Field: fieldOfAddr(x), Name: typeString(derefType(x.X.Type())) + "." + fieldOfAddr(x).Name()})
	case *ssa.IndexAddr:
		// element of a slice value: verbatim selection of an element
		p.follow(x.X, stack)
	case *ssa.FreeVar:
		p.addSrc(provSrc{Kind: "freevar", V: x, Name: x.Name()})
	default:
		p.addSrc(provSrc{Kind: "deref", V: ld, Name: addr.Name()})
		p.follow(addr, stack)
	}
}

func (p *Prov) followCall(c *ssa.Call, resIdx int, stack []frame) {
	name := calleeName(c)
	cc := c.Common()
	if b, ok := cc.Value.(*ssa.Builtin); ok {
		switch b.Name() {
		case "append":
			for _, a := range cc.Args {
				p.follow(a, stack)
			}
			return
		case "len", "cap":
			p.addOp("len", c)
			return
		}
	}
	callee := cc.StaticCallee()
	if callee != nil && callee.Blocks != nil && !p.opaque[name] && len(stack) < p.maxDepth && p.w.PkgOfFn(callee) != nil {
		// recursion guard
		for _, f := range stack {
			if f.fn == callee {
				p.addOp("call:"+name+" (recursive)", c)
				return
			}
		}
		nstack := append(append([]frame(nil), stack...), frame{c, callee})
		for _, b := range callee.Blocks {
			for _, in := range b.Instrs {
				if ret, ok := in.(*ssa.Return); ok && resIdx < len(ret.Results) {
					p.follow(ret.Results[resIdx], nstack)
				}
			}
		}
		return
	}
	p.addOp("call:"+name, c)
	for _, a := range cc.Args {
		p.follow(a, stack)
	}
	if cc.IsInvoke() {
		p.follow(cc.Value, stack)
	}
}

// OpKinds returns the distinct transformer kinds, sorted.
func (p *Prov) OpKinds() []string {
	m := map[string]bool{}
	for _, o := range p.Ops {
		m[o.Kind] = true
	}
	return sortedKeys(m)
}

// SrcNames returns the distinct source descriptions "kind:name", sorted.
func (p *Prov) SrcNames() []string {
	m := map[string]bool{}
	for _, s := range p.Srcs {
		m[s.Kind+":"+s.Name] = true
	}
	out := sortedKeys(m)
	sort.Strings(out)
	return out
}

// BadOps returns the transformers not accepted by allow, rendered with positions.
func (p *Prov) BadOps(allow func(kind string, in ssa.Instruction) bool) []string {
	var out []string
	seen := map[string]bool{}
	for _, o := range p.Ops {
		if allow(o.Kind, o.Instr) {
			continue
		}
		s := fmt.Sprintf("%s at %s", o.Kind, p.w.IPos(o.Instr))
		if !seen[s] {
			seen[s] = true
			out = append(out, s)
		}
	}
	sort.Strings(out)
	return out
}

// BadSrcs returns the sources not accepted by allow.
func (p *Prov) BadSrcs(allow func(s provSrc) bool) []string {
	var out []string
	seen := map[string]bool{}
	for _, s := range p.Srcs {
		if allow(s) {
			continue
		}
		d := s.Kind + ":" + s.Name
		if !seen[d] {
			seen[d] = true
			out = append(out, d)
		}
	}
	sort.Strings(out)
	return out
}

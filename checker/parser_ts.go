package main

// parser_ts.go - configuration of the token typestate for parseCLIArgs in normal (non completion) mode,
// the feasibility lemmas it relies on (each reported as an obligation of its own), and helper summaries.

import (
	"fmt"
	"go/token"
	"go/types"
	"strings"

	"golang.org/x/tools/go/ssa"
)

// elementsOf decomposes a slice valued SSA value into the values that may be its elements.
// ok=false when the shape is not understood. spread values (other slices appended wholesale) are returned in spreads.
func elementsOf(v ssa.Value, seen map[ssa.Value]bool) (elems []ssa.Value, spreads []ssa.Value, ok bool) {
	if seen[v] {
		return nil, nil, true
	}
	seen[v] = true
	switch x := v.(type) {
	case *ssa.Const:
		return nil, nil, x.Value == nil // nil slice
	case *ssa.Slice:
		if a, isAlloc := rootOfAddr(x.X).(*ssa.Alloc); isAlloc {
			if _, isArr := derefType(a.Type()).Underlying().(*types.Array); isArr {
				return storesInto(a), nil, true
			}
		}
		return elementsOf(x.X, seen)
	case *ssa.MakeSlice:
		return nil, nil, true
	case *ssa.ChangeType:
		return elementsOf(x.X, seen)
	case *ssa.Phi:
		ok = true
		for _, e := range x.Edges {
			el, sp, k := elementsOf(e, seen)
			elems = append(elems, el...)
			spreads = append(spreads, sp...)
			ok = ok && k
		}
		return elems, spreads, ok
	case *ssa.Call:
		if calleeName(x) == "builtin:append" {
			el, sp, k := elementsOf(x.Call.Args[0], seen)
			ok = k
			elems, spreads = el, sp
			if len(x.Call.Args) > 1 {
				el2, sp2, k2 := elementsOf(x.Call.Args[1], seen)
				if k2 {
					elems = append(elems, el2...)
					spreads = append(spreads, sp2...)
				} else {
					spreads = append(spreads, x.Call.Args[1])
				}
			}
			return elems, spreads, ok
		}
	case *ssa.UnOp:
		if x.Op == token.MUL {
			if a, isAlloc := rootOfAddr(x.X).(*ssa.Alloc); isAlloc {
				ok = true
				for _, sv := range storesInto(a) {
					el, sp, k := elementsOf(sv, seen)
					elems = append(elems, el...)
					spreads = append(spreads, sp...)
					ok = ok && k
				}
				return elems, spreads, ok
			}
		}
	}
	return nil, []ssa.Value{v}, false
}

// provablyNonEmpty: the slice value certainly has at least one element.
// accepted shapes: literal with >= 1 element; append(x, y...) where x or a literal y is non-empty;
// the accumulator of a range loop over a provably non-empty collection that appends on every iteration;
// strings.Split(s, "") / []rune(s) of a provably non-empty string.
func (w *World) provablyNonEmpty(v ssa.Value, nonEmptyStr func(ssa.Value) bool, depth int) (bool, string) {
	if depth > 6 {
		return false, "depth"
	}
	switch x := v.(type) {
	case *ssa.Slice:
		if a, isAlloc := rootOfAddr(x.X).(*ssa.Alloc); isAlloc && x.Low == nil && x.High == nil {
			if arr, isArr := derefType(a.Type()).Underlying().(*types.Array); isArr && arr.Len() >= 1 {
				return true, fmt.Sprintf("literal with %d element(s)", arr.Len())
			}
		}
	case *ssa.Call:
		switch calleeName(x) {
		case "builtin:append":
			if ok, why := w.provablyNonEmpty(x.Call.Args[0], nonEmptyStr, depth+1); ok {
				return true, why
			}
			if len(x.Call.Args) > 1 {
				return w.provablyNonEmpty(x.Call.Args[1], nonEmptyStr, depth+1)
			}
		case "strings.Split":
			if s, ok := constString(x.Call.Args[1]); ok && s == "" && nonEmptyStr != nil && nonEmptyStr(x.Call.Args[0]) {
				return true, "strings.Split(s, \"\") of a non-empty string"
			}
			if s, ok := constString(x.Call.Args[1]); ok && s != "" {
				return true, "strings.Split with a non-empty separator yields at least one element"
			}
		case "(*regexp.Regexp).Split":
			// documented: n == 0 yields nil; otherwise at least one element (the whole text when nothing matches,
			// [""] for the empty text)
			if n, ok := constInt(x.Call.Args[2]); ok && n != 0 {
				return true, "(*Regexp).Split with n != 0 yields at least one element"
			}
		}
	case *ssa.MakeSlice:
		// make([]T, len(c)) of a provably non-empty c
		if ln, ok := x.Len.(*ssa.Call); ok && calleeName(ln) == "builtin:len" && len(ln.Call.Args) == 1 {
			arg := ln.Call.Args[0]
			if b, isStr := arg.Type().Underlying().(*types.Basic); isStr && b.Info()&types.IsString != 0 {
				if nonEmptyStr != nil && nonEmptyStr(arg) {
					return true, "make([]T, len(s)) of a non-empty string"
				}
			} else if ok, why := w.provablyNonEmpty(arg, nonEmptyStr, depth+1); ok {
				return true, "make([]T, len(c)) where c is non-empty: " + why
			}
		}
	case *ssa.Convert:
		if typeString(x.Type()) == "[]rune" && nonEmptyStr != nil && nonEmptyStr(x.X) {
			return true, "[]rune of a non-empty string"
		}
	case *ssa.Phi:
		// accumulator of a range loop: phi [pre: init, body...: append(phi, ...)] in a loop header whose
		// loop ranges over a non-empty collection and appends on every path through the body.
		b := x.Block()
		rng := rangeCollectionOfHeader(b)
		if rng == nil {
			// a plain merge: all edges must be non-empty
			for _, e := range x.Edges {
				if e == ssa.Value(x) {
					continue
				}
				if ok, _ := w.provablyNonEmpty(e, nonEmptyStr, depth+1); !ok {
					return false, "merge with a possibly empty edge"
				}
			}
			return true, "all merged values non-empty"
		}
		if ok, why := w.provablyNonEmpty(rng, nonEmptyStr, depth+1); !ok {
			return false, "ranged collection not provably non-empty: " + why
		}
		// every back edge must carry append(phi, ...)
		for i, e := range x.Edges {
			pred := b.Preds[i]
			if !b.Dominates(pred) {
				continue // preheader
			}
			c, isCall := e.(*ssa.Call)
			if !isCall || calleeName(c) != "builtin:append" {
				return false, "a path through the loop body does not append"
			}
			if ok, _ := w.provablyNonEmpty(c, func(ssa.Value) bool { return false }, depth+1); !ok {
				// append(phi, <literal of >=1>) is the accepted shape
				if len(c.Call.Args) < 2 {
					return false, "append without operand"
				}
				if ok2, _ := w.provablyNonEmpty(c.Call.Args[1], nonEmptyStr, depth+1); !ok2 {
					return false, "append of a possibly empty operand"
				}
			}
		}
		return true, "accumulator of a loop over a non-empty collection appending on every iteration"
	}
	return false, "shape not recognised: " + v.String()
}

// rangeCollectionOfHeader: if b is the header of a `for range X` loop over a slice (rangeindex form), return X.
func rangeCollectionOfHeader(b *ssa.BasicBlock) ssa.Value {
	if len(b.Instrs) == 0 {
		return nil
	}
	iff, ok := b.Instrs[len(b.Instrs)-1].(*ssa.If)
	if !ok {
		return nil
	}
	cmp, ok := iff.Cond.(*ssa.BinOp)
	if ok && (cmp.Op == token.GTR || cmp.Op == token.NEQ) {
		// consuming loop: for rest := X; len(rest) > 0; rest = rest[1:] { … rest[0] … }
		if c := consumingLoopCollection(b, cmp); c != nil {
			return c
		}
	}
	if !ok || cmp.Op != token.LSS {
		return nil
	}
	ln, ok := cmp.Y.(*ssa.Call)
	if !ok || calleeName(ln) != "builtin:len" {
		return nil
	}
	// classic index loop: for i := 0; i < len(X); i++ (the counter starts at 0, advances by one on every back edge,
	// and X is a slice or string value, whose length cannot change)
	if phi, ok := cmp.X.(*ssa.Phi); ok && phi.Block() == b {
		good := true
		for i, e := range phi.Edges {
			if b.Dominates(b.Preds[i]) {
				inc, ok := e.(*ssa.BinOp)
				k, isC := int64(0), false
				if ok {
					k, isC = constInt(inc.Y)
				}
				if !ok || inc.Op != token.ADD || inc.X != ssa.Value(phi) || !isC || k != 1 {
					good = false
				}
			} else if k, isC := constInt(e); !isC || k != 0 {
				good = false
			}
		}
		switch ln.Call.Args[0].Type().Underlying().(type) {
		case *types.Slice, *types.Basic:
		default:
			good = false
		}
		if in, isIn := ln.Call.Args[0].(ssa.Instruction); isIn && naturalLoop(b)[in.Block()] {
			// re-evaluated on every iteration: still one fixed collection when it is a field that nothing in the loop
			// can write (no store to the field, no call other than builtins and pure string helpers)
			good = good && fieldLoadInvariantIn(ln.Call.Args[0], naturalLoop(b))
		}
		if good {
			return ln.Call.Args[0]
		}
		return nil
	}
	inc, ok := cmp.X.(*ssa.BinOp)
	if !ok || inc.Op != token.ADD {
		return nil
	}
	if _, ok := inc.X.(*ssa.Phi); !ok {
		return nil
	}
	return ln.Call.Args[0]
}

// fieldLoadInvariantIn: v is a load of a struct field and nothing inside the loop can change that field.
func fieldLoadInvariantIn(v ssa.Value, loop map[*ssa.BasicBlock]bool) bool {
	u, ok := v.(*ssa.UnOp)
	if !ok || u.Op != token.MUL {
		return false
	}
	fa, ok := u.X.(*ssa.FieldAddr)
	if !ok {
		return false
	}
	f := fieldOfAddr(fa)
	for b := range loop {
		for _, in := range b.Instrs {
			if _, f2, _, ok := storeField(in); ok && f2 == f {
				return false
			}
			if c, ok := in.(ssa.CallInstruction); ok {
				n := calleeName(c)
				if strings.HasPrefix(n, "builtin:") || strings.HasPrefix(n, "strings.") || strings.HasPrefix(n, "(*strings.Builder).") || strings.HasPrefix(n, "fmt.Sprint") || strings.HasPrefix(n, "strconv.") {
					continue
				}
				return false
			}
		}
	}
	return true
}

// consumingLoopCollection: b is the header of `for rest := X; len(rest) > 0; rest = rest[1:]`; returns X.
func consumingLoopCollection(b *ssa.BasicBlock, cmp *ssa.BinOp) ssa.Value {
	k, isK := constInt(cmp.Y)
	ln, ok := cmp.X.(*ssa.Call)
	if !isK || k != 0 || !ok || calleeName(ln) != "builtin:len" || len(ln.Call.Args) != 1 {
		return nil
	}
	phi := consumingPhi(b, ln.Call.Args[0])
	if phi == nil {
		return nil
	}
	var coll ssa.Value
	for i, e := range phi.Edges {
		if !b.Dominates(b.Preds[i]) {
			if coll != nil && coll != e {
				return nil
			}
			coll = e
		}
	}
	return coll
}

// consumingPhi: v is a phi of block b whose back edges all carry v[1:].
func consumingPhi(b *ssa.BasicBlock, v ssa.Value) *ssa.Phi {
	phi, ok := v.(*ssa.Phi)
	if !ok || phi.Block() != b {
		return nil
	}
	if _, isSlice := phi.Type().Underlying().(*types.Slice); !isSlice {
		return nil
	}
	back := 0
	for i, e := range phi.Edges {
		if !b.Dominates(b.Preds[i]) {
			continue
		}
		back++
		sl, ok := e.(*ssa.Slice)
		if !ok || sl.X != ssa.Value(phi) || sl.High != nil || sl.Max != nil {
			return nil
		}
		if k, ok := constInt(sl.Low); !ok || k != 1 {
			return nil
		}
	}
	if back == 0 {
		return nil
	}
	return phi
}

// normalModePrune prunes the edges that contradict completionMode == "" (the value Parse passes for a real parse).
func (m *parserModel) normalModePrune(b *ssa.BasicBlock, k int) bool {
	if m.complParam == nil || len(b.Instrs) == 0 {
		return false
	}
	iff, ok := b.Instrs[len(b.Instrs)-1].(*ssa.If)
	if !ok {
		return false
	}
	for _, f := range condFacts(iff.Cond, k == 0, iff) {
		if f.Y == nil {
			continue
		}
		x, y := f.X, f.Y
		if _, isC := constString(x); isC {
			x, y = y, x
		}
		s, isC := constString(y)
		if !isC || x != ssa.Value(m.complParam) {
			continue
		}
		if (f.Op == token.NEQ && s == "") || (f.Op == token.EQL && s != "") {
			return true
		}
	}
	return false
}

// helperSummary: for a same-module function that receives the iterator, decide by typestate on its own body
// whether it accounts for the token current at entry (and every token it advances to) and whether it drains the iterator.
type helperSum struct {
	disposes, exhausts bool
	why                string
}

func (w *World) helperSummary(callee *ssa.Function, cache map[*ssa.Function]*helperSum) *helperSum {
	if s, ok := cache[callee]; ok {
		return s
	}
	s := &helperSum{}
	cache[callee] = s // recursion guard: pessimistic
	var it ssa.Value
	for _, p := range callee.Params {
		if isIterPtr(p.Type()) {
			it = p
		}
	}
	if it == nil || callee.Blocks == nil {
		s.why = "no iterator parameter"
		return s
	}
	hm := newParserModel(w, callee, it)
	cfg := &tsConfig{m: hm, entry: tsFresh,
		disposition: func(in ssa.Instruction) (bool, bool) { return hm.basicDisposition(in, cache) },
		okReturn:    func(r *ssa.Return) bool { return false },
	}
	viols := runTypestate(cfg)
	s.disposes = len(viols) == 0
	if !s.disposes {
		s.why = viols[0].String(w)
	}
	// exhausts: every return is dominated by the false edge of a Next() test on the iterator
	ex := true
	nret := 0
	for _, b := range callee.Blocks {
		for _, in := range b.Instrs {
			if _, ok := in.(*ssa.Return); ok {
				nret++
				dom := false
				for _, n := range hm.nextCalls {
					nb := n.Block()
					if iff, ok := nb.Instrs[len(nb.Instrs)-1].(*ssa.If); ok && iff.Cond == ssa.Value(n) && edgeDominates(nb, 1, b) {
						dom = true
					}
				}
				if !dom {
					ex = false
				}
			}
		}
	}
	s.exhausts = ex && nret > 0
	return s
}

// basicDisposition recognises the dispositions that do not depend on the main-loop structure.
func (m *parserModel) basicDisposition(in ssa.Instruction, cache map[*ssa.Function]*helperSum) (bool, bool) {
	switch x := in.(type) {
	case *ssa.Call:
		n := calleeName(x)
		switch n {
		case nSave:
			return true, false
		case nNewUnknown:
			for _, a := range x.Call.Args {
				if c, ok := a.(*ssa.Call); ok && m.iterCall(c, nIterValue) {
					return true, false
				}
			}
			return false, false
		}
		if callee := x.Call.StaticCallee(); callee != nil && callee.Blocks != nil && m.w.PkgOfFn(callee) != nil && callee != m.fn {
			for _, a := range x.Call.Args {
				if a == m.iter {
					s := m.w.helperSummary(callee, cache)
					return s.disposes, s.disposes && s.exhausts
				}
			}
		}
	case *ssa.Store:
		// cursor.ChildText = append(cursor.ChildText, Value())
		base, f, val, ok := storeField(in)
		if !ok || f != m.fChildText || !isTreePtr(base.Type()) {
			return false, false
		}
		first, rest, ok := isAppendOf(val, f)
		if !ok {
			return false, false
		}
		if b2, ok := loadOfField(first, f); !ok || b2 != base {
			return false, false
		}
		for _, r := range rest {
			els, _, _ := elementsOf(r, map[ssa.Value]bool{})
			for _, e := range els {
				if c, ok := e.(*ssa.Call); ok && m.iterCall(c, nIterValue) {
					return true, false
				}
				// value := iterator.Value(); append(..., value)
				if c, ok := e.(*ssa.Call); ok {
					_ = c
				}
			}
		}
	}
	return false, false
}

// pairLoop finds the range loop over the option pairs returned by the main isOption call.
type pairLoopInfo struct {
	header    *ssa.BasicBlock
	preheader *ssa.BasicBlock
	isOptCall *ssa.Call
	pairs     ssa.Value
}

func (m *parserModel) pairLoop() *pairLoopInfo {
	for _, c := range m.isOptCalls {
		refs := c.Referrers()
		if refs == nil {
			continue
		}
		for _, r := range *refs {
			ex, ok := r.(*ssa.Extract)
			if !ok || ex.Index != 0 {
				continue
			}
			for _, b := range m.fn.Blocks {
				if rangeCollectionOfHeader(b) == ssa.Value(ex) {
					li := &pairLoopInfo{header: b, isOptCall: c, pairs: ex}
					for _, p := range b.Preds {
						if !b.Dominates(p) {
							li.preheader = p
						}
					}
					return li
				}
			}
		}
	}
	return nil
}

// lookupOkIf finds the `opt, ok := cursor.ChildOptions[matches[0]]; ok` test in the parser.
func (m *parserModel) lookupOkIf() (*ssa.If, *ssa.Lookup) {
	for _, b := range m.fn.Blocks {
		if len(b.Instrs) == 0 {
			continue
		}
		iff, ok := b.Instrs[len(b.Instrs)-1].(*ssa.If)
		if !ok {
			continue
		}
		ex, ok := iff.Cond.(*ssa.Extract)
		if !ok || ex.Index != 1 {
			continue
		}
		lk, ok := ex.Tuple.(*ssa.Lookup)
		if !ok || !lk.CommaOk {
			continue
		}
		if base, ok := loadOfField(lk.X, m.fChildOptions); ok && isTreePtr(base.Type()) {
			if !m.mainNext.Block().Dominates(b) {
				continue
			}
			// not in the completion block
			return iff, lk
		}
	}
	return nil, nil
}

package main

// reshape.go - a reference package function that became a method. `storeRemainingAsText(iterator, n)` turned into
// `n.storeRemainingAsText(iterator)` (or `copyOptionsFromParent(parent)` into `parent.copyOptionsToChildren()`) is the
// same function with one parameter written in front; the rules (and the reference table of inline.go) know it as a
// package function. When a package-level function of the reference table is missing and exactly one NEW unexported
// method of the same package has the same results and, receiver included, the same parameter types (all distinct, so
// the correspondence is unambiguous; the same name is preferred), the method is rewritten back, in the in-memory
// overlay, into the package function with the reference name and parameter order, and so is every call. It refuses
// when the method is used as a method value, when a call's receiver or arguments are not simple expressions (their
// evaluation order would change), or when the method's receiver is unnamed but used.

import (
	"fmt"
	"go/ast"
	"go/types"
	"sort"
	"strings"

	"golang.org/x/tools/go/packages"
)

// splitTopLevel splits "A, B, func(x, y) z" at the commas outside brackets.
func splitTopLevel(s string) []string {
	var out []string
	depth, start := 0, 0
	for i, ch := range s {
		switch ch {
		case '(', '[', '{':
			depth++
		case ')', ']', '}':
			depth--
		case ',':
			if depth == 0 {
				out = append(out, strings.TrimSpace(s[start:i]))
				start = i + 1
			}
		}
	}
	if t := strings.TrimSpace(s[start:]); t != "" {
		out = append(out, t)
	}
	return out
}

// parseSigKey: "(P1, P2) (R1)" -> params, results (as written by sigKey).
func parseSigKey(k string) (params, results []string, ok bool) {
	depth := 0
	for i, ch := range k {
		switch ch {
		case '(':
			depth++
		case ')':
			depth--
			if depth == 0 {
				rest := strings.TrimSpace(k[i+1:])
				if !strings.HasPrefix(k, "(") || !strings.HasPrefix(rest, "(") || !strings.HasSuffix(rest, ")") {
					return nil, nil, false
				}
				return splitTopLevel(k[1:i]), splitTopLevel(rest[1 : len(rest)-1]), true
			}
		}
	}
	return nil, nil, false
}

func methodsToFunctions(w *World, repo string, overlay map[string][]byte, extraEnv []string) (*World, map[string][]byte) {
	in := &inliner{w: w, overlay: map[string][]byte{}}
	for k, v := range overlay {
		in.overlay[k] = v
	}
	edits := map[string][]textEdit{}
	var notes []string
	for _, p := range w.Pkgs {
		short := shortName(p.PkgPath)
		// missing reference package functions of this package
		var missing []string
		for name := range baselineFuncs {
			if !strings.HasPrefix(name, short+".") || strings.Contains(name, "(") {
				continue
			}
			base := strings.TrimPrefix(name, short+".")
			if strings.Contains(base, ".") || ast.IsExported(base) {
				continue
			}
			if p.Types.Scope().Lookup(base) == nil {
				missing = append(missing, name)
			}
		}
		if len(missing) == 0 {
			continue
		}
		sort.Strings(missing)
		// new unexported methods of the package
		type meth struct {
			obj  *types.Func
			fd   *ast.FuncDecl
			file *ast.File
		}
		var methods []meth
		for _, file := range p.Syntax {
			for _, d := range file.Decls {
				fd, ok := d.(*ast.FuncDecl)
				if !ok || fd.Recv == nil || fd.Body == nil || fd.Type.TypeParams != nil {
					continue
				}
				obj, _ := p.TypesInfo.Defs[fd.Name].(*types.Func)
				if obj == nil || obj.Exported() {
					continue
				}
				if _, known := baselineFuncs[funcShortName(obj)]; known {
					continue
				}
				methods = append(methods, meth{obj, fd, file})
			}
		}
		taken := map[*types.Func]bool{}
		for _, name := range missing {
			wantP, wantR, ok := parseSigKey(baselineFuncs[name])
			if !ok {
				continue
			}
			distinct := map[string]bool{}
			dup := false
			for _, t := range wantP {
				if distinct[t] {
					dup = true
				}
				distinct[t] = true
			}
			if dup || len(wantP) == 0 {
				continue
			}
			base := strings.TrimPrefix(name, short+".")
			var match []meth
			for _, m := range methods {
				if taken[m.obj] {
					continue
				}
				sig := m.obj.Type().(*types.Signature)
				var have []string
				have = append(have, tstr(sig.Recv().Type()))
				for i := 0; i < sig.Params().Len(); i++ {
					t := tstr(sig.Params().At(i).Type())
					if sig.Variadic() && i == sig.Params().Len()-1 {
						t = "..." + strings.TrimPrefix(t, "[]")
					}
					have = append(have, t)
				}
				var res []string
				for i := 0; i < sig.Results().Len(); i++ {
					res = append(res, tstr(sig.Results().At(i).Type()))
				}
				if len(have) != len(wantP) || strings.Join(res, "|") != strings.Join(wantR, "|") {
					continue
				}
				a := append([]string(nil), have...)
				b := append([]string(nil), wantP...)
				sort.Strings(a)
				sort.Strings(b)
				if strings.Join(a, "|") != strings.Join(b, "|") {
					continue
				}
				// a variadic parameter must stay last
				if sig.Variadic() && !strings.HasPrefix(wantP[len(wantP)-1], "...") {
					continue
				}
				match = append(match, m)
			}
			var pick *meth
			for i := range match {
				if match[i].obj.Name() == base {
					pick = &match[i]
				}
			}
			if pick == nil && len(match) == 1 {
				pick = &match[0]
			}
			if pick == nil {
				continue
			}
			es, why := reshapeMethod(in, p, pick.obj, pick.fd, base, wantP)
			if why != "" {
				notes = append(notes, fmt.Sprintf("reference function %s is missing; method %s has its shape but is analysed as written: %s", name, funcShortName(pick.obj), why))
				continue
			}
			taken[pick.obj] = true
			for f, e := range es {
				edits[f] = append(edits[f], e...)
			}
			notes = append(notes, fmt.Sprintf("method %s is read as the reference package function %s (receiver written as a parameter)", funcShortName(pick.obj), name))
		}
	}
	if len(edits) == 0 {
		if len(notes) > 0 {
			w.Notes = append(w.Notes, notes...)
		}
		return w, overlay
	}
	nov, err := in.applyEdits(edits)
	if err != nil {
		w.Notes = append(w.Notes, "methods not read as reference functions: "+err.Error())
		return w, overlay
	}
	next, err := loadWorldRaw(repo, nov, extraEnv)
	if err != nil {
		msg := err.Error()
		if len(msg) > 400 {
			msg = msg[:400]
		}
		w.Notes = append(w.Notes, "methods not read as reference functions (the rewritten program does not load): "+msg)
		return w, overlay
	}
	next.Notes = append(w.Notes, notes...)
	return next, nov
}

func reshapeMethod(in *inliner, p *packages.Package, m *types.Func, fd *ast.FuncDecl, name string, order []string) (map[string][]textEdit, string) {
	info := p.TypesInfo
	sig := m.Type().(*types.Signature)
	edits := map[string][]textEdit{}
	// declaration: parameter texts by type
	type par struct{ name, typ string }
	byType := map[string]par{}
	if len(fd.Recv.List) != 1 || len(fd.Recv.List[0].Names) > 1 {
		return nil, "unusual receiver"
	}
	rname := "_"
	if len(fd.Recv.List[0].Names) == 1 {
		rname = fd.Recv.List[0].Names[0].Name
	}
	byType[tstr(sig.Recv().Type())] = par{rname, in.nodeText(fd.Recv.List[0].Type)}
	i := 0
	for _, fld := range fd.Type.Params.List {
		names := fld.Names
		if len(names) == 0 {
			names = []*ast.Ident{ast.NewIdent("_")}
		}
		for _, nm := range names {
			t := tstr(sig.Params().At(i).Type())
			if sig.Variadic() && i == sig.Params().Len()-1 {
				t = "..." + strings.TrimPrefix(t, "[]")
			}
			byType[t] = par{nm.Name, in.nodeText(fld.Type)}
			i++
		}
	}
	var ps []string
	for _, t := range order {
		pr, ok := byType[t]
		if !ok {
			return nil, "parameter of type " + t + " not found"
		}
		ps = append(ps, pr.name+" "+pr.typ)
	}
	df, a := in.rawOff(fd.Recv.Pos())
	_, b := in.rawOff(fd.Type.Params.End())
	edits[df] = append(edits[df], textEdit{a, b, name + "(" + strings.Join(ps, ", ") + ")"})
	// uses
	var simple func(e ast.Expr) bool
	simple = func(e ast.Expr) bool {
		switch x := e.(type) {
		case *ast.Ident, *ast.BasicLit:
			return true
		case *ast.SelectorExpr:
			return simple(x.X)
		case *ast.ParenExpr:
			return simple(x.X)
		case *ast.StarExpr:
			return simple(x.X)
		case *ast.UnaryExpr:
			return simple(x.X)
		case *ast.CallExpr:
			// a pure-looking accessor call with simple arguments: order of evaluation among such is unobservable only
			// if it has no side effects - not known here
			return false
		}
		return false
	}
	why := ""
	for _, file := range p.Syntax {
		fname, _ := in.rawOff(file.Pos())
		parent := map[ast.Node]ast.Node{}
		var stack []ast.Node
		ast.Inspect(file, func(n ast.Node) bool {
			if n == nil {
				stack = stack[:len(stack)-1]
				return true
			}
			if len(stack) > 0 {
				parent[n] = stack[len(stack)-1]
			}
			stack = append(stack, n)
			return true
		})
		ast.Inspect(file, func(n ast.Node) bool {
			sel, ok := n.(*ast.SelectorExpr)
			if !ok || why != "" || info.Uses[sel.Sel] != types.Object(m) {
				return true
			}
			call, ok := parent[sel].(*ast.CallExpr)
			if !ok || call.Fun != ast.Expr(sel) {
				why = "used as a method value at " + in.w.Pos(sel.Pos())
				return false
			}
			si := info.Selections[sel]
			if si == nil || len(si.Index()) != 1 {
				why = "promoted method call at " + in.w.Pos(sel.Pos())
				return false
			}
			if call.Ellipsis.IsValid() != false && !sig.Variadic() {
				why = "unexpected ellipsis"
				return false
			}
			// arguments by type
			args := map[string]string{}
			nonSimple := 0
			xt := info.TypeOf(sel.X)
			_, recvPtr := sig.Recv().Type().(*types.Pointer)
			_, xPtr := xt.Underlying().(*types.Pointer)
			xs := in.nodeText(sel.X)
			switch {
			case recvPtr && !xPtr:
				xs = "&" + xs
			case !recvPtr && xPtr:
				xs = "*" + xs
			}
			if !simple(sel.X) {
				nonSimple++
			}
			args[tstr(sig.Recv().Type())] = xs
			np := sig.Params().Len()
			for k := 0; k < np; k++ {
				t := tstr(sig.Params().At(k).Type())
				if sig.Variadic() && k == np-1 {
					t = "..." + strings.TrimPrefix(t, "[]")
					var rest []string
					for _, a := range call.Args[k:] {
						if !simple(a) {
							nonSimple++
						}
						rest = append(rest, in.nodeText(a))
					}
					txt := strings.Join(rest, ", ")
					if call.Ellipsis.IsValid() {
						txt += "..."
					}
					args[t] = txt
					continue
				}
				if k >= len(call.Args) {
					why = "argument count at " + in.w.Pos(call.Pos())
					return false
				}
				if !simple(call.Args[k]) {
					nonSimple++
				}
				args[t] = in.nodeText(call.Args[k])
			}
			if nonSimple > 1 || (nonSimple == 1 && !simple(sel.X)) {
				// the receiver used to be evaluated first: with at most one non-simple expression, and that one not
				// displaced behind a call, the order is unobservable
				if !(nonSimple == 1 && order[0] == tstr(sig.Recv().Type())) {
					why = "evaluation order of the call at " + in.w.Pos(call.Pos()) + " would change"
					return false
				}
			}
			var as []string
			for _, t := range order {
				if a, ok := args[t]; ok && !(strings.HasPrefix(t, "...") && a == "") {
					as = append(as, a)
				}
			}
			_, a := in.rawOff(call.Pos())
			_, b := in.rawOff(call.End())
			text := name + "(" + strings.Join(as, ", ") + ")"
			if strings.Contains(in.nodeText(call), "\n") {
				text += in.dir(call.End())
			}
			edits[fname] = append(edits[fname], textEdit{a, b, text})
			return true
		})
	}
	if why != "" {
		return nil, why
	}
	if rname == "_" {
		// an unnamed receiver cannot be referred to: nothing else to check
		_ = rname
	}
	return edits, ""
}

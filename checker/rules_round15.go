package main

// Rules added in round 15 (second sweep of the supporting code): the configuration setters store on the receiver's own
// object on every path, ValidValues membership is a linear scan over a list that only grows, declarations register
// their task first, the sorted list is returned as visit built it, Help describes the node Parse reached, and the
// cross-filings of existing rules that the round showed to be missing.

import (
	"go/token"
	"go/types"
	"strings"

	"golang.org/x/tools/go/ssa"
)

type plainSetter struct {
	fn              string
	pkg, typ, field string
	props           map[string]string
}

var plainSetters = []plainSetter{
	{"(*getoptions.GetOpt).SetMode", "getoptions", "programTree", "mode",
		map[string]string{"C07": "whatever mode SetMode is given (Normal included, after another mode too) is the mode in force"}},
	{"(*getoptions.GetOpt).SetUnknownMode", "getoptions", "programTree", "unknownMode",
		map[string]string{"C08": "whatever mode SetUnknownMode is given (Fail included, after another mode or on a command that inherited one) is the mode in force"}},
	{"(*getoptions.GetOpt).SetRequireOrder", "getoptions", "programTree", "requireOrder",
		map[string]string{"C09": "require-order is in force on the node it was asked for, commands included", "C10": "require-order stops the scan only on the node it was asked for: the commands below it still select their own subcommands"}},
	{"(*getoptions.GetOpt).SetMapKeysToLower", "getoptions", "programTree", "mapKeysToLower",
		map[string]string{"C02": "map keys are lower-cased exactly when the program asked for it"}},
	{"(*getoptions.GetOpt).UnsetOptions", "getoptions", "programTree", "skipOptionsCopy",
		map[string]string{"C03": "a wrapper command keeps no inherited option: what it does not know is passed through"}},
	{"(*getoptions.GetOpt).ArgCompletions", "getoptions", "programTree", "Suggestions",
		map[string]string{"C17": "the static argument suggestions are kept as a list, which completion filters by the word being typed"}},
	{"(*getoptions.GetOpt).SetCommandFn", "getoptions", "programTree", "CommandFn",
		map[string]string{"C10": "the function Dispatch runs for a command is the one given to SetCommandFn on it"}},
	{"(*option.Option).SetCalled", "option", "Option", "Called",
		map[string]string{"C06": "every use of an option marks it called"}},
	{"(*option.Option).SetCalled", "option", "Option", "UsedAlias",
		map[string]string{"C06": "CalledAs reports the spelling last used: every SetCalled records the one it is given"}},
	{"(*option.Option).SetRequired", "option", "Option", "IsRequired",
		map[string]string{"C11": "every option declared Required is required"}},
	{"(*option.Option).SetRequired", "option", "Option", "IsRequiredErr",
		map[string]string{"C11": "the custom message of a required option is the declared one"}},
	{"(*option.Option).SetEnvVar", "option", "Option", "EnvVar",
		map[string]string{"C12": "the variable recorded is the one bound", "C18": "help shows the variable that is bound"}},
	{"(*option.Option).SetDescription", "option", "Option", "Description",
		map[string]string{"C18": "help shows the declared description"}},
	{"(*option.Option).SetDefaultStr", "option", "Option", "DefaultStr",
		map[string]string{"C18": "help shows the default it was told to show"}},
	{"(*dag.Graph).SetSerial", "dag", "Graph", "serial",
		map[string]string{"C15": "a graph asked to run serially runs serially"}},
	{"(*dag.Graph).SetOutputBuffer", "dag", "Graph", "bufferOutput",
		map[string]string{"C15": "a graph given an output buffer buffers, whatever else was configured before"}},
	{"(*dag.Graph).SetOutputBuffer", "dag", "Graph", "bufferWriter",
		map[string]string{"C15": "buffered output goes to the writer given"}},
}

func init() {
	ids := map[string]string{"C02": "R02.26", "C03": "R03.27", "C06": "R06.23", "C07": "R07.20", "C08": "R08.18", "C09": "R09.17", "C10": "R10.25",
		"C11": "R11.26", "C12": "R12.16", "C15": "R15.16", "C17": "R17.21", "C18": "R18.23"}
	for prop, id := range ids {
		addRules(prop, rPlainSetters(prop, id))
	}
	help := map[string][2]string{
		"C03": {"R03.28", "`help` after a command name is consumed as a command at every level, wrappers included: HelpCommand attaches the help command under no other condition than the node not being a help node (same obligations as C11 R11.17)"},
		"C09": {"R09.18", "`help` is a declared command name at every level, so require-order does not stop on it: HelpCommand attaches the help command under no other condition than the node not being a help node (same obligations as C11 R11.17)"},
		"C17": {"R17.22", "`help` is offered and accepted at every level: HelpCommand attaches the help command under no other condition than the node not being a help node (same obligations as C11 R11.17)"},
	}
	for prop, x := range help {
		x := x
		addRules(prop, func(w *World, r *Report) { subRule(w, r, rHelpEverywhere("R11.17"), x[0], x[1], 1) })
	}
	addRules("C13", func(w *World, r *Report) {
		subRule(w, r, rC15TaskLock, "R13.16", "entries into one task function are strictly one after another, across graphs too: Lock / Unlock take the Task's own mutex exclusively around Task.Fn (same obligations as C15 R15.2)", 3)
	})
	addRules("C14", func(w *World, r *Report) {
		subRule(w, r, rC16DFS, "R14.20", "a graph that can never finish is rejected before anything starts: visit descends into every child, a self-edge included, and the cycle error is propagated (same obligations as C16 R16.7)", 7)
	})
	addRules("C02", func(w *World, r *Report) {
		subRule(w, r, rC01ErrDiscipline, "R02.27", "a range is refused only when its text does not convert or runs backwards: the conversion-error returns of Save are entered from the failed conversion alone (same obligations as C01 R01.5)", 10)
	}, rSetterUntouched("R02.28"))
	for prop, x := range map[string][2]string{
		"C01": {"R01.29", "a value the program declared valid is read"},
		"C12": {"R12.17", "a valid value found in the environment is read like one on the command line"},
		"C17": {"R17.23", "what completion offers after `--name=` the parser accepts"},
	} {
		addRules(prop, rMembershipScan(x[0], x[1]))
	}
	addRules("C01", rValidValuesGrow("R01.30"))
	addRules("C07", func(w *World, r *Report) {
		subRule(w, r, rC01ParserArgs, "R07.21", "`-abc=v` is `-a -b -c=v`: every option of a bundle is saved with its own attached value - what the parser hands to Save is the attached value of the pair at hand or the current token, unmodified (same obligations as C01 R01.3)", 3)
	})
	addRules("C14", rDeclarationTouchesTask("R14.18", "a task given to the graph is a task of the graph: its failure is reported"), rTaskFnCheckedFirst("R14.19"))
	addRules("C16", rDeclarationTouchesTask("R16.27", "a task given to the graph - through TaskDependsOn with no dependencies too - is registered, so it gets started and sorted"), rSortedAsBuilt("R16.28"))
	addRules("C18", rHelpDescribesReached("R18.24"))
	addRules("C19", rRequiredArgBounds("R19.12"))
	addRules("C10", rRequiredAtReachedLevel("R10.26", "a command that inherited nothing is not refused for what an ancestor requires"))
	addRules("C11", rRequiredAtReachedLevel("R11.27", "the missing-required error speaks for the level reached"))
	addRules("C08", rHandDownCallers("R08.19", "an option declared on the parent after a command exists is unknown inside that command until a later NewCommand / HelpCommand hands it down"))
	addRules("C03", rHandDownCallers("R03.29", "what a wrapper passes through is decided by the tables built when commands are created"))
}

// rPlainSetters: the rows of the setter table filed under prop.
func rPlainSetters(prop, id string) func(w *World, r *Report) {
	return func(w *World, r *Report) {
		var rows []plainSetter
		for _, s := range plainSetters {
			if _, ok := s.props[prop]; ok {
				rows = append(rows, s)
			}
		}
		ru := r.Rule(id, "configuration setters are unconditional and local: each listed setter stores its field on every path from entry to return, and only on the object it was called on (the receiver, or the receiver's own node) - a setter that refuses some values, keeps an earlier state, or writes the setting on another node of the tree leaves the caller with a configuration it did not ask for", len(rows))
		for _, s := range rows {
			key := "setter/" + s.fn + "/" + s.field
			fn := w.Fn(s.fn)
			f := w.Field(s.pkg, s.typ, s.field)
			if fn == nil || len(fn.Params) == 0 {
				ru.Undecided(key, "-", s.fn+" not found")
				continue
			}
			if f == nil {
				if !token.IsExported(s.field) {
					ru.OK(key, "-", "no field of this name in the tree (representation changed): row not applicable")
				} else {
					ru.Undecided(key, "-", "field not found")
				}
				continue
			}
			recv := fn.Params[0]
			var own func(v ssa.Value, d int) bool
			own = func(v ssa.Value, d int) bool {
				if v == ssa.Value(recv) {
					return true
				}
				if d > 2 {
					return false
				}
				switch x := v.(type) {
				case *ssa.UnOp:
					if fa, ok := x.X.(*ssa.FieldAddr); ok && x.Op == token.MUL {
						return own(fa.X, d+1)
					}
				case *ssa.FieldAddr:
					return own(x.X, d+1)
				}
				return false
			}
			stores := map[ssa.Instruction]bool{}
			var foreign ssa.Instruction
			eachInstr(fn, func(in ssa.Instruction) {
				st, ok := in.(*ssa.Store)
				if !ok {
					return
				}
				fa, ok := st.Addr.(*ssa.FieldAddr)
				if !ok || fieldOfAddr(fa) != f {
					return
				}
				if own(fa.X, 0) {
					stores[in] = true
				} else if foreign == nil {
					foreign = in
				}
			})
			why := s.props[prop]
			if foreign != nil {
				ru.Bad(key, w.IPos(foreign), s.fn+" writes "+s.field+" of an object other than the one it was called on: "+why+" - no longer guaranteed")
				continue
			}
			ig := buildIG(fn)
			ok, wit := ig.mustPass([]int{0}, func(in ssa.Instruction) bool { return stores[in] }, func(in ssa.Instruction) bool { _, r := in.(*ssa.Return); return r })
			if ok {
				ru.OK(key, w.Pos(fn.Pos()), "stored on the receiver's own object on every path")
			} else {
				ru.Bad(key, w.IPos(wit), s.fn+" can return without storing "+s.field+": "+why+" - no longer guaranteed")
			}
		}
	}
}

// rSetterUntouched (R02.28): the value setters hand their parameter to nothing but the store.
func rSetterUntouched(id string) func(w *World, r *Report) {
	return func(w *World, r *Report) {
		ru := r.Rule(id, "what is stored is what was collected, in that order: a value setter of option.Option that stores its parameter in the user's variable hands that parameter to nothing else (no call may reorder, trim or otherwise rewrite the list before it is stored)", 6)
		for fn, s := range setterSummaries(w) {
			if s.kind != "param" {
				continue
			}
			key := "setter/" + short(fn)
			bad := ""
			pos := w.Pos(fn.Pos())
			for i, p := range fn.Params {
				if i == 0 || p.Referrers() == nil {
					continue
				}
				for _, ref := range *p.Referrers() {
					switch x := ref.(type) {
					case *ssa.DebugRef:
					case *ssa.Store:
						if x.Val != ssa.Value(p) {
							bad = "stores into its parameter"
							pos = w.IPos(x)
						}
					case ssa.CallInstruction:
						if loggedOnlyCall(x) {
							continue
						}
						bad = "hands its parameter to " + calleeName(x)
						pos = w.IPos(x)
					case *ssa.IndexAddr:
						if x.Referrers() != nil {
							for _, r2 := range *x.Referrers() {
								if st, ok := r2.(*ssa.Store); ok && st.Addr == ssa.Value(x) {
									bad = "writes an element of its parameter"
									pos = w.IPos(st)
								}
							}
						}
					}
				}
			}
			if bad == "" {
				ru.OK(key, pos, "parameter only stored")
			} else {
				ru.Bad(key, pos, short(fn)+" "+bad+" before storing it: the list the program reads is no longer the list of values in command-line order")
			}
		}
	}
}

// loggedOnlyCall: a call on the debug Logger.
func loggedOnlyCall(c ssa.CallInstruction) bool {
	n := calleeName(c)
	return strings.HasPrefix(n, "(*log.Logger).")
}

// rMembershipScan: the ValidValues test of Save is a complete linear scan.
func rMembershipScan(id, why string) func(w *World, r *Report) {
	return func(w *World, r *Report) {
		ru := r.Rule(id, why+": the ValidValues test of Save compares the value with every element of the list, in declaration order - the function that answers `is it in the list` is a loop from the first element to the last stepping by one, answers yes only under element == value, answers no only when the loop ran off the end, and calls nothing (a list in declaration order cannot be searched as if it were sorted)", 1)
		save := w.Fn(nSave)
		f := w.Field("option", "Option", "ValidValues")
		if save == nil || f == nil {
			ru.Undecided("anchor", "-", "Save or Option.ValidValues not found")
			return
		}
		var scans []*ssa.Function
		argIdx := map[*ssa.Function]int{}
		inline, std := false, false
		for _, u := range w.fieldUses(f) {
			if u.Kind != "read" || u.Fn != save {
				continue
			}
			ld, ok := u.Instr.(*ssa.UnOp)
			if !ok || ld.Referrers() == nil {
				continue
			}
			for _, ref := range *ld.Referrers() {
				switch x := ref.(type) {
				case ssa.CallInstruction:
					if cb := calleeBase(x); cb == "slices.Contains" || cb == "slices.Index" {
						std = true
						continue
					}
					cal := staticCallee(x)
					if cal == nil || w.PkgOfFn(cal) == nil || cal.Blocks == nil {
						continue
					}
					for i, a := range x.Common().Args {
						if a == ssa.Value(ld) {
							if _, seen := argIdx[cal]; !seen {
								scans = append(scans, cal)
							}
							argIdx[cal] = i
						}
					}
				case *ssa.IndexAddr:
					inline = true
				}
			}
		}
		if len(scans) == 0 && std {
			ru.OK("scan/slices", w.Pos(save.Pos()), "slices.Contains / slices.Index: a complete linear scan by ==")
			return
		}
		if len(scans) == 0 {
			if inline {
				ru.Check(scanShape(w, save, nil) == "", "scan/inline", w.Pos(save.Pos()), "Save scans the list itself", "the inline scan of ValidValues in Save is not a complete linear scan: "+scanShape(w, save, nil))
			} else {
				ru.Undecided("scan", w.Pos(save.Pos()), "Save does not hand ValidValues to a function of the library, nor index it")
			}
			return
		}
		for _, fn := range scans {
			key := "scan/" + short(fn)
			var ss *ssa.Parameter
			if i := argIdx[fn]; i < len(fn.Params) {
				ss = fn.Params[i]
			}
			if why := scanShape(w, fn, ss); why != "" {
				ru.Bad(key, w.Pos(fn.Pos()), short(fn)+" is not a complete linear scan: "+why+" - a declared value can be refused")
			} else {
				ru.OK(key, w.Pos(fn.Pos()), "complete linear scan by ==")
			}
		}
	}
}

// scanShape: "" when fn holds a from-the-start, step-one loop over ss (or, with ss nil, over any string slice) whose
// found-answers sit under element == value and whose not-found answers leave by the loop's exit edge.
func scanShape(w *World, fn *ssa.Function, ss *ssa.Parameter) string {
	if ss != nil {
		for _, c := range allCalls(fn) {
			n := calleeName(c)
			if n == "builtin:len" || loggedOnlyCall(c) {
				continue
			}
			return "it calls " + n
		}
	}
	// the loop header: a phi i = [const, i+1] tested against len
	var header *ssa.BasicBlock
	var ind *ssa.Phi
	var exitK int
	for _, b := range fn.Blocks {
		iff, ok := b.Instrs[len(b.Instrs)-1].(*ssa.If)
		if !ok {
			continue
		}
		cond, ok := iff.Cond.(*ssa.BinOp)
		if !ok || cond.Op != token.LSS {
			continue
		}
		coll, ok := lenOf(cond.Y)
		if !ok {
			continue
		}
		if ss != nil && coll != ssa.Value(ss) {
			continue
		}
		if ss == nil {
			if sl, ok := coll.Type().Underlying().(*types.Slice); !ok || !types.Identical(sl.Elem(), types.Typ[types.String]) {
				continue
			}
			if _, isLoad := coll.(*ssa.UnOp); !isLoad {
				continue
			}
		}
		x := cond.X
		if add, ok := x.(*ssa.BinOp); ok && add.Op == token.ADD {
			x = add.X
		}
		phi, ok := x.(*ssa.Phi)
		if !ok || phi.Block() != b {
			continue
		}
		good := len(phi.Edges) == 2
		seenStart, seenStep := false, false
		for _, e := range phi.Edges {
			if k, ok := constInt(e); ok && (k == 0 || k == -1) {
				seenStart = true
				continue
			}
			if add, ok := e.(*ssa.BinOp); ok && add.Op == token.ADD && add.X == ssa.Value(phi) {
				if k, ok := constInt(add.Y); ok && k == 1 {
					seenStep = true
					continue
				}
			}
			good = false
		}
		if good && seenStart && seenStep {
			header, ind, exitK = b, phi, 1
			break
		}
	}
	if header == nil {
		return "no loop from the first element to len(list) stepping by one"
	}
	_ = ind
	loop := naturalLoop(header)
	// the equality tests of the body
	eqEdge := map[*ssa.BasicBlock]int{} // block ending in if elem == value -> successor index of the equal edge
	for b := range loop {
		iff, ok := b.Instrs[len(b.Instrs)-1].(*ssa.If)
		if !ok {
			continue
		}
		cond, ok := iff.Cond.(*ssa.BinOp)
		if !ok || (cond.Op != token.EQL && cond.Op != token.NEQ) {
			continue
		}
		isElem := func(v ssa.Value) bool {
			ld, ok := v.(*ssa.UnOp)
			if !ok || ld.Op != token.MUL {
				return false
			}
			ia, ok := ld.X.(*ssa.IndexAddr)
			if !ok {
				return false
			}
			if ss != nil {
				return ia.X == ssa.Value(ss)
			}
			return true
		}
		if isElem(cond.X) || isElem(cond.Y) {
			if cond.Op == token.EQL {
				eqEdge[b] = 0
			} else {
				eqEdge[b] = 1
			}
		}
	}
	if len(eqEdge) == 0 {
		return "no element == value test in the loop"
	}
	if ss == nil {
		return ""
	}
	// classify the returns by their boolean (or index) result
	g := buildIG(fn)
	noExit := g.reachPlainE([]int{0}, func(term ssa.Instruction, k int) bool {
		return !(term.Block() == header && k == exitK)
	})
	noEq := g.reachPlainE([]int{0}, func(term ssa.Instruction, k int) bool {
		if e, ok := eqEdge[term.Block()]; ok && k == e {
			return false
		}
		return true
	})
	for _, b := range fn.Blocks {
		ret, ok := b.Instrs[len(b.Instrs)-1].(*ssa.Return)
		if !ok {
			continue
		}
		found, known := false, false
		for _, res := range ret.Results {
			if c, ok := res.(*ssa.Const); ok && isBoolType(c.Type()) && c.Value != nil {
				found, known = c.Value.String() == "true", true
			}
		}
		if !known {
			for _, res := range ret.Results {
				if bt, ok := res.Type().Underlying().(*types.Basic); ok && bt.Info()&types.IsInteger != 0 {
					if k, ok := constInt(res); ok {
						found, known = k >= 0, true
					} else {
						found, known = true, true
					}
				}
			}
		}
		if !known {
			return "a return whose answer is not a constant"
		}
		if found && noEq[g.idx[ret]] {
			return "it can answer `found` without an element having compared equal"
		}
		if !found && noExit[g.idx[ret]] {
			return "it can answer `not found` before the loop ran off the end of the list"
		}
	}
	return ""
}

// reachPlainE: plain (value-insensitive) reachability with an edge filter.
func (g *IG) reachPlainE(starts []int, edgeOK func(term ssa.Instruction, k int) bool) []bool {
	seen := make([]bool, len(g.instrs))
	var stack []int
	for _, s := range starts {
		if !seen[s] {
			seen[s] = true
			stack = append(stack, s)
		}
	}
	for len(stack) > 0 {
		n := stack[len(stack)-1]
		stack = stack[:len(stack)-1]
		in := g.instrs[n]
		b := in.Block()
		isTerm := b.Instrs[len(b.Instrs)-1] == in
		for k, m := range g.succ[n] {
			if isTerm && !edgeOK(in, k) {
				continue
			}
			if !seen[m] {
				seen[m] = true
				stack = append(stack, m)
			}
		}
	}
	return seen
}

// rValidValuesGrow (R01.30): the valid list only grows, and is the option's own.
func rValidValuesGrow(id string) func(w *World, r *Report) {
	return func(w *World, r *Report) {
		ru := r.Rule(id, "the values a program declared valid stay valid: every store into Option.ValidValues (outside the initialisation of a fresh record) stores append(<the same record's ValidValues>, ...) - a second declaration adds to the first, and the list is the option's own copy, not the caller's slice", 1)
		f := w.Field("option", "Option", "ValidValues")
		if f == nil {
			ru.Undecided("anchor", "-", "Option.ValidValues not found")
			return
		}
		n := 0
		for _, u := range w.fieldUses(f) {
			if u.Kind != "write" {
				continue
			}
			if _, fresh := rootOfAddr(u.Addr.X).(*ssa.Alloc); fresh {
				continue
			}
			n++
			st := u.Instr.(*ssa.Store)
			key := "grow/" + short(u.Fn)
			good := false
			if c, ok := st.Val.(*ssa.Call); ok && calleeName(c) == "builtin:append" && len(c.Call.Args) == 2 {
				if ld, ok := c.Call.Args[0].(*ssa.UnOp); ok && ld.Op == token.MUL {
					if fa, ok := ld.X.(*ssa.FieldAddr); ok && fieldOfAddr(fa) == f && (fa.X == u.Addr.X || sameVal(fa.X, u.Addr.X)) {
						good = true
					}
				}
			}
			ru.Check(good, key, w.IPos(st), "append to the record's own list", short(u.Fn)+" stores something other than append(opt.ValidValues, ...) into ValidValues: an earlier declaration is forgotten, or the list aliases a slice the program still owns")
		}
		if n == 0 {
			ru.Bad("grow", "-", "no writer of Option.ValidValues found")
		}
	}
}

// rDeclarationTouchesTask: AddTask, TaskDependsOn and TaskRetries look at their task before they can return.
func rDeclarationTouchesTask(id, why string) func(w *World, r *Report) {
	return func(w *World, r *Report) {
		ru := r.Rule(id, why+": in AddTask, TaskDependsOn and TaskRetries no return is reachable before the task parameter has been used (handed to the registering call, looked up, or tested) - the number of dependencies, or anything else, never decides that the call is a no-op", 3)
		for _, name := range []string{"(*dag.Graph).AddTask", "(*dag.Graph).TaskDependsOn", "(*dag.Graph).TaskRetries"} {
			fn := w.Fn(name)
			key := "declares/" + name
			if fn == nil || len(fn.Params) < 2 {
				ru.Undecided(key, "-", name+" not found")
				continue
			}
			t := fn.Params[1]
			uses := func(in ssa.Instruction) bool {
				if _, ok := in.(*ssa.DebugRef); ok {
					return false
				}
				var ops []*ssa.Value
				for _, op := range in.Operands(ops) {
					if op != nil && *op == ssa.Value(t) {
						return true
					}
				}
				return false
			}
			ig := buildIG(fn)
			ok, wit := ig.mustPass([]int{0}, uses, func(in ssa.Instruction) bool { _, r := in.(*ssa.Return); return r })
			if ok {
				ru.OK(key, w.Pos(fn.Pos()), "the task is used on every path")
			} else {
				ru.Bad(key, w.IPos(wit), name+" can return without having looked at its task: the task is silently not part of the graph")
			}
		}
	}
}

// rTaskFnCheckedFirst (R14.19): addTask accepts nothing whose function is nil.
func rTaskFnCheckedFirst(id string) func(w *World, r *Report) {
	return func(w *World, r *Report) {
		ru := r.Rule(id, "a task without a function never becomes runnable: in addTask every successful return (nil error) lies behind the test of t.Fn against nil - re-declaring an existing ID is no way around it, or Run would call a nil function in its goroutine and never return", 1)
		fn := w.Fn("(*dag.Graph).addTask")
		if fn == nil || len(fn.Params) < 2 {
			ru.Undecided("anchor", "-", "addTask not found")
			return
		}
		t := fn.Params[1]
		isFnTest := func(in ssa.Instruction) bool {
			iff, ok := in.(*ssa.If)
			if !ok {
				return false
			}
			cond, ok := iff.Cond.(*ssa.BinOp)
			if !ok || (cond.Op != token.EQL && cond.Op != token.NEQ) {
				return false
			}
			isFn := func(v ssa.Value) bool {
				ld, ok := v.(*ssa.UnOp)
				if !ok || ld.Op != token.MUL {
					return false
				}
				fa, ok := ld.X.(*ssa.FieldAddr)
				return ok && fa.X == ssa.Value(t) && fieldOfAddr(fa).Name() == "Fn"
			}
			return (isFn(cond.X) && isNilConst(cond.Y)) || (isFn(cond.Y) && isNilConst(cond.X))
		}
		ig := buildIG(fn)
		ok, wit := ig.mustPass([]int{0}, isFnTest, func(in ssa.Instruction) bool {
			ret, ok := in.(*ssa.Return)
			return ok && len(ret.Results) > 0 && isNilConst(ret.Results[len(ret.Results)-1])
		})
		if ok {
			ru.OK("fn-test", w.Pos(fn.Pos()), "every nil-error return lies behind the t.Fn test")
		} else {
			ru.Bad("fn-test", w.IPos(wit), "addTask can succeed without having tested t.Fn against nil: a task without a function can be put into the graph")
		}
	}
}

// rSortedAsBuilt (R16.28): DepthFirstSort returns the list in the order visit appended it.
func rSortedAsBuilt(id string) func(w *World, r *Report) {
	return func(w *World, r *Report) {
		ru := r.Rule(id, "dependencies come before dependents because visit appends a vertex after its children: DepthFirstSort returns the list in the order it was appended - it overwrites no element of it and hands it to nothing outside the package (no reversal, no re-sorting)", 1)
		fn := w.Fn("(*dag.Graph).DepthFirstSort")
		if fn == nil {
			ru.Undecided("anchor", "-", "DepthFirstSort not found")
			return
		}
		// the locations the returned list is loaded from
		var addrs []ssa.Value
		eachInstr(fn, func(in ssa.Instruction) {
			ret, ok := in.(*ssa.Return)
			if !ok || len(ret.Results) == 0 {
				return
			}
			var leaves func(v ssa.Value, d int)
			leaves = func(v ssa.Value, d int) {
				if d > 4 {
					return
				}
				switch x := v.(type) {
				case *ssa.UnOp:
					if x.Op == token.MUL {
						addrs = append(addrs, x.X)
					}
				case *ssa.Phi:
					for _, e := range x.Edges {
						leaves(e, d+1)
					}
				}
			}
			leaves(ret.Results[0], 0)
		})
		if len(addrs) == 0 {
			ru.OK("order", w.Pos(fn.Pos()), "the result is not a list held in a variable of DepthFirstSort")
			return
		}
		sameLoc := func(a ssa.Value) bool {
			for _, b := range addrs {
				if a == b {
					return true
				}
				fa, ok1 := a.(*ssa.FieldAddr)
				fb, ok2 := b.(*ssa.FieldAddr)
				if ok1 && ok2 && fieldOfAddr(fa) == fieldOfAddr(fb) {
					return true
				}
			}
			return false
		}
		bad := ""
		pos := w.Pos(fn.Pos())
		eachInstr(fn, func(in ssa.Instruction) {
			ld, ok := in.(*ssa.UnOp)
			if !ok || ld.Op != token.MUL || !sameLoc(ld.X) || ld.Referrers() == nil {
				return
			}
			for _, ref := range *ld.Referrers() {
				switch x := ref.(type) {
				case *ssa.IndexAddr:
					if x.X != ssa.Value(ld) || x.Referrers() == nil {
						continue
					}
					for _, r2 := range *x.Referrers() {
						if st, ok := r2.(*ssa.Store); ok && st.Addr == ssa.Value(x) {
							bad, pos = "overwrites an element of the sorted list", w.IPos(st)
						}
					}
				case ssa.CallInstruction:
					n := calleeName(x)
					if n == "builtin:len" || n == "builtin:cap" || n == "builtin:append" || loggedOnlyCall(x) {
						continue
					}
					if cal := staticCallee(x); cal != nil && w.PkgOfFn(cal) != nil {
						continue
					}
					bad, pos = "hands the sorted list to "+n, w.IPos(x)
				}
			}
		})
		if bad == "" {
			ru.OK("order", pos, "returned as appended")
		} else {
			ru.Bad("order", pos, "DepthFirstSort "+bad+": the order visit built (children first) is not the order returned")
		}
	}
}

// rHelpDescribesReached (R18.24): Help() renders the node Parse reached when there is one.
func rHelpDescribesReached(id string) func(w *World, r *Report) {
	return func(w *World, r *Report) {
		ru := r.Rule(id, "Help() gives the text the help option gives: after a Parse that reached a command, GetOpt.Help renders that command - the node handed to the renderer is finalNode whenever finalNode is set, the object's own node only when it is nil", 1)
		fn := w.Fn("(*getoptions.GetOpt).Help")
		if fn == nil || len(fn.Params) == 0 {
			ru.Undecided("anchor", "-", "GetOpt.Help not found")
			return
		}
		if w.Field("getoptions", "GetOpt", "finalNode") == nil {
			ru.OK("node", "-", "no finalNode field in the tree (representation changed): not applicable")
			return
		}
		recv := fn.Params[0]
		loadOf := func(v ssa.Value, field string) bool {
			ld, ok := v.(*ssa.UnOp)
			if !ok || ld.Op != token.MUL {
				return false
			}
			fa, ok := ld.X.(*ssa.FieldAddr)
			return ok && fa.X == ssa.Value(recv) && fieldOfAddr(fa).Name() == field
		}
		// the nil edge of every test of finalNode
		nilEdge := map[*ssa.BasicBlock]int{}
		for _, b := range fn.Blocks {
			iff, ok := b.Instrs[len(b.Instrs)-1].(*ssa.If)
			if !ok {
				continue
			}
			cond, ok := iff.Cond.(*ssa.BinOp)
			if !ok || (cond.Op != token.EQL && cond.Op != token.NEQ) {
				continue
			}
			if (loadOf(cond.X, "finalNode") && isNilConst(cond.Y)) || (loadOf(cond.Y, "finalNode") && isNilConst(cond.X)) {
				if cond.Op == token.EQL {
					nilEdge[b] = 0
				} else {
					nilEdge[b] = 1
				}
			}
		}
		g := buildIG(fn)
		reach := g.reachPlainE([]int{0}, func(term ssa.Instruction, k int) bool {
			if e, ok := nilEdge[term.Block()]; ok && e == k {
				return false
			}
			return true
		})
		usesFinal := false
		bad := ""
		pos := w.Pos(fn.Pos())
		for _, c := range allCalls(fn) {
			if cal := staticCallee(c); cal == nil || w.PkgOfFn(cal) == nil {
				continue
			}
			for _, a := range c.Common().Args {
				if !isTreePtr(a.Type()) {
					continue
				}
				var visit func(v ssa.Value, at ssa.Instruction, d int)
				visit = func(v ssa.Value, at ssa.Instruction, d int) {
					if d > 3 {
						return
					}
					switch {
					case loadOf(v, "finalNode"):
						usesFinal = true
					case loadOf(v, "programTree"):
						if reach[g.idx[at]] {
							bad, pos = "renders the object's own node on a path where finalNode is set", w.IPos(at)
						}
					default:
						if phi, ok := v.(*ssa.Phi); ok {
							for i, e := range phi.Edges {
								p := phi.Block().Preds[i]
								term := p.Instrs[len(p.Instrs)-1]
								if k, isTest := nilEdge[p]; isTest && p.Succs[k] == phi.Block() && loadOf(e, "programTree") {
									// taken exactly when finalNode is nil - unless the other edge of the test leads here too
									if p.Succs[1-k] != phi.Block() {
										continue
									}
								}
								visit(e, term, d+1)
							}
						}
					}
				}
				visit(a, c, 0)
			}
		}
		switch {
		case bad != "":
			ru.Bad("node", pos, "GetOpt.Help "+bad+": after `cmd --help` style parsing, Help() describes the root while the help option describes the command")
		case !usesFinal:
			ru.Bad("node", pos, "GetOpt.Help never hands finalNode to the renderer: after Parse reached a command, Help() still describes the object it is called on")
		default:
			ru.OK("node", pos, "finalNode when set, the own node otherwise")
		}
	}
}

// rRequiredArgBounds (R19.12): GetRequiredArg indexes its argument list only under a length fact.
func rRequiredArgBounds(id string) func(w *World, r *Report) {
	return func(w *World, r *Report) {
		ru := r.Rule(id, "a command function that asks for a required argument gets an answer, not a panic: every index and slice expression of GetRequiredArg on the argument list it was given (or on what it derived from it) is discharged by a guard rule of R19.1 - the list tested for length is the list indexed", 2)
		groups := regexGroupCounts(w)
		nonEmpty := regexGroupsNonEmpty(w)
		for _, name := range []string{"(*getoptions.GetOpt).GetRequiredArg", "(*getoptions.GetOpt).GetRequiredArgInt", "(*getoptions.GetOpt).GetRequiredArgFloat64"} {
			fn := w.Fn(name)
			if fn == nil {
				ru.Undecided("anchor/"+name, "-", name+" not found")
				continue
			}
			for _, f := range funcsWithAnon(fn) {
				f := f
				fromParam := func(v ssa.Value) bool {
					seen := map[ssa.Value]bool{}
					var walk func(v ssa.Value) bool
					walk = func(v ssa.Value) bool {
						if seen[v] {
							return false
						}
						seen[v] = true
						switch x := v.(type) {
						case *ssa.Parameter:
							return true
						case *ssa.FreeVar:
							return true
						case *ssa.Slice:
							return walk(x.X)
						case *ssa.Phi:
							for _, e := range x.Edges {
								if walk(e) {
									return true
								}
							}
						case *ssa.Extract:
							return true // a list returned by a sibling (GetRequiredArg's remaining list)
						}
						return false
					}
					return walk(v)
				}
				eachInstr(f, func(in ssa.Instruction) {
					var coll ssa.Value
					switch x := in.(type) {
					case *ssa.IndexAddr:
						coll = x.X
					case *ssa.Index:
						coll = x.X
					case *ssa.Slice:
						coll = x.X
					default:
						return
					}
					if _, isSl := coll.Type().Underlying().(*types.Slice); !isSl || !fromParam(coll) {
						return
					}
					kind, rule, why := classifyPanicSite(w, f, in, groups, nonEmpty)
					if kind == "" {
						return
					}
					key := short(f) + "/" + kind
					if rule != "" {
						ru.OK(key, w.IPos(in), rule+": "+why)
					} else {
						ru.Bad(key, w.IPos(in), "not discharged by any guard rule: "+why+" ["+describeInstr(in)+"]")
					}
				})
			}
		}
	}
}

// rRequiredAtReachedLevel: checkRequired looks at the node it is given, nowhere else.
func rRequiredAtReachedLevel(id, why string) func(w *World, r *Report) {
	return func(w *World, r *Report) {
		ru := r.Rule(id, why+": checkRequired validates the options of the node it is given (which hold the inherited ones already) and no other node - it reads neither Parent nor ChildCommands and does not call itself", 1)
		fn := w.Fn("getoptions.checkRequired")
		if fn == nil {
			ru.OK("level", "-", "no checkRequired in the tree (an unexported helper merged into its callers, which validate the node they hold): nothing to anchor on")
			return
		}
		bad := ""
		pos := w.Pos(fn.Pos())
		for _, f := range funcsWithAnon(fn) {
			eachInstr(f, func(in ssa.Instruction) {
				switch x := in.(type) {
				case *ssa.FieldAddr:
					if n := fieldOfAddr(x).Name(); (n == "Parent" || n == "ChildCommands") && isTreePtr(x.X.Type()) {
						bad, pos = "reads "+n, w.IPos(in)
					}
				case ssa.CallInstruction:
					if staticCallee(x) == fn {
						bad, pos = "calls itself on another node", w.IPos(in)
					}
				}
			})
		}
		ru.Check(bad == "", "level", pos, "only the given node is consulted", "checkRequired "+bad+": a command is refused (or accepted) for what another level requires")
	}
}

// rHandDownCallers: options are handed down to existing commands only when a command or the help command is created.
func rHandDownCallers(id, why string) func(w *World, r *Report) {
	return func(w *World, r *Report) {
		ru := r.Rule(id, why+": the options of a level reach the commands below it only from NewCommand and HelpCommand - copyOptionsFromParent is called by these two and by itself, nothing else pushes a level's table down", 2)
		fn := w.Fn("getoptions.copyOptionsFromParent")
		if fn == nil {
			ru.Undecided("anchor", "-", "copyOptionsFromParent not found")
			return
		}
		for _, caller := range w.Funcs {
			if w.PkgOfFn(caller) == nil {
				continue
			}
			for _, c := range allCalls(caller) {
				if staticCallee(c) != fn {
					continue
				}
				top := caller
				for top.Parent() != nil {
					top = top.Parent()
				}
				n := short(top)
				// the walkers HelpCommand runs over the tree are part of HelpCommand; the closures other API functions hand
				// out (modifiers, command functions) run later, at a time of the program's choosing
				good := n == "(*getoptions.GetOpt).NewCommand" || n == "(*getoptions.GetOpt).HelpCommand" || top == fn
				if good && caller.Parent() != nil && n != "(*getoptions.GetOpt).HelpCommand" {
					good = false
				}
				ru.Check(good, "caller/"+short(caller), w.IPos(c), "expected caller", short(caller)+" hands the options of a level down to the commands that already exist: the tables the parser consults are no longer the ones built when the commands were created")
			}
		}
	}
}

// rHelpNameBeforeHandDown (R11.28): the help node is recognised before options are handed down.
func rHelpNameBeforeHandDown(id string) func(w *World, r *Report) {
	return func(w *World, r *Report) {
		ru := r.Rule(id, "help is served without asking for required options because the help node inherits nothing: the option copy skips the child whose name is the parent's HelpCommandName, so inside HelpCommand every call that hands options down (copyOptionsFromParent) comes after the store of HelpCommandName on the existing nodes - a node created and handed options first is not recognised as the help node and inherits its level's required options", 1)
		fnH := w.Fn("(*getoptions.GetOpt).HelpCommand")
		cp := w.Fn("getoptions.copyOptionsFromParent")
		if fnH == nil || cp == nil {
			ru.Undecided("anchor", "-", "HelpCommand or copyOptionsFromParent not found")
			return
		}
		family := funcsWithAnon(fnH)
		inFamily := func(f *ssa.Function) bool {
			for _, g := range family {
				if g == f {
					return true
				}
			}
			return false
		}
		closuresOf := func(in ssa.Instruction) []*ssa.Function {
			var out []*ssa.Function
			var ops []*ssa.Value
			for _, op := range in.Operands(ops) {
				if op == nil || *op == nil {
					continue
				}
				switch x := (*op).(type) {
				case *ssa.MakeClosure:
					if f, ok := x.Fn.(*ssa.Function); ok && inFamily(f) {
						out = append(out, f)
					}
				case *ssa.Function:
					if inFamily(x) {
						out = append(out, x)
					}
				}
			}
			return out
		}
		var hasS, hasC func(f *ssa.Function, d int) bool
		directS := func(in ssa.Instruction) bool {
			st, ok := in.(*ssa.Store)
			if !ok {
				return false
			}
			fa, ok := st.Addr.(*ssa.FieldAddr)
			if !ok || fieldOfAddr(fa).Name() != "HelpCommandName" || !isTreePtr(fa.X.Type()) {
				return false
			}
			_, fresh := rootOfAddr(fa.X).(*ssa.Alloc)
			return !fresh
		}
		directC := func(in ssa.Instruction) bool {
			c, ok := in.(ssa.CallInstruction)
			return ok && staticCallee(c) == cp
		}
		hasS = func(f *ssa.Function, d int) bool {
			found := false
			eachInstr(f, func(in ssa.Instruction) {
				if directS(in) {
					found = true
				}
				if _, isCall := in.(ssa.CallInstruction); isCall && d < 3 {
					for _, g := range closuresOf(in) {
						if g != f && hasS(g, d+1) {
							found = true
						}
					}
				}
			})
			return found
		}
		hasC = func(f *ssa.Function, d int) bool {
			found := false
			eachInstr(f, func(in ssa.Instruction) {
				if directC(in) {
					found = true
				}
				if _, isCall := in.(ssa.CallInstruction); isCall && d < 3 {
					for _, g := range closuresOf(in) {
						if g != f && hasC(g, d+1) {
							found = true
						}
					}
				}
			})
			return found
		}
		n := 0
		var check func(f *ssa.Function, covered bool)
		check = func(f *ssa.Function, covered bool) {
			var sPts, cPts []ssa.Instruction
			eachInstr(f, func(in ssa.Instruction) {
				isS, isC := directS(in), directC(in)
				if _, isCall := in.(ssa.CallInstruction); isCall {
					for _, g := range closuresOf(in) {
						if hasS(g, 0) {
							isS = true
						}
						if hasC(g, 0) {
							isC = true
						}
					}
				}
				if isS {
					sPts = append(sPts, in)
				}
				if isC {
					cPts = append(cPts, in)
				}
			})
			before := func(c ssa.Instruction) bool {
				for _, s := range sPts {
					if s == c {
						continue
					}
					if s.Block() == c.Block() {
						for _, in := range s.Block().Instrs {
							if in == s {
								return true
							}
							if in == c {
								break
							}
						}
					} else if s.Block().Dominates(c.Block()) {
						return true
					}
				}
				return false
			}
			for _, c := range cPts {
				ok := covered || before(c)
				if directC(c) {
					n++
					ru.Check(ok, "hand-down/"+short(f), w.IPos(c), "after HelpCommandName is known", "options are handed down in "+short(f)+" before HelpCommandName has been stored on the nodes: the help node just created is not skipped by the copy and inherits the required options of its level - `help` then fails with a missing-required error")
				}
				for _, g := range closuresOf(c) {
					if g != f && hasC(g, 0) {
						check(g, ok)
					}
				}
			}
		}
		check(fnH, false)
		if n == 0 {
			ru.Bad("hand-down", w.Pos(fnH.Pos()), "HelpCommand never hands the options down")
		}
	}
}

func init() { addRules("C11", rHelpNameBeforeHandDown("R11.28")) }

// `--name=` (nothing behind the sign) attaches nothing, so the option takes the next word: the level completion reaches
// for the words already typed depends on it (C17), and so does the command Dispatch runs (C10).
func init() {
	addRules("C17", rArgsOnlyNonEmpty("R17.24"))
	addRules("C10", rArgsOnlyNonEmpty("R10.27"))
}

package main

// rules_round2.go - rules added after the second round of independently seeded changes.

import (
	"fmt"
	"go/token"
	"strings"

	"golang.org/x/tools/go/ssa"
)

// rArgsUnmodified (R03.8 / R04.8 / R09.8): the token list reaches the iterator as given.
func rArgsUnmodified(id string) func(w *World, r *Report) {
	return func(w *World, r *Report) {
		ru := r.Rule(id, "the argument list is iterated as given: Parse hands its args parameter to the real parse unmodified and the parser creates its iterator over that parameter (only a nil list is replaced by an empty one); nothing is cut out or re-appended around the iterator", 2)
		parse := w.Fn(nParse)
		p := w.Fn(nParseCLI)
		if parse == nil || p == nil {
			ru.Undecided("anchor", "-", "Parse / parseCLIArgs not found")
			return
		}
		for _, c := range callsTo(parse, nParseCLI) {
			a := c.Common().Args
			if s, ok := constString(a[0]); !ok || s != "" {
				continue
			}
			ru.Check(a[2] == ssa.Value(parse.Params[1]), "Parse/args", w.IPos(c), "parseCLIArgs(\"\", root, args, …) with Parse's own args", "Parse pre-processes the argument list before the parser sees it (tokens can be lost or moved)")
		}
		// parser: iterator over &args where args is only the parameter or the empty literal
		var argsParam *ssa.Parameter
		for _, prm := range p.Params {
			if typeString(prm.Type()) == "[]string" {
				argsParam = prm
			}
		}
		for _, c := range callsTo(p, nIterNew) {
			a, ok := c.Common().Args[0].(*ssa.Alloc)
			good := ok
			if ok {
				for _, v := range storesInto(a) {
					if v == ssa.Value(argsParam) {
						continue
					}
					// []string{} literal
					if els, sp, ok := elementsOf(v, map[ssa.Value]bool{}); ok && len(els) == 0 && len(sp) == 0 {
						continue
					}
					good = false
				}
			}
			ru.Check(good, "parser/iterator-over-args", w.IPos(c), "iterator over the args parameter", "the parser iterates over a modified copy of its argument list")
		}
	}
}

// R07.6
func rC07Messages(w *World, r *Report) {
	ru := r.Rule("R07.6", "a token and its documented rewriting give the same diagnostics: the unknown-option error and warning in Parse are built from the record's Name (the option text produced by the splitter), never from the verbatim token", 2)
	fn := w.Fn(nParse)
	if fn == nil {
		ru.Undecided("anchor", "-", "Parse not found")
		return
	}
	n := 0
	for _, c := range allCalls(fn) {
		cn := calleeName(c)
		if cn != "fmt.Errorf" && cn != "fmt.Fprintf" {
			continue
		}
		call, ok := c.(*ssa.Call)
		if !ok {
			continue
		}
		// only the calls that mention an unknown-option record
		p := NewProv(w, fn)
		for _, a := range call.Call.Args {
			p.Slice(a)
		}
		fields := map[string]bool{}
		usesRecord := false
		for _, s := range p.Srcs {
			if s.Kind == "field" && s.Field != nil {
				fields[s.Field.Name()] = true
				if ld, ok := s.V.(*ssa.UnOp); ok {
					if fa, ok := ld.X.(*ssa.FieldAddr); ok && elemOfFieldSlice(fa.X, "UnknownOptions") {
						usesRecord = true
					}
				}
			}
		}
		if !usesRecord {
			continue
		}
		n++
		bad := fields["Verbatim"] || fields["Aliases"] || fields["UsedAlias"]
		var ops []string
		for _, o := range p.Ops {
			if strings.HasPrefix(o.Kind, "call:") && !strings.HasPrefix(o.Kind, "call:fmt.") && !strings.HasPrefix(o.Kind, "call:os.Getenv") {
				ops = append(ops, o.Kind)
			}
		}
		ru.Check(!bad && len(ops) == 0 && fields["Name"], "unknown-option-message", w.IPos(call), "message built from record.Name", "the unknown-option message is derived from the verbatim token or a helper ("+strings.Join(ops, ",")+"): `-xREST` and `--x=REST` would be reported differently")
	}
	if n == 0 {
		ru.Bad("unknown-option-message", w.Pos(fn.Pos()), "no unknown-option message found in Parse")
	}
}

// R11.8
func rC11RequiredVerbatim(w *World, r *Report) {
	ru := r.Rule("R11.8", "the custom message given to Required() reaches Option.SetRequired (and so IsRequiredErr) unmodified", 2)
	outer := w.Fn("(*getoptions.GetOpt).Required")
	if outer == nil || len(outer.AnonFuncs) == 0 {
		ru.Undecided("anchor", "-", "Required modifier not found")
		return
	}
	for _, fn := range outer.AnonFuncs {
		for _, c := range callsTo(fn, "(*option.Option).SetRequired") {
			// a modifier for the no-message case may hand over the empty text itself
			if s, ok := constString(c.Common().Args[1]); ok && s == "" {
				ru.OK("Required/message", w.IPos(c), "SetRequired(\"\"): no custom message")
				continue
			}
			// the argument is the captured errTxt; its stores in the outer function must be msg[0] or ""
			p := NewProv(w, outer)
			var fv ssa.Value = c.Common().Args[1]
			if u, ok := fv.(*ssa.UnOp); ok {
				fv = u.X
			}
			good := false
			if free, ok := fv.(*ssa.FreeVar); ok {
				// find the binding
				eachInstr(outer, func(in ssa.Instruction) {
					mc, ok := in.(*ssa.MakeClosure)
					if !ok || mc.Fn != ssa.Value(fn) {
						return
					}
					for i, f := range fn.FreeVars {
						if f == free && i < len(mc.Bindings) {
							p.Slice(mc.Bindings[i])
							good = true
						}
					}
				})
			}
			ops := p.OpKinds()
			ru.Check(good && len(ops) == 0, "Required/message", w.IPos(c), "SetRequired(msg[0]) verbatim", "the custom required message is transformed before it is stored ("+strings.Join(ops, ",")+")")
		}
	}
	if st := w.Fn("(*option.Option).SetRequired"); st != nil {
		ok := false
		eachInstr(st, func(in ssa.Instruction) {
			if _, f, v, isSt := storeField(in); isSt && f.Name() == "IsRequiredErr" && v == ssa.Value(st.Params[1]) {
				ok = true
			}
		})
		ru.Check(ok, "SetRequired/store", w.Pos(st.Pos()), "IsRequiredErr = msg", "SetRequired does not store the message it is given")
	}
}

// R11.9 (numbered R11.11 in the evidence): the help command answers for the level it was invoked at.
func rC11RunHelpNode(w *World, r *Report) {
	ru := r.Rule("R11.11", "the help command prints the help of the level it belongs to: without a topic helpOutput(parent of the help node), with a topic the parent's child command of that name; topics are looked up in that parent's ChildCommands", 2)
	fn := w.Fn("getoptions.runHelp")
	if fn == nil {
		ru.Undecided("anchor", "-", "runHelp not found")
		return
	}
	isParent := func(v ssa.Value) bool {
		b, ok := loadOfFieldNamed(v, "Parent")
		if !ok {
			return false
		}
		b2, ok := loadOfFieldNamed(b, "programTree")
		return ok && b2 == ssa.Value(fn.Params[1])
	}
	n := 0
	sawParent, sawTopic := false, false
	for _, c := range callsTo(fn, "getoptions.helpOutput") {
		// one print per case, or a single print of a variable that merges the cases (phi): every value that can be
		// printed must be the parent level or one of its commands (nil = "no such topic", answered with an error)
		for _, a := range phiLeaves(c.Common().Args[0], map[ssa.Value]bool{}) {
			if isNilConst(a) {
				continue
			}
			n++
			good := isParent(a)
			if good {
				sawParent = true
			}
			if !good {
				// element of Parent.ChildCommands
				if ex, ok := a.(*ssa.Extract); ok {
					switch t := ex.Tuple.(type) {
					case *ssa.Next:
						if rg, ok := t.Iter.(*ssa.Range); ok {
							if b, ok := loadOfFieldNamed(rg.X, "ChildCommands"); ok && isParent(b) {
								good, sawTopic = true, true
							}
						}
					case *ssa.Lookup:
						if b, ok := loadOfFieldNamed(t.X, "ChildCommands"); ok && isParent(b) {
							good, sawTopic = true, true
						}
					}
				}
			}
			ru.Check(good, "runHelp/node", w.IPos(c), "help of the help node's own parent level", "the help command answers for a different level than the one it was invoked at")
		}
	}
	_, _ = sawParent, sawTopic
	if n < 2 {
		ru.Bad("runHelp/node", w.Pos(fn.Pos()), "runHelp does not print both the level help and the topic help")
	}
}

// R17.6
func rC17HelpTopics(w *World, r *Report) {
	ru := r.Rule("R17.6", "the topics offered after `<cmd> help` are the commands of that very level: the help node's Suggestions are collected from the ChildCommands of the node it is attached to", 1)
	n := 0
	for _, fn := range w.Funcs {
		if !strings.HasPrefix(short(fn), "(*getoptions.GetOpt).HelpCommand$") {
			continue
		}
		eachInstr(fn, func(in ssa.Instruction) {
			a, ok := in.(*ssa.Alloc)
			if !ok || typeString(a.Type()) != "*getoptions.programTree" {
				return
			}
			var parent, sugg ssa.Value
			eachInstr(fn, func(i2 ssa.Instruction) {
				if base, f, v, ok := storeField(i2); ok && base == ssa.Value(a) {
					switch f.Name() {
					case "Parent":
						parent = v
					case "Suggestions":
						sugg = v
					}
				}
			})
			if parent == nil || sugg == nil {
				return
			}
			n++
			// every element of sugg is a range key of parent.ChildCommands
			good := true
			els, sp, ok := elementsOf(sugg, map[ssa.Value]bool{})
			if !ok || len(sp) > 0 {
				good = false
			}
			for _, e := range els {
				ex, ok := e.(*ssa.Extract)
				if !ok || ex.Index != 1 {
					good = false
					continue
				}
				nx, ok := ex.Tuple.(*ssa.Next)
				if !ok {
					good = false
					continue
				}
				rg, ok := nx.Iter.(*ssa.Range)
				if !ok {
					good = false
					continue
				}
				if b, ok := loadOfFieldNamed(rg.X, "ChildCommands"); !ok || b != parent {
					good = false
				}
			}
			ru.Check(good && len(els) > 0, "help-node/topics", w.IPos(a), "Suggestions = names of the parent's commands", "the help node's topic suggestions are not the commands of the node it is attached to")
		})
	}
	if n == 0 {
		ru.Undecided("help-node", "-", "help node literal with Suggestions not found")
	}
}

// R19.7
func rC19NoBlocking(w *World, r *Report) {
	ru := r.Rule("R19.7", "no blocking construct is reachable from Parse / Dispatch / Help / completion: no go statement, channel operation, select, sync primitive or sleep (user functions cut off)", 1)
	roots := c19Roots(w)
	for _, rt := range roots {
		if rt == nil {
			ru.Undecided("anchor", "-", "an entry point was not found")
			return
		}
	}
	reach := w.reachableFrom(roots, cutUserCode)
	bad := 0
	for _, fn := range w.Funcs {
		if !reach[fn] || !isLibNonDag(fn) {
			continue
		}
		eachInstr(fn, func(in ssa.Instruction) {
			what := ""
			switch x := in.(type) {
			case *ssa.Go:
				what = "go statement"
			case *ssa.Send:
				what = "channel send"
			case *ssa.Select:
				what = "select"
			case *ssa.UnOp:
				if x.Op == token.ARROW {
					what = "channel receive"
				}
			case ssa.CallInstruction:
				n := calleeName(x)
				if strings.HasPrefix(n, "(*sync.") || strings.HasPrefix(n, "sync.") || n == "time.Sleep" || strings.HasPrefix(n, "(*sync/atomic") {
					what = n
				}
			}
			if what != "" {
				bad++
				ru.Bad("blocking/"+short(fn), w.IPos(in), what+" reachable from an entry point: the call may never return")
			}
		})
	}
	if bad == 0 {
		ru.OK("no-blocking-construct", w.Pos(roots[0].Pos()), fmt.Sprintf("%d reachable functions contain no concurrency or blocking primitive", len(reach)))
	}
}

// elemOfFieldSlice: v is an element of the slice held in a field with that name (x.<field>[i], or a range element).
func elemOfFieldSlice(v ssa.Value, field string) bool {
	u, ok := v.(*ssa.UnOp)
	if !ok || u.Op != token.MUL {
		return false
	}
	ia, ok := u.X.(*ssa.IndexAddr)
	if !ok {
		return false
	}
	_, ok = loadOfFieldNamed(ia.X, field)
	return ok
}

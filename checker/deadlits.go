package main

// deadlits.go - dead function literals. Inlining a helper that takes a function argument leaves the argument behind:
// `_a1 := func(k string, o *Option) bool {…}; _ = _a1` - the literal is bound, its calls were inlined, nothing uses
// it any more. The literal still *captures* the variables it mentions, and go/ssa keeps every captured variable in a
// heap cell: a parameter that the rules follow by identity (`node`, `gopt`) turns into loads of that cell. The
// literal is dead code; it is replaced, in the in-memory overlay, by the nil value of its type, which removes the
// captures. A variable qualifies when every use of it is a blank assignment (`_ = x`) or the initialiser of another
// variable that qualifies; a variable that is called, passed on, compared or returned does not.

import (
	"go/ast"
	"go/token"
	"go/types"
	"sort"

	"golang.org/x/tools/go/packages"
)

func deadLiterals(w *World, repo string, overlay map[string][]byte, extraEnv []string) (*World, map[string][]byte) {
	in := &inliner{w: w, overlay: map[string][]byte{}}
	for k, v := range overlay {
		in.overlay[k] = v
	}
	edits := map[string][]textEdit{}
	var notes []string
	for _, p := range w.Pkgs {
		for _, file := range p.Syntax {
			es, n := deadLiteralEdits(in, p, file)
			if len(es) > 0 {
				fname, _ := in.rawOff(file.Pos())
				edits[fname] = append(edits[fname], es...)
				notes = append(notes, n...)
			}
		}
	}
	if len(edits) == 0 {
		return w, overlay
	}
	nov, err := in.applyEdits(edits)
	if err != nil {
		w.Notes = append(w.Notes, "dead function literals not removed: "+err.Error())
		return w, overlay
	}
	next, err := loadWorldRaw(repo, nov, extraEnv)
	if err != nil {
		msg := err.Error()
		if len(msg) > 300 {
			msg = msg[:300]
		}
		w.Notes = append(w.Notes, "dead function literals not removed (the rewritten program does not load): "+msg)
		return w, overlay
	}
	sort.Strings(notes)
	next.Notes = append(w.Notes, notes...)
	return next, nov
}

func deadLiteralEdits(in *inliner, p *packages.Package, file *ast.File) ([]textEdit, []string) {
	info := p.TypesInfo
	// local variables of function type with the expression that initialises them
	type varInfo struct {
		init ast.Expr
		uses []*ast.Ident
	}
	vars := map[*types.Var]*varInfo{}
	record := func(id *ast.Ident, init ast.Expr) {
		if id == nil || id.Name == "_" {
			return
		}
		v, ok := info.Defs[id].(*types.Var)
		if !ok || v.IsField() || v.Pkg() == nil || v.Parent() == v.Pkg().Scope() {
			return
		}
		if _, isFn := v.Type().Underlying().(*types.Signature); !isFn {
			return
		}
		vars[v] = &varInfo{init: init}
	}
	ast.Inspect(file, func(n ast.Node) bool {
		switch x := n.(type) {
		case *ast.AssignStmt:
			if x.Tok == token.DEFINE && len(x.Lhs) == len(x.Rhs) {
				for i, l := range x.Lhs {
					if id, ok := l.(*ast.Ident); ok {
						record(id, x.Rhs[i])
					}
				}
			}
		case *ast.ValueSpec:
			if len(x.Names) == len(x.Values) {
				for i, id := range x.Names {
					record(id, x.Values[i])
				}
			}
		}
		return true
	})
	if len(vars) == 0 {
		return nil, nil
	}
	parent := map[ast.Node]ast.Node{}
	var stack []ast.Node
	ast.Inspect(file, func(n ast.Node) bool {
		if n == nil {
			stack = stack[:len(stack)-1]
			return true
		}
		if len(stack) > 0 {
			parent[n] = stack[len(stack)-1]
		}
		stack = append(stack, n)
		if id, ok := n.(*ast.Ident); ok {
			if v, ok := info.Uses[id].(*types.Var); ok {
				if vi := vars[v]; vi != nil {
					vi.uses = append(vi.uses, id)
				}
			}
		}
		return true
	})
	// dead: every use is `_ = x`, or initialises (alone) a variable that is dead
	dead := map[*types.Var]bool{}
	for v := range vars {
		dead[v] = true
	}
	for changed := true; changed; {
		changed = false
		for v, vi := range vars {
			if !dead[v] {
				continue
			}
			for _, u := range vi.uses {
				ok := false
				switch x := parent[u].(type) {
				case *ast.AssignStmt:
					if x.Tok == token.ASSIGN && len(x.Lhs) == 1 && len(x.Rhs) == 1 && x.Rhs[0] == ast.Expr(u) {
						if l, isId := x.Lhs[0].(*ast.Ident); isId && l.Name == "_" {
							ok = true
						}
					}
					if x.Tok == token.DEFINE && len(x.Lhs) == len(x.Rhs) {
						for i, r := range x.Rhs {
							if r == ast.Expr(u) {
								if l, isId := x.Lhs[i].(*ast.Ident); isId {
									if tv, isVar := info.Defs[l].(*types.Var); isVar && vars[tv] != nil && dead[tv] {
										ok = true
									}
								}
							}
						}
					}
				case *ast.ValueSpec:
					for i, r := range x.Values {
						if r == ast.Expr(u) && i < len(x.Names) {
							if tv, isVar := info.Defs[x.Names[i]].(*types.Var); isVar && vars[tv] != nil && dead[tv] {
								ok = true
							}
						}
					}
				}
				if !ok {
					dead[v] = false
					changed = true
					break
				}
			}
		}
	}
	var edits []textEdit
	var notes []string
	for v, vi := range vars {
		lit, isLit := vi.init.(*ast.FuncLit)
		if !dead[v] || !isLit {
			continue
		}
		_, a := in.rawOff(lit.Pos())
		_, b := in.rawOff(lit.End())
		edits = append(edits, textEdit{a, b, "(" + in.nodeText(lit.Type) + ")(nil)"})
		notes = append(notes, "function literal bound to "+v.Name()+" is never called or passed on after inlining: read as nil (its captures no longer hold variables in memory)")
	}
	return edits, notes
}

package main

// C17 - completion.  C18 - generated help.

import (
	"fmt"
	"go/ast"
	"go/token"
	"go/types"
	"sort"
	"strings"

	"golang.org/x/tools/go/ssa"
)

func init() {
	register("C17", "other", []string{
		"decides: on the COMP_LINE edge of Parse every path to a return passes exitFn and prints the joined candidate list to the completion writer; no CommandFn is reachable from the parser or from that edge; every candidate list returned is sorted with no later append; every candidate that comes from the option / command tables or the static suggestions is appended under a HasPrefix(candidate, typed) test against the cursor's own tables, and every key passing the test is appended",
		"not decided: equality of the candidate set with the specification for value completion, and that every offered candidate is accepted by the parser",
	}, rC17Exit, rC17NoCommand, rC17Sorted, rC17Candidates, rC17Sections, rC17HelpTopics, func(w *World, r *Report) {
		subRule(w, r, rC10CopyOptions, "R17.7", "the option table of the level reached holds the inherited options (same obligations as C10 R10.5)", 3)
	})
	register("C18", "other", []string{
		"decides: every switch over the option kind in help rendering is total (or has a default); the option list is built from the node's table with the alias filter only; the required/normal partition is total and both parts are rendered; all help routes use the one renderer on the node; the command list hides only the help command; defaults and environment variables are shown; the per-option synopsis is recomputed after every change of the fields it derives from and lists every alias",
		"layout, wrapping at 80 columns and multi-line descriptions are not decided",
	}, rC18Switches, rC18OptionList, rC18Partition, rC18Routes, rC18Commands, rC18Fields, rC18Freshness, rC18SynopsisArms, rC18Args, definersRule("R18.10"), func(w *World, r *Report) {
		subRule(w, r, rC10CopyOptions, "R18.11", "inherited options reach every level's table, whatever the declaration order (same obligations as C10 R10.5)", 3)
	})
}

// ------------------------------------------------------------------ C17

// compLineIf: the test os.Getenv("COMP_LINE") != "" in Parse and the successor index of the completion edge.
func compLineIf(fn *ssa.Function) (*ssa.If, int) {
	for _, b := range fn.Blocks {
		iff, ok := b.Instrs[len(b.Instrs)-1].(*ssa.If)
		if !ok {
			continue
		}
		for _, f := range condFacts(iff.Cond, true, iff) {
			if f.Y == nil {
				continue
			}
			c, ok := f.X.(*ssa.Call)
			if !ok || calleeName(c) != "os.Getenv" {
				continue
			}
			if n, ok := constString(c.Call.Args[0]); !ok || n != "COMP_LINE" {
				continue
			}
			if s, ok := constString(f.Y); ok && s == "" {
				if f.Op == token.NEQ {
					return iff, 0
				}
				if f.Op == token.EQL {
					return iff, 1
				}
			}
		}
	}
	return nil, 0
}

func isExitFnCall(in ssa.Instruction) bool {
	c, ok := in.(*ssa.Call)
	if !ok {
		return false
	}
	if calleeName(c) == "os.Exit" {
		return true
	}
	return isLoadOfGlobal(c.Call.Value, "getoptions.exitFn")
}

func rC17Exit(w *World, r *Report) {
	ru := r.Rule("R17.1", "on the COMP_LINE edge of Parse every path to a return passes a call of exitFn; the success path prints strings.Join(candidates, \"\\n\") of the completion-mode parse to completionWriter; the completion parse is given the words of COMP_LINE", 3)
	fn := w.Fn(nParse)
	if fn == nil {
		ru.Undecided("anchor", "-", "Parse not found")
		return
	}
	iff, k := compLineIf(fn)
	if iff == nil {
		ru.Bad("comp-line-test", w.Pos(fn.Pos()), "Parse does not test COMP_LINE")
		return
	}
	ig := buildIG(fn)
	ok, wit := ig.mustPass(ig.edgeStart(iff.Block(), k), isExitFnCall, func(in ssa.Instruction) bool { _, r := in.(*ssa.Return); return r })
	if ok {
		ru.OK("completion/exit-path", w.IPos(iff), "every completion path calls exitFn before returning")
	} else {
		ru.Bad("completion/exit-path", w.IPos(wit), "a completion path returns to the caller without leaving through exitFn: the program would go on and run commands during completion")
	}
	// normal parsing must not be reachable from the completion edge
	seen := ig.reachFrom(ig.edgeStart(iff.Block(), k), nil)
	for _, c := range callsTo(fn, nParseCLI) {
		if s, isC := constString(c.Common().Args[0]); isC && s == "" && seen[ig.idx[c]] {
			ru.Bad("completion/falls-through", w.IPos(c), "the real parse is reachable from the completion edge")
		}
	}
	// the print
	var compCall *ssa.Call
	for _, c := range callsTo(fn, nParseCLI) {
		if s, isC := constString(c.Common().Args[0]); !isC || s != "" {
			compCall = c.(*ssa.Call)
		}
	}
	if compCall == nil {
		ru.Bad("completion/parse", w.IPos(iff), "no completion-mode parse")
		return
	}
	printed := false
	for _, c := range allCalls(fn) {
		if !strings.HasPrefix(calleeName(c), "fmt.Fprint") || !isLoadOfGlobal(c.Common().Args[0], "getoptions.completionWriter") {
			continue
		}
		els, _, _ := elementsOf(c.Common().Args[len(c.Common().Args)-1], map[ssa.Value]bool{})
		for _, e := range els {
			if mi, ok := e.(*ssa.MakeInterface); ok {
				if j, ok := mi.X.(*ssa.Call); ok && calleeName(j) == "strings.Join" {
					src := j.Call.Args[0]
					if ct, ok := src.(*ssa.ChangeType); ok {
						src = ct.X
					}
					if ex, ok := src.(*ssa.Extract); ok && ex.Index == 1 && ex.Tuple == ssa.Value(compCall) {
						if sep, ok := constString(j.Call.Args[1]); ok && sep == "\n" {
							printed = true
						}
					}
				}
			}
		}
	}
	ru.Check(printed, "completion/print", w.IPos(compCall), "candidates joined with newlines are written to completionWriter", "the candidate list is not printed unmodified to the completion writer")
	// words come from COMP_LINE
	p := NewProv(w, fn).Slice(compCall.Call.Args[2])
	fromEnv := false
	for _, o := range p.Ops {
		if o.Kind == "call:os.Getenv" {
			fromEnv = true
		}
	}
	ru.Check(fromEnv && isTreePtr(compCall.Call.Args[1].Type()), "completion/words", w.IPos(compCall), "completion parse runs on the words of COMP_LINE against the root tree", "the completion parse is not given the words of COMP_LINE")
}

func rC17NoCommand(w *World, r *Report) {
	ru := r.Rule("R17.2", "call graph: no call through a CommandFn value is reachable from parseCLIArgs, nor from the completion edge of Parse (Dispatch is not reachable from Parse)", 2)
	p := w.Fn(nParseCLI)
	parse := w.Fn(nParse)
	if p == nil || parse == nil {
		ru.Undecided("anchor", "-", "parser not found")
		return
	}
	for _, root := range []*ssa.Function{p, parse} {
		reach := w.reachableFrom([]*ssa.Function{root}, func(e *callgraphEdge) bool {
			if e.Site == nil {
				return false
			}
			n := calleeName(e.Site)
			return strings.HasPrefix(n, "dyn:getoptions.ArgCompletionsFn") || strings.HasPrefix(n, "dyn:option.ValueCompletionsFn")
		})
		bad := false
		for fn := range reach {
			if fn.Blocks == nil || w.PkgOfFn(fn) == nil {
				continue
			}
			for _, c := range allCalls(fn) {
				if calleeName(c) == nDynCommandFn {
					bad = true
					ru.Bad("command-reachable/"+short(root), w.IPos(c), "a command function can run from "+short(root)+" (i.e. while completing / parsing)")
				}
			}
		}
		if !bad {
			ru.OK("command-unreachable/"+short(root), w.Pos(root.Pos()), fmt.Sprintf("%d functions reachable, none calls a CommandFn", len(reach)))
		}
	}
}

func rC17Sorted(w *World, r *Report) {
	ru := r.Rule("R17.3", "every candidate list returned by the completion block is the very value that a dominating sort.Strings call sorted (no append afterwards); after the sort the list is modified in place only when it has exactly one element", 2)
	m := parserOrFail(w, ru)
	if m == nil {
		return
	}
	n := 0
	eachInstr(m.fn, func(in ssa.Instruction) {
		ret, ok := in.(*ssa.Return)
		if !ok || !m.inCompletionOnly(ret.Block()) || !isNilConst(ret.Results[2]) {
			return
		}
		n++
		v := ret.Results[1]
		if ct, ok := v.(*ssa.ChangeType); ok {
			v = ct.X
		}
		if !sortedBefore(v, ret) {
			ru.Bad("completion-return/sorted", w.IPos(ret), "the candidate list returned is not sorted (or something was appended after the sort)")
			return
		}
		// in-place edits after the sort only for singletons
		okEdits := true
		if refs := v.Referrers(); refs != nil {
			for _, ref := range *refs {
				ia, ok := ref.(*ssa.IndexAddr)
				if !ok {
					continue
				}
				for _, r2 := range *ia.Referrers() {
					if st, ok := r2.(*ssa.Store); ok && st.Addr == ssa.Value(ia) {
						if maxLenAt(st.Block(), v) > 1 {
							okEdits = false
						}
					}
				}
			}
		}
		ru.Check(okEdits, "completion-return/sorted", w.IPos(ret), "sorted; only a singleton is edited in place", "an element of a multi-element candidate list is rewritten after the sort")
	})
	if n == 0 {
		ru.Bad("completion-return", w.Pos(m.fn.Pos()), "the completion block returns no candidate list")
	}
}

func rC17Candidates(w *World, r *Report) {
	ru := r.Rule("R17.4", "candidates from tables: every append of a value derived from a key of an option / command table or from the static suggestions ranges over the cursor's own table and is dominated by strings.HasPrefix(candidate-part, typed-text); conversely from every such successful test an append is reached before the next key (lonesome dash excepted)", 4)
	m := parserOrFail(w, ru)
	if m == nil {
		return
	}
	fSug := w.Field("getoptions", "programTree", "Suggestions")
	// loops of the completion block: map ranges over ChildCommands / ChildOptions, slice ranges over Suggestions / option names
	type src struct {
		h    *ssa.BasicBlock
		elem ssa.Value
		what string
	}
	var srcs []src
	for _, h := range loopHeaders(m.fn) {
		if !m.inCompletionOnly(h) {
			continue
		}
		for _, in := range h.Instrs {
			if nx, ok := in.(*ssa.Next); ok {
				if rg, ok := nx.Iter.(*ssa.Range); ok {
					for _, f := range []*types.Var{m.fChildCommands, m.fChildOptions} {
						if base, ok := loadOfField(rg.X, f); ok {
							for _, ref := range *nx.Referrers() {
								if ex, ok := ref.(*ssa.Extract); ok && ex.Index == 1 {
									if base != ssa.Value(m.cursorPhi) {
										ru.Bad("candidates/table", w.IPos(nx), "completion ranges over the "+f.Name()+" of a node other than the one reached by the earlier words")
									}
									srcs = append(srcs, src{h, ex, f.Name() + " key"})
								}
							}
						}
					}
				}
			}
		}
		if coll := rangeCollectionOfHeader(h); coll != nil {
			if base, ok := loadOfField(coll, fSug); ok {
				if base != ssa.Value(m.cursorPhi) {
					ru.Bad("candidates/table", w.IPos(h.Instrs[0]), "completion uses the Suggestions of another node")
				}
				srcs = append(srcs, src{h, rangeElem(h), "Suggestions element"})
			} else if isKeyList(coll, m.fChildOptions) {
				srcs = append(srcs, src{h, rangeElem(h), "ChildOptions key (sorted list)"})
			}
		}
	}
	if len(srcs) < 3 {
		ru.Bad("candidates/sources", w.Pos(m.fn.Pos()), fmt.Sprintf("only %d candidate sources found in the completion block (options, commands, suggestions expected)", len(srcs)))
	}
	for _, s := range srcs {
		if s.elem == nil {
			continue
		}
		if strings.HasSuffix(s.what, "key") && s.h.Comment != "rangeindex.loop" && strings.HasPrefix(s.what, "ChildOptions") {
			continue // the raw map range only collects names
		}
		loop := naturalLoop(s.h)
		apps := 0
		for b := range loop {
			for _, in := range b.Instrs {
				c, ok := in.(*ssa.Call)
				if !ok || calleeName(c) != "builtin:append" || typeString(c.Type()) != "[]string" || len(c.Call.Args) != 2 {
					continue
				}
				els, _, _ := elementsOf(c.Call.Args[1], map[ssa.Value]bool{})
				for _, e := range els {
					if !derivedFrom(e, []ssa.Value{s.elem}, 0) {
						continue
					}
					apps++
					key := "candidates/" + s.what
					guarded := false
					for _, f := range factsAt(b) {
						if f.Op == token.ILLEGAL && f.Truth {
							if hc, ok := f.X.(*ssa.Call); ok && calleeName(hc) == "strings.HasPrefix" {
								// candidate side derived from the element, typed side from iterator.Value()
								if derivedFrom(hc.Call.Args[0], []ssa.Value{s.elem}, 0) && m.fromTyped(hc.Call.Args[1]) {
									guarded = true
								}
								// value completion: HasPrefix(partialOption, k) identifies the option, then HasPrefix(c, Value())
								if m.fromTyped(hc.Call.Args[0]) && hc.Call.Args[1] == s.elem {
									guarded = true
								}
							}
						}
						// lonesome dash
						if f.Op == token.EQL && f.Y != nil {
							if str, ok := constString(f.Y); ok && str == "-" && (f.X == s.elem || m.fromTyped(f.X)) {
								guarded = true
							}
						}
					}
					if guarded {
						ru.OK(key, w.IPos(c), "appended under a prefix test against the typed text")
					} else {
						ru.Bad(key, w.IPos(c), "a candidate from the "+s.what+" is offered without testing that it starts with the typed text")
					}
				}
			}
		}
		if apps == 0 {
			ru.Bad("candidates/"+s.what+"/none", w.IPos(s.h.Instrs[0]), "no candidate is produced from the "+s.what)
		}
		// completeness: from HasPrefix(elem…, typed) == true an append is reached before the next element
		for b := range loop {
			iff, ok := b.Instrs[len(b.Instrs)-1].(*ssa.If)
			if !ok {
				continue
			}
			hc, ok := iff.Cond.(*ssa.Call)
			if !ok || calleeName(hc) != "strings.HasPrefix" || hc.Call.Args[0] != s.elem || !m.fromTyped(hc.Call.Args[1]) {
				continue
			}
			isApp := func(in ssa.Instruction) bool {
				c, ok := in.(*ssa.Call)
				return ok && calleeName(c) == "builtin:append" && typeString(c.Type()) == "[]string"
			}
			okAll, _ := m.ig.mustPass(m.ig.edgeStart(b, 0), isApp, func(in ssa.Instruction) bool { return in.Block() == s.h && in == s.h.Instrs[0] })
			ru.Check(okAll, "candidates/"+s.what+"/complete", w.IPos(iff), "every matching entry is offered", "an entry that starts with the typed text can be skipped")
		}
	}
}

// dashNameValue: v is the text "--<name>=<value>", written fmt.Sprintf("--%s=%s", name, value) or "--" + name + "=" + value;
// returns the name operand (nil if it cannot be told).
func dashNameValue(v ssa.Value) (ssa.Value, bool) {
	if sp, ok := v.(*ssa.Call); ok && calleeName(sp) == "fmt.Sprintf" {
		if f0, ok := constString(sp.Call.Args[0]); ok && f0 == "--%s=%s" {
			if len(sp.Call.Args) > 1 {
				if nels, _, ok := elementsOf(sp.Call.Args[1], map[ssa.Value]bool{}); ok && len(nels) >= 1 {
					nm := nels[0]
					if mi, isMI := nm.(*ssa.MakeInterface); isMI {
						nm = mi.X
					}
					return nm, true
				}
			}
			return nil, true
		}
		return nil, false
	}
	// (("--" + name) + "=") + value
	b3, ok := v.(*ssa.BinOp)
	if !ok || b3.Op != token.ADD {
		return nil, false
	}
	b2, ok := b3.X.(*ssa.BinOp)
	if !ok || b2.Op != token.ADD || !isConstStr(b2.Y, "=") {
		return nil, false
	}
	b1, ok := b2.X.(*ssa.BinOp)
	if !ok || b1.Op != token.ADD || !isConstStr(b1.X, "--") {
		return nil, false
	}
	return b1.Y, true
}

// fromTyped: v is iterator.Value() or derived from it by TrimPrefix.
func (m *parserModel) fromTyped(v ssa.Value) bool {
	for i := 0; i < 4; i++ {
		c, ok := v.(*ssa.Call)
		if !ok {
			return false
		}
		if m.iterCall(c, nIterValue) {
			return true
		}
		if calleeName(c) != "strings.TrimPrefix" {
			return false
		}
		v = c.Call.Args[0]
	}
	return false
}

// isKeyList: v is a slice accumulated from the keys of a range over field f (optionally sorted).
func isKeyList(v ssa.Value, f *types.Var) bool {
	if m, _, ok := keysCallOf(v); ok {
		_, isF := loadOfField(m, f)
		return isF
	}
	for _, leaf := range phiLeaves(v, map[ssa.Value]bool{}) {
		c, ok := leaf.(*ssa.Call)
		if !ok || calleeName(c) != "builtin:append" || len(c.Call.Args) != 2 {
			if _, isSl := leaf.(*ssa.Slice); isSl {
				continue
			}
			return false
		}
		els, _, _ := elementsOf(c.Call.Args[1], map[ssa.Value]bool{})
		for _, e := range els {
			ex, ok := e.(*ssa.Extract)
			if !ok || ex.Index != 1 {
				return false
			}
			nx, ok := ex.Tuple.(*ssa.Next)
			if !ok {
				return false
			}
			rg, ok := nx.Iter.(*ssa.Range)
			if !ok {
				return false
			}
			if _, ok := loadOfField(rg.X, f); !ok {
				return false
			}
		}
	}
	return true
}

// ------------------------------------------------------------------ C18

func rC18Switches(w *World, r *Report) {
	ru := r.Rule("R18.1", "switch coverage: every switch over the option kind in the help renderer (package help, Option.Synopsis, helpOutput) covers all twelve kinds or has a default clause", 1)
	kinds := optionKinds(w)
	n := 0
	for _, pkgName := range []string{"help", "getoptions", "option"} {
		p := w.Pkg(pkgName)
		if p == nil {
			continue
		}
		for _, file := range p.Syntax {
			fname := w.Fset.Position(file.Pos()).Filename
			if pkgName == "getoptions" && !strings.HasSuffix(fname, "user_help.go") {
				continue
			}
			ast.Inspect(file, func(nd ast.Node) bool {
				fd, isFn := nd.(*ast.FuncDecl)
				if isFn && pkgName == "option" && fd.Name.Name != "Synopsis" {
					return false
				}
				sw, ok := nd.(*ast.SwitchStmt)
				if !ok || sw.Tag == nil {
					return true
				}
				tv, ok := p.TypesInfo.Types[sw.Tag]
				if !ok || typeString(tv.Type) != "option.Type" {
					return true
				}
				n++
				covered := map[string]bool{}
				hasDefault := false
				for _, cc := range sw.Body.List {
					cl := cc.(*ast.CaseClause)
					if cl.List == nil {
						hasDefault = true
					}
					for _, e := range cl.List {
						if cv, ok := p.TypesInfo.Types[e]; ok && cv.Value != nil {
							covered[cv.Value.String()] = true
						}
					}
				}
				var missing []string
				for val, name := range kinds {
					if !covered[val] {
						missing = append(missing, name)
					}
				}
				sort.Strings(missing)
				if hasDefault || len(missing) == 0 {
					ru.OK("kind-switch", w.Pos(sw.Pos()), fmt.Sprintf("%d kinds covered, default=%v", len(covered), hasDefault))
				} else {
					ru.Bad("kind-switch", w.Pos(sw.Pos()), "options of kind "+strings.Join(missing, ", ")+" are not rendered by this switch (they would be missing from the help)")
				}
				return true
			})
		}
	}
	if n == 0 {
		ru.Present("kind-switch/none", "-", "no switch over the option kind in help rendering")
	}
}

func rC18OptionList(w *World, r *Report) {
	ru := r.Rule("R18.2", "helpOutput builds the option list from the node's ChildOptions with exactly one filter (map key != option.Name: aliases) and appends the record itself", 2)
	fn := optionListBuilder(w)
	if fn == nil {
		ru.Undecided("anchor", "-", "helpOutput (or the helper that builds its option list) not found")
		return
	}
	fCO := w.Field("getoptions", "programTree", "ChildOptions")
	var hdr *ssa.BasicBlock
	var key, val ssa.Value
	for _, h := range loopHeaders(fn) {
		for _, in := range h.Instrs {
			if nx, ok := in.(*ssa.Next); ok {
				if rg, ok := nx.Iter.(*ssa.Range); ok {
					if b, ok := loadOfField(rg.X, fCO); ok && b == ssa.Value(fn.Params[0]) {
						hdr = h
						for _, ref := range *nx.Referrers() {
							if ex, ok := ref.(*ssa.Extract); ok {
								if ex.Index == 1 {
									key = ex
								}
								if ex.Index == 2 {
									val = ex
								}
							}
						}
					}
				}
			}
		}
	}
	if hdr == nil {
		ru.Bad("option-scan", w.Pos(fn.Pos()), "helpOutput does not range over the node's own option table")
		return
	}
	// the record of the key: the range value, or a lookup of the key in the same table
	isVal := func(v ssa.Value) bool {
		if v == val && val != nil {
			return true
		}
		var lk *ssa.Lookup
		switch x := v.(type) {
		case *ssa.Lookup:
			lk = x
		case *ssa.Extract:
			if l2, ok := x.Tuple.(*ssa.Lookup); ok && x.Index == 0 {
				lk = l2
			}
		}
		if lk == nil || lk.Index != key || key == nil {
			return false
		}
		b, ok := loadOfField(lk.X, fCO)
		return ok && b == ssa.Value(fn.Params[0])
	}
	loop := naturalLoop(hdr)
	okFilter := true
	apps := 0
	for b := range loop {
		if iff, ok := b.Instrs[len(b.Instrs)-1].(*ssa.If); ok && b != hdr {
			isAlias := false
			for _, f := range condFacts(iff.Cond, true, iff) {
				if f.Y != nil && (f.Op == token.NEQ || f.Op == token.EQL) {
					bx, n1 := loadOfFieldNamed(f.Y, "Name")
					by, n2 := loadOfFieldNamed(f.X, "Name")
					if (n1 && isVal(bx) && f.X == key) || (n2 && isVal(by) && f.Y == key) {
						isAlias = true
					}
				}
			}
			if !isAlias {
				okFilter = false
				ru.Bad("option-scan/filter", w.IPos(iff), "an extra condition filters options out of the help")
			}
		}
		for _, in := range b.Instrs {
			if c, ok := in.(*ssa.Call); ok && calleeName(c) == "builtin:append" && typeString(c.Type()) == "[]*option.Option" {
				apps++
				els, _, _ := elementsOf(c.Call.Args[1], map[ssa.Value]bool{})
				ru.Check(len(els) == 1 && isVal(els[0]), "option-scan/append", w.IPos(c), "the record itself is listed", "something other than the table's record is listed")
				once := false
				for _, f := range factsAt(b) {
					if f.Op == token.EQL && f.Y != nil {
						bx, n1 := loadOfFieldNamed(f.Y, "Name")
						by, n2 := loadOfFieldNamed(f.X, "Name")
						if (n1 && isVal(bx) && f.X == key) || (n2 && isVal(by) && f.Y == key) {
							once = true
						}
					}
				}
				ru.Check(once, "option-scan/once-per-record", w.IPos(c), "listed only under its primary name (key == Name)", "a record is listed once per name: every alias would appear as a separate option")
			}
		}
	}
	if okFilter {
		ru.OK("option-scan/filter", w.IPos(hdr.Instrs[0]), "only the alias filter")
	}
	if apps == 0 {
		ru.Bad("option-scan/append", w.IPos(hdr.Instrs[0]), "no option is collected")
	}
}

func rC18Partition(w *World, r *Report) {
	ru := r.Rule("R18.3", "in Synopsis and OptionList every option goes to exactly one of the required / normal lists by an if/else on IsRequired with no other condition, both lists are sorted and both are rendered by calling the per-option renderer on each element", 4)
	for _, name := range []string{"help.Synopsis", "help.OptionList"} {
		fn := w.Fn(name)
		if fn == nil {
			ru.Undecided("anchor/"+name, "-", "not found")
			continue
		}
		var optsParam *ssa.Parameter
		for _, p := range fn.Params {
			if typeString(p.Type()) == "[]*option.Option" {
				optsParam = p
			}
		}
		var hdr *ssa.BasicBlock
		for _, h := range loopHeaders(fn) {
			if rangeCollectionOfHeader(h) == ssa.Value(optsParam) {
				hdr = h
			}
		}
		if hdr == nil {
			ru.Bad(name+"/partition-loop", w.Pos(fn.Pos()), "does not range over the option list it was given")
			continue
		}
		elem := rangeElem(hdr)
		loop := naturalLoop(hdr)
		var accs []*ssa.Phi
		for _, in := range hdr.Instrs {
			if phi, ok := in.(*ssa.Phi); ok && typeString(phi.Type()) == "[]*option.Option" {
				accs = append(accs, phi)
			}
		}
		good := len(accs) == 2
		why := ""
		if !good {
			why = fmt.Sprintf("%d accumulators", len(accs))
		}
		// every path through the body appends elem to exactly one accumulator, decided by IsRequired only
		for b := range loop {
			if iff, ok := b.Instrs[len(b.Instrs)-1].(*ssa.If); ok && b != hdr {
				okCond := false
				for _, f := range condFacts(iff.Cond, true, iff) {
					if f.Op == token.ILLEGAL {
						if bb, ok := loadOfFieldNamed(f.X, "IsRequired"); ok && sameLoad(bb, elem) {
							okCond = true
						}
					}
					// max-length bookkeeping: l > synopsisLength
					if f.Op == token.GTR || f.Op == token.LSS {
						okCond = true
					}
				}
				if !okCond {
					good, why = false, "a condition other than IsRequired decides where an option goes (at "+w.IPos(iff)+")"
				}
			}
		}
		if good {
			ig := buildIG(fn)
			isApp := func(in ssa.Instruction) bool {
				c, ok := in.(*ssa.Call)
				if !ok || calleeName(c) != "builtin:append" || typeString(c.Type()) != "[]*option.Option" {
					return false
				}
				els, _, _ := elementsOf(c.Call.Args[1], map[ssa.Value]bool{})
				return len(els) == 1 && sameLoad(els[0], elem)
			}
			okAll, _ := ig.mustPass(ig.edgeStart(hdr, 0), isApp, func(in ssa.Instruction) bool { return in.Block() == hdr && in == hdr.Instrs[0] })
			if !okAll {
				good, why = false, "an option can be dropped from both lists"
			}
		}
		ru.Check(good, name+"/partition", w.IPos(hdr.Instrs[0]), "if IsRequired { required } else { normal }", "the required/normal partition is not total: "+why)
		// both lists start as fresh empty slices: nothing of the caller's list is overwritten (helpOutput hands the same
		// list to Synopsis and OptionList; sorting or compacting it in place would change what the other section shows)
		for _, acc := range accs {
			fresh := true
			for i, e := range acc.Edges {
				if hdr.Dominates(hdr.Preds[i]) {
					continue // back edge
				}
				els, spreads, ok := elementsOf(e, map[ssa.Value]bool{})
				if !ok || len(spreads) > 0 || len(els) > 0 {
					fresh = false
				}
				if sl, isSl := e.(*ssa.Slice); isSl {
					if _, isAlloc := rootOfAddr(sl.X).(*ssa.Alloc); !isAlloc {
						fresh = false
					}
				}
			}
			ru.Check(fresh, name+"/list-fresh/"+acc.Comment, w.IPos(acc), "starts as a fresh empty slice", "list "+acc.Comment+" is built inside the caller's slice: the option list shared with the other help sections is overwritten")
		}
		// both accumulators sorted and rendered
		for _, acc := range accs {
			sorted := false
			rendered := false
			// the value after the loop is the phi itself
			for _, ref := range *acc.Referrers() {
				if c, ok := ref.(*ssa.Call); ok && calleeName(c) == "option.Sort" {
					sorted = true
				}
			}
			rendered = usedByRenderLoop(fn, acc)
			ru.Check(sorted && rendered, name+"/list/"+acc.Comment, w.IPos(acc), "sorted and rendered", fmt.Sprintf("list %s: sorted=%v rendered=%v (options of that class would be missing or unordered)", acc.Comment, sorted, rendered))
		}
	}
}

// written returns the view of the tree without helper normalisation.
func (w *World) written() *World {
	if w.AsWritten != nil {
		return w.AsWritten
	}
	return w
}

// elementRenderers: the functions (closures or same-package functions) that fn calls inside a range loop with the
// loop element (or its address) as an argument, where the element has type elemType.
func elementRenderers(w *World, fn *ssa.Function, elemType string) []*ssa.Function {
	var out []*ssa.Function
	seen := map[*ssa.Function]bool{}
	for _, h := range loopHeaders(fn) {
		elem := rangeElem(h)
		if elem == nil {
			continue
		}
		for b := range naturalLoop(h) {
			for _, in := range b.Instrs {
				c, ok := in.(*ssa.Call)
				if !ok {
					continue
				}
				var target *ssa.Function
				switch v := c.Call.Value.(type) {
				case *ssa.Function:
					target = v
				case *ssa.MakeClosure:
					target, _ = v.Fn.(*ssa.Function)
				default:
					// a call through a local variable holding a closure of fn
					for _, leaf := range phiLeaves(c.Call.Value, map[ssa.Value]bool{}) {
						if mc, ok := leaf.(*ssa.MakeClosure); ok {
							target, _ = mc.Fn.(*ssa.Function)
						}
						if f, ok := leaf.(*ssa.Function); ok {
							target = f
						}
					}
				}
				if target == nil || target.Blocks == nil || w.PkgOfFn(target) == nil || seen[target] {
					continue
				}
				for i, a := range c.Call.Args {
					isElem := a == elem
					if al, ok := a.(*ssa.Alloc); ok {
						for _, sv := range storesInto(al) {
							if sv == elem {
								isElem = true
							}
						}
					}
					if isElem && i < len(target.Params) && typeString(target.Params[i].Type()) == elemType {
						seen[target] = true
						out = append(out, target)
					}
				}
			}
		}
	}
	return out
}

// sameLoad: the same value, or two loads of the same slice element x[i] (same slice value, same index value; go/ssa
// does not merge repeated reads).
func sameLoad(a, b ssa.Value) bool {
	if a == b {
		return true
	}
	ua, ok1 := a.(*ssa.UnOp)
	ub, ok2 := b.(*ssa.UnOp)
	if !ok1 || !ok2 || ua.Op != token.MUL || ub.Op != token.MUL {
		return false
	}
	ia, ok1 := ua.X.(*ssa.IndexAddr)
	ib, ok2 := ub.X.(*ssa.IndexAddr)
	return ok1 && ok2 && ia.X == ib.X && ia.Index == ib.Index
}

// usedByRenderLoop: the list (or an append of it) is ranged over and a closure is called on each element.
func usedByRenderLoop(fn *ssa.Function, list ssa.Value) bool {
	cands := []ssa.Value{list}
	for _, ref := range *list.Referrers() {
		if c, ok := ref.(*ssa.Call); ok && calleeName(c) == "builtin:append" {
			cands = append(cands, c)
		}
		// slices.Concat(required, normal): the list travels inside the variadic argument
		if st, ok := ref.(*ssa.Store); ok && st.Val == list {
			if a, ok := rootOfAddr(st.Addr).(*ssa.Alloc); ok {
				if sl := sliceOfAlloc(a); sl != nil && sl.Referrers() != nil {
					for _, r2 := range *sl.Referrers() {
						if c, ok := r2.(*ssa.Call); ok && calleeBase(c) == "slices.Concat" {
							cands = append(cands, c)
						}
					}
				}
			}
		}
	}
	for _, h := range loopHeaders(fn) {
		coll := rangeCollectionOfHeader(h)
		for _, cnd := range cands {
			if coll != cnd {
				continue
			}
			elem := rangeElem(h)
			for b := range naturalLoop(h) {
				for _, in := range b.Instrs {
					if c, ok := in.(*ssa.Call); ok && strings.HasPrefix(calleeName(c), "dyn:") || ok && strings.Contains(calleeName(c), "$") {
						for _, a := range c.Call.Args {
							if a == elem {
								return true
							}
						}
					}
					// a same-package renderer function, or the renderer's body inlined in the loop (reads the element's synopsis)
					if c, ok := in.(*ssa.Call); ok {
						if callee := c.Call.StaticCallee(); callee != nil && callee.Pkg == fn.Pkg {
							for _, a := range c.Call.Args {
								if a == elem {
									return true
								}
							}
						}
					}
					if fa, ok := in.(*ssa.FieldAddr); ok && fa.X == elem && fieldOfAddr(fa).Name() == "HelpSynopsis" {
						return true
					}
				}
			}
		}
	}
	return false
}

func rC18Routes(w *World, r *Report) {
	ru := r.Rule("R18.4", "one renderer: help.Name / Synopsis / CommandList / OptionList are called only by helpOutput; Help(), Dispatch and the help command all print helpOutput of a node (or Help()) with no other text source", 6)
	for _, fn := range w.Funcs {
		for _, c := range allCalls(fn) {
			n := calleeName(c)
			switch n {
			case "help.Name", "help.Synopsis", "help.CommandList", "help.OptionList":
				ru.Check(short(fn) == "getoptions.helpOutput", "renderer-caller/"+n, w.IPos(c), "called by helpOutput", "help section rendered outside helpOutput: the routes would differ")
			}
		}
	}
	help := w.Fn("(*getoptions.GetOpt).Help")
	if help != nil {
		good := true
		eachInstr(help, func(in ssa.Instruction) {
			if ret, ok := in.(*ssa.Return); ok {
				c, ok := ret.Results[0].(*ssa.Call)
				if !ok || calleeName(c) != "getoptions.helpOutput" || c.Call.Args[1] != ssa.Value(help.Params[1]) {
					good = false
				}
			}
		})
		ru.Check(good, "route/Help", w.Pos(help.Pos()), "Help() = helpOutput(node, sections…)", "Help() does not return helpOutput of the node")
	}
	// every write of help text to Writer in Dispatch / runHelp is helpOutput(...) or gopt.Help()
	for _, name := range []string{nDispatch, "getoptions.runHelp"} {
		fn := w.Fn(name)
		if fn == nil {
			continue
		}
		for _, c := range allCalls(fn) {
			// help text is written with fmt.Fprint only: the text is data, never a format
			if cn := calleeName(c); strings.HasPrefix(cn, "fmt.Fp") && cn != "fmt.Fprint" && len(c.Common().Args) > 1 && isLoadOfGlobal(c.Common().Args[0], "getoptions.Writer") {
				usesHelp := false
				for _, a := range c.Common().Args[1:] {
					p := NewProv(w, fn)
					p.opaque["getoptions.helpOutput"] = true
					p.opaque["(*getoptions.GetOpt).Help"] = true
					p.Slice(a)
					for _, o := range p.Ops {
						if o.Kind == "call:getoptions.helpOutput" || o.Kind == "call:(*getoptions.GetOpt).Help" {
							usesHelp = true
						}
					}
				}
				if usesHelp {
					ru.Bad("route/"+name+"/printer", w.IPos(c), "help text is written with "+cn+" on this route (as a format or with an added line end): the routes print different text")
				}
			}
			if calleeName(c) != "fmt.Fprint" || !isLoadOfGlobal(c.Common().Args[0], "getoptions.Writer") {
				continue
			}
			els, _, _ := elementsOf(c.Common().Args[1], map[ssa.Value]bool{})
			good := len(els) == 1
			if good {
				v := els[0]
				if mi, ok := v.(*ssa.MakeInterface); ok {
					v = mi.X
				}
				hc, ok := v.(*ssa.Call)
				good = ok && (calleeName(hc) == "getoptions.helpOutput" && isNilConst(hc.Call.Args[1]) || calleeName(hc) == "(*getoptions.GetOpt).Help")
			}
			ru.Check(good, "route/"+name, w.IPos(c), "prints helpOutput(node) / Help() unmodified", "a help route prints something other than the common renderer's text")
		}
	}
}

func rC18Commands(w *World, r *Report) {
	ru := r.Rule("R18.5", "command lists in helpOutput skip only the help command (Name == HelpCommandName) and take name and description from the command's own node", 2)
	fn := w.Fn("getoptions.helpOutput")
	if fn == nil {
		ru.Undecided("anchor", "-", "helpOutput not found")
		return
	}
	fCC := w.Field("getoptions", "programTree", "ChildCommands")
	n := 0
	for _, h := range loopHeaders(fn) {
		isCmds := false
		var val ssa.Value
		for _, in := range h.Instrs {
			if nx, ok := in.(*ssa.Next); ok {
				if rg, ok := nx.Iter.(*ssa.Range); ok {
					if b, ok := loadOfField(rg.X, fCC); ok && b == ssa.Value(fn.Params[0]) {
						isCmds = true
						for _, ref := range *nx.Referrers() {
							if ex, ok := ref.(*ssa.Extract); ok && ex.Index == 2 {
								val = ex
							}
						}
					}
				}
			}
		}
		if !isCmds {
			continue
		}
		n++
		good := true
		for b := range naturalLoop(h) {
			if iff, ok := b.Instrs[len(b.Instrs)-1].(*ssa.If); ok && b != h {
				okCond := false
				for _, f := range condFacts(iff.Cond, true, iff) {
					if f.Y != nil && (f.Op == token.EQL || f.Op == token.NEQ) {
						b1, n1 := loadOfFieldNamed(f.X, "Name")
						_, n2 := loadOfFieldNamed(f.Y, "HelpCommandName")
						if n1 && n2 && b1 == val {
							okCond = true
						}
					}
				}
				if !okCond {
					good = false
				}
			}
		}
		ru.Check(good, "command-scan/filter", w.IPos(h.Instrs[0]), "only the help command is hidden", "commands other than the help command can be hidden from the help")
	}
	if n < 2 {
		ru.Bad("command-scan", w.Pos(fn.Pos()), fmt.Sprintf("%d scans of the node's commands, expected the synopsis and the command list", n))
	}
}

func rC18Fields(w *World, r *Report) {
	const text = "the per-option help line prints HelpSynopsis and Description for every option, DefaultStr for every non-required option and EnvVar on both branches"
	sub := NewReport(r.Prop)
	rC18FieldsOn(w, sub, text, false)
	bad := false
	for _, o := range sub.Obls {
		if o.Status != stOK {
			bad = true
		}
	}
	if bad {
		// the line assembled by OptionList itself from helpers that take the option's texts, not the option
		sub2 := NewReport(r.Prop)
		rC18FieldsOn(w, sub2, text, true)
		clean := len(sub2.Obls) > 0
		for _, o := range sub2.Obls {
			if o.Status != stOK {
				clean = false
			}
		}
		if clean {
			sub = sub2
		}
	}
	ru := r.Rule("R18.6", text, 4)
	for _, o := range sub.Obls {
		ru.add(o.Status, o.Key, o.Pos, o.Detail, o.NonTrivial)
	}
}

func rC18FieldsOn(w *World, r *Report, text string, spread bool) {
	ru := r.Rule("R18.6", text, 4)
	// the per-option renderer: the closure (or function) OptionList calls on every element of its option lists
	w = w.written()
	var fn *ssa.Function
	var fns []*ssa.Function
	ol := w.Fn("help.OptionList")
	if ol != nil {
		rs := elementRenderers(w, ol, "*option.Option")
		if len(rs) == 1 {
			fn = rs[0]
		}
		if spread && len(rs) >= 1 {
			fn = rs[0]
			fns = append(fns, rs...)
		}
	}
	if fn == nil {
		ru.Undecided("anchor", "-", "per-option renderer (the function OptionList calls on each option) not found")
		return
	}
	if !spread {
		fns = []*ssa.Function{fn}
	}
	inSet := func(f *ssa.Function) bool {
		for _, g := range fns {
			if g == f {
				return true
			}
		}
		return f == ol && spread
	}
	reads := map[string][]ssa.Instruction{}
	for _, f := range fns {
		eachInstr(f, func(in ssa.Instruction) {
			if fa, ok := in.(*ssa.FieldAddr); ok && isOptionPtr(fa.X.Type()) {
				reads[fieldOfAddr(fa).Name()] = append(reads[fieldOfAddr(fa).Name()], in)
			}
		})
	}
	if spread {
		// in OptionList itself: only texts of the option that are handed to a function of the package (the line builder)
		eachInstr(ol, func(in ssa.Instruction) {
			fa, ok := in.(*ssa.FieldAddr)
			if !ok || !isOptionPtr(fa.X.Type()) || fa.Referrers() == nil {
				return
			}
			for _, ref := range *fa.Referrers() {
				ld, ok := ref.(*ssa.UnOp)
				if !ok || ld.Op != token.MUL || ld.Referrers() == nil {
					continue
				}
				for _, use := range *ld.Referrers() {
					if c, ok := use.(*ssa.Call); ok {
						if cal := c.Call.StaticCallee(); cal != nil && w.PkgOfFn(cal) != nil {
							reads[fieldOfAddr(fa).Name()] = append(reads[fieldOfAddr(fa).Name()], in)
						}
					}
				}
			}
		})
	}
	isReqFact := func(b *ssa.BasicBlock, want bool) bool {
		for _, f := range factsAt(b) {
			if f.Op == token.ILLEGAL && f.Truth == want {
				if _, ok := loadOfFieldNamed(f.X, "IsRequired"); ok {
					return true
				}
			}
		}
		return false
	}
	ru.Check(len(reads["HelpSynopsis"]) > 0, "line/HelpSynopsis", w.Pos(fn.Pos()), "synopsis printed", "the option's synopsis (names, aliases, argument) is not printed")
	ru.Check(len(reads["Description"]) > 0, "line/Description", w.Pos(fn.Pos()), "description printed", "the description is not printed")
	okDef := false
	for _, in := range reads["DefaultStr"] {
		if isReqFact(in.Block(), false) {
			okDef = true
		}
	}
	ru.Check(okDef, "line/DefaultStr", w.Pos(fn.Pos()), "default shown for non-required options", "the default of non-required options is not shown")
	envReq, envNorm := false, false
	for _, f := range fns {
		for _, c := range callsTo(f, "fmt.Sprintf") {
			call := c.(*ssa.Call)
			if !mentionsFieldArgs(w, f, call, "EnvVar") {
				continue
			}
			if isReqFact(call.Block(), true) {
				envReq = true
			}
			if isReqFact(call.Block(), false) {
				envNorm = true
			}
		}
	}
	// written with + or a Builder instead of Sprintf: the variable's name is read and used for something other than a test
	for _, in := range reads["EnvVar"] {
		fa := in.(*ssa.FieldAddr)
		if fa.Referrers() == nil {
			continue
		}
		for _, ref := range *fa.Referrers() {
			ld, ok := ref.(*ssa.UnOp)
			if !ok || ld.Op != token.MUL || ld.Referrers() == nil {
				continue
			}
			for _, use := range *ld.Referrers() {
				isTest := false
				if bo, ok := use.(*ssa.BinOp); ok && (bo.Op == token.EQL || bo.Op == token.NEQ) {
					isTest = true
				}
				if _, isDbg := use.(*ssa.DebugRef); isDbg || isTest {
					continue
				}
				if isReqFact(use.Block(), true) {
					envReq = true
				}
				if isReqFact(use.Block(), false) {
					envNorm = true
				}
				// used where nothing was decided on IsRequired: shown for required and non-required options alike
				if spread && !isReqFact(use.Block(), true) && !isReqFact(use.Block(), false) {
					envReq, envNorm = true, true
				}
			}
		}
	}
	// nothing else decides whether they are shown: the default is printed for every non-required option (an empty
	// one included) and the variable for every bound option
	extraCond := func(b *ssa.BasicBlock, allowEnvTest bool) string {
		for _, f := range factsAt(b) {
			if f.If == nil || !inSet(f.If.Parent()) {
				continue
			}
			if f.Op == token.ILLEGAL {
				if _, ok := loadOfFieldNamed(f.X, "IsRequired"); ok {
					continue
				}
			}
			if allowEnvTest && f.Op == token.NEQ && f.Y != nil {
				x, y := f.X, f.Y
				if _, isC := constString(x); isC {
					x, y = y, x
				}
				if _, ok := loadOfFieldNamed(x, "EnvVar"); ok && isConstStr(y, "") {
					continue
				}
			}
			return w.IPos(f.If)
		}
		return ""
	}
	for _, in := range reads["DefaultStr"] {
		if !isReqFact(in.Block(), false) {
			continue
		}
		at := extraCond(in.Block(), false)
		ru.Check(at == "", "line/DefaultStr-unconditional", w.IPos(in), "shown for every non-required option", "the default is shown only under an extra condition ("+at+"): some non-required options lose their default (and whatever is printed with it)")
	}
	for _, c := range callsTo(fn, "fmt.Sprintf") {
		call := c.(*ssa.Call)
		if spread || !mentionsFieldArgs(w, fn, call, "EnvVar") {
			continue
		}
		at := extraCond(call.Block(), true)
		ru.Check(at == "", "line/EnvVar-unconditional", w.IPos(call), "shown for every bound option", "the environment variable is shown only under an extra condition ("+at+")")
	}
	// printing: a Sprintf with the env format on both branches
	ru.Check(envReq && envNorm, "line/EnvVar", w.Pos(fn.Pos()), "environment variable shown on both branches", fmt.Sprintf("the bound environment variable is not shown for every option (required branch=%v, normal branch=%v)", envReq, envNorm))
}

func rC18Freshness(w *World, r *Report) {
	ru := r.Rule("R18.7", "derived-field freshness: HelpSynopsis is derived from Aliases, HelpArgName, OptType and MaxArgs; every function that writes one of them (other than option.New, which ends with Synopsis()) calls Synopsis() on the same record afterwards on every path; Synopsis() lists every alias", 6)
	syn := w.Fn("(*option.Option).Synopsis")
	if syn == nil {
		ru.Undecided("anchor", "-", "Synopsis not found")
		return
	}
	// inputs actually read by Synopsis
	inputs := map[string]bool{}
	eachInstr(syn, func(in ssa.Instruction) {
		if fa, ok := in.(*ssa.FieldAddr); ok && fa.X == ssa.Value(syn.Params[0]) {
			for _, ref := range *fa.Referrers() {
				if u, ok := ref.(*ssa.UnOp); ok && u.Op == token.MUL {
					inputs[fieldOfAddr(fa).Name()] = true
				}
			}
		}
	})
	delete(inputs, "HelpSynopsis")
	for name := range inputs {
		f := w.Field("option", "Option", name)
		for _, u := range w.fieldUses(f) {
			if u.Kind != "write" {
				continue
			}
			fn := u.Fn
			key := "writer/" + name + "/" + short(fn)
			if short(fn) == "option.New" {
				// New ends with Synopsis()
				ig := buildIG(fn)
				ok, _ := ig.mustPass(ig.after(u.Instr), func(in ssa.Instruction) bool {
					c, ok := in.(*ssa.Call)
					return ok && calleeName(c) == "(*option.Option).Synopsis"
				}, func(in ssa.Instruction) bool { _, r := in.(*ssa.Return); return r })
				ru.Check(ok, key, w.IPos(u.Instr), "New computes the synopsis last", "option.New can return without computing the synopsis")
				continue
			}
			if name == "Aliases" {
				st := u.Instr.(*ssa.Store)
				grows := false
				if c, ok := st.Val.(*ssa.Call); ok && calleeName(c) == "builtin:append" {
					if b, ok := loadOfFieldNamed(c.Call.Args[0], "Aliases"); ok && b == u.Addr.X {
						if len(c.Call.Args) == 2 {
							if _, isParam := c.Call.Args[1].(*ssa.Parameter); isParam {
								grows = true
							}
						}
					}
				}
				ru.Check(grows, "writer/Aliases/append-only/"+short(fn), w.IPos(st), "Aliases = append(Aliases, alias...)", "the alias list is rebuilt or filtered instead of extended with the given aliases: some aliases disappear from the help")
			}
			base := u.Addr.X
			ig := buildIG(fn)
			ok, _ := ig.mustPass(ig.after(u.Instr), func(in ssa.Instruction) bool {
				c, ok := in.(*ssa.Call)
				return ok && calleeName(c) == "(*option.Option).Synopsis" && c.Call.Args[0] == base
			}, func(in ssa.Instruction) bool { _, r := in.(*ssa.Return); return r })
			ru.Check(ok, key, w.IPos(u.Instr), "Synopsis() recomputed afterwards", "writes "+name+" without recomputing HelpSynopsis: the help would show a stale synopsis (e.g. missing aliases or `...`)")
		}
	}
	// Synopsis ranges over all aliases, every iteration appends
	var hdr *ssa.BasicBlock
	for _, h := range loopHeaders(syn) {
		if coll := rangeCollectionOfHeader(h); coll != nil {
			if _, ok := loadOfFieldNamed(coll, "Aliases"); ok {
				hdr = h
			}
		}
	}
	if hdr == nil {
		ru.Bad("Synopsis/aliases", w.Pos(syn.Pos()), "Synopsis does not range over the aliases")
		return
	}
	ig := buildIG(syn)
	okAll, _ := ig.mustPass(ig.edgeStart(hdr, 0), func(in ssa.Instruction) bool {
		c, ok := in.(*ssa.Call)
		// collected in a list that is joined afterwards, or written straight into a Builder
		return ok && (calleeName(c) == "builtin:append" || calleeName(c) == "(*strings.Builder).WriteString")
	}, func(in ssa.Instruction) bool { return in.Block() == hdr && in == hdr.Instrs[0] })
	for b := range naturalLoop(hdr) {
		for _, sc := range b.Succs {
			if !naturalLoop(hdr)[sc] && b != hdr {
				okAll = false
			}
		}
	}
	joined := len(callsTo(syn, "strings.Join")) > 0 || len(callsTo(syn, "(*strings.Builder).String")) > 0
	ru.Check(okAll && joined, "Synopsis/aliases", w.IPos(hdr.Instrs[0]), "every alias is listed", "some aliases are left out of the synopsis")
}

// R17.5: the scans that produce candidates are unconditional within their section, and value candidates are whole-word filtered.
func rC17Sections(w *World, r *Report) {
	ru := r.Rule("R17.5", "section structure: for an option-looking last word every path to the return passes the scan over the level's option names; otherwise every path passes the scan over the level's commands and over its static suggestions; candidates built from an option's suggested values are appended inline under strings.HasPrefix(\"--name=value\", typed word) (a helper or a filter on the value part alone is not accepted)", 5)
	m := parserOrFail(w, ru)
	if m == nil {
		return
	}
	// the section test: strings.HasPrefix(iterator.Value(), "-") in the completion region
	var secIf *ssa.If
	for _, b := range m.fn.Blocks {
		if !m.inCompletionOnly(b) {
			continue
		}
		if iff, ok := b.Instrs[len(b.Instrs)-1].(*ssa.If); ok {
			if c, ok := iff.Cond.(*ssa.Call); ok && calleeName(c) == "strings.HasPrefix" && m.fromTyped(c.Call.Args[0]) && isConstStr(c.Call.Args[1], "-") {
				if secIf == nil || b.Dominates(secIf.Block()) {
					secIf = iff
				}
			}
		}
	}
	if secIf == nil {
		ru.Undecided("section-test", w.Pos(m.fn.Pos()), "test of the last word for a leading dash not found in the completion block")
		return
	}
	fSug := w.Field("getoptions", "programTree", "Suggestions")
	isRet := func(in ssa.Instruction) bool { _, ok := in.(*ssa.Return); return ok }
	scanOf := func(f *types.Var) func(ssa.Instruction) bool {
		return func(in ssa.Instruction) bool {
			if rg, ok := in.(*ssa.Range); ok {
				if b, ok := loadOfField(rg.X, f); ok && b == ssa.Value(m.cursorPhi) {
					return true
				}
			}
			// the keys collected through the iterator helpers: maps.Keys(cursor.f)
			if c, ok := in.(*ssa.Call); ok && calleeBase(c) == "maps.Keys" {
				if b, ok := loadOfField(c.Call.Args[0], f); ok && b == ssa.Value(m.cursorPhi) {
					return true
				}
			}
			return false
		}
	}
	sugScan := func(in ssa.Instruction) bool {
		// header of the rangeindex loop over cursor.Suggestions: its first instruction
		b := in.Block()
		if coll := rangeCollectionOfHeader(b); coll != nil && in == b.Instrs[0] {
			if base, ok := loadOfField(coll, fSug); ok && base == ssa.Value(m.cursorPhi) {
				return true
			}
		}
		return false
	}
	okOpt, _ := m.ig.mustPass(m.ig.edgeStart(secIf.Block(), 0), scanOf(m.fChildOptions), isRet)
	ru.Check(okOpt, "section/options", w.IPos(secIf), "option-looking word ⇒ the option names of the level are scanned", "for an option-looking word the scan over the level's option names can be skipped")
	okCmd, _ := m.ig.mustPass(m.ig.edgeStart(secIf.Block(), 1), scanOf(m.fChildCommands), isRet)
	ru.Check(okCmd, "section/commands", w.IPos(secIf), "plain word ⇒ the commands of the level are scanned", "the scan over the level's commands can be skipped (e.g. when the word already equals a command): other commands with that prefix are not offered")
	okSug, _ := m.ig.mustPass(m.ig.edgeStart(secIf.Block(), 1), sugScan, isRet)
	ru.Check(okSug, "section/suggestions", w.IPos(secIf), "plain word ⇒ the static suggestions are scanned", "the static argument suggestions can be skipped")
	// value candidates
	n := 0
	eachInstr(m.fn, func(in ssa.Instruction) {
		c, ok := in.(*ssa.Call)
		if !ok || !m.inCompletionOnly(in.Block()) || calleeName(c) != "builtin:append" || typeString(c.Type()) != "[]string" || len(c.Call.Args) != 2 {
			return
		}
		els, spreads, _ := elementsOf(c.Call.Args[1], map[ssa.Value]bool{})
		// a list collected by appends of its own (an inlined helper's result appended whole): its elements are
		// judged where they are appended to that list, each of those appends being visited here as well
		switch a1 := c.Call.Args[1].(type) {
		case *ssa.Phi:
			els = nil
		case *ssa.Call:
			if calleeName(a1) == "builtin:append" {
				els = nil
			}
		}
		for _, sp := range spreads {
			if call, ok := sp.(*ssa.Call); ok {
				cn := calleeName(call)
				if strings.HasPrefix(cn, "dyn:getoptions.ArgCompletionsFn") {
					continue // the user's own completion function for arguments
				}
				if h := call.Call.StaticCallee(); h != nil && h.Blocks != nil && w.PkgOfFn(h) != nil {
					continue // analysed as a helper below
				}
				ru.Undecided("value-candidates/helper", w.IPos(c), "candidates produced by "+cn+" are appended wholesale: the whole-word prefix filter cannot be established")
			}
		}
		for _, e := range els {
			p := NewProv(w, m.fn)
			p.maxDepth = 0
			p.Slice(e)
			fromValues := false
			for _, s := range p.Srcs {
				if s.Kind == "field" && s.Field != nil && s.Field.Name() == "SuggestedValues" {
					fromValues = true
				}
			}
			for _, o := range p.Ops {
				if strings.HasPrefix(o.Kind, "call:dyn:option.ValueCompletionsFn") {
					fromValues = true
				}
			}
			if !fromValues {
				continue
			}
			// the hint appended after a single candidate (completions[0]+e) is not a candidate filter site
			hint := false
			for _, o := range p.Ops {
				if o.Kind == "binop:+" {
					hint = true
				}
			}
			if _, isNV := dashNameValue(e); hint && !isNV {
				continue
			}
			n++
			guarded := false
			spelled := true
			for _, f := range factsAt(c.Block()) {
				if f.Op == token.ILLEGAL && f.Truth {
					if hc, ok := f.X.(*ssa.Call); ok && calleeName(hc) == "strings.HasPrefix" && m.fromTyped(hc.Call.Args[1]) {
						if nm, ok := dashNameValue(hc.Call.Args[0]); ok {
							{
								guarded = true
								// the name written into the candidate is the table key that was matched against the typed word
								// (an alias typed by the user must be completed as that alias)
								if nm != nil {
									{
										// the same value is the second operand of a dominating strings.HasPrefix(typed name, key)
										isKey := false
										for _, f2 := range factsAt(c.Block()) {
											if f2.Op == token.ILLEGAL && f2.Truth {
												if h2, ok := f2.X.(*ssa.Call); ok && calleeName(h2) == "strings.HasPrefix" && h2.Call.Args[1] == nm {
													isKey = true
												}
											}
										}
										if !isKey {
											spelled = false
										}
									}
								}
							}
						}
					}
				}
			}
			ru.Check(spelled, "value-candidates/name-as-typed", w.IPos(c), "the candidate repeats the table key matched against the typed word", "value candidates are spelled with a name other than the one matched against the typed word: after `--alias=` nothing (or a duplicate) is offered")
			ru.Check(guarded, "value-candidates/whole-word", w.IPos(c), "appended under HasPrefix(\"--name=value\", typed word)", "a suggested value is offered without comparing the whole `--name=value` with the typed word: values of options whose name is only a prefix of the typed name leak in")
		}
	})
	// helper form: completions = h(completions, …, typed) where h appends under the whole-word prefix test
	eachInstr(m.fn, func(in ssa.Instruction) {
		c, ok := in.(*ssa.Call)
		if !ok || !m.inCompletionOnly(in.Block()) {
			return
		}
		h := c.Call.StaticCallee()
		if h == nil || h.Blocks == nil || w.PkgOfFn(h) == nil || h.Signature.Results().Len() != 1 || typeString(h.Signature.Results().At(0).Type()) != "[]string" {
			return
		}
		if cn := calleeName(c); cn == nMatcher || strings.HasPrefix(cn, "(*sliceiterator") {
			return
		}
		// parameters of h bound to the typed word at this call
		typedParams := map[ssa.Value]bool{}
		for i, a := range c.Call.Args {
			if i < len(h.Params) && m.fromTyped(a) {
				typedParams[h.Params[i]] = true
			}
		}
		apps, good := 0, true
		eachInstr(h, func(i2 ssa.Instruction) {
			ac, ok := i2.(*ssa.Call)
			if !ok || calleeName(ac) != "builtin:append" || typeString(ac.Type()) != "[]string" {
				return
			}
			apps++
			guarded := false
			for _, f := range factsAt(ac.Block()) {
				if f.Op == token.ILLEGAL && f.Truth {
					if hc, ok := f.X.(*ssa.Call); ok && calleeName(hc) == "strings.HasPrefix" && typedParams[hc.Call.Args[1]] {
						if _, ok := dashNameValue(hc.Call.Args[0]); ok {
							guarded = true
						}
					}
				}
			}
			if !guarded {
				good = false
			}
		})
		if apps == 0 {
			return
		}
		n++
		ru.Check(good, "value-candidates/helper-whole-word", w.IPos(c), "helper "+short(h)+" appends only under HasPrefix(\"--name=value\", typed word)", "helper "+short(h)+" offers values without comparing the whole `--name=value` with the typed word")
	})
	if n == 0 {
		ru.Bad("value-candidates", w.Pos(m.fn.Pos()), "no value candidates found")
	}
}

// R18.8: synopsis arms render through the bracket wrapper only.
func rC18SynopsisArms(w *World, r *Report) {
	ru := r.Rule("R18.8", "every arm of the per-option synopsis renders wrap(opt.HelpSynopsis) (plus the constant \"...\"), where wrap is the bracket wrapper chosen from IsRequired: no arm formats brackets on its own", 1)
	w = w.written()
	var fn *ssa.Function
	if sy := w.Fn("help.Synopsis"); sy != nil {
		if rs := elementRenderers(w, sy, "*option.Option"); len(rs) == 1 {
			fn = rs[0]
		}
	}
	if fn == nil {
		ru.Undecided("anchor", "-", "per-option synopsis renderer (the function Synopsis calls on each option) not found")
		return
	}
	eachInstr(fn, func(in ssa.Instruction) {
		ret, ok := in.(*ssa.Return)
		if !ok {
			return
		}
		p := NewProv(w, fn)
		p.maxDepth = 0
		p.Slice(ret.Results[0])
		var bad []string
		for _, o := range p.Ops {
			switch {
			case o.Kind == "binop:+":
			case strings.HasPrefix(o.Kind, "call:dyn:func(s string) string"):
			case o.Kind == "call:help.wrapFn":
			case strings.HasPrefix(o.Kind, "unop:!"):
			default:
				bad = append(bad, o.Kind+" at "+w.IPos(o.Instr))
			}
		}
		for _, s := range p.Srcs {
			switch s.Kind {
			case "const", "zero", "param", "closure":
			case "field":
				if s.Field.Name() != "HelpSynopsis" && s.Field.Name() != "IsRequired" {
					bad = append(bad, "field "+s.Field.Name())
				}
			default:
				bad = append(bad, s.Kind+":"+s.Name)
			}
		}
		if len(bad) == 0 {
			ru.OK("synopsis-arm/wrap-only", w.IPos(ret), "txt is built from wrap(HelpSynopsis) and constants")
		} else {
			ru.Bad("synopsis-arm/wrap-only", w.IPos(ret), "an arm formats the option on its own (required options could appear bracketed): "+strings.Join(dedupe(bad), "; "))
		}
	})
}

// R18.9: the arguments section renders the argument list it was given.
func rC18Args(w *World, r *Report) {
	ru := r.Rule("R18.9", "OptionList renders its arguments by ranging over the `args` parameter itself (no per-argument filter): when the section is shown every declared argument is listed once", 1)
	w = w.written()
	fn := w.Fn("help.OptionList")
	if fn == nil {
		ru.Undecided("anchor", "-", "OptionList not found")
		return
	}
	argRenderers := map[*ssa.Function]bool{}
	for _, f := range elementRenderers(w, fn, "*help.SynopsisArg") {
		argRenderers[f] = true
	}
	var args *ssa.Parameter
	for _, p := range fn.Params {
		if typeString(p.Type()) == "[]help.SynopsisArg" {
			args = p
		}
	}
	n := 0
	for _, h := range loopHeaders(fn) {
		coll := rangeCollectionOfHeader(h)
		if coll == nil {
			continue
		}
		renders := false
		for b := range naturalLoop(h) {
			for _, in := range b.Instrs {
				if c, ok := in.(*ssa.Call); ok && strings.HasPrefix(calleeName(c), "dyn:func(arg *help.SynopsisArg)") || ok && calleeName(c) == "help.OptionList$2" {
					renders = true
				}
				if c, ok := in.(*ssa.Call); ok {
					if t := c.Call.StaticCallee(); t != nil && argRenderers[t] {
						renders = true
					}
					if mc, ok := c.Call.Value.(*ssa.MakeClosure); ok {
						if t, ok := mc.Fn.(*ssa.Function); ok && argRenderers[t] {
							renders = true
						}
					}
				}
			}
		}
		if !renders && len(argRenderers) == 0 {
			// no function takes the argument itself: the loop that hands the element's description to a function of
			// the package is the one that renders it
			elem := rangeElem(h)
			for b := range naturalLoop(h) {
				for _, in := range b.Instrs {
					var fld *types.Var
					var base ssa.Value
					var val ssa.Value
					switch x := in.(type) {
					case *ssa.Field:
						fld, base, val = fieldOfField(x), x.X, x
					case *ssa.UnOp:
						if fa, ok := x.X.(*ssa.FieldAddr); ok && x.Op == token.MUL {
							fld, base, val = fieldOfAddr(fa), fa.X, x
						}
					}
					if fld == nil || fld.Name() != "Description" || val.Referrers() == nil || !strings.Contains(typeString(base.Type()), "help.SynopsisArg") {
						continue
					}
					fromElem := base == elem
					if al, ok := base.(*ssa.Alloc); ok {
						for _, sv := range storesInto(al) {
							if sv == elem {
								fromElem = true
							}
						}
					}
					if !fromElem {
						continue
					}
					for _, use := range *val.Referrers() {
						if c, ok := use.(*ssa.Call); ok {
							if cal := c.Call.StaticCallee(); cal != nil && w.PkgOfFn(cal) != nil {
								renders = true
							}
						}
					}
				}
			}
		}
		if !renders {
			continue
		}
		n++
		okColl := coll == ssa.Value(args)
		noFilter := true
		for b := range naturalLoop(h) {
			if _, ok := b.Instrs[len(b.Instrs)-1].(*ssa.If); ok && b != h {
				noFilter = false
			}
		}
		ru.Check(okColl && noFilter, "arguments/render-loop", w.IPos(h.Instrs[0]), "range over args, unfiltered", "the ARGUMENTS section is rendered from a filtered copy: some declared arguments are not listed")
	}
	if n == 0 {
		ru.Bad("arguments/render-loop", w.Pos(fn.Pos()), "no loop renders the arguments")
	}
}

// optionListBuilder: the function that builds the list of options handed to the help renderers: helpOutput itself,
// or a same-package helper it calls with its node and whose result it passes on.
func optionListBuilder(w *World) *ssa.Function {
	ho := w.Fn("getoptions.helpOutput")
	if ho == nil {
		return nil
	}
	hasScan := func(fn *ssa.Function) bool {
		found := false
		fCO := w.Field("getoptions", "programTree", "ChildOptions")
		eachInstr(fn, func(in ssa.Instruction) {
			if rg, ok := in.(*ssa.Range); ok {
				if b, ok := loadOfField(rg.X, fCO); ok && len(fn.Params) > 0 && b == ssa.Value(fn.Params[0]) {
					found = true
				}
			}
		})
		return found
	}
	if hasScan(ho) {
		return ho
	}
	for _, c := range allCalls(ho) {
		callee := c.Common().StaticCallee()
		if callee == nil || callee.Blocks == nil || w.PkgOfFn(callee) == nil {
			continue
		}
		if len(c.Common().Args) == 1 && c.Common().Args[0] == ssa.Value(ho.Params[0]) && typeString(callee.Signature.Results().At(0).Type()) == "[]*option.Option" && hasScan(callee) {
			return callee
		}
	}
	return ho
}

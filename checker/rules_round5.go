package main

// rules_round5.go - rules added after the fifth round of independently seeded changes, which were placed outside the
// well-known functions: setters, constructors, small helpers, configuration methods, tables.

import (
	"fmt"
	"go/token"
	"go/types"
	"strings"

	"golang.org/x/tools/go/ssa"
)

var _ types.Type

func init() {
	addRules("C01", rSetterUnconditional("R01.13"), rFieldWriters("R01.14", "option", "Option", "ValidValues",
		"the set of accepted values is declared by the ValidValues modifier only (a suggestion never restricts what the program reads)",
		"(*getoptions.GetOpt).ValidValues$"))
	addRules("C01", func(w *World, r *Report) {
		subRule(w, r, rC06Definers, "R01.15", "default plus occurrences / default kept: every definer stores the declared default through the pointer before the record is built (same obligations as C06 R06.5)", 24)
	})
	addRules("C12", rSetterUnconditional("R12.9"))
	addRules("C02", rSetterUnconditional("R02.13"), rArgCountWriters("R02.12"))
	addRules("C03", func(w *World, r *Report) {
		subRule(w, r, rC10CopyOptions, "R03.12", "what follows `help` is not interpreted with the level's options: the help command never receives them (same obligations as C10 R10.5)", 3)
	})
	addRules("C04", rIteratorPeek("R04.10"))
	addRules("C03", rIteratorPeek("R03.13"))
	addRules("C05", func(w *World, r *Report) {
		subRule(w, r, rC18TableWriters, "R05.10", "the names an abbreviation is matched against are the declared ones: parsing never adds entries to the option table (same obligations as C18 R18.13)", 2)
	}, func(w *World, r *Report) {
		subRule(w, r, rC10CopyOptions, "R05.11", "every level knows the names it inherited: option inheritance reaches every command (same obligations as C10 R10.5)", 3)
	})
	addRules("C10", func(w *World, r *Report) {
		subRule(w, r, rC18TableWriters, "R10.11", "an unknown token never becomes an option that swallows a command name (same obligations as C18 R18.13)", 2)
	}, rCommandTableKeys("R10.12"))
	addRules("C09", rCommandTableKeys("R09.9"))
	addRules("C07", rUnknownRecordName("R07.8"), func(w *World, r *Report) {
		subRule(w, r, rC09Readers, "R07.9", "the parsing mode does not change where parsing stops: nothing but SetRequireOrder writes requireOrder (same obligations as C09 R09.3)", 3)
	}, func(w *World, r *Report) {
		subRule(w, r, rC01Regex, "R07.10", "a token and its documented rewriting are both recognised: the value part of the tokeniser expressions admits any text (same obligations as C01 R01.1)", 2)
	})
	addRules("C17", func(w *World, r *Report) {
		subRule(w, r, rC09Readers, "R17.10", "completion and parser stop at the same place: nothing but SetRequireOrder writes requireOrder (same obligations as C09 R09.3)", 3)
	}, func(w *World, r *Report) {
		subRule(w, r, rC06Definers, "R17.12", "every declared alias is registered: the definer wrappers forward their modifiers (same obligations as C06 R06.5)", 24)
	}, rAppendOnlyField("R17.11", "getoptions", "programTree", "SuggestionFns", "(*getoptions.GetOpt).ArgCompletionsFns",
		"dynamic completion functions accumulate: ArgCompletionsFns appends to the level's list, nothing replaces it"))
	addRules("C08", func(w *World, r *Report) {
		subRule(w, r, rC06Definers, "R08.13", "only declared names are known: a definer registers exactly the name it was given (same obligations as C06 R06.5)", 24)
	})
	addRules("C14", func(w *World, r *Report) {
		subRule(w, r, rC13RetriesPerVertex, "R14.10", "a task that must run does run: the retry count given to TaskRetries is stored as given (same obligations as C13 R13.9)", 1)
	}, rVertexTableNoDelete("R14.9"))
	addRules("C16", rVertexTableNoDelete("R16.13"), rErrListWriters("R16.12"))
	addRules("C13", rVertexTableNoDelete("R13.11"), rTaskIDVerbatim("R13.10"))
	addRules("C15", rFieldWriters("R15.7", "dag", "Graph", "bufferOutput",
		"output buffering is switched by SetOutputBuffer only", "(*dag.Graph).SetOutputBuffer"), rTaskMapGet("R15.8"))
	addRules("C11", rHelpTopicEquality("R11.15"))
	addRules("C20", rHelpTopicEquality("R20.7"), rSortComparator("R20.8"))
	addRules("C18", rSortComparator("R18.14"))
}

// rSetterUnconditional: the value setters of an option always store.
func rSetterUnconditional(id string) func(w *World, r *Report) {
	return func(w *World, r *Report) {
		ru := r.Rule(id, "the option's value setters always store what they are given: in every SetXxx of option.Option that writes the user's variable, the write is on every path from entry to return (no value is silently refused after it converted)", 7)
		for fn, s := range setterSummaries(w) {
			if s.kind != "param" && s.kind != "map" && s.kind != "opposite-default" {
				continue
			}
			ws := receiverWrites(fn)
			isWrite := func(in ssa.Instruction) bool {
				for _, x := range ws {
					if x.in == in {
						return true
					}
				}
				return false
			}
			ig := buildIG(fn)
			ok, _ := ig.mustPass([]int{0}, isWrite, func(in ssa.Instruction) bool { _, r := in.(*ssa.Return); return r })
			ru.Check(ok, "setter/"+short(fn), w.Pos(fn.Pos()), "stores on every path", short(fn)+" can return without storing: a value that converted correctly is dropped and the previous (default) value is kept")
		}
	}
}

// rFieldWriters: a field is written only by the named functions (prefix match for closures), or while a fresh object is built.
func rFieldWriters(id, pkg, typ, field, text string, allowed ...string) func(w *World, r *Report) {
	return func(w *World, r *Report) {
		ru := r.Rule(id, text+": "+typ+"."+field+" is written only by "+strings.Join(allowed, ", ")+" (or while a fresh "+typ+" is initialised)", 1)
		f := w.Field(pkg, typ, field)
		if f == nil {
			ru.Undecided("anchor", "-", "field "+typ+"."+field+" not found")
			return
		}
		n := 0
		for _, u := range w.fieldUses(f) {
			if u.Kind == "read" {
				continue
			}
			if _, fresh := rootOfAddr(u.Addr.X).(*ssa.Alloc); fresh && u.Kind == "write" {
				continue
			}
			n++
			name := short(u.Fn)
			good := false
			for _, a := range allowed {
				if name == a || (strings.HasSuffix(a, "$") && strings.HasPrefix(name, a)) {
					good = true
				}
			}
			ru.Check(good && u.Kind == "write", "writer/"+name, w.IPos(u.Instr), "expected writer", name+" writes "+typ+"."+field+": "+text+" no longer holds")
		}
		if n == 0 {
			ru.Bad("writer", "-", "no writer of "+typ+"."+field+" found")
		}
	}
}

// rArgCountWriters (R02.12): MinArgs / MaxArgs are fixed at definition by option.New and the four multi-value definers.
func rArgCountWriters(id string) func(w *World, r *Report) {
	return func(w *World, r *Report) {
		ru := r.Rule(id, "the bounds (min,max) of an option are the declared ones: Option.MinArgs / MaxArgs are written only by option.New (per kind) and by the four multi-value definers from their min / max parameters", 6)
		defs := map[string]bool{"(*getoptions.GetOpt).StringSliceVar": true, "(*getoptions.GetOpt).IntSliceVar": true, "(*getoptions.GetOpt).Float64SliceVar": true, "(*getoptions.GetOpt).StringMapVar": true}
		for _, fname := range []string{"MinArgs", "MaxArgs"} {
			f := w.Field("option", "Option", fname)
			if f == nil {
				ru.Undecided("anchor/"+fname, "-", "field not found")
				continue
			}
			for _, u := range w.fieldUses(f) {
				if u.Kind == "read" {
					continue
				}
				name := short(u.Fn)
				st, _ := u.Instr.(*ssa.Store)
				good := false
				switch {
				case st == nil:
				case name == "option.New":
					_, good = st.Val.(*ssa.Const)
					if !good {
						// table-driven per-kind properties
						_, _, good = tableField(w, st.Val)
					}
				case defs[name]:
					_, good = st.Val.(*ssa.Parameter)
				}
				ru.Check(good, "writer/"+fname+"/"+name, w.IPos(u.Instr), "declared bound", name+" changes "+fname+" of an option after its definition: an occurrence consumes fewer or more values than declared")
			}
		}
	}
}

// rIteratorPeek (R04.10 / R03.13): the look-ahead of the argument iterator hides nothing.
func rIteratorPeek(id string) func(w *World, r *Report) {
	return func(w *World, r *Report) {
		ru := r.Rule(id, "the argument iterator reports what is there: Value / PeekNextValue / ExistsNext decide on the position only (index against length) - no test of an element's content - so the parser's own `--` test sees every token", 3)
		n := 0
		for _, name := range []string{"Value", "PeekNextValue", "ExistsNext", "IsLast", "Next"} {
			fn := w.Fn("(*sliceiterator.Iterator)." + name)
			if fn == nil {
				ru.Undecided("anchor/"+name, "-", "not found")
				continue
			}
			n++
			bad := ""
			for _, b := range fn.Blocks {
				iff, ok := b.Instrs[len(b.Instrs)-1].(*ssa.If)
				if !ok {
					continue
				}
				p := NewProv(w, fn)
				p.Slice(iff.Cond)
				for _, s := range p.Srcs {
					// an element of the backing slice feeds a branch
					if s.Kind == "deref" || s.Kind == "field" {
						continue
					}
				}
				// direct check: the condition compares a string
				if bo, ok := iff.Cond.(*ssa.BinOp); ok {
					for _, side := range []ssa.Value{bo.X, bo.Y} {
						if bt, ok := side.Type().Underlying().(*types.Basic); ok && bt.Info()&types.IsString != 0 {
							bad = w.IPos(iff)
						}
					}
				}
				if c, ok := iff.Cond.(*ssa.Call); ok && strings.HasPrefix(calleeName(c), "strings.") {
					bad = w.IPos(iff)
				}
			}
			ru.Check(bad == "", "iterator/"+name, w.Pos(fn.Pos()), "position tests only", "(*Iterator)."+name+" branches on the content of an argument (at "+bad+"): a token such as `--` can be hidden from the parser's own tests")
		}
		_ = n
	}
}

// rCommandTableKeys (R10.12 / R09.9): commands are registered and found under their exact names.
func rCommandTableKeys(id string) func(w *World, r *Report) {
	return func(w *World, r *Report) {
		ru := r.Rule(id, "a command is selected by its exact name: AddChildCommand stores the node under exactly the name it is given (the parser compares the token with the table key for equality)", 1)
		fn := w.Fn("(*getoptions.programTree).AddChildCommand")
		fCC := w.Field("getoptions", "programTree", "ChildCommands")
		if fn == nil || fCC == nil {
			ru.Undecided("anchor", "-", "AddChildCommand / ChildCommands not found")
			return
		}
		var name ssa.Value
		for _, p := range fn.Params {
			if typeString(p.Type()) == "string" {
				name = p
			}
		}
		n := 0
		eachInstr(fn, func(in ssa.Instruction) {
			mu, ok := in.(*ssa.MapUpdate)
			if !ok {
				return
			}
			if _, ok := loadOfField(mu.Map, fCC); !ok {
				return
			}
			n++
			ru.Check(mu.Key == name, "AddChildCommand/key", w.IPos(mu), "ChildCommands[name] = node", "the command is registered under a key other than its name (folded, trimmed, …): the token the user types no longer selects it")
		})
		if n == 0 {
			ru.Bad("AddChildCommand/key", w.Pos(fn.Pos()), "AddChildCommand does not register the node")
		}
	}
}

// rUnknownRecordName (R07.8): the record of an unknown option carries the name the tokeniser produced.
func rUnknownRecordName(id string) func(w *World, r *Report) {
	return func(w *World, r *Report) {
		ru := r.Rule(id, "an unknown option is reported under the name the tokeniser produced for it: newUnknownCLIOption hands its name parameter to option.New unchanged (so `-x` and its documented rewriting are reported alike)", 1)
		fn := w.Fn(nNewUnknown)
		if fn == nil {
			ru.Undecided("anchor", "-", "newUnknownCLIOption not found")
			return
		}
		var strParams []*ssa.Parameter
		for _, p := range fn.Params {
			if typeString(p.Type()) == "string" {
				strParams = append(strParams, p)
			}
		}
		n := 0
		for _, c := range callsTo(fn, "option.New") {
			n++
			a := c.Common().Args[0]
			ru.Check(len(strParams) > 0 && a == ssa.Value(strParams[0]), "unknown-record/name", w.IPos(c), "option.New(name, …) with the name parameter itself", "the unknown option's record is named after something other than the tokeniser's name (e.g. recomputed from the verbatim token): diagnostics differ between a token and its rewriting")
		}
		if n == 0 {
			ru.Bad("unknown-record/name", w.Pos(fn.Pos()), "newUnknownCLIOption does not build a record")
		}
	}
}

// rAppendOnlyField: the field is only ever extended by its setter: f = append(f, param...).
func rAppendOnlyField(id, pkg, typ, field, setter, text string) func(w *World, r *Report) {
	return func(w *World, r *Report) {
		ru := r.Rule(id, text, 1)
		f := w.Field(pkg, typ, field)
		if f == nil {
			ru.Undecided("anchor", "-", "field not found")
			return
		}
		n := 0
		for _, u := range w.fieldUses(f) {
			if u.Kind == "read" {
				continue
			}
			if _, fresh := rootOfAddr(u.Addr.X).(*ssa.Alloc); fresh && u.Kind == "write" {
				continue
			}
			n++
			st, _ := u.Instr.(*ssa.Store)
			good := false
			if st != nil && short(u.Fn) == setter {
				if first, rest, ok := isAppendOf(st.Val, f); ok && len(rest) == 1 {
					if b, ok := loadOfField(first, f); ok && samePath(b, u.Addr.X) {
						_, good = rest[0].(*ssa.Parameter)
					}
				}
			}
			ru.Check(good, "append-only/"+short(u.Fn), w.IPos(u.Instr), field+" = append("+field+", given...)", typ+"."+field+" is replaced instead of extended: what an earlier call registered is lost")
		}
		if n == 0 {
			ru.Bad("append-only", "-", "no writer of "+typ+"."+field+" found")
		}
	}
}

// rVertexTableNoDelete: nothing is ever removed from the graph's vertex table.
func rVertexTableNoDelete(id string) func(w *World, r *Report) {
	return func(w *World, r *Report) {
		ru := r.Rule(id, "the vertex table only grows: no delete on Graph.Vertices anywhere (edges recorded earlier keep pointing at the table's current vertices, so dependencies and their dependents stay connected)", 1)
		n := 0
		for _, fn := range w.Funcs {
			if fn.Pkg == nil || shortName(fn.Pkg.Pkg.Path()) != "dag" {
				continue
			}
			for _, c := range allCalls(fn) {
				if calleeName(c) != "builtin:delete" {
					continue
				}
				if _, ok := loadOfFieldNamed(c.Common().Args[0], "Vertices"); ok {
					n++
					ru.Bad("vertices/delete/"+short(fn), w.IPos(c), "a vertex is removed from the table: edges recorded earlier point at an orphan (its dependents never become ready, or run without it)")
				}
			}
		}
		if n == 0 {
			ru.OK("vertices/no-delete", "-", "no delete on the vertex table in package dag")
		}
	}
}

// rErrListWriters (R16.12): only the definition API and Run record errors in the graph's list.
func rErrListWriters(id string) func(w *World, r *Report) {
	return func(w *World, r *Report) {
		ru := r.Rule(id, "the graph's error list is written by the definition calls and by Run only: Validate (and every other reader) leaves it alone, so a cycle is reported by Run as ErrorGraphHasCycle itself", 4)
		allowed := map[string]bool{"(*dag.Graph).TaskDependsOn": true, "(*dag.Graph).TaskRetries": true, "(*dag.Graph).Task": true, "(*dag.Graph).AddTask": true, "(*dag.Graph).addTask": true,
			"(*dag.Graph).retrieveOrAddVertex": true, "(*dag.Graph).Run": true, "(*dag.TaskMap).Add": true, "(*dag.TaskMap).Get": true}
		for _, fn := range w.Funcs {
			if fn.Pkg == nil || shortName(fn.Pkg.Pkg.Path()) != "dag" {
				continue
			}
			eachInstr(fn, func(in ssa.Instruction) {
				if _, ok := isErrListAppendAny(in); !ok {
					return
				}
				name := short(fn)
				top := name
				if i := strings.Index(top, "$"); i >= 0 {
					top = top[:i]
				}
				ru.Check(allowed[top], "errors/writer/"+name, w.IPos(in), "definition call or Run", name+" appends to an error list: validation or inspection changes what Run reports (e.g. a cycle comes back wrapped in the aggregate instead of ErrorGraphHasCycle)")
			})
		}
	}
}

// isErrListAppendAny: in stores append(x.Errors, …) into some Errors.Errors field.
func isErrListAppendAny(in ssa.Instruction) (ssa.Value, bool) {
	_, f, val, ok := storeField(in)
	if !ok || f.Name() != "Errors" {
		return nil, false
	}
	c, ok := val.(*ssa.Call)
	if !ok || calleeName(c) != "builtin:append" {
		return nil, false
	}
	return val, true
}

// rTaskIDVerbatim (R13.10): a task is identified by the ID it was given.
func rTaskIDVerbatim(id string) func(w *World, r *Report) {
	return func(w *World, r *Report) {
		ru := r.Rule(id, "a task is identified by the ID it was given: NewTask stores ID(id) of its parameter unchanged (two different IDs never collapse into one vertex)", 1)
		fn := w.Fn("dag.NewTask")
		if fn == nil {
			ru.Undecided("anchor", "-", "NewTask not found")
			return
		}
		n := 0
		eachInstr(fn, func(in ssa.Instruction) {
			_, f, v, ok := storeField(in)
			if !ok || f.Name() != "ID" {
				return
			}
			n++
			good := false
			switch x := v.(type) {
			case *ssa.Convert:
				_, good = x.X.(*ssa.Parameter)
			case *ssa.ChangeType:
				_, good = x.X.(*ssa.Parameter)
			case *ssa.Parameter:
				good = true
			}
			ru.Check(good, "NewTask/id", w.IPos(in), "ID(id)", "NewTask transforms the ID (trim, fold, …): distinct tasks can share a vertex and one of them never runs")
		})
		if n == 0 {
			ru.Bad("NewTask/id", w.Pos(fn.Pos()), "NewTask does not set the ID")
		}
	}
}

// rTaskMapGet (R15.8): the map hands out the Task it stores.
func rTaskMapGet(id string) func(w *World, r *Report) {
	return func(w *World, r *Report) {
		ru := r.Rule(id, "a Task obtained twice from a TaskMap is the same object (graphs that share it share its lock): TaskMap.Get returns the stored element when the ID is present", 1)
		fn := w.Fn("(*dag.TaskMap).Get")
		if fn == nil {
			ru.Undecided("anchor", "-", "TaskMap.Get not found")
			return
		}
		n := 0
		for _, b := range fn.Blocks {
			ret, ok := b.Instrs[len(b.Instrs)-1].(*ssa.Return)
			if !ok {
				continue
			}
			found := false
			var lk *ssa.Lookup
			for _, f := range factsAt(b) {
				if f.Op == token.ILLEGAL && f.Truth {
					if ex, ok := f.X.(*ssa.Extract); ok && ex.Index == 1 {
						if l2, ok := ex.Tuple.(*ssa.Lookup); ok {
							found, lk = true, l2
						}
					}
				}
			}
			var plain *ssa.Lookup // `if t := m[id]; t != nil`
			for _, f := range factsAt(b) {
				if f.Op == token.NEQ && f.Y != nil && isNilConst(f.Y) {
					if l2, ok := f.X.(*ssa.Lookup); ok && !l2.CommaOk {
						found, plain = true, l2
					}
				}
			}
			if !found {
				continue
			}
			n++
			good := false
			if plain != nil {
				good = ret.Results[0] == ssa.Value(plain)
			} else if ex, ok := ret.Results[0].(*ssa.Extract); ok {
				good = ex.Index == 0 && ex.Tuple == ssa.Value(lk)
			}
			ru.Check(good, "TaskMap.Get/found", w.IPos(ret), "returns the stored *Task", "TaskMap.Get returns something other than the stored Task (a copy): two graphs no longer share the task's lock and can run it at the same time")
		}
		if n == 0 {
			// single exit: the result is a variable that holds the stored element on the edge that comes from the
			// successful lookup
			for _, b := range fn.Blocks {
				ret, ok := b.Instrs[len(b.Instrs)-1].(*ssa.Return)
				if !ok || len(ret.Results) == 0 {
					continue
				}
				phi, ok := ret.Results[0].(*ssa.Phi)
				if !ok {
					continue
				}
				for i, e := range phi.Edges {
					var lk *ssa.Lookup
					for _, f := range factsAt(phi.Block().Preds[i]) {
						if f.Op == token.ILLEGAL && f.Truth {
							if ex, ok := f.X.(*ssa.Extract); ok && ex.Index == 1 {
								if l2, ok := ex.Tuple.(*ssa.Lookup); ok {
									lk = l2
								}
							}
						}
					}
					if lk == nil {
						continue
					}
					n++
					ex, ok := e.(*ssa.Extract)
					good := ok && ex.Index == 0 && ex.Tuple == ssa.Value(lk)
					ru.Check(good, "TaskMap.Get/found", w.IPos(ret), "returns the stored *Task", "TaskMap.Get returns something other than the stored Task (a copy): two graphs no longer share the task's lock and can run it at the same time")
				}
			}
		}
		if n == 0 {
			ru.Bad("TaskMap.Get/found", w.Pos(fn.Pos()), "no return under a successful lookup")
		}
	}
}

// rHelpTopicEquality (R11.15 / R20.7): a help topic is a command name, compared for equality.
func rHelpTopicEquality(id string) func(w *World, r *Report) {
	return func(w *World, r *Report) {
		ru := r.Rule(id, "the help command answers for the command whose name equals the topic (equality with the first argument, or a lookup by it): an unknown topic is an error, and which help is printed does not depend on map order", 1)
		fn := w.Fn("getoptions.runHelp")
		if fn == nil {
			ru.Undecided("anchor", "-", "runHelp not found")
			return
		}
		n := 0
		for _, c := range callsTo(fn, "getoptions.helpOutput") {
			for _, a := range phiLeaves(c.Common().Args[0], map[ssa.Value]bool{}) {
				ex, ok := a.(*ssa.Extract)
				if !ok {
					continue
				}
				switch t := ex.Tuple.(type) {
				case *ssa.Lookup:
					n++
					ru.OK("runHelp/topic", w.IPos(c), "topic looked up by key")
				case *ssa.Next:
					n++
					// the element is printed only under Name == args[i] (or key == args[i])
					good := false
					sites := []*ssa.BasicBlock{c.Block()}
					// single exit: the block where the element was chosen
					eachInstr(fn, func(in ssa.Instruction) {
						if phi, ok := in.(*ssa.Phi); ok {
							for i, e := range phi.Edges {
								if e == a {
									sites = append(sites, phi.Block().Preds[i])
								}
							}
						}
					})
					for _, sb := range sites {
						for _, f := range factsAt(sb) {
							if f.Op != token.EQL || f.Y == nil {
								continue
							}
							for _, side := range [][2]ssa.Value{{f.X, f.Y}, {f.Y, f.X}} {
								isName := false
								if b, ok := loadOfFieldNamed(side[0], "Name"); ok && b == a {
									isName = true
								}
								if k, ok := side[0].(*ssa.Extract); ok && k.Index == 1 && k.Tuple == ssa.Value(t) {
									isName = true
								}
								if !isName {
									continue
								}
								// the other side: an element of the args parameter
								if u, ok := side[1].(*ssa.UnOp); ok {
									if ia, ok := u.X.(*ssa.IndexAddr); ok {
										if _, ok := ia.X.(*ssa.Parameter); ok {
											good = true
										}
									}
								}
							}
						}
					}
					ru.Check(good, "runHelp/topic", w.IPos(c), "printed under name == topic", "a command's help is printed for a topic that is not its name (prefix / fuzzy match while ranging over a map): unknown topics are answered and the command chosen depends on map order")
				}
			}
		}
		if n == 0 {
			ru.Bad("runHelp/topic", w.Pos(fn.Pos()), "no topic help found in runHelp")
		}
	}
}

// rSortComparator (R20.8 / R18.14): option.Sort orders by name, strictly.
func rSortComparator(id string) func(w *World, r *Report) {
	return func(w *World, r *Report) {
		ru := r.Rule(id, "option lists are ordered by name alone: the comparator of option.Sort is exactly list[i].Name < list[j].Name (names are unique in the lists it is given, so the order is total and independent of the order the map produced)", 1)
		fn := w.Fn("option.Sort")
		if fn == nil {
			ru.Undecided("anchor", "-", "option.Sort not found")
			return
		}
		n := 0
		for _, c := range allCalls(fn) {
			cn := calleeName(c)
			if cb := calleeBase(c); cb == "slices.SortFunc" || cb == "slices.SortStableFunc" {
				// three-way comparator: exactly Compare(a.Name, b.Name)
				n++
				mc, ok := c.Common().Args[1].(*ssa.MakeClosure)
				var cf *ssa.Function
				if ok {
					cf, _ = mc.Fn.(*ssa.Function)
				} else {
					cf, _ = c.Common().Args[1].(*ssa.Function)
				}
				good := cf != nil && len(cf.Blocks) == 1
				ncmp := 0
				if cf != nil {
					eachInstr(cf, func(in ssa.Instruction) {
						switch x := in.(type) {
						case *ssa.Call:
							b := calleeBase(x)
							_, n1 := loadOfFieldNamed(x.Call.Args[0], "Name")
							n2 := false
							if len(x.Call.Args) > 1 {
								_, n2 = loadOfFieldNamed(x.Call.Args[1], "Name")
							}
							if (b == "cmp.Compare" || b == "strings.Compare") && n1 && n2 {
								// a.Name against b.Name, in parameter order
								a0, _ := loadOfFieldNamed(x.Call.Args[0], "Name")
								a1, _ := loadOfFieldNamed(x.Call.Args[1], "Name")
								if len(cf.Params) == 2 && a0 == ssa.Value(cf.Params[0]) && a1 == ssa.Value(cf.Params[1]) {
									ncmp++
									return
								}
							}
							good = false
						case *ssa.BinOp, *ssa.If:
							good = false
						}
					})
				}
				ru.Check(good && ncmp == 1, "Sort/comparator", w.IPos(c), "Compare(a.Name, b.Name)", "option.Sort's comparator is not a plain comparison of the names (case folding, ties, extra keys): elements it treats as equal keep the order of the map range they came from")
				continue
			}
			if cn == "sort.Sort" || cn == "sort.Stable" {
				// a named slice type implementing sort.Interface: Less is the comparator, Len and Swap the obvious ones
				n++
				good := false
				if mi, ok := c.Common().Args[0].(*ssa.MakeInterface); ok {
					good = sortInterfaceByName(w, mi.X.Type())
				}
				ru.Check(good, "Sort/comparator", w.IPos(c), "sort.Interface with Less = Name < Name", "option.Sort sorts through a sort.Interface whose Less is not a plain comparison of the names (or whose Len / Swap are not the plain ones): elements it treats as equal keep the order of the map range they came from")
				continue
			}
			if cn != "sort.Slice" && cn != "sort.SliceStable" {
				continue
			}
			n++
			mc, ok := c.Common().Args[1].(*ssa.MakeClosure)
			if !ok {
				ru.Bad("Sort/comparator", w.IPos(c), "comparator is not a literal")
				continue
			}
			less := mc.Fn.(*ssa.Function)
			good := len(less.Blocks) == 1
			cmp := 0
			var viaCompare *ssa.Call
			eachInstr(less, func(in ssa.Instruction) {
				switch x := in.(type) {
				case *ssa.BinOp:
					_, n1 := loadOfFieldNamed(x.X, "Name")
					_, n2 := loadOfFieldNamed(x.Y, "Name")
					if x.Op == token.LSS && n1 && n2 {
						cmp++
					} else {
						good = false
					}
				case *ssa.Call:
					// strings.Compare(a.Name, b.Name) < 0 is the same order
					_, n1 := loadOfFieldNamed(x.Call.Args[0], "Name")
					if calleeName(x) == "strings.Compare" && n1 {
						if _, n2 := loadOfFieldNamed(x.Call.Args[1], "Name"); n2 {
							viaCompare = x
							break
						}
					}
					good = false
				case *ssa.If:
					good = false
				}
			})
			if viaCompare != nil {
				// the only other comparison allowed: Compare(...) < 0
				good, cmp = false, 0
				eachInstr(less, func(in ssa.Instruction) {
					if bo, ok := in.(*ssa.BinOp); ok && bo.Op == token.LSS && bo.X == ssa.Value(viaCompare) {
						if k, ok := constInt(bo.Y); ok && k == 0 {
							good, cmp = len(less.Blocks) == 1, 1
						}
					}
				})
			}
			ru.Check(good && cmp == 1, "Sort/comparator", w.IPos(c), "Name < Name", "option.Sort's comparator is not a plain comparison of the names (case folding, ties, extra keys): elements it treats as equal keep the order of the map range they came from")
		}
		if n == 0 {
			ru.Bad("Sort/comparator", w.Pos(fn.Pos()), "option.Sort does not sort")
		}
	}
}

// sortInterfaceByName: t is a named slice type of the library whose Less is exactly l[i].Name < l[j].Name, whose Len is
// len(l) and whose Swap exchanges l[i] and l[j].
func sortInterfaceByName(w *World, t types.Type) bool {
	named, ok := t.(*types.Named)
	if !ok {
		return false
	}
	method := func(name string) *ssa.Function {
		for _, fn := range w.Funcs {
			if fn.Name() == name && fn.Signature.Recv() != nil && types.Identical(fn.Signature.Recv().Type(), named) {
				return fn
			}
		}
		return nil
	}
	less, ln, swap := method("Less"), method("Len"), method("Swap")
	if less == nil || ln == nil || swap == nil || len(less.Blocks) != 1 || len(ln.Blocks) != 1 || len(swap.Blocks) != 1 || len(less.Params) != 3 || len(swap.Params) != 3 {
		return false
	}
	elemAt := func(v ssa.Value, fn *ssa.Function, idx int) bool {
		// v is l[idx] (the element pointer loaded from the slot)
		u, ok := v.(*ssa.UnOp)
		if !ok || u.Op != token.MUL {
			return false
		}
		ia, ok := u.X.(*ssa.IndexAddr)
		return ok && ia.X == ssa.Value(fn.Params[0]) && ia.Index == ssa.Value(fn.Params[idx])
	}
	cmp, good := 0, true
	eachInstr(less, func(in ssa.Instruction) {
		switch x := in.(type) {
		case *ssa.BinOp:
			a, n1 := loadOfFieldNamed(x.X, "Name")
			b, n2 := loadOfFieldNamed(x.Y, "Name")
			if x.Op == token.LSS && n1 && n2 && elemAt(a, less, 1) && elemAt(b, less, 2) {
				cmp++
			} else {
				good = false
			}
		case ssa.CallInstruction:
			good = false
		}
	})
	if !good || cmp != 1 {
		return false
	}
	// Len: return len(l)
	okLen := false
	eachInstr(ln, func(in ssa.Instruction) {
		if ret, ok := in.(*ssa.Return); ok && len(ret.Results) == 1 {
			if c, ok := lenOf(ret.Results[0]); ok && c == ssa.Value(ln.Params[0]) {
				okLen = true
			}
		}
	})
	// Swap: two stores, l[i] <- old l[j] and l[j] <- old l[i]
	var stores []*ssa.Store
	eachInstr(swap, func(in ssa.Instruction) {
		if st, ok := in.(*ssa.Store); ok {
			stores = append(stores, st)
		}
	})
	okSwap := false
	if len(stores) == 2 {
		slot := func(a ssa.Value) int {
			ia, ok := a.(*ssa.IndexAddr)
			if !ok || ia.X != ssa.Value(swap.Params[0]) {
				return 0
			}
			switch ia.Index {
			case ssa.Value(swap.Params[1]):
				return 1
			case ssa.Value(swap.Params[2]):
				return 2
			}
			return 0
		}
		from := func(v ssa.Value) int {
			u, ok := v.(*ssa.UnOp)
			if !ok || u.Op != token.MUL {
				return 0
			}
			return slot(u.X)
		}
		a, b := stores[0], stores[1]
		// both loads precede both stores (tuple assignment)
		pos := map[ssa.Instruction]int{}
		for i, in := range swap.Blocks[0].Instrs {
			pos[in] = i
		}
		loadsFirst := true
		for _, st := range stores {
			if u, ok := st.Val.(*ssa.UnOp); ok {
				if pos[u] > pos[a] || pos[u] > pos[b] {
					loadsFirst = false
				}
			}
		}
		okSwap = loadsFirst && slot(a.Addr) != 0 && slot(b.Addr) != 0 && slot(a.Addr) != slot(b.Addr) && from(a.Val) == slot(b.Addr) && from(b.Val) == slot(a.Addr)
	}
	return okLen && okSwap
}

// samePath: the same value, or loads of the same chain of fields from the same root value (go/ssa does not merge
// repeated reads; used only where nothing can write the chain in between: straight-line setters).
func samePath(a, b ssa.Value) bool {
	if a == b {
		return true
	}
	ua, ok1 := a.(*ssa.UnOp)
	ub, ok2 := b.(*ssa.UnOp)
	if !ok1 || !ok2 || ua.Op != token.MUL || ub.Op != token.MUL {
		return false
	}
	fa, ok1 := ua.X.(*ssa.FieldAddr)
	fb, ok2 := ub.X.(*ssa.FieldAddr)
	return ok1 && ok2 && fa.Field == fb.Field && samePath(fa.X, fb.X)
}

var _ = fmt.Sprintf

// ------------------------------------------------------------------ state-writer table

// stateWriter: one confirmed single-writer (or few-writer) invariant of the library's state. The table was produced by
// listing every writer of every struct field on the reference tree (gochk -dump-writers), reading each one, and
// keeping the fields whose meaning makes "nobody else writes this" a necessary condition of a property.
type stateWriter struct {
	pkg, typ, field string
	writers         map[string]string // function -> value kind: "param" (a parameter of the writer, possibly converted), "const", "any"
	props           map[string]string // property -> what breaks when somebody else writes the field
}

var stateWriters = []stateWriter{
	{"getoptions", "programTree", "mode", map[string]string{"(*getoptions.GetOpt).SetMode": "param"},
		map[string]string{"C07": "the single-dash mode in force is the one the program selected with SetMode"}},
	{"getoptions", "programTree", "unknownMode", map[string]string{"(*getoptions.GetOpt).SetUnknownMode": "param"},
		map[string]string{"C08": "the unknown-option mode in force is the one the program selected (inherited when a command is created)"}},
	{"getoptions", "programTree", "mapKeysToLower", map[string]string{"(*getoptions.GetOpt).SetMapKeysToLower": "const"},
		map[string]string{"C02": "map keys are stored as written unless the program asked for lower-casing"}},
	{"option", "Option", "MapKeysToLower", map[string]string{"getoptions.parseCLIArgs": "any"},
		map[string]string{"C02": "map keys are stored as written unless the program asked for lower-casing", "C10": "the values the command function sees are parsed under the program-wide settings in force at Parse time, whatever the order of the declarations"}},
	{"getoptions", "programTree", "ChildCommands", map[string]string{"(*getoptions.programTree).AddChildCommand": "any"},
		map[string]string{"C10": "the commands a token can select are the declared ones", "C17": "the commands offered are the declared ones"}},
	{"getoptions", "programTree", "Parent", map[string]string{},
		map[string]string{"C11": "the help command answers for the level it was declared on (its Parent never changes)", "C17": "the level reached is a node of the declared tree"}},
	{"getoptions", "programTree", "HelpCommandName", map[string]string{"(*getoptions.GetOpt).HelpCommand$": "any"},
		map[string]string{"C11": "the name that selects the built-in help is the one given to HelpCommand", "C18": "command lists skip exactly the help command",
			"C17": "the option copy skips exactly the built-in help command: every other command is offered the inherited options"}},
	{"getoptions", "programTree", "Suggestions", map[string]string{"(*getoptions.GetOpt).ArgCompletions": "param"},
		map[string]string{"C17": "the static argument suggestions are the ones given to ArgCompletions"}},
	{"getoptions", "programTree", "UnknownOptions", map[string]string{"getoptions.parseCLIArgs": "any"},
		map[string]string{"C08": "the unknown options reported are the ones the parser met"}},
	{"getoptions", "programTree", "ChildText", map[string]string{"getoptions.parseCLIArgs": "any", "getoptions.storeRemainingAsText": "any"},
		map[string]string{"C03": "the remaining list is built by the parser alone"}},
	{"getoptions", "GetOpt", "finalNode", map[string]string{"(*getoptions.GetOpt).Parse": "any"},
		map[string]string{"C10": "Dispatch runs the command Parse selected"}},
	{"option", "Option", "Name", map[string]string{},
		map[string]string{"C06": "a record keeps the name it was declared with", "C18": "help lists the declared name"}},
	{"option", "Option", "OptType", map[string]string{},
		map[string]string{"C01": "the kind of an option (which conversion Save applies) is fixed at definition", "C06": "the kind of an option is fixed at definition"}},
	{"option", "Option", "IsOptional", map[string]string{},
		map[string]string{"C01": "whether a value is mandatory is fixed at definition (only the *Optional definers produce optional-value options)"}},
	{"option", "Option", "boolDefault", map[string]string{},
		map[string]string{"C01": "a bool option reads the negation of its declared default however often it is passed"}},
	{"option", "Option", "Aliases", map[string]string{"(*option.Option).SetAlias": "any"},
		map[string]string{"C05": "the names an abbreviation is matched against are the declared ones", "C17": "the names offered are the declared ones"}},
	{"option", "Option", "Called", map[string]string{"(*option.Option).SetCalled": "any", "(*getoptions.GetOpt).SetCalled$": "any", "getoptions.parseCLIArgs": "true"},
		map[string]string{"C01": "an option met on the command line is Called, whatever follows it", "C06": "Called is true exactly for options met on the command line (or marked by SetCalled / the environment)", "C12": "Called distinguishes command line, environment and default",
			"C09": "nothing behind the require-order stop marks an option called: only the parser, which stops there, does", "C04": "nothing behind the terminator marks an option called: only the parser, which stops there, does"}},
	{"option", "Option", "UsedAlias", map[string]string{"(*option.Option).SetCalled": "any", "getoptions.parseCLIArgs": "any"},
		map[string]string{"C06": "CalledAs reports the spelling the parser met"}},
	{"option", "Option", "IsRequired", map[string]string{"(*option.Option).SetRequired": "const"},
		map[string]string{"C11": "exactly the options declared Required are required"}},
	{"option", "Option", "IsRequiredErr", map[string]string{"(*option.Option).SetRequired": "param"},
		map[string]string{"C11": "the custom message of a required option is the declared one"}},
	{"option", "Option", "SuggestedValues", map[string]string{"(*getoptions.GetOpt).SuggestedValues$": "any", "(*getoptions.GetOpt).ValidValues$": "any"},
		map[string]string{"C17": "the values offered after `--name=` are the declared ones"}},
	{"option", "Option", "Unknown", map[string]string{"getoptions.newUnknownCLIOption": "const", "getoptions.parseCLIArgs": "const"},
		map[string]string{"C08": "only records built for undeclared names are marked unknown"}},
	{"option", "Option", "Verbatim", map[string]string{"getoptions.newUnknownCLIOption": "param", "getoptions.parseCLIArgs": "any"},
		map[string]string{"C03": "an unknown option is passed through as the token it came from", "C08": "an unknown option is reported as the token it came from"}},
	{"option", "Option", "EnvVar", map[string]string{"(*option.Option).SetEnvVar": "param"},
		map[string]string{"C12": "the environment variable consulted is the declared one", "C18": "the environment variable help shows is the one that is bound, as written"}},
	{"dag", "Graph", "maxParallel", map[string]string{"(*dag.Graph).SetMaxParallel": "param"},
		map[string]string{"C15": "the concurrency bound is the one given to SetMaxParallel"}},
	{"dag", "Graph", "bufferOutput", map[string]string{"(*dag.Graph).SetOutputBuffer": "true"},
		map[string]string{"C15": "a graph given an output buffer buffers: the switch is not derived from any other setting"}},
	{"dag", "Vertex", "status", map[string]string{"(*dag.Graph).Run": "const", "(*dag.Graph).Run$": "const", "(*dag.Graph).getNextVertex": "const", "dag.skipParents": "const"},
		map[string]string{"C13": "a task that ran is never made runnable again: the run state of a vertex moves only inside Run (pending -> in progress -> done / skip), declarations do not touch it"}},
	{"getoptions", "programTree", "requireOrder", map[string]string{"(*getoptions.GetOpt).SetRequireOrder": "true"},
		map[string]string{"C09": "require-order is switched on by SetRequireOrder alone and never switched off"}},
	{"dag", "Graph", "bufferWriter", map[string]string{"(*dag.Graph).SetOutputBuffer": "param"},
		map[string]string{"C15": "buffered output goes to the writer given to SetOutputBuffer"}},
	{"dag", "Vertex", "Children", map[string]string{"(*dag.Graph).TaskDependsOn": "any"},
		map[string]string{"C13": "the dependencies of a task are the declared ones", "C16": "the edges of the graph are the declared ones"}},
	{"dag", "Vertex", "Parents", map[string]string{"(*dag.Graph).TaskDependsOn": "any"},
		map[string]string{"C14": "the dependents skipped after a failure are the declared ones", "C16": "the edges of the graph are the declared ones"}},
	{"dag", "Vertex", "Task", map[string]string{"(*dag.Graph).addTask": "any"},
		map[string]string{"C13": "a vertex runs the task it was created for"}},
	{"dag", "Vertex", "ID", map[string]string{},
		map[string]string{"C13": "a vertex keeps the ID it was created with"}},
	{"dag", "TaskMap", "m", map[string]string{"(*dag.TaskMap).Add": "any"},
		map[string]string{"C15": "a TaskMap hands out the tasks that were added to it"}},
	{"sliceiterator", "Iterator", "data", map[string]string{},
		map[string]string{"C03": "the argument list the parser walks is the one it was given"}},
	{"sliceiterator", "Iterator", "idx", map[string]string{"(*sliceiterator.Iterator).Next": "any", "(*sliceiterator.Iterator).Reset": "const"},
		map[string]string{"C03": "the parser's position moves only through Next", "C19": "the parser's position moves only through Next"}},
}

func init() {
	ids := map[string]string{"C01": "R01.16", "C02": "R02.14", "C03": "R03.14", "C05": "R05.12", "C06": "R06.14", "C07": "R07.11", "C08": "R08.14", "C10": "R10.13",
		"C11": "R11.16", "C12": "R12.10", "C13": "R13.12", "C14": "R14.11", "C15": "R15.9", "C16": "R16.14", "C17": "R17.13", "C18": "R18.15", "C19": "R19.9", "C09": "R09.14", "C04": "R04.16"}
	for prop, id := range ids {
		prop, id := prop, id
		addRules(prop, func(w *World, r *Report) { rStateWriters(w, r, prop, id) })
	}
}

// rStateWriters: the rows of the state-writer table filed under prop.
func rStateWriters(w *World, r *Report, prop, id string) {
	var rows []stateWriter
	for _, s := range stateWriters {
		if _, ok := s.props[prop]; ok {
			rows = append(rows, s)
		}
	}
	ru := r.Rule(id, "state-writer table: each listed field is written (stored, or - for maps - updated / deleted from) only by its confirmed writers, with the confirmed kind of value (a parameter of the writer, a constant), or while a fresh object is initialised; a second writer changes the meaning the property relies on", len(rows))
	for _, s := range rows {
		f := w.Field(s.pkg, s.typ, s.field)
		key := "state/" + s.typ + "." + s.field
		if f == nil {
			// an unexported field can be re-represented by a behaviour-preserving edit (a flag turned into an
			// enumeration): the row then has nothing to say; an exported field is API and must be there
			if !token.IsExported(s.field) {
				ru.OK(key, "-", "no field of this name in the tree (representation changed): row not applicable")
			} else {
				ru.Undecided(key, "-", "field not found")
			}
			continue
		}
		why := s.props[prop]
		var bad []string
		pos := "-"
		n := 0
		check := func(fn *ssa.Function, in ssa.Instruction, val ssa.Value, fresh bool) {
			if fresh {
				return
			}
			n++
			name := short(fn)
			kind, ok := "", false
			for wname, k := range s.writers {
				if name == wname || (strings.HasSuffix(wname, "$") && strings.HasPrefix(name, wname)) {
					kind, ok = k, true
				}
			}
			if !ok {
				bad = append(bad, name+" writes it")
				pos = w.IPos(in)
				return
			}
			if val == nil {
				return
			}
			for {
				switch x := val.(type) {
				case *ssa.Convert:
					val = x.X
					continue
				case *ssa.ChangeType:
					val = x.X
					continue
				case *ssa.MakeInterface:
					val = x.X
					continue
				}
				break
			}
			switch kind {
			case "param":
				if _, isP := val.(*ssa.Parameter); !isP {
					bad = append(bad, name+" stores something other than its parameter")
					pos = w.IPos(in)
				}
			case "const":
				if _, isC := val.(*ssa.Const); !isC {
					bad = append(bad, name+" stores something other than a constant")
					pos = w.IPos(in)
				}
			case "true":
				if c, isC := val.(*ssa.Const); !isC || c.Value == nil || c.Value.String() != "true" {
					bad = append(bad, name+" stores something other than true")
					pos = w.IPos(in)
				}
			}
		}
		for _, u := range w.fieldUses(f) {
			switch u.Kind {
			case "write":
				st := u.Instr.(*ssa.Store)
				_, fresh := rootOfAddr(u.Addr.X).(*ssa.Alloc)
				check(u.Fn, u.Instr, st.Val, fresh)
			case "read":
				// a map held in the field: updates and deletes through the loaded value
				ld, ok := u.Instr.(*ssa.UnOp)
				if !ok || ld.Referrers() == nil {
					continue
				}
				if _, isMap := ld.Type().Underlying().(*types.Map); !isMap {
					continue
				}
				_, fresh := rootOfAddr(u.Addr.X).(*ssa.Alloc)
				for _, ref := range *ld.Referrers() {
					switch x := ref.(type) {
					case *ssa.MapUpdate:
						if x.Map == ssa.Value(ld) {
							check(u.Fn, x, nil, fresh)
						}
					case *ssa.Call:
						if calleeName(x) == "builtin:delete" && x.Call.Args[0] == ssa.Value(ld) {
							check(u.Fn, x, nil, fresh)
						}
					}
				}
			case "addr-escapes":
				// &x.f handed to something else: a writer we cannot see
				bad = append(bad, short(u.Fn)+" takes the field's address")
				pos = w.IPos(u.Instr)
			}
		}
		if len(bad) == 0 {
			ru.OK(key, "-", fmt.Sprintf("%d write site(s), all by confirmed writers", n))
		} else {
			ru.Bad(key, pos, strings.Join(bad, "; ")+": "+why+" - no longer guaranteed")
		}
	}
}

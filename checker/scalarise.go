package main

// scalarise.go - scalar replacement of new local aggregates. A behaviour-preserving edit sometimes gathers a few
// locals of a function in a small struct (with methods that the helper normalisation of inline.go then inlines
// again): `var r intRange; r.first, err = Atoi(a)` instead of `first, err := Atoi(a)`. go/ssa keeps such a variable
// in memory, so every rule that follows a value would have to look through field loads and stores. Instead the
// variable is split, in the in-memory overlay, into one local per field - a semantics-preserving source
// transformation for a variable that is only ever used field by field.
//
// It applies only to local variables whose struct type is NOT in the reference table (baseline_funcs.txt, `type:`
// lines): the reference tree is never touched. A variable qualifies when every occurrence is its declaration
// (`var v T`, `v := T{…}`, `v := &T{…}`, `v := w` / `var v T = w` with w qualifying, alone or inside a tuple
// definition), a field selection `v.f`, or a blank assignment `_ = v`. Anything else (passed on, returned,
// compared, re-assigned as a whole, a method call that was not inlined) leaves the variable alone. Pointer
// variables made by `&T{…}` qualify too: such a pointer is never nil and, used only through field selections,
// is indistinguishable from the variable it points to; `p2 := p` makes p2 another name for the same fields.

import (
	"fmt"
	"go/ast"
	"go/token"
	"go/types"
	"sort"
	"strings"

	"golang.org/x/tools/go/packages"
)

type scalVar struct {
	obj    *types.Var
	st     *types.Struct
	named  *types.Named
	isPtr  bool
	root   *scalVar // pointer alias: the variable whose fields this name denotes
	def    *ast.Ident
	uses   []*ast.Ident
	reason string // non-empty: rejected
	pkg    *packages.Package
	file   *ast.File
}

func (v *scalVar) rootVar() *scalVar {
	for v.root != nil {
		v = v.root
	}
	return v
}

func (v *scalVar) scalar(i int) string {
	r := v.rootVar()
	return r.obj.Name() + "_" + r.st.Field(i).Name()
}

func scalariseLocals(w *World, repo string, overlay map[string][]byte, extraEnv []string) *World {
	cur, ov := w, overlay
	for round := 0; round < 4; round++ {
		in := &inliner{w: cur, overlay: map[string][]byte{}}
		for k, v := range ov {
			in.overlay[k] = v
		}
		edits, notes := scalariseRound(in)
		if len(edits) == 0 {
			return cur
		}
		nov, err := in.applyEdits(edits)
		if err != nil {
			cur.Notes = append(cur.Notes, "scalar replacement not applied: "+err.Error())
			return cur
		}
		next, err := loadWorldRaw(repo, nov, extraEnv)
		if err != nil {
			msg := err.Error()
			if len(msg) > 400 {
				msg = msg[:400]
			}
			cur.Notes = append(cur.Notes, "scalar replacement abandoned (the rewritten program does not load): "+msg)
			return cur
		}
		next.Notes = append(cur.Notes, notes...)
		cur, ov = next, nov
	}
	return cur
}

func scalariseRound(in *inliner) (map[string][]textEdit, []string) {
	w := in.w
	edits := map[string][]textEdit{}
	var notes []string
	for _, p := range w.Pkgs {
		for _, file := range p.Syntax {
			es, ns := scalariseFile(in, p, file)
			if len(es) > 0 {
				fname, _ := in.rawOff(file.Pos())
				edits[fname] = append(edits[fname], es...)
				notes = append(notes, ns...)
			}
		}
	}
	sort.Strings(notes)
	return edits, notes
}

func scalariseFile(in *inliner, p *packages.Package, file *ast.File) ([]textEdit, []string) {
	info := p.TypesInfo
	parent := map[ast.Node]ast.Node{}
	var stack []ast.Node
	allNames := map[string]bool{}
	ast.Inspect(file, func(n ast.Node) bool {
		if n == nil {
			stack = stack[:len(stack)-1]
			return true
		}
		if len(stack) > 0 {
			parent[n] = stack[len(stack)-1]
		}
		stack = append(stack, n)
		if id, ok := n.(*ast.Ident); ok {
			allNames[id.Name] = true
		}
		return true
	})
	// candidate variables
	vars := map[*types.Var]*scalVar{}
	ast.Inspect(file, func(n ast.Node) bool {
		id, ok := n.(*ast.Ident)
		if !ok {
			return true
		}
		obj, ok := info.Defs[id].(*types.Var)
		if !ok || obj.IsField() || obj.Pkg() == nil || obj.Parent() == obj.Pkg().Scope() {
			return true
		}
		t := obj.Type()
		isPtr := false
		if pt, ok := t.(*types.Pointer); ok {
			t, isPtr = pt.Elem(), true
		}
		named, ok := t.(*types.Named)
		if !ok || named.Obj().Pkg() == nil || in.w.Pkgs[named.Obj().Pkg().Path()] == nil {
			return true
		}
		st, ok := named.Underlying().(*types.Struct)
		if !ok || st.NumFields() == 0 || named.TypeArgs() != nil {
			return true
		}
		if baselineTypes[shortName(named.Obj().Pkg().Path())+"."+named.Obj().Name()] {
			return true
		}
		for i := 0; i < st.NumFields(); i++ {
			if st.Field(i).Embedded() || st.Field(i).Name() == "_" {
				return true
			}
		}
		switch parent[id].(type) {
		case *ast.ValueSpec, *ast.AssignStmt:
		default:
			return true // parameters, results, range variables, …
		}
		vars[obj] = &scalVar{obj: obj, st: st, named: named, isPtr: isPtr, def: id, pkg: p, file: file}
		return true
	})
	if len(vars) == 0 {
		return nil, nil
	}
	ast.Inspect(file, func(n ast.Node) bool {
		if id, ok := n.(*ast.Ident); ok {
			if obj, ok := info.Uses[id].(*types.Var); ok && vars[obj] != nil {
				vars[obj].uses = append(vars[obj].uses, id)
			}
		}
		return true
	})
	candOf := func(e ast.Expr) *scalVar {
		if id, ok := ast.Unparen(e).(*ast.Ident); ok {
			if obj, ok := info.Uses[id].(*types.Var); ok {
				return vars[obj]
			}
		}
		return nil
	}
	// the literal behind a definition: T{…} or &T{…}
	litOf := func(v *scalVar, e ast.Expr) *ast.CompositeLit {
		e = ast.Unparen(e)
		if v.isPtr {
			u, ok := e.(*ast.UnaryExpr)
			if !ok || u.Op != token.AND {
				return nil
			}
			e = ast.Unparen(u.X)
		}
		cl, ok := e.(*ast.CompositeLit)
		if !ok {
			return nil
		}
		if tv, ok := info.Types[cl]; !ok || !types.Identical(tv.Type, v.named) {
			return nil
		}
		keyed, positional := 0, 0
		for _, el := range cl.Elts {
			if kv, ok := el.(*ast.KeyValueExpr); ok {
				if _, ok := kv.Key.(*ast.Ident); !ok {
					return nil
				}
				keyed++
			} else {
				positional++
			}
		}
		if keyed > 0 && positional > 0 {
			return nil
		}
		if positional > 0 && positional != v.st.NumFields() {
			return nil
		}
		return cl
	}
	// the value a definition gives to variable v (nil, false = no value: zero)
	defValue := func(v *scalVar) (ast.Expr, ast.Node, string) {
		switch d := parent[v.def].(type) {
		case *ast.ValueSpec:
			gd, ok := parent[d].(*ast.GenDecl)
			if !ok || len(gd.Specs) != 1 || gd.Lparen.IsValid() || len(d.Names) != 1 {
				return nil, nil, "declared in a grouped var declaration"
			}
			ds, ok := parent[gd].(*ast.DeclStmt)
			if !ok {
				return nil, nil, "not a local declaration"
			}
			if len(d.Values) == 0 {
				if v.isPtr {
					return nil, nil, "nil pointer variable"
				}
				return nil, ds, ""
			}
			if len(d.Values) != 1 {
				return nil, nil, "multi-value declaration"
			}
			return d.Values[0], ds, ""
		case *ast.AssignStmt:
			if d.Tok != token.DEFINE || len(d.Lhs) != len(d.Rhs) {
				return nil, nil, "defined by a multi-value call"
			}
			for i, l := range d.Lhs {
				if l == ast.Expr(v.def) {
					return d.Rhs[i], d, ""
				}
			}
		}
		return nil, nil, "unrecognised declaration"
	}
	// classify
	for _, v := range vars {
		val, stmt, why := defValue(v)
		if why != "" {
			v.reason = why
			continue
		}
		if blk, ok := parent[stmt].(*ast.BlockStmt); !ok || blk == nil {
			if _, isCase := parent[stmt].(*ast.CaseClause); !isCase {
				v.reason = "declaration is not a statement of a block (if/for/switch initialiser)"
				continue
			}
		}
		if val != nil {
			if litOf(v, val) == nil && candOf(val) == nil {
				v.reason = "initialised by something other than a literal of its type or another such variable"
				continue
			}
			if as, ok := stmt.(*ast.AssignStmt); ok && len(as.Lhs) > 1 && candOf(val) == nil {
				v.reason = "literal inside a tuple definition"
				continue
			}
		}
		for _, u := range v.uses {
			switch pn := parent[u].(type) {
			case *ast.SelectorExpr:
				if pn.X != ast.Expr(u) {
					v.reason = "used as a whole"
					break
				}
				sel := info.Selections[pn]
				if sel == nil || sel.Kind() != types.FieldVal || len(sel.Index()) != 1 {
					v.reason = "a method of the variable is used (not inlined)"
				}
			case *ast.AssignStmt:
				okUse := false
				for i, r := range pn.Rhs {
					if r != ast.Expr(u) || len(pn.Lhs) != len(pn.Rhs) {
						continue
					}
					if l, ok := pn.Lhs[i].(*ast.Ident); ok {
						if l.Name == "_" && pn.Tok == token.ASSIGN {
							okUse = true
						}
						if lo, ok := info.Defs[l].(*types.Var); ok && pn.Tok == token.DEFINE && vars[lo] != nil {
							okUse = true
						}
					}
				}
				if !okUse {
					v.reason = "assigned or used as a whole"
				}
			case *ast.ValueSpec:
				okUse := false
				if len(pn.Names) == 1 && len(pn.Values) == 1 && pn.Values[0] == ast.Expr(u) {
					if lo, ok := info.Defs[pn.Names[0]].(*types.Var); ok && vars[lo] != nil {
						okUse = true
					}
				}
				if !okUse {
					v.reason = "used as a whole"
				}
			default:
				v.reason = "used as a whole"
			}
			if v.reason != "" {
				break
			}
		}
	}
	// copies of rejected variables are rejected; a copy must have the same shape
	for changed := true; changed; {
		changed = false
		for _, v := range vars {
			if v.reason != "" {
				continue
			}
			val, _, _ := defValue(v)
			if src := candOf(val); val != nil && src != nil {
				if src.reason != "" || src.isPtr != v.isPtr || !types.Identical(src.named, v.named) {
					v.reason = "copy of a variable that is not split"
					changed = true
				}
			}
			// uses as the source of a copy: the target must survive
			for _, u := range v.uses {
				var target *ast.Ident
				switch pn := parent[u].(type) {
				case *ast.AssignStmt:
					for i, r := range pn.Rhs {
						if r == ast.Expr(u) && i < len(pn.Lhs) {
							target, _ = pn.Lhs[i].(*ast.Ident)
						}
					}
				case *ast.ValueSpec:
					target = pn.Names[0]
				}
				if target != nil && target.Name != "_" {
					if lo, ok := info.Defs[target].(*types.Var); ok && vars[lo] != nil && vars[lo].reason != "" {
						v.reason = "copied into a variable that is not split"
						changed = true
					}
				}
			}
		}
	}
	// pointer aliases share the fields of their source
	for _, v := range vars {
		if v.reason == "" && v.isPtr {
			val, _, _ := defValue(v)
			if src := candOf(val); src != nil {
				v.root = src
			}
		}
	}
	// name clashes, type names
	qual := func(pk *types.Package) string {
		if pk == p.Types {
			return ""
		}
		for _, im := range file.Imports {
			if strings.Trim(im.Path.Value, `"`) == pk.Path() {
				if im.Name != nil {
					return im.Name.Name
				}
				return pk.Name()
			}
		}
		return "\x00"
	}
	fieldType := func(v *scalVar, i int) (string, bool) {
		s := types.TypeString(v.st.Field(i).Type(), qual)
		return s, !strings.Contains(s, "\x00")
	}
	for _, v := range vars {
		if v.reason != "" || v.root != nil {
			continue
		}
		for i := 0; i < v.st.NumFields(); i++ {
			if allNames[v.scalar(i)] {
				v.reason = "the name " + v.scalar(i) + " is taken"
			}
			if _, ok := fieldType(v, i); !ok {
				v.reason = "a field type needs a package this file does not import"
			}
		}
	}
	for changed := true; changed; {
		changed = false
		for _, v := range vars {
			if v.reason == "" && v.root != nil && v.rootVar().reason != "" {
				v.reason = "alias of a variable that is not split"
				changed = true
			}
		}
	}
	live := 0
	for _, v := range vars {
		if v.reason == "" {
			live++
		}
	}
	if live == 0 {
		return nil, nil
	}

	// ---- edits
	type rng struct{ a, b int }
	var selEdits []textEdit
	fieldIdx := func(v *scalVar, name string) int {
		for i := 0; i < v.st.NumFields(); i++ {
			if v.st.Field(i).Name() == name {
				return i
			}
		}
		return -1
	}
	for _, v := range vars {
		if v.reason != "" {
			continue
		}
		for _, u := range v.uses {
			se, ok := parent[u].(*ast.SelectorExpr)
			if !ok {
				continue
			}
			_, a := in.rawOff(se.Pos())
			_, b := in.rawOff(se.End())
			name := v.scalar(fieldIdx(v, se.Sel.Name))
			text := name
			if len(name) != b-a || strings.Contains(in.nodeText(se), "\n") {
				text += in.dir(se.End())
			}
			selEdits = append(selEdits, textEdit{a, b, text})
		}
	}
	sort.Slice(selEdits, func(i, j int) bool { return selEdits[i].off < selEdits[j].off })
	src := func() []byte { f, _ := in.rawOff(file.Pos()); return in.src(f) }()
	// text of [a,b) with the selector rewrites applied
	rewritten := func(a, b token.Pos) string {
		_, x := in.rawOff(a)
		_, y := in.rawOff(b)
		var sb strings.Builder
		last := x
		for _, e := range selEdits {
			if e.off < x || e.end > y {
				continue
			}
			sb.Write(src[last:e.off])
			sb.WriteString(e.text)
			last = e.end
		}
		sb.Write(src[last:y])
		return sb.String()
	}
	var stmtEdits []textEdit
	var covered []rng
	doneStmt := map[ast.Node]bool{}
	blank := func(names []string) string {
		var sb strings.Builder
		for _, n := range names {
			sb.WriteString("; _ = " + n)
		}
		return sb.String()
	}
	var notes []string
	for _, v := range vars {
		if v.reason != "" {
			continue
		}
		val, stmt, _ := defValue(v)
		if doneStmt[stmt] {
			continue
		}
		doneStmt[stmt] = true
		_, a := in.rawOff(stmt.Pos())
		_, b := in.rawOff(stmt.End())
		var text string
		as, isAssign := stmt.(*ast.AssignStmt)
		switch {
		case isAssign && (len(as.Lhs) > 1 || candOf(val) != nil):
			// (tuple) definition whose candidate positions are copies
			var lhs, rhs, fresh []string
			for i, l := range as.Lhs {
				var lv *scalVar
				if id, ok := l.(*ast.Ident); ok {
					if lo, ok := info.Defs[id].(*types.Var); ok && vars[lo] != nil && vars[lo].reason == "" {
						lv = vars[lo]
					}
				}
				if lv == nil {
					lhs = append(lhs, rewritten(l.Pos(), l.End()))
					rhs = append(rhs, in.dir(as.Rhs[i].Pos())+rewritten(as.Rhs[i].Pos(), as.Rhs[i].End()))
					continue
				}
				doneStmtVar := lv
				_ = doneStmtVar
				if lv.root != nil {
					continue // another name for the same fields: nothing to declare
				}
				sv := candOf(as.Rhs[i])
				for k := 0; k < lv.st.NumFields(); k++ {
					lhs = append(lhs, lv.scalar(k))
					rhs = append(rhs, sv.scalar(k))
					fresh = append(fresh, lv.scalar(k))
				}
			}
			if len(lhs) == 0 {
				text = "{}"
			} else {
				text = strings.Join(lhs, ", ") + " := " + strings.Join(rhs, ", ") + blank(fresh)
			}
		default:
			// single variable: var v T / v := T{…} / v := &T{…} / var v T = w
			if v.root != nil {
				text = "{}"
				break
			}
			given := map[int]string{}
			var order []int
			if val != nil {
				if sv := candOf(val); sv != nil {
					for k := 0; k < v.st.NumFields(); k++ {
						given[k] = sv.scalar(k)
						order = append(order, k)
					}
				} else {
					cl := litOf(v, val)
					for k, el := range cl.Elts {
						idx, e := k, el
						if kv, ok := el.(*ast.KeyValueExpr); ok {
							idx, e = fieldIdx(v, kv.Key.(*ast.Ident).Name), kv.Value
						}
						given[idx] = in.dir(e.Pos()) + rewritten(e.Pos(), e.End())
						order = append(order, idx)
					}
				}
			}
			var parts, fresh []string
			emitted := map[int]bool{}
			emit := func(k int) {
				if emitted[k] {
					return
				}
				emitted[k] = true
				ft, _ := fieldType(v, k)
				d := "var " + v.scalar(k) + " " + ft
				if g, ok := given[k]; ok {
					d += " = " + g
				}
				parts = append(parts, d)
				fresh = append(fresh, v.scalar(k))
			}
			for _, k := range order {
				emit(k)
			}
			for k := 0; k < v.st.NumFields(); k++ {
				emit(k)
			}
			text = strings.Join(parts, "; ") + blank(fresh)
		}
		stmtEdits = append(stmtEdits, textEdit{a, b, text + in.dir(stmt.End())})
		covered = append(covered, rng{a, b})
		notes = append(notes, fmt.Sprintf("local %s %s (a struct type that is not in the reference table) analysed field by field", v.obj.Name(), shortName(v.named.String())))
	}
	// `_ = v`
	for _, v := range vars {
		if v.reason != "" {
			continue
		}
		for _, u := range v.uses {
			if as, ok := parent[u].(*ast.AssignStmt); ok && as.Tok == token.ASSIGN {
				_, a := in.rawOff(u.Pos())
				_, b := in.rawOff(u.End())
				name := v.scalar(0)
				text := name
				if len(name) != b-a {
					text += in.dir(u.End())
				}
				selEdits = append(selEdits, textEdit{a, b, text})
			}
		}
	}
	out := stmtEdits
	for _, e := range selEdits {
		inside := false
		for _, c := range covered {
			if e.off >= c.a && e.end <= c.b {
				inside = true
			}
		}
		if !inside {
			out = append(out, e)
		}
	}
	return out, notes
}

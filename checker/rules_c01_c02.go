package main

// C01 - scalar values reach the program exactly as written.  C02 - multi-value options.

import (
	"fmt"
	"go/token"
	"go/types"
	"regexp/syntax"
	"strings"

	"golang.org/x/tools/go/ssa"
)

func init() {
	register("C01", "other", []string{
		"decides: the splitter regexps' language (name group excludes only '=' / ':', value group matches any text incl. newlines), verbatim provenance token -> splitter -> Save -> receiver variable, converter identity (Atoi / ParseFloat(_,64)) and error discipline, bool/increment update shape, Called/UsedAlias stored on every match",
		"does not decide what strconv / regexp compute (trusted), nor the behaviour for an empty attached value (`--name=`), which the statement excludes",
	}, rC01Regex, rC01Splitter, rC01ParserArgs, rC01TypedStore, rC01ErrDiscipline, rC01CalledOnMatch, rC01NoValueArm, exactStopsRule("R01.8"), func(w *World, r *Report) {
		subRule(w, r, rC10CopyOptions, "R01.9", "Called and the value are read from the very record the parser wrote: commands share the parent's option records by pointer (same obligations as C10 R10.5)", 3)
	})
	register("C02", "other", []string{
		"decides: shape of the min/max intake loops (strict bound, start at the number of attached values, one advance and one Save per iteration), look-ahead stop set and its agreement with Save's converters, append order, first-'=' split of map elements, inclusive range expansion shape, definition-time validation of (min,max)",
		"does not decide the arithmetic 'total consumed = attached + following <= max' beyond the loop shape",
	}, rC02Loops, rC02Lookahead, rC02ConverterAgreement, rC02AppendOrder, rC02SplitFirst, rC02Range, rC02Validation, rC04LookaheadFor("R02.8"), rC02ExactStops, func(w *World, r *Report) {
		subRule(w, r, rC01Splitter, "R02.10", "an `=`-attached value is one value: the splitter does not cut it further (same obligations as C01 R01.2)", 5)
	}, func(w *World, r *Report) {
		subRule(w, r, rC07ModeFlow, "R02.11", "occurrences after a command name are tokenised with the same (root) mode (same obligations as C07 R07.1)", 4)
	})
}

func rC04LookaheadFor(id string) func(w *World, r *Report) {
	return func(w *World, r *Report) {
		// the look-ahead must stop at `--` (shared with C04 R04.3)
		sub := NewReport(r.Prop)
		rC04Lookahead(w, sub)
		ru := r.Rule(id, "beyond min the greedy intake stops at `--` (same obligation as C04 R04.3)", 2)
		for _, o := range sub.Obls {
			ru.add(o.Status, o.Key, o.Pos, o.Detail, true)
		}
	}
}

// ------------------------------------------------------------------ setters and sinks

type setterSum struct {
	fn    *ssa.Function
	field *types.Var // receiver pointer field written through (pString, pInt, ...)
	param int        // index in fn.Params of the stored value, -1 if computed
	kind  string     // "param", "opposite-default", "map", "other"
	keyP  int        // for maps: param index of key / value
	valP  int
}

func isRecvPtrField(f *types.Var) bool {
	if f == nil || !strings.HasPrefix(f.Name(), "p") || len(f.Name()) < 2 {
		return false
	}
	_, ok := f.Type().Underlying().(*types.Pointer)
	return ok && f.Name()[1] >= 'A' && f.Name()[1] <= 'Z'
}

// derefOfRecvField: v == load(load(&x.pX)) returns pX; ptr == load(&x.pX) returns pX for addresses.
func recvFieldOfPtr(ptr ssa.Value) *types.Var {
	u, ok := ptr.(*ssa.UnOp)
	if !ok || u.Op != token.MUL {
		return nil
	}
	fa, ok := u.X.(*ssa.FieldAddr)
	if !ok {
		return nil
	}
	f := fieldOfAddr(fa)
	if isRecvPtrField(f) && isOptionPtr(fa.X.Type()) {
		return f
	}
	return nil
}

// receiverWrites lists every write through a receiver pointer in fn: (instruction, field, stored value or nil for map updates).
type recvWrite struct {
	in    ssa.Instruction
	field *types.Var
	val   ssa.Value
	key   ssa.Value
}

func receiverWrites(fn *ssa.Function) []recvWrite {
	var out []recvWrite
	eachInstr(fn, func(in ssa.Instruction) {
		switch x := in.(type) {
		case *ssa.Store:
			if f := recvFieldOfPtr(x.Addr); f != nil {
				out = append(out, recvWrite{in, f, x.Val, nil})
			}
		case *ssa.MapUpdate:
			if u, ok := x.Map.(*ssa.UnOp); ok && u.Op == token.MUL {
				if f := recvFieldOfPtr(u.X); f != nil {
					out = append(out, recvWrite{in, f, x.Value, x.Key})
				}
			}
		}
	})
	return out
}

func paramIndex(fn *ssa.Function, v ssa.Value) int {
	for i, p := range fn.Params {
		if ssa.Value(p) == v {
			return i
		}
	}
	return -1
}

// setterSummaries: methods of *option.Option that write through exactly one receiver pointer field.
func setterSummaries(w *World) map[*ssa.Function]*setterSum {
	out := map[*ssa.Function]*setterSum{}
	for _, fn := range w.Funcs {
		if fn.Signature.Recv() == nil || !isOptionPtr(fn.Signature.Recv().Type()) || short(fn) == nSave {
			continue
		}
		ws := receiverWrites(fn)
		if len(ws) == 0 {
			continue
		}
		s := &setterSum{fn: fn, field: ws[0].field, param: -1, kind: "other", keyP: -1, valP: -1}
		for _, x := range ws {
			if x.field != s.field {
				s.kind = "mixed"
			}
		}
		if s.kind != "mixed" {
			x := ws[0]
			if x.key != nil {
				s.kind = "map"
				s.valP = paramIndex(fn, x.val)
				// key may be ToLower(param) on one arm and param on the other
				for _, y := range ws {
					k := y.key
					if c, ok := k.(*ssa.Call); ok && calleeName(c) == "strings.ToLower" {
						k = c.Call.Args[0]
					}
					if i := paramIndex(fn, k); i >= 0 {
						s.keyP = i
					} else {
						s.kind = "other"
					}
					if paramIndex(fn, y.val) != s.valP {
						s.kind = "other"
					}
				}
				if s.valP < 0 || s.keyP < 0 {
					s.kind = "other" // the value or key stored is computed, not the parameter itself
				}
			} else if len(ws) == 1 {
				if i := paramIndex(fn, x.val); i >= 0 {
					s.kind, s.param = "param", i
				} else if u, ok := x.val.(*ssa.UnOp); ok && u.Op == token.NOT {
					if b, ok := loadOfFieldNamed(u.X, "boolDefault"); ok && b == ssa.Value(fn.Params[0]) {
						s.kind = "opposite-default"
					}
				}
			}
		}
		out[fn] = s
	}
	return out
}

func loadOfFieldNamed(v ssa.Value, name string) (ssa.Value, bool) {
	u, ok := v.(*ssa.UnOp)
	if !ok || u.Op != token.MUL {
		return nil, false
	}
	fa, ok := u.X.(*ssa.FieldAddr)
	if !ok || fieldOfAddr(fa).Name() != name {
		return nil, false
	}
	return fa.X, true
}

// sink: one write of a user-visible variable inside Save.
type sink struct {
	in    ssa.Instruction
	field *types.Var
	val   ssa.Value // value written (argument of the setter or stored value); nil for opposite-default
	key   ssa.Value // map key
	kind  string
}

func saveSinks(w *World, fn *ssa.Function, sums map[*ssa.Function]*setterSum) (sinks []sink, problems []string) {
	for _, c := range allCalls(fn) {
		callee := c.Common().StaticCallee()
		s, ok := sums[callee]
		if !ok {
			continue
		}
		args := c.Common().Args
		switch s.kind {
		case "param":
			sinks = append(sinks, sink{in: c, field: s.field, val: args[s.param], kind: "param"})
		case "opposite-default":
			sinks = append(sinks, sink{in: c, field: s.field, kind: "opposite-default"})
		case "map":
			sinks = append(sinks, sink{in: c, field: s.field, val: args[s.valP], key: args[s.keyP], kind: "map"})
		default:
			problems = append(problems, fmt.Sprintf("call of %s at %s whose effect on %s is not understood", short(callee), w.IPos(c), s.field.Name()))
		}
	}
	for _, x := range receiverWrites(fn) {
		k := "param"
		if x.key != nil {
			k = "map"
		}
		sinks = append(sinks, sink{in: x.in, field: x.field, val: x.val, key: x.key, kind: k})
	}
	return sinks, problems
}

// converterOf: v is result 0 of a strconv conversion; returns the call.
func converterOf(v ssa.Value) *ssa.Call {
	// int(i64) conversions of ParseInt results
	if cv, ok := v.(*ssa.Convert); ok {
		v = cv.X
	}
	ex, ok := v.(*ssa.Extract)
	if !ok || ex.Index != 0 {
		return nil
	}
	c, ok := ex.Tuple.(*ssa.Call)
	if !ok {
		return nil
	}
	switch calleeName(c) {
	case "strconv.Atoi", "strconv.ParseFloat", "strconv.ParseInt":
		return c
	}
	return nil
}

// converterOK: the conversion is Go's decimal conversion for the element type.
func converterOK(c *ssa.Call, wantFloat bool) (bool, string) {
	args := c.Call.Args
	switch calleeName(c) {
	case "strconv.Atoi":
		if wantFloat {
			return false, "Atoi used for a float64 option"
		}
		return true, "strconv.Atoi"
	case "strconv.ParseInt":
		if wantFloat {
			return false, "ParseInt used for a float64 option"
		}
		base, ok1 := constInt(args[1])
		bits, ok2 := constInt(args[2])
		if ok1 && base == 10 && ok2 && (bits == 0 || bits == 64) {
			return true, "strconv.ParseInt(_, 10, _)"
		}
		return false, fmt.Sprintf("ParseInt with base %v: not the decimal conversion (0 would accept 0x.., 0b.., 0o.. and underscores)", args[1])
	case "strconv.ParseFloat":
		if !wantFloat {
			return false, "ParseFloat used for an int option"
		}
		if bits, ok := constInt(args[1]); ok && bits == 64 {
			return true, "strconv.ParseFloat(_, 64)"
		}
		return false, fmt.Sprintf("ParseFloat with bit size %v: value would be rounded to float32", args[1])
	}
	return false, "not a strconv conversion"
}

// errNilDominates: the block is dominated by the `err == nil` edge of the conversion call's error result.
func errNilDominates(c *ssa.Call, b *ssa.BasicBlock) bool {
	for _, f := range factsAt(b) {
		if f.Op != token.EQL || f.Y == nil || !isNilConst(f.Y) {
			continue
		}
		if ex, ok := f.X.(*ssa.Extract); ok && ex.Index == 1 && ex.Tuple == ssa.Value(c) {
			return true
		}
	}
	return false
}

// elemOfParam: v is an unmodified element of the variadic parameter (a[i] or a range element).
func elemOfParam(v ssa.Value, p *ssa.Parameter) bool {
	u, ok := v.(*ssa.UnOp)
	if !ok || u.Op != token.MUL {
		return false
	}
	ia, ok := u.X.(*ssa.IndexAddr)
	return ok && ia.X == ssa.Value(p)
}

// ------------------------------------------------------------------ C01 rules

// R01.1
func rC01Regex(w *World, r *Report) {
	ru := r.Rule("R01.1", "splitter regexps: compile; anchored ^…$ without multi-line; three groups; dashes group ⊆ {-,--,/}; name group is a greedy one-or-more class that excludes only '=' (and ':'); value group matches any text, newlines included", 2)
	fn := w.Fn(nIsOption)
	if fn == nil {
		ru.Undecided("anchor", "-", "isOption not found")
		return
	}
	used := map[*ssa.Global]bool{}
	for _, c := range callsTo(fn, "(*regexp.Regexp).FindStringSubmatch") {
		for _, leaf := range phiLeaves(c.Common().Args[0], map[ssa.Value]bool{}) {
			if ld, ok := leaf.(*ssa.UnOp); ok {
				if g, ok := ld.X.(*ssa.Global); ok {
					used[g] = true
				}
			}
		}
	}
	n := 0
	for _, ri := range w.regexConstants() {
		if ri.Global == nil || !used[ri.Global] {
			continue
		}
		n++
		key := "regex/" + ri.Global.Name()
		pos := w.IPos(ri.Call)
		if ri.Err != nil {
			ru.Bad(key, pos, "pattern does not parse: "+ri.Err.Error())
			continue
		}
		var problems []string
		re := ri.Re
		if re.Op != syntax.OpConcat || len(re.Sub) < 3 || re.Sub[0].Op != syntax.OpBeginText || re.Sub[len(re.Sub)-1].Op != syntax.OpEndText {
			problems = append(problems, "not anchored with ^ … $ at text boundaries (multi-line or unanchored)")
		}
		gs := rxGroups(re)
		if len(gs) != 4 {
			problems = append(problems, fmt.Sprintf("%d capture groups, the splitter indexes 1..3", len(gs)-1))
		} else {
			// group 1
			if lang, ok := rxFiniteLang(gs[1], 8); !ok {
				problems = append(problems, "leading group is not a finite set of prefixes")
			} else {
				has := map[string]bool{}
				for _, s := range lang {
					has[s] = true
					if s != "-" && s != "--" && s != "/" {
						problems = append(problems, fmt.Sprintf("leading group also matches %q", s))
					}
				}
				if !has["-"] || !has["--"] {
					problems = append(problems, "leading group must match - and --")
				}
			}
			// group 2
			g2 := gs[2].Sub[0]
			if g2.Op != syntax.OpPlus || g2.Flags&syntax.NonGreedy != 0 || g2.Sub[0].Op != syntax.OpCharClass {
				problems = append(problems, "name group is not a greedy one-or-more character class: "+gs[2].String())
			} else if comp, ok := rxClassComplement(g2.Sub[0], 4); !ok {
				problems = append(problems, "name group excludes more than '=' / ':' (some characters can never be part of an option name or make the token a non-option): "+gs[2].String())
			} else {
				hasEq := false
				for _, c := range comp {
					if c == '=' {
						hasEq = true
					} else if c != ':' {
						problems = append(problems, fmt.Sprintf("name group excludes %q", c))
					}
				}
				if !hasEq {
					problems = append(problems, "name group does not stop at '='")
				}
			}
			// group 3
			if !rxMatchesEverything(gs[3]) {
				problems = append(problems, "value group does not match every text: "+gs[3].String())
			}
			if rxExcludesNewline(gs[3]) {
				problems = append(problems, "value group cannot contain a newline ('.' without the s flag): `--name=a\\nb` would not be recognised as an option")
			}
		}
		if len(problems) == 0 {
			ru.OK(key, pos, "pattern "+ri.Pattern+" has the required language")
		} else {
			ru.Bad(key, pos, strings.Join(problems, "; "))
		}
	}
	if n == 0 {
		ru.Undecided("regex", w.Pos(fn.Pos()), "no global regexp used by isOption found")
	}
}

func splitterOpAllowed(kind string, in ssa.Instruction) bool {
	switch kind {
	case "call:(*regexp.Regexp).FindStringSubmatch", "convert:string->[]rune", "convert:[]rune->string", "convert:rune->string", "binop:+":
		return true
	case "call:strings.TrimPrefix", "call:strings.CutPrefix":
		c := in.(*ssa.Call)
		s, ok := constString(c.Call.Args[1])
		return ok && (s == "=" || s == ":")
	case "call:strings.Split":
		c := in.(*ssa.Call)
		s, ok := constString(c.Call.Args[1])
		return ok && s == ""
	case "strslice":
		return sepSliceOK(curWorld, in)
	}
	return false
}

// curWorld: the tree the rules are being evaluated on (set by runProp; the provenance callbacks have no other way to it).
var curWorld *World

// sepSliceOK: in is g[1:] where g is a capture group of the tokeniser's expression that, when it takes part in a match
// and is not empty, starts with one separator character ('=' or ':') - dropping the first byte is TrimPrefix of that
// separator.
func sepSliceOK(w *World, in ssa.Instruction) bool {
	sl, ok := in.(*ssa.Slice)
	if !ok || w == nil || sl.High != nil || sl.Max != nil {
		return false
	}
	if k, ok := constInt(sl.Low); !ok || k != 1 {
		return false
	}
	ld, ok := sl.X.(*ssa.UnOp)
	if !ok || ld.Op != token.MUL {
		return false
	}
	ia, ok := ld.X.(*ssa.IndexAddr)
	if !ok {
		return false
	}
	grp, ok := constInt(ia.Index)
	if !ok || grp < 1 {
		return false
	}
	globals := submatchRegexes(w, ia.X, map[ssa.Value]bool{})
	if len(globals) == 0 {
		return false
	}
	infos := w.regexConstants()
	for _, g := range globals {
		var re *syntax.Regexp
		for _, ri := range infos {
			if ri.Global == g && ri.Err == nil {
				re = ri.Re
			}
		}
		if re == nil {
			return false
		}
		groups := rxGroups(re)
		if int(grp) >= len(groups) || groups[grp] == nil || len(groups[grp].Sub) != 1 {
			return false
		}
		first := groups[grp].Sub[0]
		if first.Op == syntax.OpConcat && len(first.Sub) > 0 {
			first = first.Sub[0]
		}
		isSep := func(r rune) bool { return r == '=' || r == ':' }
		// … or the group takes the whole rest of the text right behind a greedy run of non-separator characters
		// (`([^=:]+)(.*?)$`): the run is as long as it can be, so what is left starts with a separator or is empty
		if rxMatchesEverything(groups[grp]) && re.Op == syntax.OpConcat {
			okPrev := false
			for i, el := range re.Sub {
				if el != groups[grp] || i == 0 {
					continue
				}
				last := true
				for _, after := range re.Sub[i+1:] {
					if after.Op != syntax.OpEndText && after.Op != syntax.OpEndLine {
						last = false
					}
				}
				prev := re.Sub[i-1]
				if prev.Op == syntax.OpCapture && len(prev.Sub) == 1 {
					prev = prev.Sub[0]
				}
				if last && (prev.Op == syntax.OpPlus || prev.Op == syntax.OpStar) && prev.Flags&syntax.NonGreedy == 0 && len(prev.Sub) == 1 {
					if comp, ok := rxClassComplement(prev.Sub[0], 4); ok && len(comp) > 0 {
						okPrev = true
						for _, r := range comp {
							if !isSep(r) {
								okPrev = false
							}
						}
					}
				}
			}
			if okPrev {
				continue
			}
		}
		switch first.Op {
		case syntax.OpLiteral:
			if len(first.Rune) < 1 || !isSep(first.Rune[0]) || first.Flags&syntax.FoldCase != 0 {
				return false
			}
		case syntax.OpCharClass:
			for i := 0; i+1 < len(first.Rune); i += 2 {
				for r := first.Rune[i]; r <= first.Rune[i+1]; r++ {
					if !isSep(r) {
						return false
					}
				}
			}
			if len(first.Rune) == 0 {
				return false
			}
		default:
			return false
		}
	}
	return true
}

// R01.2
func rC01Splitter(w *World, r *Report) {
	ru := r.Rule("R01.2", "splitter provenance: every name and attached value isOption returns is cut out of its input string by submatch / TrimPrefix of one leading '=' or ':' / per-rune split, with no other transformation", 5)
	fn := w.Fn(nIsOption)
	if fn == nil {
		ru.Undecided("anchor", "-", "isOption not found")
		return
	}
	for _, b := range fn.Blocks {
		for _, in := range b.Instrs {
			ret, ok := in.(*ssa.Return)
			if !ok {
				continue
			}
			p := NewProv(w, fn)
			p.Slice(ret.Results[0])
			badOps := p.BadOps(splitterOpAllowed)
			badSrc := p.BadSrcs(func(s provSrc) bool {
				switch s.Kind {
				case "param":
					return s.V == ssa.Value(fn.Params[0])
				case "const":
					c := s.V.(*ssa.Const)
					if c.Value == nil {
						return true
					}
					if str, ok := constString(c); ok {
						return str == "--" || str == "-" || str == "" || str == "=" || str == ":"
					}
					return true
				case "global":
					return strings.HasPrefix(s.Name, "getoptions.isOptionRegex")
				case "zero", "fresh":
					return true
				}
				return false
			})
			if len(badOps) == 0 && len(badSrc) == 0 {
				ru.OK("isOption/return", w.IPos(ret), "pairs derive from the input string through the splitter's own cuts only")
			} else {
				ru.Bad("isOption/return", w.IPos(ret), "option name / attached value is transformed or comes from elsewhere: "+strings.Join(append(badOps, badSrc...), "; "))
			}
		}
	}
}

// isConvErrorEdge: block p ends in a test of another strconv conversion's error and reaches tgt on the failing side
// (`if err1 != nil || err2 != nil` enters the same error block from two conversion failures).
func isConvErrorEdge(p, tgt *ssa.BasicBlock) bool {
	iff, ok := p.Instrs[len(p.Instrs)-1].(*ssa.If)
	if !ok {
		return false
	}
	bo, ok := iff.Cond.(*ssa.BinOp)
	if !ok || (bo.Op != token.NEQ && bo.Op != token.EQL) {
		return false
	}
	v := bo.X
	if isNilConst(bo.X) {
		v = bo.Y
	} else if !isNilConst(bo.Y) {
		return false
	}
	ex, ok := v.(*ssa.Extract)
	if !ok || ex.Index != 1 {
		return false
	}
	c, ok := ex.Tuple.(*ssa.Call)
	if !ok || !strings.HasPrefix(calleeName(c), "strconv.") {
		return false
	}
	k := 0
	if bo.Op == token.EQL {
		k = 1
	}
	return k < len(p.Succs) && p.Succs[k] == tgt
}

// R01.3
func rC01ParserArgs(w *World, r *Report) {
	ru := r.Rule("R01.3", "parser provenance: every argument of every Save call in the parser is the attached value of the current pair or iterator.Value(), unmodified", 3)
	m := parserOrFail(w, ru)
	if m == nil {
		return
	}
	for _, c := range m.saveCalls {
		args := c.Call.Args
		if len(args) < 2 {
			ru.Bad("Save-call", w.IPos(c), "Save without argument list")
			continue
		}
		p := NewProv(w, m.fn)
		p.opaque[nIterValue] = true
		p.opaque[nIterPeek] = true
		p.Slice(args[1])
		badOps := p.BadOps(func(kind string, in ssa.Instruction) bool {
			if kind == "call:"+nIterValue {
				return true
			}
			return splitterOpAllowed(kind, in)
		})
		badSrc := p.BadSrcs(func(s provSrc) bool {
			switch s.Kind {
			case "param":
				return s.Name == "getoptions.parseCLIArgs:args" || s.Name == "getoptions.parseCLIArgs:mode"
			case "const", "zero", "fresh":
				if str, ok := constString(s.V); ok {
					return str == "--" || str == "-" || str == "" || str == "=" || str == ":"
				}
				return true
			case "global":
				return strings.HasPrefix(s.Name, "getoptions.isOptionRegex")
			}
			return false
		})
		if len(badOps) == 0 && len(badSrc) == 0 {
			ru.OK("Save-call", w.IPos(c), "arguments are pair.Args / iterator.Value() verbatim")
		} else {
			ru.Bad("Save-call", w.IPos(c), "value handed to Save is not the token text: "+strings.Join(append(badOps, badSrc...), "; "))
		}
	}
}

// R01.4
func rC01TypedStore(w *World, r *Report) {
	ru := r.Rule("R01.4", "typed store in Save: string kinds store an unmodified element; int kinds the result of strconv.Atoi (or ParseInt base 10) of an unmodified element, float kinds of ParseFloat(_, 64), each only on the err == nil edge; bool stores the negated write-once default or the literal named; increment stores current+1", 8)
	fn := w.Fn(nSave)
	if fn == nil {
		ru.Undecided("anchor", "-", "Save not found")
		return
	}
	sums := setterSummaries(w)
	sinks, problems := saveSinks(w, fn, sums)
	for _, p := range problems {
		ru.Undecided("Save/sink", w.Pos(fn.Pos()), p)
	}
	var a *ssa.Parameter
	if len(fn.Params) == 2 {
		a = fn.Params[1]
	}
	if a == nil {
		ru.Undecided("Save/params", w.Pos(fn.Pos()), "unexpected signature")
		return
	}
	for _, s := range sinks {
		key := "Save/" + s.field.Name()
		pos := w.IPos(s.in)
		s.val = resolvePhi(s.val, s.in.Block()) // a value merged with its error by an inlined helper
		switch s.field.Name() {
		case "pString":
			if elemOfParam(s.val, a) {
				ru.OK(key, pos, "stores an element of the argument list unmodified")
			} else {
				p := NewProv(w, fn).Slice(s.val)
				ru.Bad(key, pos, "string value is not an unmodified argument: "+strings.Join(append(p.OpKinds(), p.SrcNames()...), ", "))
			}
		case "pInt", "pFloat64":
			wantFloat := s.field.Name() == "pFloat64"
			if c := converterOf(s.val); c != nil {
				ok, why := converterOK(c, wantFloat)
				if ok && !elemOfParam(c.Call.Args[0], a) {
					ok, why = false, "the converted text is not an unmodified argument"
				}
				if ok && !errNilDominates(c, s.in.Block()) {
					ok, why = false, "the store is not confined to the err == nil edge of the conversion: a partially converted / zero value can be stored for invalid text"
				}
				if ok {
					ru.OK(key, pos, why+" of an unmodified argument, stored only when err == nil")
				} else {
					ru.Bad(key, pos, why)
				}
				continue
			}
			// increment: load + 1
			if bo, ok := s.val.(*ssa.BinOp); ok && bo.Op == token.ADD && !wantFloat {
				if k, ok := constInt(bo.Y); ok && k == 1 && isCurrentInt(bo.X) {
					ru.OK(key+"/increment", pos, "stores current value + 1")
					continue
				}
			}
			ru.Bad(key, pos, "numeric value stored is neither a strconv conversion of an argument nor current+1: "+s.val.String())
		case "pBool":
			if s.kind == "opposite-default" {
				ru.OK(key+"/opposite-default", pos, "stores !boolDefault (idempotent: does not read the variable)")
				continue
			}
			if c, ok := s.val.(*ssa.Const); ok && c.Value != nil {
				// SetBool(true) under a[0] == "true"
				want := c.Value.String()
				guarded := false
				for _, f := range factsAt(s.in.Block()) {
					if f.Op == token.EQL && f.Y != nil {
						if str, ok := constString(f.Y); ok && str == want && elemOfParam(f.X, a) {
							guarded = true
						}
					}
				}
				if guarded {
					ru.OK(key+"/literal", pos, "stores "+want+" when the argument is the literal \""+want+"\"")
				} else {
					ru.Bad(key+"/literal", pos, "stores a constant bool without the matching literal test")
				}
				continue
			}
			ru.Bad(key, pos, "bool store that is neither the negated default nor a guarded literal (e.g. a toggle of the current value is not idempotent): "+fmt.Sprint(s.val))
		case "pStringS", "pIntS", "pFloat64S", "pStringM":
			// judged by C02
		default:
			ru.Undecided(key, pos, "receiver field not known to the rule")
		}
	}
	// the write-once default
	fBD := w.Field("option", "Option", "boolDefault")
	for _, u := range w.fieldUses(fBD) {
		if u.Kind != "read" && short(u.Fn) != "option.New" {
			ru.Bad("boolDefault-writer/"+short(u.Fn), w.IPos(u.Instr), "boolDefault written outside option.New: a repeated flag would no longer read the negation of its declared default")
		}
	}
	// setter bodies: a "param" setter stores its parameter itself
	for fnS, s := range sums {
		if s.kind == "other" || s.kind == "mixed" {
			ru.Bad("setter/"+short(fnS), w.Pos(fnS.Pos()), "method writes the user variable "+s.field.Name()+" in a way that is not understood")
		}
	}
}

// isCurrentInt: v reads the option's current int value (opt.Int() or *opt.pInt).
func isCurrentInt(v ssa.Value) bool {
	if c, ok := v.(*ssa.Call); ok && calleeName(c) == "(*option.Option).Int" {
		return true
	}
	if u, ok := v.(*ssa.UnOp); ok && u.Op == token.MUL {
		if f := recvFieldOfPtr(u.X); f != nil && f.Name() == "pInt" {
			return true
		}
	}
	return false
}

// R01.5
func rC01ErrDiscipline(w *World, r *Report) {
	ru := r.Rule("R01.5", "error discipline: in Save every conversion error leads to a non-nil error return with no store on that edge; every Save call of the library has its error checked and returned (table exception: the two deliberate discards in GetEnv)", 10)
	fn := w.Fn(nSave)
	if fn == nil {
		ru.Undecided("anchor", "-", "Save not found")
		return
	}
	sums := setterSummaries(w)
	ig := buildIG(fn)
	isSink := func(in ssa.Instruction) bool {
		if c, ok := in.(ssa.CallInstruction); ok {
			if _, ok := sums[c.Common().StaticCallee()]; ok {
				return true
			}
		}
		for _, x := range receiverWrites(fn) {
			if x.in == in {
				return true
			}
		}
		return false
	}
	for _, c := range allCalls(fn) {
		call, ok := c.(*ssa.Call)
		if !ok {
			continue
		}
		switch calleeName(call) {
		case "strconv.Atoi", "strconv.ParseFloat", "strconv.ParseInt", "strconv.ParseBool", "strconv.ParseUint":
		default:
			continue
		}
		key := "Save/conversion-error"
		var errIf *ssa.If
		errK := -1
		for _, ref := range *call.Referrers() {
			ex, ok := ref.(*ssa.Extract)
			if !ok || ex.Index != 1 || ex.Referrers() == nil {
				continue
			}
			for _, r2 := range *ex.Referrers() {
				if bo, ok := r2.(*ssa.BinOp); ok && (bo.Op == token.NEQ || bo.Op == token.EQL) && (isNilConst(bo.Y) || isNilConst(bo.X)) {
					for _, r3 := range *bo.Referrers() {
						if iff, ok := r3.(*ssa.If); ok {
							errIf = iff
							if bo.Op == token.NEQ {
								errK = 0
							} else {
								errK = 1
							}
						}
					}
				}
			}
		}
		if errIf == nil {
			ru.Bad(key, w.IPos(call), "conversion error is not tested: invalid text would be stored as a default / partial value")
			continue
		}
		seen := ig.reachFrom(ig.edgeStart(errIf.Block(), errK), nil)
		good := true
		why := ""
		nret := 0
		// the error block is entered only because the conversion failed: no further condition rejects text the
		// converter accepted (a value is stored exactly when it converts)
		if errK < len(errIf.Block().Succs) {
			tgt := errIf.Block().Succs[errK]
			for _, p := range tgt.Preds {
				if p != errIf.Block() && !isConvErrorEdge(p, tgt) {
					good, why = false, "the conversion-error return at "+w.IPos(tgt.Instrs[0])+" is also entered from "+w.IPos(p.Instrs[len(p.Instrs)-1])+": text the converter accepts is rejected by an extra condition"
				}
			}
		}
		for i, s := range seen {
			if !s {
				continue
			}
			in := ig.instrs[i]
			if isSink(in) {
				good, why = false, "a store is reachable on the conversion-error edge at "+w.IPos(in)
			}
			if ret, ok := in.(*ssa.Return); ok {
				nret++
				if isNilConst(ret.Results[0]) {
					good, why = false, "the conversion-error edge can return nil at "+w.IPos(ret)
				}
			}
		}
		if nret == 0 {
			good, why = false, "the conversion-error edge does not return"
		}
		if good && why == "" {
			ru.OK(key, w.IPos(call), "err != nil ⇒ non-nil error returned, nothing stored")
		} else {
			ru.Bad(key, w.IPos(call), why)
		}
	}
	// inside the loops over the argument list Save only ever returns errors: a value that is refused (not a valid
	// value, not convertible) fails the parse, it is never skipped silently (the parser has already taken the token)
	{
		var args *ssa.Parameter
		for _, p := range fn.Params {
			if typeString(p.Type()) == "[]string" {
				args = p
			}
		}
		nLoops := 0
		for _, h := range loopHeaders(fn) {
			if args == nil || rangeCollectionOfHeader(h) != ssa.Value(args) {
				continue
			}
			nLoops++
			// blocks dominated by the body entry: the loop body and the exits taken from inside it
			for _, lb := range fn.Blocks {
				if len(h.Succs) == 0 || !h.Succs[0].Dominates(lb) {
					continue
				}
				for _, in := range lb.Instrs {
					ret, ok := in.(*ssa.Return)
					if !ok {
						continue
					}
					nilPossible := false
					for _, v := range phiLeaves(ret.Results[0], map[ssa.Value]bool{}) {
						if isNilConst(v) {
							nilPossible = true
						}
					}
					// `if err != nil { return err }`: the test excludes the nil operand of a merged error variable
					for _, f := range factsAt(lb) {
						if f.Op == token.NEQ && f.Y != nil && (f.X == ret.Results[0] && isNilConst(f.Y) || f.Y == ret.Results[0] && isNilConst(f.X)) {
							nilPossible = false
						}
					}
					ru.Check(!nilPossible, "Save/loop-return", w.IPos(ret), "returns an error", "Save returns success from inside the loop over its arguments: a refused or remaining value is dropped silently (neither stored nor reported)")
				}
			}
		}
		if nLoops == 0 {
			ru.Undecided("Save/loop-return", w.Pos(fn.Pos()), "no loop over the argument list found in Save")
		}
	}
	// Save call sites
	for _, f := range w.Funcs {
		for _, c := range callsTo(f, nSave) {
			call, ok := c.(*ssa.Call)
			key := "Save-result/" + short(f)
			if !ok {
				ru.Bad(key, w.IPos(c), "Save called in go/defer: result lost")
				continue
			}
			refs := call.Referrers()
			used := false
			returned := false
			if refs != nil {
				for _, ref := range *refs {
					switch x := ref.(type) {
					case *ssa.Phi:
						// single exit: the error travels through a result variable to the return
						used = true
						seenPhi := map[*ssa.Phi]bool{}
						var follow func(p *ssa.Phi)
						follow = func(p *ssa.Phi) {
							if seenPhi[p] || p.Referrers() == nil {
								return
							}
							seenPhi[p] = true
							for _, r2 := range *p.Referrers() {
								switch y := r2.(type) {
								case *ssa.Return:
									if len(y.Results) > 0 && y.Results[len(y.Results)-1] == ssa.Value(p) {
										returned = true
									}
								case *ssa.Phi:
									follow(y)
								}
							}
						}
						follow(x)
					case *ssa.Return:
						returned = true
						used = true
					case *ssa.BinOp:
						used = true
						// err != nil -> return err
						for _, r2 := range *x.Referrers() {
							if iff, ok := r2.(*ssa.If); ok {
								k := 0
								if x.Op == token.EQL {
									k = 1
								}
								ig2 := buildIG(f)
								seen := ig2.reachFrom(ig2.edgeStart(iff.Block(), k), nil)
								for i, s := range seen {
									if ret, ok := ig2.instrs[i].(*ssa.Return); ok && s && len(ret.Results) > 0 {
										last := ret.Results[len(ret.Results)-1]
										if last == ssa.Value(call) {
											returned = true
										}
									}
								}
							}
						}
					case *ssa.DebugRef:
					default:
						used = true
					}
				}
			}
			switch {
			case returned:
				ru.OK(key, w.IPos(call), "error of Save is returned to the caller")
			case strings.HasPrefix(short(f), "(*getoptions.GetOpt).GetEnv$"):
				ru.Present(key, w.IPos(call), "table exception: invalid environment text deliberately keeps the default (C12)")
			case !used:
				ru.Bad(key, w.IPos(call), "error of Save is discarded: an invalid value would be silently ignored")
			default:
				ru.Bad(key, w.IPos(call), "error of Save is not propagated as a returned error")
			}
		}
	}
}

// R01.6 (shared with C06)
func rC01CalledOnMatch(w *World, r *Report) {
	calledOnMatch(w, r, "R01.6")
}

func calledOnMatch(w *World, r *Report, id string) {
	ru := r.Rule(id, "on a match every path from the table lookup to the first Save stores Called = true and UsedAlias = the matched full name on the matched record", 2)
	m := parserOrFail(w, ru)
	if m == nil {
		return
	}
	lkIf, lk := m.lookupOkIf()
	if lkIf == nil {
		ru.Undecided("lookup", w.Pos(m.fn.Pos()), "table lookup of the matched name not found")
		return
	}
	var rec ssa.Value
	for _, ref := range *lk.Referrers() {
		if ex, ok := ref.(*ssa.Extract); ok && ex.Index == 0 {
			rec = ex
		}
	}
	if rec == nil {
		ru.Undecided("lookup", w.IPos(lk), "record value of the lookup not used")
		return
	}
	starts := m.ig.edgeStart(lkIf.Block(), 0)
	isSave := func(in ssa.Instruction) bool {
		c, ok := in.(*ssa.Call)
		return ok && calleeName(c) == nSave
	}
	for _, want := range []struct {
		f    *types.Var
		name string
	}{{m.fCalled, "Called"}, {m.fUsedAlias, "UsedAlias"}} {
		via := func(in ssa.Instruction) bool {
			base, f, val, ok := storeField(in)
			if !ok || f != want.f || base != rec {
				return false
			}
			if want.name == "Called" {
				c, ok := val.(*ssa.Const)
				return ok && c.Value != nil && c.Value.String() == "true"
			}
			// UsedAlias = matches[0] (same element as the lookup key)
			return sameElem(val, lk.Index)
		}
		// either order relative to Save is fine, but it must happen before the next token / success return
		target := func(in ssa.Instruction) bool {
			if in == ssa.Instruction(m.mainNext) {
				return true
			}
			if pl := m.pairLoop(); pl != nil && in == pl.header.Instrs[0] {
				return true
			}
			if ret, ok := in.(*ssa.Return); ok {
				return isNilConst(ret.Results[len(ret.Results)-1])
			}
			return false
		}
		_ = isSave
		ok, wit := m.ig.mustPass(starts, via, target)
		if ok {
			ru.OK("match/"+want.name, w.IPos(lkIf), want.name+" is stored on the matched record on every non-error path")
		} else {
			ru.Bad("match/"+want.name, w.IPos(wit), want.name+" is not stored (with the matched full name) on some path after a match: Called/CalledAs would be wrong")
		}
	}
}

// sameElem: both values are loads of the same constant index of the same slice.
func sameElem(a, b ssa.Value) bool {
	ua, ok1 := a.(*ssa.UnOp)
	ub, ok2 := b.(*ssa.UnOp)
	if !ok1 || !ok2 {
		return false
	}
	ia, ok1 := ua.X.(*ssa.IndexAddr)
	ib, ok2 := ub.X.(*ssa.IndexAddr)
	if !ok1 || !ok2 || ia.X != ib.X {
		return false
	}
	ka, ok1 := constInt(ia.Index)
	kb, ok2 := constInt(ib.Index)
	return ok1 && ok2 && ka == kb
}

// R01.7: the no-value arm of Save.
func rC01NoValueArm(w *World, r *Report) {
	ru := r.Rule("R01.7", "Save without a value writes only: bool → negated default, increment → current+1; every other kind (the optional-value kinds) is left at its default and nil is returned", 2)
	fn := w.Fn(nSave)
	if fn == nil {
		ru.Undecided("anchor", "-", "Save not found")
		return
	}
	sums := setterSummaries(w)
	sinks, _ := saveSinks(w, fn, sums)
	var a *ssa.Parameter
	if len(fn.Params) == 2 {
		a = fn.Params[1]
	}
	noValue := func(b *ssa.BasicBlock) bool {
		for _, f := range factsAt(b) {
			if lenFactMax(f, a, 0) {
				return true
			}
		}
		return false
	}
	n := 0
	for _, s := range sinks {
		if !noValue(s.in.Block()) {
			continue
		}
		n++
		key := "Save/no-value/" + s.field.Name()
		switch {
		case s.field.Name() == "pBool" && s.kind == "opposite-default":
			ru.OK(key, w.IPos(s.in), "bool: negated default")
		case s.field.Name() == "pInt":
			if bo, ok := s.val.(*ssa.BinOp); ok && bo.Op == token.ADD && isCurrentInt(bo.X) {
				if k, ok := constInt(bo.Y); ok && k == 1 {
					// must be under OptType == IncrementType
					if kindFactIs(w, s.in.Block(), "IncrementType") {
						ru.OK(key, w.IPos(s.in), "increment: current+1 under OptType == IncrementType")
						continue
					}
				}
			}
			ru.Bad(key, w.IPos(s.in), "int written without a value outside the increment kind: an optional int given without value would not keep its default")
		default:
			ru.Bad(key, w.IPos(s.in), "variable written although no value was given: optional-value options must keep their default")
		}
	}
	if n < 2 {
		ru.Bad("Save/no-value", w.Pos(fn.Pos()), fmt.Sprintf("%d write(s) found in the no-value arm, expected the bool and the increment ones", n))
	}
	// returns nil in the no-value region
	for _, b := range fn.Blocks {
		if !noValue(b) {
			continue
		}
		for _, in := range b.Instrs {
			if ret, ok := in.(*ssa.Return); ok && !isNilConst(ret.Results[0]) {
				ru.Bad("Save/no-value/return", w.IPos(ret), "Save without a value returns an error")
			}
		}
	}
}

// lenFactMax: fact establishes len(x) <= max.
func lenFactMax(f Fact, x ssa.Value, max int64) bool {
	if f.Y == nil || x == nil {
		return false
	}
	c, ok := f.X.(*ssa.Call)
	if !ok || calleeName(c) != "builtin:len" || c.Call.Args[0] != x {
		return false
	}
	k, ok := constInt(f.Y)
	if !ok {
		return false
	}
	switch f.Op {
	case token.LSS:
		return k-1 <= max
	case token.LEQ, token.EQL:
		return k <= max
	}
	return false
}

// kindFactIs: block is dominated by OptType == <const name>.
func kindFactIs(w *World, b *ssa.BasicBlock, constName string) bool {
	c, ok := w.Obj("option", constName).(*types.Const)
	if !ok {
		return false
	}
	want := c.Val().String()
	for _, f := range factsAt(b) {
		if f.Op != token.EQL || f.Y == nil {
			continue
		}
		if _, ok := loadOfFieldNamed(f.X, "OptType"); !ok {
			continue
		}
		if k, ok := f.Y.(*ssa.Const); ok && k.Value != nil && k.Value.String() == want {
			return true
		}
	}
	return false
}

package main

// gvn.go - redundant loads. go/ssa performs no common-subexpression elimination: `len(g.Vertices)` evaluated twice is
// two unrelated values, and a fact learnt about the first (`len(g.Vertices) == 0` was false) says nothing about the
// second. After a helper was extracted and inlined again, or a guard was repeated for clarity, that is exactly the
// shape the rules meet. This file groups the values of a function into classes of equal values, conservatively:
//
//   - a load of field f through equal bases is the same value everywhere in the function when f is *stable* there:
//     the function itself (its nested literals aside) stores to no field named f of that struct type, and nothing it
//     calls can - the static callees, transitively, contain no such store and no call through a function value or an
//     interface into code that could (calls into other modules are taken not to write the library's fields);
//   - for a map-typed field the same must hold for map updates and deletes on a load of that field;
//   - `len` / `cap` of equal values are equal (for a map: of a stable map field only).
//
// Facts about one member of a class are facts about every member (condFacts duplicates them), and the value-sensitive
// reach looks an unknown value up under the other members of its class.

import (
	"fmt"
	"go/token"
	"go/types"
	"os"
	"sync"

	"golang.org/x/tools/go/ssa"
)

type gvnInfo struct {
	class map[ssa.Value][]ssa.Value
}

var gvnCache sync.Map // *ssa.Function -> *gvnInfo

// fieldWriters: per program, field object -> functions that store to it (or update / delete from a map loaded from it);
// and the set of functions that contain a call that cannot be resolved statically inside the library.
type progEffects struct {
	writers map[*types.Var]map[*ssa.Function]bool
	opaque  map[*ssa.Function]bool
	callees map[*ssa.Function][]*ssa.Function
	// stores through pointers of unknown origin, by the type stored: they can hit a field of that very type only
	ptrStores map[*ssa.Function][]types.Type
	// fields whose address is taken for something other than a load or a store (passed on, stored, returned): only
	// those can be hit by a store through a pointer of unknown origin
	escaping map[*types.Var]bool
}

var effectsCache sync.Map // *ssa.Program -> *progEffects

func effectsOf(prog *ssa.Program, roots []*ssa.Function) *progEffects {
	if e, ok := effectsCache.Load(prog); ok {
		return e.(*progEffects)
	}
	e := &progEffects{writers: map[*types.Var]map[*ssa.Function]bool{}, opaque: map[*ssa.Function]bool{}, callees: map[*ssa.Function][]*ssa.Function{}, ptrStores: map[*ssa.Function][]types.Type{}, escaping: map[*types.Var]bool{}}
	seen := map[*ssa.Function]bool{}
	var visit func(fn *ssa.Function)
	visit = func(fn *ssa.Function) {
		if fn == nil || seen[fn] || fn.Blocks == nil {
			return
		}
		seen[fn] = true
		addW := func(f *types.Var) {
			if e.writers[f] == nil {
				e.writers[f] = map[*ssa.Function]bool{}
			}
			e.writers[f][fn] = true
		}
		fieldOfLoad := func(v ssa.Value) *types.Var {
			if ld, ok := v.(*ssa.UnOp); ok && ld.Op == token.MUL {
				if fa, ok := ld.X.(*ssa.FieldAddr); ok {
					return fieldOfAddr(fa)
				}
			}
			return nil
		}
		for _, b := range fn.Blocks {
			for _, in := range b.Instrs {
				if fa, ok := in.(*ssa.FieldAddr); ok && fa.Referrers() != nil {
					for _, r := range *fa.Referrers() {
						switch u := r.(type) {
						case *ssa.UnOp, *ssa.DebugRef:
						case *ssa.Store:
							if u.Addr != ssa.Value(fa) {
								e.escaping[fieldOfAddr(fa)] = true // the address itself is stored
							}
						case *ssa.FieldAddr, *ssa.IndexAddr:
							// an inner field or element of it: its own uses are judged at that instruction; the
							// outer field escapes if the inner address does (approximated: treat as escaping only
							// when the inner address is used for more than loads and stores)
							if iv, ok := r.(ssa.Value); ok && iv.Referrers() != nil {
								for _, r2 := range *iv.Referrers() {
									switch u2 := r2.(type) {
									case *ssa.UnOp, *ssa.DebugRef, *ssa.FieldAddr, *ssa.IndexAddr:
									case *ssa.Store:
										if u2.Addr != iv {
											e.escaping[fieldOfAddr(fa)] = true
										}
									default:
										e.escaping[fieldOfAddr(fa)] = true
									}
								}
							}
						default:
							e.escaping[fieldOfAddr(fa)] = true
						}
					}
				}
				switch x := in.(type) {
				case *ssa.Store:
					if fa, ok := x.Addr.(*ssa.FieldAddr); ok {
						addW(fieldOfAddr(fa))
					} else if _, isAlloc := x.Addr.(*ssa.Alloc); !isAlloc {
						if _, isG := x.Addr.(*ssa.Global); !isG {
							if _, isIA := x.Addr.(*ssa.IndexAddr); !isIA {
								e.ptrStores[fn] = append(e.ptrStores[fn], x.Val.Type()) // a store through a pointer of unknown origin
							}
						}
					}
				case *ssa.MapUpdate:
					if f := fieldOfLoad(x.Map); f != nil {
						addW(f)
					}
				case ssa.CallInstruction:
					c := x.Common()
					if _, isGo := x.(*ssa.Go); isGo {
						// what a launched goroutine does is not an effect of this call: see behindGo in buildGVN
						if callee := c.StaticCallee(); callee != nil {
							visit(callee)
						}
						continue
					}
					if c.IsInvoke() {
						// a method of an interface that another module declares (context.Context, io.Writer, error):
						// taken not to reach back into the library's state
						if nt, ok := c.Value.Type().(*types.Named); ok && nt.Obj().Pkg() != nil && fn.Pkg != nil && !sameModule(nt.Obj().Pkg().Path(), fn.Pkg.Pkg.Path()) {
							continue
						}
						if c.Value.Type().String() == "error" {
							continue
						}
						e.opaque[fn] = true
						continue
					}
					if bi, ok := c.Value.(*ssa.Builtin); ok {
						if bi.Name() == "delete" && len(c.Args) > 0 {
							if f := fieldOfLoad(c.Args[0]); f != nil {
								addW(f)
							}
						}
						continue
					}
					callee := c.StaticCallee()
					if callee == nil {
						e.opaque[fn] = true
						continue
					}
					if callee.Blocks == nil || callee.Pkg == nil || fn.Pkg == nil {
						continue
					}
					e.callees[fn] = append(e.callees[fn], callee)
					visit(callee)
				}
			}
		}
		for _, a := range fn.AnonFuncs {
			visit(a)
		}
	}
	for _, r := range roots {
		visit(r)
	}
	effectsCache.Store(prog, e)
	return e
}

// mayWrite: calling fn can, transitively, write field f (or reaches code that cannot be followed).
func (e *progEffects) mayWrite(fn *ssa.Function, f *types.Var, seen map[*ssa.Function]bool, inLibrary func(*ssa.Function) bool) bool {
	if fn == nil || seen[fn] {
		return false
	}
	seen[fn] = true
	if !inLibrary(fn) {
		return false // another module: does not know the library's fields
	}
	if e.opaque[fn] || e.writers[f][fn] {
		return true
	}
	if e.escaping[f] {
		for _, t := range e.ptrStores[fn] {
			if types.Identical(t, f.Type()) {
				return true
			}
		}
	}
	for _, c := range e.callees[fn] {
		if e.mayWrite(c, f, seen, inLibrary) {
			return true
		}
	}
	return false
}

func gvnOf(fn *ssa.Function) *gvnInfo {
	if g, ok := gvnCache.Load(fn); ok {
		return g.(*gvnInfo)
	}
	g := buildGVN(fn)
	gvnCache.Store(fn, g)
	return g
}

func buildGVN(fn *ssa.Function) *gvnInfo {
	g := &gvnInfo{class: map[ssa.Value][]ssa.Value{}}
	if fn == nil || fn.Blocks == nil || fn.Prog == nil || fn.Pkg == nil {
		return g
	}
	modPath := ""
	if fn.Pkg != nil {
		modPath = fn.Pkg.Pkg.Path()
	}
	root := modPath
	// the library = packages sharing the first three path elements with this one (module path)
	parts := 0
	for i, ch := range modPath {
		if ch == '/' {
			parts++
			if parts == 3 {
				root = modPath[:i]
				break
			}
		}
	}
	inLibrary := func(f *ssa.Function) bool {
		return f.Pkg != nil && len(f.Pkg.Pkg.Path()) >= len(root) && f.Pkg.Pkg.Path()[:len(root)] == root
	}
	var roots []*ssa.Function
	for _, p := range fn.Prog.AllPackages() {
		if len(p.Pkg.Path()) >= len(root) && p.Pkg.Path()[:len(root)] == root {
			for _, m := range p.Members {
				if f, ok := m.(*ssa.Function); ok {
					roots = append(roots, f)
				}
				if t, ok := m.(*ssa.Type); ok {
					for _, tt := range []types.Type{t.Type(), types.NewPointer(t.Type())} {
						ms := fn.Prog.MethodSets.MethodSet(tt)
						for i := 0; i < ms.Len(); i++ {
							if mf := fn.Prog.MethodValue(ms.At(i)); mf != nil {
								roots = append(roots, mf)
							}
						}
					}
				}
			}
		}
	}
	eff := effectsOf(fn.Prog, roots)
	// fields this function (without its literals) may see change
	unstable := map[*types.Var]bool{}
	stableKnown := map[*types.Var]bool{}
	isStable := func(f *types.Var) bool {
		if f == nil {
			return false
		}
		if k, ok := stableKnown[f]; ok {
			return k
		}
		ok := !eff.writers[f][fn] && !eff.opaque[fn]
		if eff.escaping[f] {
			for _, t := range eff.ptrStores[fn] {
				if types.Identical(t, f.Type()) {
					ok = false
				}
			}
		}
		if ok {
			for _, c := range eff.callees[fn] {
				if eff.mayWrite(c, f, map[*ssa.Function]bool{}, inLibrary) {
					if os.Getenv("GOCHK_GVN_DEBUG") == fn.Name() {
						fmt.Fprintf(os.Stderr, "  %s may be written through %s\n", f.Name(), c)
					}
					ok = false
					break
				}
			}
		} else if os.Getenv("GOCHK_GVN_DEBUG") == fn.Name() {
			fmt.Fprintf(os.Stderr, "  %s written here=%v opaque=%v\n", f.Name(), eff.writers[f][fn], eff.opaque[fn])
		}
		stableKnown[f] = ok
		unstable[f] = !ok
		return ok
	}
	keys := map[ssa.Value]string{}
	local := map[ssa.Value]*types.Var{}
	var key func(v ssa.Value, depth int) string
	key = func(v ssa.Value, depth int) string {
		if k, ok := keys[v]; ok {
			return k
		}
		k := fmt.Sprintf("#%p", v)
		if depth < 6 {
			switch x := v.(type) {
			case *ssa.UnOp:
				if x.Op == token.MUL {
					// a captured variable that is written once (its cell is stored to exactly once, by this
					// function, and by none of its literals) is the value stored
					if al, ok := x.X.(*ssa.Alloc); ok && al.Referrers() != nil {
						var stored ssa.Value
						n := 0
						for _, r := range *al.Referrers() {
							switch u := r.(type) {
							case *ssa.Store:
								if u.Addr == ssa.Value(al) {
									n++
									stored = u.Val
								} else {
									n = 99 // the cell's address is stored somewhere
								}
							case *ssa.UnOp, *ssa.DebugRef, *ssa.MakeClosure:
							default:
								n = 99
							}
						}
						for _, a := range fn.AnonFuncs {
							if literalStoresTo(a, al, fn) {
								n = 99
							}
						}
						if n == 1 && stored != nil {
							k = key(stored, depth+1)
							break
						}
					}
					if fa, ok := x.X.(*ssa.FieldAddr); ok && isStable(fieldOfAddr(fa)) {
						k = "ld(" + fieldOfAddr(fa).Name() + "@" + fmt.Sprintf("%p", fieldOfAddr(fa)) + "," + key(fa.X, depth+1) + ")"
					} else if ok && depth == 0 && !eff.opaque[fn] {
						// written in this function (or through one of its calls): equal only where no such write
						// lies between two loads - decided pair by pair below
						local[x] = fieldOfAddr(fa)
						k = "ldL(" + fieldOfAddr(fa).Name() + "@" + fmt.Sprintf("%p", fieldOfAddr(fa)) + "," + key(fa.X, depth+1) + ")"
					}
				}
			case *ssa.Call:
				if bi, ok := x.Call.Value.(*ssa.Builtin); ok && (bi.Name() == "len" || bi.Name() == "cap") && len(x.Call.Args) == 1 {
					a := x.Call.Args[0]
					ak := key(a, depth+1)
					_, isMap := a.Type().Underlying().(*types.Map)
					if !isMap || (len(ak) > 3 && ak[:3] == "ld(") {
						if ak[0] != '#' || !isMap {
							k = bi.Name() + "(" + ak + ")"
						}
					}
				}
			}
		}
		keys[v] = k
		return k
	}
	// what the function's own goroutines do happens while the instructions behind their `go` statement run: a load
	// there is numbered only if no launched literal can write anything (the literals' effects are not per field here)
	behindGo := map[ssa.Instruction]bool{}
	{
		launchedOpaque := false
		var starts []*ssa.BasicBlock
		for _, b := range fn.Blocks {
			for _, in := range b.Instrs {
				if g, ok := in.(*ssa.Go); ok {
					starts = append(starts, b)
					if mc, ok := g.Call.Value.(*ssa.MakeClosure); ok {
						if lf, ok := mc.Fn.(*ssa.Function); ok {
							if eff.opaque[lf] || len(eff.callees[lf]) > 0 {
								launchedOpaque = true
							}
							for f2 := range eff.writers {
								if eff.writers[f2][lf] {
									launchedOpaque = true
								}
							}
						}
					} else {
						launchedOpaque = true
					}
				}
			}
		}
		if launchedOpaque {
			seenB := map[*ssa.BasicBlock]bool{}
			for len(starts) > 0 {
				b := starts[len(starts)-1]
				starts = starts[:len(starts)-1]
				if seenB[b] {
					continue
				}
				seenB[b] = true
				for _, in := range b.Instrs {
					behindGo[in] = true
				}
				starts = append(starts, b.Succs...)
			}
		}
	}
	byKey := map[string][]ssa.Value{}
	for _, b := range fn.Blocks {
		for _, in := range b.Instrs {
			v, ok := in.(ssa.Value)
			if !ok || behindGo[in] {
				continue
			}
			switch v.(type) {
			case *ssa.UnOp, *ssa.Call:
				k := key(v, 0)
				if k[0] != '#' {
					byKey[k] = append(byKey[k], v)
				}
			}
		}
	}
	if os.Getenv("GOCHK_GVN_DEBUG") == fn.Name() {
		fmt.Fprintf(os.Stderr, "GVN %s: opaque=%v callees=%d\n", fn, eff.opaque[fn], len(eff.callees[fn]))
		for _, c := range eff.callees[fn] {
			fmt.Fprintf(os.Stderr, "  callee %s opaque=%v\n", c, eff.opaque[c])
		}
		for f, u := range unstable {
			if u {
				fmt.Fprintf(os.Stderr, "  unstable %s\n", f.Name())
			}
		}
		for k, vs := range byKey {
			fmt.Fprintf(os.Stderr, "  %s: %d\n", k, len(vs))
		}
	}
	var ig *IG
	for k, vs := range byKey {
		if len(vs) < 2 {
			continue
		}
		if len(k) > 4 && k[:4] == "ldL(" {
			// loads of a field that the function writes: a and b are equal when every write (store to the field, call
			// that may write it) reachable from a before a runs again cannot reach b
			f := local[vs[0]]
			if ig == nil {
				ig = buildIG(fn)
			}
			var killers []ssa.Instruction
			for _, b := range fn.Blocks {
				for _, in := range b.Instrs {
					switch x := in.(type) {
					case *ssa.Store:
						if fa, ok := x.Addr.(*ssa.FieldAddr); ok && fieldOfAddr(fa) == f {
							killers = append(killers, in)
						} else if !ok && eff.escaping[f] && types.Identical(x.Val.Type(), f.Type()) {
							if _, isAlloc := x.Addr.(*ssa.Alloc); !isAlloc {
								killers = append(killers, in)
							}
						}
					case *ssa.MapUpdate:
						if ld, ok := x.Map.(*ssa.UnOp); ok {
							if fa, ok := ld.X.(*ssa.FieldAddr); ok && fieldOfAddr(fa) == f {
								killers = append(killers, in)
							}
						}
					case ssa.CallInstruction:
						c := x.Common()
						if _, isB := c.Value.(*ssa.Builtin); isB {
							continue
						}
						callee := c.StaticCallee()
						if callee == nil {
							if c.IsInvoke() {
								if nt, ok := c.Value.Type().(*types.Named); ok && nt.Obj().Pkg() != nil && !sameModule(nt.Obj().Pkg().Path(), fn.Pkg.Pkg.Path()) {
									continue
								}
								if c.Value.Type().String() == "error" {
									continue
								}
							}
							killers = append(killers, in)
							continue
						}
						if eff.mayWrite(callee, f, map[*ssa.Function]bool{}, inLibrary) {
							killers = append(killers, in)
						}
					}
				}
			}
			for _, a := range vs {
				ai, ok := a.(ssa.Instruction)
				if !ok {
					continue
				}
				stopA := func(in ssa.Instruction) bool { return in == ai }
				fromA := ig.reachPlain(ig.after(ai), stopA)
				for _, b := range vs {
					bi, ok := b.(ssa.Instruction)
					if !ok || a == b || !fromA[ig.idx[bi]] {
						continue
					}
					if !(ai.Block().Dominates(bi.Block())) {
						continue
					}
					killed := false
					for _, kl := range killers {
						if !fromA[ig.idx[kl]] {
							continue
						}
						if ig.reachPlain(ig.after(kl), stopA)[ig.idx[bi]] {
							killed = true
							break
						}
					}
					if !killed {
						// not transitive: each value lists the values it was compared with directly
						if len(g.class[a]) == 0 {
							g.class[a] = []ssa.Value{a}
						}
						if len(g.class[b]) == 0 {
							g.class[b] = []ssa.Value{b}
						}
						g.class[a] = append(g.class[a], b)
						g.class[b] = append(g.class[b], a)
					}
				}
			}
			continue
		}
		for _, v := range vs {
			g.class[v] = vs
		}
	}
	return g
}

// sameValueClass: the other values of v's function that are known to equal v (v itself excluded).
func sameValueClass(v ssa.Value) []ssa.Value {
	in, ok := v.(ssa.Instruction)
	if !ok || in.Parent() == nil {
		return nil
	}
	cl := gvnOf(in.Parent()).class[v]
	if len(cl) < 2 {
		return nil
	}
	out := make([]ssa.Value, 0, len(cl)-1)
	for _, o := range cl {
		if o != v {
			out = append(out, o)
		}
	}
	return out
}

// sameModule: the two package paths share their first three elements (host/owner/repository).
func sameModule(a, b string) bool {
	cut := func(p string) string {
		n := 0
		for i, ch := range p {
			if ch == '/' {
				n++
				if n == 3 {
					return p[:i]
				}
			}
		}
		return p
	}
	return cut(a) == cut(b)
}

// literalStoresTo: the literal (or a literal nested in it) stores to the free variable bound to cell al of outer.
func literalStoresTo(lit *ssa.Function, al *ssa.Alloc, outer *ssa.Function) bool {
	// which free variable of lit is al: through the MakeClosure in outer (or in an enclosing literal)
	for _, b := range lit.Parent().Blocks {
		for _, in := range b.Instrs {
			mc, ok := in.(*ssa.MakeClosure)
			if !ok || mc.Fn != ssa.Value(lit) {
				continue
			}
			for i, bnd := range mc.Bindings {
				if bnd != ssa.Value(al) || i >= len(lit.FreeVars) {
					continue
				}
				fv := lit.FreeVars[i]
				if fv.Referrers() == nil {
					continue
				}
				for _, r := range *fv.Referrers() {
					switch u := r.(type) {
					case *ssa.Store:
						if u.Addr == ssa.Value(fv) {
							return true
						}
					case *ssa.UnOp, *ssa.DebugRef:
					default:
						return true // handed on (a nested literal, a call): assume written
					}
				}
			}
		}
	}
	return false
}

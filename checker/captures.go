package main

// captures.go - goroutine captures back to parameters. The reference tree hands each goroutine what it works on as
// an argument (`go func(done chan IDErr, v *Vertex) {…}(done, v)`); a behaviour-preserving edit may drop the
// parameter and let the literal capture the enclosing variable instead. For a variable that is assigned exactly
// once - at its declaration - and whose address is never taken, the copy made by the `go` statement and the
// variable are the same value for ever, so the two spellings denote the same program. go/ssa, however, keeps a
// captured variable in a heap cell and the rules that follow "the launched vertex" or "the channel the goroutine
// answers on" would have to look through that cell in every place. Instead the capture is turned back, in the
// in-memory overlay, into the parameter it was.
//
// It applies only to `go` statements whose function is a literal, only to variables of the enclosing function whose
// type is the type of a goroutine parameter of that function in the reference table (baseline_funcs.txt, `goparam:`
// lines), and only when the variable is never written after its declaration (no assignment, no ++/--, no address
// taken, not a range or for-clause variable - those are written by the loop), in the function or in any literal.
// A variable that is assigned again is left captured: the rules then see a goroutine that works on a shared cell.

import (
	"go/ast"
	"go/token"
	"go/types"
	"golang.org/x/tools/go/ssa"
	"sort"
	"strings"

	"golang.org/x/tools/go/packages"
)

// baselineGoParams: "function\ttype" for every parameter of a goroutine literal of the pinned commit.
var baselineGoParams = func() map[string]bool {
	m := map[string]bool{}
	for _, l := range strings.Split(baselineFuncsTxt, "\n") {
		if strings.HasPrefix(l, "goparam:") {
			m[strings.TrimPrefix(l, "goparam:")] = true
		}
	}
	return m
}()

// goParamLines lists the goroutine parameter types of fd (for -dump-funcs).
func goParamLines(p *packages.Package, fd *ast.FuncDecl, name string) []string {
	var out []string
	seen := map[string]bool{}
	ast.Inspect(fd.Body, func(n ast.Node) bool {
		g, ok := n.(*ast.GoStmt)
		if !ok {
			return true
		}
		lit, ok := g.Call.Fun.(*ast.FuncLit)
		if !ok {
			return true
		}
		for _, f := range lit.Type.Params.List {
			t := p.TypesInfo.TypeOf(f.Type)
			if t == nil {
				continue
			}
			k := "goparam:" + name + "\t" + types.TypeString(t, func(q *types.Package) string { return q.Name() })
			if !seen[k] {
				seen[k] = true
				out = append(out, k)
			}
		}
		return true
	})
	return out
}

func capturesToParams(w *World, repo string, overlay map[string][]byte, extraEnv []string) (*World, map[string][]byte) {
	in := &inliner{w: w, overlay: map[string][]byte{}}
	for k, v := range overlay {
		in.overlay[k] = v
	}
	edits := map[string][]textEdit{}
	var notes []string
	for _, p := range w.Pkgs {
		for _, file := range p.Syntax {
			for _, d := range file.Decls {
				fd, ok := d.(*ast.FuncDecl)
				if !ok || fd.Body == nil {
					continue
				}
				obj, ok := p.TypesInfo.Defs[fd.Name].(*types.Func)
				if !ok {
					continue
				}
				es, ns := captureEdits(in, p, fd, funcShortName(obj))
				if len(es) > 0 {
					fname, _ := in.rawOff(file.Pos())
					edits[fname] = append(edits[fname], es...)
					notes = append(notes, ns...)
				}
			}
		}
	}
	if len(edits) == 0 {
		return w, overlay
	}
	sort.Strings(notes)
	nov, err := in.applyEdits(edits)
	if err != nil {
		w.Notes = append(w.Notes, "goroutine captures not turned into parameters: "+err.Error())
		return w, overlay
	}
	next, err := loadWorldRaw(repo, nov, extraEnv)
	if err != nil {
		msg := err.Error()
		if len(msg) > 400 {
			msg = msg[:400]
		}
		w.Notes = append(w.Notes, "goroutine captures not turned into parameters (the rewritten program does not load): "+msg)
		return w, overlay
	}
	next.Notes = append(w.Notes, notes...)
	return next, nov
}

func captureEdits(in *inliner, p *packages.Package, fd *ast.FuncDecl, fname string) ([]textEdit, []string) {
	info := p.TypesInfo
	qual := func(q *types.Package) string { return q.Name() }
	// variables written after their declaration, anywhere in the function (literals included)
	written := map[*types.Var]bool{}
	mark := func(e ast.Expr) {
		for {
			switch x := e.(type) {
			case *ast.ParenExpr:
				e = x.X
				continue
			}
			break
		}
		if id, ok := e.(*ast.Ident); ok {
			if v, ok := info.Uses[id].(*types.Var); ok {
				written[v] = true
			}
			if v, ok := info.Defs[id].(*types.Var); ok {
				_ = v
			}
		}
	}
	loopVars := map[*types.Var]bool{}
	ast.Inspect(fd.Body, func(n ast.Node) bool {
		switch x := n.(type) {
		case *ast.AssignStmt:
			for _, l := range x.Lhs {
				mark(l) // a plain assignment; in a := the redeclared (already existing) names are Uses too
			}
		case *ast.IncDecStmt:
			mark(x.X)
		case *ast.UnaryExpr:
			if x.Op == token.AND {
				mark(x.X)
			}
		case *ast.RangeStmt:
			for _, e := range []ast.Expr{x.Key, x.Value} {
				if id, ok := e.(*ast.Ident); ok {
					if v, ok := info.Defs[id].(*types.Var); ok {
						loopVars[v] = true
					}
					mark(e)
				}
			}
		case *ast.ForStmt:
			if as, ok := x.Init.(*ast.AssignStmt); ok {
				for _, l := range as.Lhs {
					if id, ok := l.(*ast.Ident); ok {
						if v, ok := info.Defs[id].(*types.Var); ok {
							loopVars[v] = true
						}
					}
				}
			}
		case *ast.SelectorExpr:
			// a method value or call with a pointer receiver on an addressable variable takes its address
			if sel, ok := info.Selections[x]; ok && sel.Kind() != types.FieldVal {
				if f, ok := sel.Obj().(*types.Func); ok {
					if sig, ok := f.Type().(*types.Signature); ok && sig.Recv() != nil {
						if _, ptr := sig.Recv().Type().(*types.Pointer); ptr {
							if _, isPtr := info.TypeOf(x.X).(*types.Pointer); !isPtr {
								mark(x.X)
							}
						}
					}
				}
			}
		}
		return true
	})
	var edits []textEdit
	var notes []string
	ast.Inspect(fd.Body, func(n ast.Node) bool {
		g, ok := n.(*ast.GoStmt)
		if !ok {
			return true
		}
		lit, ok := g.Call.Fun.(*ast.FuncLit)
		if !ok || g.Call.Ellipsis.IsValid() {
			return true
		}
		if sig, ok := info.TypeOf(lit).(*types.Signature); ok && sig.Variadic() {
			return true
		}
		// names declared inside the literal (a parameter or local of the same name would shadow)
		inner := map[string]bool{}
		ast.Inspect(lit, func(m ast.Node) bool {
			if id, ok := m.(*ast.Ident); ok && info.Defs[id] != nil {
				inner[id.Name] = true
			}
			return true
		})
		var caps []*types.Var
		seen := map[*types.Var]bool{}
		ast.Inspect(lit.Body, func(m ast.Node) bool {
			id, ok := m.(*ast.Ident)
			if !ok {
				return true
			}
			v, ok := info.Uses[id].(*types.Var)
			if !ok || v.IsField() || seen[v] || v.Pkg() == nil || v.Parent() == v.Pkg().Scope() {
				return true
			}
			// declared in the enclosing function, outside the literal
			if v.Pos() < fd.Pos() || v.Pos() >= fd.End() || (v.Pos() >= lit.Pos() && v.Pos() < lit.End()) {
				return true
			}
			seen[v] = true
			if written[v] || loopVars[v] || inner[v.Name()] {
				return true
			}
			if !baselineGoParams[fname+"\t"+types.TypeString(v.Type(), qual)] {
				return true
			}
			caps = append(caps, v)
			return true
		})
		if len(caps) == 0 {
			return true
		}
		sort.Slice(caps, func(i, j int) bool { return caps[i].Pos() < caps[j].Pos() })
		var ps, as []string
		for _, v := range caps {
			ps = append(ps, v.Name()+" "+types.TypeString(v.Type(), func(q *types.Package) string {
				if q == p.Types {
					return ""
				}
				return q.Name()
			}))
			as = append(as, v.Name())
			notes = append(notes, "goroutine of "+fname+": captured "+v.Name()+" (assigned once, at its declaration) read as the parameter it was")
		}
		_, pOff := in.rawOff(lit.Type.Params.Closing)
		_, aOff := in.rawOff(g.Call.Rparen)
		pt, at := strings.Join(ps, ", "), strings.Join(as, ", ")
		if len(lit.Type.Params.List) > 0 {
			pt = ", " + pt
		}
		if len(g.Call.Args) > 0 {
			at = ", " + at
		}
		edits = append(edits, textEdit{pOff, pOff, pt}, textEdit{aOff, aOff, at})
		return true
	})
	return edits, notes
}

// detachedAPI: fn (or the function it is nested in) is not a function of the reference tree and nothing of the
// library calls it - a new entry point for the program that uses the library, which Parse, Dispatch, Run and the
// definers never reach. What such a function merely reads or computes cannot change what the reference entry points
// do (what it writes is judged by the state-writer rules as for any other function).
func (w *World) detachedAPI(fn *ssa.Function) bool {
	root := fn
	for root.Parent() != nil {
		root = root.Parent()
	}
	if _, known := baselineFuncs[short(root)]; known {
		return false
	}
	for _, g := range w.Funcs {
		gr := g
		for gr.Parent() != nil {
			gr = gr.Parent()
		}
		if gr == root {
			continue
		}
		for _, c := range allCalls(g) {
			if c.Common().StaticCallee() == root {
				return false
			}
			// the function used as a value
			for _, a := range c.Common().Args {
				if a == ssa.Value(root) {
					return false
				}
			}
		}
		bad := false
		eachInstr(g, func(in ssa.Instruction) {
			for _, op := range in.Operands(nil) {
				if op != nil && *op == ssa.Value(root) {
					if _, isCall := in.(ssa.CallInstruction); !isCall {
						bad = true
					}
				}
			}
		})
		if bad {
			return false
		}
	}
	return true
}

package main

// consttable.go - constant lookup tables. A package-level map that is built once from constants by its initialiser
// (`var t = map[K]V{k1: v1, …}`) and never written again is a spelled-out function from constants to constants:
// `t[x]` for a known x is a known value, exactly like the switch it usually replaces. The rules that decide an edge
// for a given option kind (or a given text) read such a table instead of giving up at the lookup.

import (
	"go/constant"
	"go/token"
	"go/types"
	"sync"

	"golang.org/x/tools/go/ssa"
)

type constTable struct {
	entries map[string]constant.Value // key: ExactString of the constant key
	elem    types.Type
}

var constTableCache sync.Map // *ssa.Global -> *constTable (nil: not a constant table)

// constTableOf: the entries of g when g is a map initialised from constant keys and values in its package
// initialiser and neither g nor the map it holds is written anywhere else in the program.
func constTableOf(g *ssa.Global) *constTable {
	if t, ok := constTableCache.Load(g); ok {
		return t.(*constTable)
	}
	t := buildConstTable(g)
	constTableCache.Store(g, t)
	return t
}

func buildConstTable(g *ssa.Global) *constTable {
	mt, ok := derefType(g.Type()).Underlying().(*types.Map)
	if !ok || g.Pkg == nil {
		return nil
	}
	initFn := g.Pkg.Func("init")
	if initFn == nil {
		return nil
	}
	tab := &constTable{entries: map[string]constant.Value{}, elem: mt.Elem()}
	var made *ssa.MakeMap
	nStores := 0
	ok = true
	// every function of the program that could name the variable: all packages (the variable may be exported)
	var visit func(fn *ssa.Function)
	seen := map[*ssa.Function]bool{}
	visit = func(fn *ssa.Function) {
		if fn == nil || seen[fn] {
			return
		}
		seen[fn] = true
		for _, b := range fn.Blocks {
			for _, in := range b.Instrs {
				switch x := in.(type) {
				case *ssa.Store:
					if x.Addr == ssa.Value(g) {
						nStores++
						mm, isMake := x.Val.(*ssa.MakeMap)
						if fn != initFn || !isMake || made != nil {
							ok = false
						} else {
							made = mm
						}
					} else if x.Val == ssa.Value(g) {
						ok = false // the address escapes
					}
				case *ssa.UnOp:
					if x.Op == token.MUL && x.X == ssa.Value(g) && x.Referrers() != nil {
						for _, r := range *x.Referrers() {
							switch u := r.(type) {
							case *ssa.Lookup:
								if u.X != ssa.Value(x) {
									ok = false
								}
							case *ssa.DebugRef:
							case *ssa.Call:
								if n := calleeName(u); n != "builtin:len" {
									ok = false
								}
							case *ssa.Range:
							default:
								ok = false // updated, deleted from, passed on, stored: not a constant table any more
							}
						}
					}
				default:
					// any other mention of the variable itself (address passed to a call, …)
					for _, op := range in.Operands(nil) {
						if op != nil && *op == ssa.Value(g) {
							if _, isLoad := in.(*ssa.UnOp); !isLoad {
								ok = false
							}
						}
					}
				}
			}
		}
		for _, a := range fn.AnonFuncs {
			visit(a)
		}
	}
	for _, p := range g.Pkg.Prog.AllPackages() {
		if p.Pkg.Path() != g.Pkg.Pkg.Path() && !g.Object().Exported() {
			continue
		}
		for _, m := range p.Members {
			switch x := m.(type) {
			case *ssa.Function:
				visit(x)
			case *ssa.Type:
				for _, t := range []types.Type{x.Type(), types.NewPointer(x.Type())} {
					ms := g.Pkg.Prog.MethodSets.MethodSet(t)
					for i := 0; i < ms.Len(); i++ {
						visit(g.Pkg.Prog.MethodValue(ms.At(i)))
					}
				}
			}
		}
	}
	if !ok || made == nil || nStores != 1 || made.Referrers() == nil {
		return nil
	}
	for _, r := range *made.Referrers() {
		switch u := r.(type) {
		case *ssa.MapUpdate:
			k, okK := u.Key.(*ssa.Const)
			v, okV := u.Value.(*ssa.Const)
			if !okK || !okV || k.Value == nil || v.Value == nil || u.Block().Parent() != initFn {
				return nil
			}
			tab.entries[k.Value.ExactString()] = v.Value
		case *ssa.Store:
			if u.Addr != ssa.Value(g) {
				return nil
			}
		case *ssa.DebugRef:
		default:
			return nil
		}
	}
	return tab
}

// tableLookup: v is `t[k]` (or the value / presence half of `v, ok := t[k]`) on a constant table; returns the table,
// the key operand and which half (0 value, 1 presence).
func tableLookup(v ssa.Value) (*constTable, ssa.Value, int) {
	half := 0
	if ex, ok := v.(*ssa.Extract); ok {
		v, half = ex.Tuple, ex.Index
	}
	lk, ok := v.(*ssa.Lookup)
	if !ok {
		return nil, nil, 0
	}
	ld, ok := lk.X.(*ssa.UnOp)
	if !ok || ld.Op != token.MUL {
		return nil, nil, 0
	}
	g, ok := ld.X.(*ssa.Global)
	if !ok {
		return nil, nil, 0
	}
	t := constTableOf(g)
	if t == nil {
		return nil, nil, 0
	}
	return t, lk.Index, half
}

// get: the value (half 0; the zero value for a missing key when it is a bool, unknown otherwise) or presence (half 1)
// of key k.
func (t *constTable) get(k constant.Value, half int) constant.Value {
	v, present := t.entries[k.ExactString()]
	if half == 1 {
		return constant.MakeBool(present)
	}
	if present {
		return v
	}
	if b, ok := t.elem.Underlying().(*types.Basic); ok {
		switch {
		case b.Info()&types.IsBoolean != 0:
			return constant.MakeBool(false)
		case b.Info()&types.IsString != 0:
			return constant.MakeString("")
		case b.Info()&types.IsInteger != 0:
			return constant.MakeInt64(0)
		}
	}
	return nil
}

// trueKeys: the keys whose entry is true (bool tables) or that are present (half 1).
func (t *constTable) trueKeys(half int) []constant.Value {
	var out []constant.Value
	for ks, v := range t.entries {
		if half == 1 || (v.Kind() == constant.Bool && constant.BoolVal(v)) {
			// recover the key constant from its exact string
			out = append(out, constantFromExact(ks))
		}
	}
	return out
}

func constantFromExact(s string) constant.Value {
	if len(s) > 0 && s[0] == '"' {
		return constant.MakeFromLiteral(s, token.STRING, 0)
	}
	if s == "true" || s == "false" {
		return constant.MakeBool(s == "true")
	}
	return constant.MakeFromLiteral(s, token.INT, 0)
}

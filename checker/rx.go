package main

// rx.go - E-RX: static analysis of the regular expression constants handed to regexp.MustCompile
// (parsed with regexp/syntax; the expressions are never executed against input).

import (
	"go/token"
	"regexp/syntax"
	"unicode"

	"golang.org/x/tools/go/ssa"
)

type rxInfo struct {
	Global  *ssa.Global // nil for local uses
	Call    *ssa.Call
	Pattern string
	Re      *syntax.Regexp
	Err     error
}

// regexConstants finds every regexp.MustCompile / regexp.Compile call of the library with a constant pattern.
func (w *World) regexConstants() []rxInfo {
	var out []rxInfo
	fns := append([]*ssa.Function(nil), w.Funcs...)
	for _, sp := range w.SPkgs {
		if init := sp.Func("init"); init != nil {
			fns = append(fns, init)
		}
	}
	for _, fn := range fns {
		for _, c := range allCalls(fn) {
			n := calleeName(c)
			if n != "regexp.MustCompile" && n != "regexp.Compile" && n != "regexp.MustCompilePOSIX" {
				continue
			}
			call, ok := c.(*ssa.Call)
			if !ok {
				continue
			}
			info := rxInfo{Call: call}
			if s, ok := constString(call.Call.Args[0]); ok {
				info.Pattern = s
				info.Re, info.Err = syntax.Parse(s, syntax.Perl)
			} else {
				info.Err = errNotConst
			}
			if refs := call.Referrers(); refs != nil {
				for _, r := range *refs {
					if st, ok := r.(*ssa.Store); ok {
						if g, ok := st.Addr.(*ssa.Global); ok {
							info.Global = g
						}
					}
				}
			}
			out = append(out, info)
		}
	}
	return out
}

type constErr string

func (e constErr) Error() string { return string(e) }

const errNotConst = constErr("pattern is not a constant")

func rxMinLen(re *syntax.Regexp) int {
	switch re.Op {
	case syntax.OpLiteral:
		return len(re.Rune)
	case syntax.OpCharClass, syntax.OpAnyChar, syntax.OpAnyCharNotNL:
		return 1
	case syntax.OpStar, syntax.OpQuest:
		return 0
	case syntax.OpPlus, syntax.OpCapture:
		return rxMinLen(re.Sub[0])
	case syntax.OpRepeat:
		return re.Min * rxMinLen(re.Sub[0])
	case syntax.OpConcat:
		n := 0
		for _, s := range re.Sub {
			n += rxMinLen(s)
		}
		return n
	case syntax.OpAlternate:
		m := -1
		for _, s := range re.Sub {
			if l := rxMinLen(s); m < 0 || l < m {
				m = l
			}
		}
		if m < 0 {
			m = 0
		}
		return m
	}
	return 0
}

// rxGroups returns the capture groups in order (index 0 = whole expression).
func rxGroups(re *syntax.Regexp) []*syntax.Regexp {
	out := []*syntax.Regexp{re}
	var walk func(r *syntax.Regexp)
	walk = func(r *syntax.Regexp) {
		if r.Op == syntax.OpCapture {
			for len(out) <= r.Cap {
				out = append(out, nil)
			}
			out[r.Cap] = r
		}
		for _, s := range r.Sub {
			walk(s)
		}
	}
	walk(re)
	return out
}

// regexGroupsNonEmpty: for each global regexp, per group: true when the group cannot match the empty string
// (and always participates in a match: it is not under an optional or alternative).
func regexGroupsNonEmpty(w *World) map[*ssa.Global][]bool {
	out := map[*ssa.Global][]bool{}
	for _, ri := range w.regexConstants() {
		if ri.Global == nil || ri.Err != nil {
			continue
		}
		gs := rxGroups(ri.Re)
		ne := make([]bool, len(gs))
		mandatory := rxMandatoryGroups(ri.Re)
		for i, g := range gs {
			if g == nil {
				continue
			}
			ne[i] = rxMinLen(g) >= 1 && (i == 0 || mandatory[i])
		}
		out[ri.Global] = ne
	}
	return out
}

// rxMandatoryGroups: groups that take part in every match (reached only through concatenation / capture / plus).
func rxMandatoryGroups(re *syntax.Regexp) map[int]bool {
	out := map[int]bool{}
	var walk func(r *syntax.Regexp)
	walk = func(r *syntax.Regexp) {
		switch r.Op {
		case syntax.OpCapture:
			out[r.Cap] = true
			walk(r.Sub[0])
		case syntax.OpConcat:
			for _, s := range r.Sub {
				walk(s)
			}
		case syntax.OpPlus:
			walk(r.Sub[0])
		case syntax.OpRepeat:
			if r.Min >= 1 {
				walk(r.Sub[0])
			}
		}
	}
	walk(re)
	return out
}

// submatchRegexes: v is (a phi of) results of FindStringSubmatch on global regexps; returns those globals, or nil if unknown.
func submatchRegexes(w *World, v ssa.Value, seen map[ssa.Value]bool) []*ssa.Global {
	if seen[v] {
		return nil
	}
	seen[v] = true
	switch x := v.(type) {
	case *ssa.Phi:
		var out []*ssa.Global
		for _, e := range x.Edges {
			if c, ok := e.(*ssa.Const); ok && c.Value == nil {
				continue // nil slice initialisation
			}
			sub := submatchRegexes(w, e, seen)
			if sub == nil {
				return nil
			}
			out = append(out, sub...)
		}
		return out
	case *ssa.Call:
		if calleeName(x) != "(*regexp.Regexp).FindStringSubmatch" {
			return nil
		}
		var out []*ssa.Global
		for _, leaf := range phiLeaves(x.Call.Args[0], map[ssa.Value]bool{}) {
			ld, ok := leaf.(*ssa.UnOp)
			if !ok || ld.Op != token.MUL {
				return nil
			}
			g, ok := ld.X.(*ssa.Global)
			if !ok {
				return nil
			}
			out = append(out, g)
		}
		return out
	}
	return nil
}

// rxFiniteLang enumerates the language of a small expression; ok=false if it is infinite or too large.
func rxFiniteLang(re *syntax.Regexp, limit int) ([]string, bool) {
	switch re.Op {
	case syntax.OpEmptyMatch:
		return []string{""}, true
	case syntax.OpLiteral:
		if re.Flags&syntax.FoldCase != 0 {
			return nil, false
		}
		return []string{string(re.Rune)}, true
	case syntax.OpCharClass:
		var out []string
		for i := 0; i+1 < len(re.Rune); i += 2 {
			for r := re.Rune[i]; r <= re.Rune[i+1]; r++ {
				out = append(out, string(r))
				if len(out) > limit {
					return nil, false
				}
			}
		}
		return out, true
	case syntax.OpCapture:
		return rxFiniteLang(re.Sub[0], limit)
	case syntax.OpQuest:
		sub, ok := rxFiniteLang(re.Sub[0], limit)
		if !ok {
			return nil, false
		}
		return append([]string{""}, sub...), true
	case syntax.OpAlternate:
		var out []string
		for _, s := range re.Sub {
			sub, ok := rxFiniteLang(s, limit)
			if !ok {
				return nil, false
			}
			out = append(out, sub...)
		}
		return out, len(out) <= limit
	case syntax.OpConcat:
		out := []string{""}
		for _, s := range re.Sub {
			sub, ok := rxFiniteLang(s, limit)
			if !ok {
				return nil, false
			}
			var next []string
			for _, a := range out {
				for _, b := range sub {
					next = append(next, a+b)
				}
			}
			if len(next) > limit {
				return nil, false
			}
			out = next
		}
		return out, true
	}
	return nil, false
}

// rxClassComplement returns the runes NOT matched by a character class (bounded: gives up beyond limit).
func rxClassComplement(re *syntax.Regexp, limit int) ([]rune, bool) {
	if re.Op != syntax.OpCharClass {
		return nil, false
	}
	var out []rune
	prev := rune(0)
	for i := 0; i+1 < len(re.Rune); i += 2 {
		lo, hi := re.Rune[i], re.Rune[i+1]
		for r := prev; r < lo; r++ {
			out = append(out, r)
			if len(out) > limit {
				return nil, false
			}
		}
		prev = hi + 1
	}
	for r := prev; r <= unicode.MaxRune; r++ {
		out = append(out, r)
		if len(out) > limit {
			return nil, false
		}
	}
	return out, true
}

// rxMatchesEverything: the expression matches every string (e.g. (?s:.*) or (?s:.*?)).
func rxMatchesEverything(re *syntax.Regexp) bool {
	switch re.Op {
	case syntax.OpCapture:
		return rxMatchesEverything(re.Sub[0])
	case syntax.OpStar:
		s := re.Sub[0]
		if s.Op == syntax.OpAnyChar {
			return true
		}
		if s.Op == syntax.OpCharClass {
			c, ok := rxClassComplement(s, 4)
			return ok && len(c) == 0
		}
	case syntax.OpAlternate:
		for _, s := range re.Sub {
			if rxMatchesEverything(s) {
				return true
			}
		}
	}
	return false
}

// rxExcludesNewline: some node of the expression cannot match '\n' where a value character is expected.
func rxExcludesNewline(re *syntax.Regexp) bool {
	found := false
	var walk func(r *syntax.Regexp)
	walk = func(r *syntax.Regexp) {
		switch r.Op {
		case syntax.OpAnyCharNotNL:
			found = true
		case syntax.OpCharClass:
			has := false
			for i := 0; i+1 < len(r.Rune); i += 2 {
				if r.Rune[i] <= '\n' && '\n' <= r.Rune[i+1] {
					has = true
				}
			}
			if !has {
				found = true
			}
		}
		for _, s := range r.Sub {
			walk(s)
		}
	}
	walk(re)
	return found
}

// prefixLangOf: v reads element 1 of a FindStringSubmatch result of the tokeniser expressions: the finite set of
// texts that group can hold (union over the expressions that may have produced the result); nil when unknown.
func prefixLangOf(w *World, v ssa.Value) map[string]bool {
	u, ok := v.(*ssa.UnOp)
	if !ok || u.Op != token.MUL {
		return nil
	}
	ia, ok := u.X.(*ssa.IndexAddr)
	if !ok {
		return nil
	}
	if k, ok := constInt(ia.Index); !ok || k != 1 {
		return nil
	}
	gs := submatchRegexes(w, ia.X, map[ssa.Value]bool{})
	if len(gs) == 0 {
		return nil
	}
	byGlobal := map[*ssa.Global]*syntax.Regexp{}
	for _, ri := range w.regexConstants() {
		if ri.Global != nil && ri.Err == nil {
			byGlobal[ri.Global] = ri.Re
		}
	}
	out := map[string]bool{}
	for _, g := range gs {
		re := byGlobal[g]
		if re == nil {
			return nil
		}
		groups := rxGroups(re)
		if len(groups) < 2 {
			return nil
		}
		lang, ok := rxFiniteLang(groups[1], 8)
		if !ok {
			return nil
		}
		for _, s := range lang {
			out[s] = true
		}
	}
	return out
}

// prefixesLeft: the members of the prefix group's language that the facts (comparisons of that group with constants) allow.
func prefixesLeft(w *World, facts []Fact) (left map[string]bool, known bool) {
	for _, f := range facts {
		if f.Y == nil || (f.Op != token.EQL && f.Op != token.NEQ) {
			continue
		}
		x, y := f.X, f.Y
		if _, isC := constString(x); isC {
			x, y = y, x
		}
		c, ok := constString(y)
		if !ok {
			continue
		}
		lang := prefixLangOf(w, x)
		if lang == nil {
			continue
		}
		if left == nil {
			left = map[string]bool{}
			for s := range lang {
				left[s] = true
			}
		}
		for s := range left {
			if (f.Op == token.EQL) != (s == c) {
				delete(left, s)
			}
		}
	}
	return left, left != nil
}

package main

// inline.go - helper normalisation. The rules are anchored on the functions of the reference tree
// (baseline_funcs.txt: every named function of the library at the pinned commit, with its signature).
// A behaviour-preserving edit often moves part of such a function into a new helper; the rules would then
// look at half a function. Before the rules run, every call to a function that is NOT in the reference table
// is replaced by the callee's body (a semantics-preserving source transformation, applied in an in-memory
// overlay; the disk is never touched), and a helper whose every use was inlined is removed from the view.
// The rules therefore always see the reference decomposition of the program, whatever helpers exist.
//
// The transformation is textual over the typed syntax: the callee body is copied verbatim, `/*line f:l:c*/`
// directives keep every copied token at its original file:line (reports point at the real source), arguments
// are evaluated once, in order, into temporaries before the parameters are declared with their declared types,
// `return` becomes an assignment to result temporaries followed by a labelled break, labels are made unique.
// It refuses (and leaves the call alone) whenever equivalence is not evident: recursion, defer/recover in the
// callee (except under `go`/`defer`, where the call becomes a function literal), generic functions, promoted
// methods, method values, calls whose hoisting would reorder other calls or cross && / ||, identifiers that
// would be captured by a different declaration at the call site.

import (
	_ "embed"
	"fmt"
	"go/ast"
	"go/token"
	"go/types"
	"os"
	"sort"
	"strings"

	"golang.org/x/tools/go/packages"
)

//go:embed baseline_funcs.txt
var baselineFuncsTxt string

// baselineFuncs: short name -> names-free signature, of every named function at the pinned commit.
var baselineFuncs = func() map[string]string {
	m := map[string]string{}
	for _, l := range strings.Split(baselineFuncsTxt, "\n") {
		if l = strings.TrimSpace(l); l == "" || strings.HasPrefix(l, "#") {
			continue
		}
		if strings.HasPrefix(l, "type:") || strings.HasPrefix(l, "call:") || strings.HasPrefix(l, "closure:") {
			continue
		}
		parts := strings.SplitN(l, "\t", 2)
		if len(parts) == 2 {
			m[parts[0]] = parts[1]
		} else {
			m[parts[0]] = ""
		}
	}
	return m
}()

// baselineTypes: pkg.Name of every named type at the pinned commit.
var baselineTypes = func() map[string]bool {
	m := map[string]bool{}
	for _, l := range strings.Split(baselineFuncsTxt, "\n") {
		if l = strings.TrimSpace(l); strings.HasPrefix(l, "type:") {
			m[strings.SplitN(strings.TrimPrefix(l, "type:"), "\t", 2)[0]] = true
		}
	}
	return m
}()

// baselineFields: pkg.Type.Field of every struct field at the pinned commit.
var baselineFields = func() map[string]bool {
	m := map[string]bool{}
	for _, l := range strings.Split(baselineFuncsTxt, "\n") {
		if strings.HasPrefix(l, "field:") {
			m[strings.TrimPrefix(l, "field:")] = true
		}
	}
	return m
}()

// isBaselineField: the field exists in the reference tree (rules about "every setting" range over those: a field
// added by a new feature is that feature's business).
func isBaselineField(f *types.Var) bool {
	if f == nil || f.Pkg() == nil {
		return false
	}
	for tn := range baselineTypes {
		if strings.HasPrefix(tn, shortName(f.Pkg().Path())+".") && baselineFields[tn+"."+f.Name()] {
			// the owner is not recorded on a types.Var: accept when any reference struct of the package has it
			return true
		}
	}
	return false
}

// baselineClosures: "function\tvariable" for every local closure variable of the pinned commit (part of the reference).
var baselineClosures = func() map[string]bool {
	m := map[string]bool{}
	for _, l := range strings.Split(baselineFuncsTxt, "\n") {
		if l = strings.TrimSpace(l); strings.HasPrefix(l, "closure:") {
			m[strings.TrimPrefix(l, "closure:")] = true
		}
	}
	return m
}()

// baselineCalls: "caller\tcallee" for every static reference from one library function to another at the pinned commit.
var baselineCalls = func() map[string]bool {
	m := map[string]bool{}
	for _, l := range strings.Split(baselineFuncsTxt, "\n") {
		if l = strings.TrimSpace(l); strings.HasPrefix(l, "call:") {
			m[strings.TrimPrefix(l, "call:")] = true
		}
	}
	return m
}()

func funcShortName(f *types.Func) string { return shortName(f.FullName()) }

// sigKey renders a signature without parameter names.
func sigKey(sig *types.Signature) string {
	var ps, rs []string
	for i := 0; i < sig.Params().Len(); i++ {
		t := tstr(sig.Params().At(i).Type())
		if sig.Variadic() && i == sig.Params().Len()-1 {
			t = "..." + strings.TrimPrefix(t, "[]")
		}
		ps = append(ps, t)
	}
	for i := 0; i < sig.Results().Len(); i++ {
		rs = append(rs, tstr(sig.Results().At(i).Type()))
	}
	return "(" + strings.Join(ps, ", ") + ") (" + strings.Join(rs, ", ") + ")"
}

type textEdit struct {
	off, end int
	text     string
}

type inlCand struct {
	obj  *types.Func // nil for a local closure
	sig  *types.Signature
	fd   *ast.FuncDecl // for a local closure: synthesised from the literal (Name = the variable, Type, Body)
	pkg  *packages.Package
	file *ast.File
	// local closure `f := func(…) … { … }` that is only ever called directly
	lit       *ast.FuncLit
	v         *types.Var
	decl      *ast.AssignStmt
	blankUses int
	aliased   bool // still the source of an alias definition: its calls are not all visible yet
	keepDecl  bool // defined inside a tuple definition: the statement stays
	// properties
	hasDefer, hasRecover bool
	callsCand            map[*types.Func]bool
}

type inliner struct {
	w       *World
	overlay map[string][]byte
	n       int
	stuck   map[string]bool // short names of helpers that could not be fully inlined (left alone afterwards)
	notes   []string
	inlined map[string]int
	// helpers with callers in other packages that were already mentioned in the notes
	crossNoted map[string]bool
	// per call: imports of the callee whose name is shadowed at the call site -> alias under which the caller's
	// file imports the package again
	alias map[*types.PkgName]string
	// per call of a generic helper: type parameter -> the type argument as written at the call site's file
	typeSubst map[*types.TypeParam]string
}

func (in *inliner) src(file string) []byte {
	if b, ok := in.overlay[file]; ok {
		return b
	}
	b, _ := os.ReadFile(file)
	return b
}

func (in *inliner) rawOff(p token.Pos) (string, int) {
	pos := in.w.Fset.PositionFor(p, false)
	return pos.Filename, pos.Offset
}

func (in *inliner) nodeText(n ast.Node) string {
	f, a := in.rawOff(n.Pos())
	_, b := in.rawOff(n.End())
	s := in.src(f)
	if a < 0 || b > len(s) || a > b {
		return ""
	}
	return string(s[a:b])
}

// aliasEdits: edits that rewrite, inside [from,to), the uses of imports that are shadowed at the call site.
func (in *inliner) aliasEdits(c *inlCand, root ast.Node) []textEdit {
	if (len(in.alias) == 0 && len(in.typeSubst) == 0) || root == nil {
		return nil
	}
	var es []textEdit
	ast.Inspect(root, func(n ast.Node) bool {
		if idn, ok := n.(*ast.Ident); ok {
			if tn, ok := c.pkg.TypesInfo.Uses[idn].(*types.TypeName); ok {
				if tp, ok := tn.Type().(*types.TypeParam); ok {
					if txt, ok := in.typeSubst[tp]; ok {
						_, x := in.rawOff(idn.Pos())
						_, y := in.rawOff(idn.End())
						es = append(es, textEdit{x, y, txt})
					}
				}
			}
			if pn, ok := c.pkg.TypesInfo.Uses[idn].(*types.PkgName); ok {
				if a, ok := in.alias[pn]; ok {
					_, x := in.rawOff(idn.Pos())
					_, y := in.rawOff(idn.End())
					es = append(es, textEdit{x, y, a})
				}
			}
		}
		return true
	})
	return es
}

// calleeText renders a node of the callee's declaration (a type expression, a parameter list) for the call site.
func (in *inliner) calleeText(c *inlCand, n ast.Node) string {
	return in.calleeRange(c, n, n.Pos(), n.End())
}

func (in *inliner) calleeRange(c *inlCand, root ast.Node, a, b token.Pos) string {
	f, x := in.rawOff(a)
	_, y := in.rawOff(b)
	src := in.src(f)
	if x < 0 || y > len(src) || x > y {
		return ""
	}
	es := in.aliasEdits(c, root)
	sort.Slice(es, func(i, j int) bool { return es[i].off < es[j].off })
	var sb strings.Builder
	last := x
	for _, e := range es {
		if e.off < last || e.end > y {
			continue
		}
		sb.Write(src[last:e.off])
		sb.WriteString(e.text)
		last = e.end
	}
	sb.Write(src[last:y])
	return sb.String()
}

func (in *inliner) rangeText(a, b token.Pos) string {
	f, x := in.rawOff(a)
	_, y := in.rawOff(b)
	s := in.src(f)
	if x < 0 || y > len(s) || x > y {
		return ""
	}
	return string(s[x:y])
}

// dir renders a position directive for the token at p (adjusted through earlier directives).
func (in *inliner) dir(p token.Pos) string {
	pos := in.w.Fset.Position(p)
	return fmt.Sprintf("/*line %s:%d:%d*/", pos.Filename, pos.Line, pos.Column)
}

// candidates: functions with a body that are not part of the reference table.
func (in *inliner) candidates() map[*types.Func]*inlCand {
	out := map[*types.Func]*inlCand{}
	for _, p := range in.w.Pkgs {
		for _, file := range p.Syntax {
			for _, d := range file.Decls {
				fd, ok := d.(*ast.FuncDecl)
				if !ok || fd.Body == nil {
					continue
				}
				obj, ok := p.TypesInfo.Defs[fd.Name].(*types.Func)
				if !ok {
					continue
				}
				name := funcShortName(obj)
				if _, known := baselineFuncs[name]; known || in.stuck[name] {
					continue
				}
				if obj.Name() == "init" || obj.Name() == "main" || obj.Name() == "_" {
					continue
				}
				sig := obj.Type().(*types.Signature)
				if sig.RecvTypeParams() != nil {
					continue // methods of generic types
				}
				out[obj] = &inlCand{obj: obj, sig: sig, fd: fd, pkg: p, file: file, callsCand: map[*types.Func]bool{}}
			}
		}
	}
	for _, c := range out {
		ast.Inspect(c.fd.Body, func(n ast.Node) bool {
			switch x := n.(type) {
			case *ast.FuncLit:
				// defers inside literals belong to the literal; references still count
				ast.Inspect(x.Body, func(m ast.Node) bool {
					if id, ok := m.(*ast.Ident); ok {
						if f, ok := c.pkg.TypesInfo.Uses[id].(*types.Func); ok && out[f] != nil {
							c.callsCand[f] = true
						}
					}
					return true
				})
				return false
			case *ast.DeferStmt:
				c.hasDefer = true
			case *ast.CallExpr:
				if id, ok := x.Fun.(*ast.Ident); ok && id.Name == "recover" {
					if _, isB := c.pkg.TypesInfo.Uses[id].(*types.Builtin); isB {
						c.hasRecover = true
					}
				}
			case *ast.Ident:
				if f, ok := c.pkg.TypesInfo.Uses[x].(*types.Func); ok && out[f] != nil {
					c.callsCand[f] = true
				}
			}
			return true
		})
	}
	return out
}

// closureCandidates: local closures `f := func(…) … { … }` (a definition statement of a block) whose variable is never
// reassigned, never used as a value and only ever called directly, outside go / defer. Inlining such a closure at a
// call site is the same source transformation as for a named helper; in addition the variables it captures must be
// the ones visible under the same names at the call site (checked per call by captureCheck). Closures of the
// reference tree (baseline_funcs.txt, `closure:` lines) are part of the reference and stay.
func (in *inliner) closureCandidates() map[*types.Var]*inlCand {
	out := map[*types.Var]*inlCand{}
	for _, p := range in.w.Pkgs {
		for _, file := range p.Syntax {
			parent := map[ast.Node]ast.Node{}
			var stack []ast.Node
			ast.Inspect(file, func(n ast.Node) bool {
				if n == nil {
					stack = stack[:len(stack)-1]
					return true
				}
				if len(stack) > 0 {
					parent[n] = stack[len(stack)-1]
				}
				stack = append(stack, n)
				return true
			})
			ast.Inspect(file, func(n ast.Node) bool {
				as, ok := n.(*ast.AssignStmt)
				if !ok || as.Tok != token.DEFINE || len(as.Lhs) != len(as.Rhs) {
					return true
				}
				// one literal per definition statement (a tuple definition - what binding the arguments of an inlined
				// helper leaves behind - may hold one among other values; the statement then stays when the literal is no longer called)
				pos := -1
				for i := range as.Rhs {
					if _, isLit := as.Rhs[i].(*ast.FuncLit); isLit {
						if pos >= 0 {
							return true
						}
						pos = i
					}
				}
				if pos < 0 {
					return true
				}
				id, ok1 := as.Lhs[pos].(*ast.Ident)
				lit, ok2 := as.Rhs[pos].(*ast.FuncLit)
				if !ok1 || !ok2 || id.Name == "_" {
					return true
				}
				tuple := len(as.Lhs) > 1
				if _, inBlock := parent[as].(*ast.BlockStmt); !inBlock {
					return true
				}
				for q := parent[ast.Node(as)]; q != nil; q = parent[q] {
					if fd, ok := q.(*ast.FuncDecl); ok {
						if o, ok := p.TypesInfo.Defs[fd.Name].(*types.Func); ok && baselineClosures[funcShortName(o)+"\t"+id.Name] {
							return true
						}
						break
					}
				}
				v, ok := p.TypesInfo.Defs[id].(*types.Var)
				if !ok {
					return true
				}
				sig, ok := v.Type().(*types.Signature)
				if !ok || sig.Variadic() {
					return true
				}
				c := &inlCand{sig: sig, fd: &ast.FuncDecl{Name: id, Type: lit.Type, Body: lit.Body}, pkg: p, file: file, lit: lit, v: v, decl: as, keepDecl: tuple, callsCand: map[*types.Func]bool{}}
				ast.Inspect(lit.Body, func(m ast.Node) bool {
					switch x := m.(type) {
					case *ast.DeferStmt:
						c.hasDefer = true
					case *ast.CallExpr:
						if idn, ok := x.Fun.(*ast.Ident); ok && idn.Name == "recover" {
							c.hasRecover = true
						}
					case *ast.FuncLit:
						c.hasDefer = true // nested literals: leave alone
					}
					return true
				})
				if c.hasDefer || c.hasRecover {
					return true
				}
				out[v] = c
				return true
			})
			// every use must be the callee of a plain call
			for id, o := range p.TypesInfo.Uses {
				v, ok := o.(*types.Var)
				if !ok || out[v] == nil {
					continue
				}
				call, ok := parent[id].(*ast.CallExpr)
				if !ok || call.Fun != ast.Expr(id) {
					if as, isAs := parent[id].(*ast.AssignStmt); isAs && as.Tok == token.ASSIGN && len(as.Lhs) == 1 && len(as.Rhs) == 1 && as.Rhs[0] == ast.Expr(id) {
						if l, ok := as.Lhs[0].(*ast.Ident); ok && l.Name == "_" {
							out[v].blankUses++ // `_ = f`, left by an earlier round
							continue
						}
					}
					if isAliasDefOf(parent[id], id) {
						out[v].blankUses++ // `g := f` / `var g T = f`: g's calls are rewritten to f first (funcAliases)
						out[v].aliased = true
						continue
					}
					if parent[id] != nil { // an identifier of this file
						delete(out, v)
					}
					continue
				}
				switch parent[call].(type) {
				case *ast.GoStmt, *ast.DeferStmt:
					delete(out, v)
				}
			}
		}
	}
	return out
}

// isAliasDefOf: n is `g := id` or `var g T = id` (one name, one value).
func isAliasDefOf(n ast.Node, id *ast.Ident) bool {
	switch x := n.(type) {
	case *ast.AssignStmt:
		if x.Tok == token.DEFINE && len(x.Lhs) == len(x.Rhs) {
			for i := range x.Rhs {
				if x.Rhs[i] == ast.Expr(id) {
					_, ok := x.Lhs[i].(*ast.Ident)
					return ok
				}
			}
		}
	case *ast.ValueSpec:
		return len(x.Names) == 1 && len(x.Values) == 1 && x.Values[0] == ast.Expr(id)
	}
	return false
}

// funcAliases: a local variable of function type that is defined once as another name for a package-level function
// of the same package or for another local function variable (`pred := isRequired`, `var pred func(T) bool = _a0` -
// what binding a function-typed parameter of an inlined helper leaves behind), never reassigned and only called, is
// not needed: its calls are rewritten to call the target directly. Returns the edits of one round.
func (in *inliner) funcAliases(edits map[string][]textEdit, busy map[string][][2]int) bool {
	changed := false
	for _, p := range in.w.Pkgs {
		info := p.TypesInfo
		for _, file := range p.Syntax {
			fname, _ := in.rawOff(file.Pos())
			parent := map[ast.Node]ast.Node{}
			var stack []ast.Node
			ast.Inspect(file, func(n ast.Node) bool {
				if n == nil {
					stack = stack[:len(stack)-1]
					return true
				}
				if len(stack) > 0 {
					parent[n] = stack[len(stack)-1]
				}
				stack = append(stack, n)
				return true
			})
			type alias struct {
				v      *types.Var
				target types.Object
				name   string
				def    ast.Node
				calls  []*ast.Ident
				blank  bool
				bad    bool
				// a method expression is not looked up by name at the call site
				noScope bool
				method  string
			}
			als := map[*types.Var]*alias{}
			var consider func(n ast.Node, lhs *ast.Ident, rhs ast.Expr)
			consider = func(n ast.Node, lhs *ast.Ident, rhs ast.Expr) {
				if lhs == nil || lhs.Name == "_" {
					return
				}
				v, ok := info.Defs[lhs].(*types.Var)
				if !ok || v.Parent() == p.Types.Scope() || v.IsField() {
					return
				}
				if _, isSig := v.Type().Underlying().(*types.Signature); !isSig {
					return
				}
				if sel, isSel := ast.Unparen(rhs).(*ast.SelectorExpr); isSel {
					// a method expression: (*T).M - calling the variable is calling the method expression
					if si := info.Selections[sel]; si != nil && si.Kind() == types.MethodExpr {
						if mf, ok := si.Obj().(*types.Func); ok {
							als[v] = &alias{v: v, target: mf, name: "(" + in.nodeText(sel) + ")", def: n, noScope: true, method: mf.Name()}
						}
					}
					return
				}
				rid, ok := ast.Unparen(rhs).(*ast.Ident)
				if !ok {
					return
				}
				switch t := info.Uses[rid].(type) {
				case *types.Func:
					if t.Pkg() != p.Types || t.Type().(*types.Signature).Recv() != nil || t.Type().(*types.Signature).TypeParams() != nil {
						return
					}
					als[v] = &alias{v: v, target: t, name: rid.Name, def: n}
				case *types.Var:
					if t.Parent() == p.Types.Scope() || t.IsField() {
						return
					}
					als[v] = &alias{v: v, target: t, name: rid.Name, def: n}
				}
				return
			}
			ast.Inspect(file, func(n ast.Node) bool {
				switch x := n.(type) {
				case *ast.AssignStmt:
					if x.Tok == token.DEFINE && len(x.Lhs) == len(x.Rhs) {
						for i := range x.Lhs {
							if l, ok := x.Lhs[i].(*ast.Ident); ok {
								consider(n, l, x.Rhs[i])
							}
						}
					}
				case *ast.ValueSpec:
					if len(x.Names) == 1 && len(x.Values) == 1 {
						consider(n, x.Names[0], x.Values[0])
					}
				}
				return true
			})
			if len(als) == 0 {
				continue
			}
			// the target variable must itself never be reassigned
			assigned := map[types.Object]bool{}
			ast.Inspect(file, func(n ast.Node) bool {
				switch x := n.(type) {
				case *ast.AssignStmt:
					if x.Tok != token.DEFINE {
						for _, l := range x.Lhs {
							if id, ok := l.(*ast.Ident); ok {
								if o := info.Uses[id]; o != nil {
									assigned[o] = true
								}
							}
						}
					}
				case *ast.UnaryExpr:
					if x.Op == token.AND {
						if id, ok := x.X.(*ast.Ident); ok {
							if o := info.Uses[id]; o != nil {
								assigned[o] = true
							}
						}
					}
				case *ast.IncDecStmt:
				}
				return true
			})
			for id, o := range info.Uses {
				v, ok := o.(*types.Var)
				if !ok || als[v] == nil {
					continue
				}
				if parent[id] == nil {
					continue
				}
				a := als[v]
				switch pn := parent[id].(type) {
				case *ast.CallExpr:
					if pn.Fun == ast.Expr(id) {
						switch parent[pn].(type) {
						case *ast.GoStmt, *ast.DeferStmt:
							a.bad = true
						default:
							a.calls = append(a.calls, id)
						}
						continue
					}
					a.bad = true
				case *ast.AssignStmt:
					if pn.Tok == token.ASSIGN && len(pn.Lhs) == 1 && len(pn.Rhs) == 1 && pn.Rhs[0] == ast.Expr(id) {
						if l, ok := pn.Lhs[0].(*ast.Ident); ok && l.Name == "_" {
							a.blank = true
							continue
						}
					}
					if isAliasDefOf(pn, id) {
						continue
					}
					a.bad = true
				case *ast.ValueSpec:
					if isAliasDefOf(pn, id) {
						continue
					}
					a.bad = true
				default:
					a.bad = true
				}
			}
			for v, a := range als {
				if a.bad || assigned[v] || assigned[a.target] || len(a.calls) == 0 {
					continue
				}
				scope := p.Types.Scope().Innermost(a.calls[0].Pos())
				okAll := scope != nil
				for _, c := range a.calls {
					sc := p.Types.Scope().Innermost(c.Pos())
					if sc == nil {
						okAll = false
						break
					}
					if _, at := sc.LookupParent(a.name, c.Pos()); at != a.target && !a.noScope {
						okAll = false
					}
				}
				if !okAll {
					continue
				}
				overlap := false
				for _, c := range a.calls {
					_, x := in.rawOff(c.Pos())
					for _, b := range busy[fname] {
						if x >= b[0] && x < b[1] {
							overlap = true
						}
					}
				}
				if overlap {
					continue
				}
				for _, c := range a.calls {
					if a.method != "" {
						// f(x, rest…) with f = (*T).M  ->  (x).M(rest…): a plain method call
						call, ok := parent[c].(*ast.CallExpr)
						if !ok || len(call.Args) == 0 {
							continue
						}
						var rest []string
						for _, ar := range call.Args[1:] {
							rest = append(rest, in.nodeText(ar))
						}
						txt := "(" + in.nodeText(call.Args[0]) + ")." + a.method + "(" + strings.Join(rest, ", ")
						if call.Ellipsis.IsValid() {
							txt += "..."
						}
						txt += ")"
						_, x := in.rawOff(call.Pos())
						_, y := in.rawOff(call.End())
						edits[fname] = append(edits[fname], textEdit{x, y, txt + in.dir(call.End())})
						continue
					}
					_, x := in.rawOff(c.Pos())
					_, y := in.rawOff(c.End())
					text := a.name
					if len(text) != y-x {
						text += in.dir(c.End())
					}
					edits[fname] = append(edits[fname], textEdit{x, y, text})
				}
				if !a.blank {
					var end token.Pos
					switch d := a.def.(type) {
					case *ast.AssignStmt:
						end = d.End()
					case *ast.ValueSpec:
						if gd, ok := parent[d].(*ast.GenDecl); ok && !gd.Lparen.IsValid() {
							end = gd.End()
						}
					}
					if end.IsValid() {
						_, e := in.rawOff(end)
						edits[fname] = append(edits[fname], textEdit{e, e, "; _ = " + v.Name()})
					} else {
						continue
					}
				}
				changed = true
			}
		}
	}
	return changed
}

// inCycle: c reaches itself through candidate calls.
func inCycle(c *inlCand, all map[*types.Func]*inlCand) bool {
	if c.obj == nil {
		return false
	}
	seen := map[*types.Func]bool{}
	var walk func(f *types.Func) bool
	walk = func(f *types.Func) bool {
		for g := range all[f].callsCand {
			if g == c.obj {
				return true
			}
			if !seen[g] {
				seen[g] = true
				if walk(g) {
					return true
				}
			}
		}
		return false
	}
	return walk(c.obj)
}

type stackEntry struct{ n ast.Node }

// round performs one round: inlines the call sites of the leaf helpers and blanks helpers without uses.
// Returns the edits per file and whether anything changed.
func (in *inliner) round() (map[string][]textEdit, bool) {
	cands := in.candidates()
	edits := map[string][]textEdit{}
	// function variables that are just another name for a function: a round of their own (no overlapping edits)
	if in.funcAliases(edits, nil) {
		return edits, true
	}
	imports := map[string]map[string]string{} // file -> local name -> path to add
	changed := false

	// uses of each candidate (identifier uses other than its own declaration)
	uses := map[*types.Func]int{}
	for _, p := range in.w.Pkgs {
		for id, o := range p.TypesInfo.Uses {
			if f, ok := o.(*types.Func); ok && cands[f] != nil {
				_ = id
				uses[f]++
			}
		}
	}
	// 1. helpers without any use are removed from the view (unexported only: exported ones are API)
	deleted := map[*types.Func]bool{}
	type span struct{ a, b int }
	deletedSpans := map[string][]span{}
	for f, c := range cands {
		if uses[f] == 0 && !f.Exported() && in.inlined[funcShortName(f)] > 0 {
			file, a := in.rawOff(c.fd.Pos())
			_, b := in.rawOff(c.fd.End())
			src := in.src(file)
			blank := []byte(string(src[a:b]))
			for i, ch := range blank {
				if ch != '\n' && ch != '\r' {
					blank[i] = ' '
				}
			}
			edits[file] = append(edits[file], textEdit{a, b, string(blank)})
			deletedSpans[file] = append(deletedSpans[file], span{a, b})
			deleted[f] = true
			changed = true
			in.notes = append(in.notes, fmt.Sprintf("helper %s (%s) is not in the reference table: inlined at its %d call site(s) and removed from the analysed view", funcShortName(f), in.w.Pos(c.fd.Pos()), in.inlined[funcShortName(f)]))
		}
	}
	// imports orphaned by the removal
	for file, spans := range deletedSpans {
		var af *ast.File
		var ap *packages.Package
		for _, p := range in.w.Pkgs {
			for _, f := range p.Syntax {
				if fn, _ := in.rawOff(f.Pos()); fn == file {
					af, ap = f, p
				}
			}
		}
		if af == nil {
			continue
		}
		inDeleted := func(off int) bool {
			for _, s := range spans {
				if off >= s.a && off < s.b {
					return true
				}
			}
			return false
		}
		remaining := map[*types.PkgName]int{}
		for id, o := range ap.TypesInfo.Uses {
			pn, ok := o.(*types.PkgName)
			if !ok {
				continue
			}
			fn, off := in.rawOff(id.Pos())
			if fn != file || inDeleted(off) {
				continue
			}
			remaining[pn]++
		}
		for _, d := range af.Decls {
			gd, ok := d.(*ast.GenDecl)
			if !ok || gd.Tok != token.IMPORT {
				continue
			}
			live := 0
			var dead []*ast.ImportSpec
			for _, sp := range gd.Specs {
				is := sp.(*ast.ImportSpec)
				var pn *types.PkgName
				if is.Name != nil {
					pn, _ = ap.TypesInfo.Defs[is.Name].(*types.PkgName)
				} else {
					pn, _ = ap.TypesInfo.Implicits[is].(*types.PkgName)
				}
				if pn == nil || (is.Name != nil && (is.Name.Name == "_" || is.Name.Name == ".")) || remaining[pn] > 0 {
					live++
					continue
				}
				dead = append(dead, is)
			}
			blankRange := func(a, b token.Pos) {
				_, x := in.rawOff(a)
				_, y := in.rawOff(b)
				src := in.src(file)
				bl := []byte(string(src[x:y]))
				for i, ch := range bl {
					if ch != '\n' && ch != '\r' {
						bl[i] = ' '
					}
				}
				edits[file] = append(edits[file], textEdit{x, y, string(bl)})
			}
			if len(dead) == 0 {
				continue
			}
			if live == 0 && !gd.Lparen.IsValid() {
				blankRange(gd.Pos(), gd.End())
			} else {
				for _, is := range dead {
					blankRange(is.Pos(), is.End())
				}
			}
		}
	}

	// 2. leaf helpers: no calls to other (live) candidates, not recursive
	leaf := map[*types.Func]bool{}
	for f, c := range cands {
		if deleted[f] || inCycle(c, cands) {
			continue
		}
		ok := true
		for g := range c.callsCand {
			if !deleted[g] {
				ok = false
			}
		}
		if ok {
			leaf[f] = true
		}
	}
	refused := map[*types.Func]string{}
	crossPkg := map[*types.Func]bool{}
	done := map[*types.Func]int{}
	// local closures: same treatment, keyed by their variable
	clos := in.closureCandidates()
	closUses := map[*types.Var]int{}
	for _, p := range in.w.Pkgs {
		for _, o := range p.TypesInfo.Uses {
			if v, ok := o.(*types.Var); ok && clos[v] != nil {
				closUses[v]++
			}
		}
	}
	for v, c := range clos {
		key := "closure " + v.Name() + "@" + in.w.Pos(c.decl.Pos())
		if closUses[v]-c.blankUses == 0 && in.inlined[key] > 0 && !c.aliased && !c.keepDecl {
			file, a := in.rawOff(c.decl.Pos())
			_, b := in.rawOff(c.decl.End())
			src := in.src(file)
			if keep := "; _ = " + v.Name(); strings.HasPrefix(string(src[b:]), keep) {
				b += len(keep)
			}
			blank := []byte(string(src[a:b]))
			for i, ch := range blank {
				if ch != '\n' && ch != '\r' {
					blank[i] = ' '
				}
			}
			edits[file] = append(edits[file], textEdit{a, b, string(blank)})
			deletedSpans[file] = append(deletedSpans[file], span{a, b})
			changed = true
			in.notes = append(in.notes, fmt.Sprintf("local closure %s (%s) is only ever called directly: inlined at its %d call site(s)", v.Name(), in.w.Pos(c.decl.Pos()), in.inlined[key]))
			delete(clos, v)
		}
	}
	// 3. call sites
	for _, p := range in.w.Pkgs {
		for _, file := range p.Syntax {
			fname, _ := in.rawOff(file.Pos())
			var stack []ast.Node
			busy := map[ast.Node]bool{} // statements already edited in this round
			ast.Inspect(file, func(n ast.Node) bool {
				if n == nil {
					stack = stack[:len(stack)-1]
					return true
				}
				stack = append(stack, n)
				call, ok := n.(*ast.CallExpr)
				if !ok {
					return true
				}
				var callee *types.Func
				if fx, ok := call.Fun.(*ast.Ident); ok {
					if v, ok := p.TypesInfo.Uses[fx].(*types.Var); ok && clos[v] != nil {
						c := clos[v]
						key := "closure " + v.Name() + "@" + in.w.Pos(c.decl.Pos())
						if in.stuck[key] {
							return true
						}
						// a literal that itself calls helpers still to be inlined waits for them
						pending := false
						ast.Inspect(c.lit.Body, func(m ast.Node) bool {
							if id, ok := m.(*ast.Ident); ok {
								if f, ok := p.TypesInfo.Uses[id].(*types.Func); ok && cands[f] != nil && !in.stuck[funcShortName(f)] {
									pending = true
								}
								if v2, ok := p.TypesInfo.Uses[id].(*types.Var); ok && clos[v2] != nil && v2 != v {
									pending = true
								}
							}
							return true
						})
						if pending {
							return true
						}
						ed, stmt, why := in.inlineCall(p, file, append([]ast.Node(nil), stack...), call, c, imports)
						if why != "" {
							if why != "busy" && !in.stuck[key] {
								in.stuck[key] = true
								in.notes = append(in.notes, fmt.Sprintf("local closure %s (%s) is analysed as written: %s", v.Name(), in.w.Pos(c.decl.Pos()), why))
							}
							return true
						}
						if busy[stmt] {
							return true
						}
						for b := range busy {
							if b.Pos() <= stmt.Pos() && stmt.End() <= b.End() || stmt.Pos() <= b.Pos() && b.End() <= stmt.End() {
								return true
							}
						}
						// the definition statement itself must not be inside the edited statement
						if stmt.Pos() <= c.decl.Pos() && c.decl.End() <= stmt.End() {
							return true
						}
						busy[stmt] = true
						edits[fname] = append(edits[fname], ed)
						if in.inlined[key] == 0 {
							// the variable may be left without uses before it is removed in the next round
							_, e := in.rawOff(c.decl.End())
							if keep := "; _ = " + v.Name(); !strings.HasPrefix(string(in.src(fname)[e:]), keep) {
								edits[fname] = append(edits[fname], textEdit{e, e, keep})
							}
						}
						in.inlined[key]++
						changed = true
						return true
					}
				}
				switch fx := call.Fun.(type) {
				case *ast.Ident:
					callee, _ = p.TypesInfo.Uses[fx].(*types.Func)
				case *ast.SelectorExpr:
					callee, _ = p.TypesInfo.Uses[fx.Sel].(*types.Func)
				}
				if callee != nil && cands[callee] == nil && callee.Pkg() == p.Types {
					// a NEW call of a reference function that is a plain accessor (single `return E`), made from a
					// reference function: seen through, so that `a.Index()` written for `a.idx` reads like the reference
					// (the accessor itself stays). A new helper is inlined first and its calls are judged where they land.
					if _, known := baselineFuncs[funcShortName(callee)]; known {
						caller := ""
						for i := len(stack) - 1; i >= 0; i-- {
							if fd, ok := stack[i].(*ast.FuncDecl); ok {
								if o, ok := p.TypesInfo.Defs[fd.Name].(*types.Func); ok {
									caller = funcShortName(o)
								}
								break
							}
						}
						_, callerKnown := baselineFuncs[caller]
						_, off0 := in.rawOff(call.Pos())
						for _, sp := range deletedSpans[fname] {
							if off0 >= sp.a && off0 < sp.b {
								callerKnown = false
							}
						}
						if caller != "" && callerKnown && !baselineCalls[caller+"\t"+funcShortName(callee)] {
							if ac := in.accessorCand(p, callee); ac != nil {
								if stmt, _, _ := enclosingStmt(stack); stmt != nil && !busy[stmt] {
									nested := false
									for b := range busy {
										if b.Pos() <= stmt.Pos() && stmt.End() <= b.End() || stmt.Pos() <= b.Pos() && b.End() <= stmt.End() {
											nested = true
										}
									}
									recv, okRecv := in.recvText(p, call, callee)
									in.alias = map[*types.PkgName]string{}
									if !nested && okRecv && in.captureCheck(p, file, call, ac, imports) == "" {
										if ed, ok := in.exprForm(p, stack, stmt, call, ac, recv); ok {
											busy[stmt] = true
											edits[fname] = append(edits[fname], ed)
											changed = true
											key := "accessor " + funcShortName(callee)
											if !in.stuck[key] {
												in.stuck[key] = true
												in.notes = append(in.notes, fmt.Sprintf("new calls of the reference accessor %s are read as the expression it returns", funcShortName(callee)))
											}
										}
									}
								}
							}
						}
					}
					return true
				}
				if callee == nil || !leaf[callee] {
					return true
				}
				c := cands[callee]
				if c.pkg != p {
					// a call from another package stays a call (the body may name unexported things); the helper is
					// still inlined at the call sites of its own package and kept for this one
					crossPkg[callee] = true
					return true
				}
				// inside a helper that is being removed: nothing to do
				_, off := in.rawOff(call.Pos())
				for _, s := range deletedSpans[fname] {
					if off >= s.a && off < s.b {
						return true
					}
				}
				ed, stmt, why := in.inlineCall(p, file, append([]ast.Node(nil), stack...), call, c, imports)
				if why != "" {
					if why != "busy" {
						refused[callee] = why
					}
					return true
				}
				if busy[stmt] {
					return true // another call in the same statement was rewritten in this round; next round
				}
				// do not nest edits: a statement containing an already edited statement (or vice versa) waits
				for b := range busy {
					if b.Pos() <= stmt.Pos() && stmt.End() <= b.End() || stmt.Pos() <= b.Pos() && b.End() <= stmt.End() {
						return true
					}
				}
				busy[stmt] = true
				edits[fname] = append(edits[fname], ed)
				done[callee]++
				changed = true
				return true
			})
		}
	}
	for f, n := range done {
		in.inlined[funcShortName(f)] += n
	}
	for f := range crossPkg {
		name := funcShortName(f)
		if !in.crossNoted[name] {
			if in.crossNoted == nil {
				in.crossNoted = map[string]bool{}
			}
			in.crossNoted[name] = true
			in.notes = append(in.notes, fmt.Sprintf("helper %s (%s) is not in the reference table: inlined at the call sites of its own package, kept as a function for its callers in other packages", name, in.w.Pos(cands[f].fd.Pos())))
		}
	}
	for f, why := range refused {
		name := funcShortName(f)
		if !in.stuck[name] {
			in.stuck[name] = true
			in.notes = append(in.notes, fmt.Sprintf("helper %s (%s) is not in the reference table and is analysed as a separate function: %s", name, in.w.Pos(cands[f].fd.Pos()), why))
		}
	}
	// 4. imports needed by copied bodies
	for file, add := range imports {
		var af *ast.File
		for _, p := range in.w.Pkgs {
			for _, f := range p.Syntax {
				if fn, _ := in.rawOff(f.Pos()); fn == file {
					af = f
				}
			}
		}
		if af == nil || len(add) == 0 {
			continue
		}
		var names []string
		for name := range add {
			names = append(names, name)
		}
		sort.Strings(names)
		var sb strings.Builder
		sb.WriteString("; import (")
		for _, name := range names {
			fmt.Fprintf(&sb, "%s %q; ", name, add[name])
		}
		sb.WriteString(")")
		_, off := in.rawOff(af.Name.End())
		edits[file] = append(edits[file], textEdit{off, off, sb.String()})
	}
	return edits, changed
}

// applyEdits produces the new overlay.
func (in *inliner) applyEdits(edits map[string][]textEdit) (map[string][]byte, error) {
	out := map[string][]byte{}
	for k, v := range in.overlay {
		out[k] = v
	}
	for file, es := range edits {
		src := in.src(file)
		sort.SliceStable(es, func(i, j int) bool { return es[i].off < es[j].off })
		var sb strings.Builder
		last := 0
		for _, e := range es {
			if e.off < last || e.end > len(src) || e.end < e.off {
				return nil, fmt.Errorf("overlapping edits in %s", file)
			}
			sb.Write(src[last:e.off])
			sb.WriteString(e.text)
			last = e.end
		}
		sb.Write(src[last:])
		out[file] = []byte(sb.String())
	}
	return out, nil
}

// enclosing finds the innermost statement containing the call and the nodes between them.
func enclosingStmt(stack []ast.Node) (stmt ast.Stmt, parent ast.Node, between []ast.Node) {
	for i := len(stack) - 2; i >= 0; i-- {
		if s, ok := stack[i].(ast.Stmt); ok {
			var par ast.Node
			if i > 0 {
				par = stack[i-1]
			}
			return s, par, stack[i+1 : len(stack)-1]
		}
		if _, ok := stack[i].(*ast.FuncLit); ok {
			return nil, nil, nil // a call that is the body expression of nothing: cannot happen
		}
	}
	return nil, nil, nil
}

func isStmtList(parent ast.Node, s ast.Stmt) bool {
	var list []ast.Stmt
	switch x := parent.(type) {
	case *ast.BlockStmt:
		list = x.List
	case *ast.CaseClause:
		list = x.Body
	case *ast.CommClause:
		list = x.Body
	default:
		return false
	}
	for _, e := range list {
		if e == s {
			return true
		}
	}
	return false
}

// inlineCall builds the edit that replaces the statement around call by the inlined body.
// why != "" means the call is left alone.
func (in *inliner) inlineCall(p *packages.Package, file *ast.File, stack []ast.Node, call *ast.CallExpr, c *inlCand, imports map[string]map[string]string) (textEdit, ast.Stmt, string) {
	info := p.TypesInfo
	in.typeSubst = nil
	if c.sig != nil && c.sig.TypeParams() != nil {
		// a generic helper: work with the instance the call site uses, its type parameters written out
		var id *ast.Ident
		switch fx := call.Fun.(type) {
		case *ast.Ident:
			id = fx
		case *ast.IndexExpr:
			id, _ = fx.X.(*ast.Ident)
		case *ast.IndexListExpr:
			id, _ = fx.X.(*ast.Ident)
		}
		inst, ok := info.Instances[id]
		if id == nil || !ok || inst.TypeArgs == nil || inst.TypeArgs.Len() != c.sig.TypeParams().Len() {
			return textEdit{}, nil, "generic helper whose instantiation is not known at the call site"
		}
		isig, ok := inst.Type.(*types.Signature)
		if !ok {
			return textEdit{}, nil, "generic helper whose instantiation is not known at the call site"
		}
		bad := false
		qual := func(pk *types.Package) string {
			if pk == p.Types {
				return ""
			}
			for _, im := range file.Imports {
				if strings.Trim(im.Path.Value, `"`) == pk.Path() {
					if im.Name != nil {
						if im.Name.Name == "_" || im.Name.Name == "." {
							bad = true
						}
						return im.Name.Name
					}
					return pk.Name()
				}
			}
			bad = true
			return pk.Name()
		}
		in.typeSubst = map[*types.TypeParam]string{}
		for i := 0; i < c.sig.TypeParams().Len(); i++ {
			in.typeSubst[c.sig.TypeParams().At(i)] = types.TypeString(inst.TypeArgs.At(i), qual)
		}
		if bad {
			in.typeSubst = nil
			return textEdit{}, nil, "a type argument of the generic helper needs a package the calling file does not import"
		}
		c2 := *c
		c2.sig = isig
		c = &c2
		if call.Fun != ast.Expr(id) {
			// explicit instantiation f[T](…): the statement forms look at call.Fun as an identifier
			return textEdit{}, nil, "explicitly instantiated call of a generic helper"
		}
	}
	stmt, parent, between := enclosingStmt(stack)
	if stmt == nil {
		return textEdit{}, nil, "the call is not inside a statement"
	}
	sig := c.sig
	nres := sig.Results().Len()

	// receiver and arguments
	type binding struct{ name, typ, val string }
	var argTemps, argExprs []string
	var binds []binding
	in.n++
	id := in.n
	tmp := func(kind string, i int) string { return fmt.Sprintf("_inl%d_%s%d", id, kind, i) }
	paramNames := map[string]bool{}
	eachField := func(fl *ast.FieldList, f func(name string, typ ast.Expr)) {
		if fl == nil {
			return
		}
		for _, fld := range fl.List {
			if len(fld.Names) == 0 {
				f("", fld.Type)
			}
			for _, nm := range fld.Names {
				f(nm.Name, fld.Type)
			}
		}
	}
	eachField(c.fd.Recv, func(name string, _ ast.Expr) { paramNames[name] = true })
	eachField(c.fd.Type.Params, func(name string, _ ast.Expr) { paramNames[name] = true })
	eachField(c.fd.Type.Results, func(name string, _ ast.Expr) { paramNames[name] = true })
	constArg := func(e ast.Expr) (string, bool) {
		tv, ok := info.Types[e]
		if !ok || !(tv.Value != nil || tv.IsNil()) {
			return "", false
		}
		bad := false
		ast.Inspect(e, func(n ast.Node) bool {
			if idn, ok := n.(*ast.Ident); ok && paramNames[idn.Name] {
				bad = true
			}
			return true
		})
		if bad {
			return "", false
		}
		return in.nodeText(e), true
	}
	isGoDefer := false
	switch s := stmt.(type) {
	case *ast.GoStmt:
		isGoDefer = s.Call == call
	case *ast.DeferStmt:
		isGoDefer = s.Call == call
	}
	if (c.hasDefer || c.hasRecover) && !isGoDefer {
		return textEdit{}, nil, "it defers or recovers and is called outside a go/defer statement"
	}
	// receiver
	recvExpr := ""
	if sig.Recv() != nil {
		sel, ok := call.Fun.(*ast.SelectorExpr)
		if !ok {
			return textEdit{}, nil, "method called through a method expression"
		}
		selInfo := info.Selections[sel]
		if selInfo == nil || len(selInfo.Index()) != 1 || selInfo.Kind() != types.MethodVal {
			return textEdit{}, nil, "promoted method or method expression"
		}
		xt := info.TypeOf(sel.X)
		_, recvPtr := sig.Recv().Type().(*types.Pointer)
		_, xPtr := xt.Underlying().(*types.Pointer)
		xs := in.nodeText(sel.X)
		switch {
		case recvPtr && !xPtr:
			recvExpr = "&(" + xs + ")"
		case !recvPtr && xPtr:
			recvExpr = "*(" + xs + ")"
		default:
			recvExpr = xs
		}
	} else if _, ok := call.Fun.(*ast.Ident); !ok {
		return textEdit{}, nil, "called through a qualified name"
	}
	if len(call.Args) == 1 {
		if t, ok := info.TypeOf(call.Args[0]).(*types.Tuple); ok && t.Len() > 1 {
			return textEdit{}, nil, "multi-value argument"
		}
	}
	// free identifiers of the callee must mean the same thing at the call site
	in.alias = map[*types.PkgName]string{}
	if why := in.captureCheck(p, file, call, c, imports); why != "" {
		return textEdit{}, nil, why
	}

	if !isGoDefer {
		if ed, ok := in.exprForm(p, stack, stmt, call, c, recvExpr); ok {
			return ed, stmt, ""
		}
	}
	if isGoDefer {
		bodyText, _, why := in.bodyText(c, id, nil)
		if why != "" {
			return textEdit{}, nil, why
		}
		// go f(a) -> go func(params) results { body }(a): argument evaluation and deferred calls are unchanged
		var params []string
		var args []string
		if c.fd.Recv != nil && len(c.fd.Recv.List) == 1 {
			r := c.fd.Recv.List[0]
			name := "_"
			if len(r.Names) == 1 {
				name = r.Names[0].Name
			}
			params = append(params, name+" "+in.calleeText(c, r.Type))
			args = append(args, recvExpr)
		}
		if c.fd.Type.Params != nil && len(c.fd.Type.Params.List) > 0 {
			params = append(params, in.calleeRange(c, c.fd.Type.Params, c.fd.Type.Params.Opening+1, c.fd.Type.Params.Closing))
		}
		if len(call.Args) > 0 {
			a := in.rangeText(call.Args[0].Pos(), call.Args[len(call.Args)-1].End())
			if call.Ellipsis.IsValid() {
				a += "..."
			}
			args = append(args, a)
		}
		results := ""
		if c.fd.Type.Results != nil {
			results = " " + in.calleeText(c, c.fd.Type.Results)
		}
		kw := "go"
		if _, ok := stmt.(*ast.DeferStmt); ok {
			kw = "defer"
		}
		// the body keeps its own returns: re-render it without return rewriting
		raw := bodyText
		text := kw + " func(" + strings.Join(params, ", ") + ")" + results + " " + in.dir(c.fd.Body.Lbrace) + raw + in.dir(call.Rparen) + "(" + strings.Join(args, ", ") + ")"
		_, a := in.rawOff(stmt.Pos())
		_, b := in.rawOff(stmt.End())
		return textEdit{a, b, text}, stmt, ""
	}

	// parameters
	addParam := func(name string, typ string, expr ast.Expr, exprText string, i int) {
		val := ""
		if expr != nil {
			if s, ok := constArg(expr); ok {
				val = s
			}
		}
		if val == "" {
			t := tmp("a", i)
			argTemps = append(argTemps, t)
			argExprs = append(argExprs, exprText)
			val = t
		}
		if name == "" || name == "_" {
			return
		}
		binds = append(binds, binding{name, typ, val})
	}
	ai := 0
	if c.fd.Recv != nil && len(c.fd.Recv.List) == 1 {
		r := c.fd.Recv.List[0]
		name := ""
		if len(r.Names) == 1 {
			name = r.Names[0].Name
		}
		addParam(name, in.calleeText(c, r.Type), nil, recvExpr, ai)
		ai++
	}
	type par struct {
		name, typ string
		variadic  bool
	}
	var pars []par
	eachField(c.fd.Type.Params, func(name string, typ ast.Expr) {
		if el, ok := typ.(*ast.Ellipsis); ok {
			pars = append(pars, par{name, "[]" + in.calleeText(c, el.Elt), true})
			return
		}
		pars = append(pars, par{name, in.calleeText(c, typ), false})
	})
	for i, pr := range pars {
		if pr.variadic {
			if call.Ellipsis.IsValid() {
				if i >= len(call.Args) {
					return textEdit{}, nil, "argument count mismatch"
				}
				addParam(pr.name, pr.typ, call.Args[i], in.nodeText(call.Args[i]), ai)
				ai++
				continue
			}
			var elems []string
			for _, a := range call.Args[i:] {
				t := tmp("a", ai)
				ai++
				argTemps = append(argTemps, t)
				argExprs = append(argExprs, in.nodeText(a))
				elems = append(elems, t)
			}
			if pr.name != "" && pr.name != "_" {
				if len(elems) == 0 {
					binds = append(binds, binding{pr.name, pr.typ, ""})
				} else {
					binds = append(binds, binding{pr.name, pr.typ, pr.typ + "{" + strings.Join(elems, ", ") + "}"})
				}
			}
			continue
		}
		if i >= len(call.Args) {
			return textEdit{}, nil, "argument count mismatch"
		}
		addParam(pr.name, pr.typ, call.Args[i], in.nodeText(call.Args[i]), ai)
		ai++
	}
	var sb strings.Builder
	// result temporaries live in the surrounding scope
	var resTemps []string
	var resTypes []string
	eachField(c.fd.Type.Results, func(_ string, typ ast.Expr) { resTypes = append(resTypes, in.calleeText(c, typ)) })
	for i := range resTypes {
		resTemps = append(resTemps, tmp("r", i))
	}
	resDecl := ""
	for i, t := range resTypes {
		resDecl += fmt.Sprintf("var %s %s; ", resTemps[i], t)
	}
	sb.WriteString("{ ")
	if len(argTemps) > 0 {
		sb.WriteString(strings.Join(argTemps, ", ") + " := " + strings.Join(argExprs, ", ") + "; ")
		for _, t := range argTemps {
			sb.WriteString("_ = " + t + "; ")
		}
	}
	for _, b := range binds {
		if b.val == "" {
			fmt.Fprintf(&sb, "var %s %s; _ = %s; ", b.name, b.typ, b.name)
		} else {
			fmt.Fprintf(&sb, "var %s %s = %s; _ = %s; ", b.name, b.typ, b.val, b.name)
		}
	}
	hasNamedResults := false
	eachField(c.fd.Type.Results, func(name string, typ ast.Expr) {
		if name != "" && name != "_" {
			hasNamedResults = true
			fmt.Fprintf(&sb, "var %s %s; _ = %s; ", name, in.calleeText(c, typ), name)
		}
	})
	prologue := sb.String() // "{ temporaries; parameters; "
	label := fmt.Sprintf("_inl%d", id)
	wrapBody := func(bodyText string, nReturns int) string {
		t := prologue
		if nReturns > 0 {
			t += label + ": switch { default: "
		}
		t += in.dir(c.fd.Body.Lbrace) + bodyText
		if nReturns > 0 {
			t += " }"
		}
		return t + " }"
	}

	// ---- tail form: `return helper(args)` with identical result types keeps the helper's own returns -------------
	if rs, ok := stmt.(*ast.ReturnStmt); ok && len(rs.Results) == 1 && rs.Results[0] == call && !hasNamedResults && nres > 0 {
		if encl := enclosingFuncType(stack, info); encl != nil && encl.Results().Len() == nres {
			same := true
			for i := 0; i < nres; i++ {
				if !types.Identical(encl.Results().At(i).Type(), sig.Results().At(i).Type()) {
					same = false
				}
			}
			if same {
				bodyText, _, why := in.bodyText(c, id, nil)
				if why != "" {
					return textEdit{}, nil, why
				}
				text := wrapBody(bodyText, 0)
				_, a := in.rawOff(stmt.Pos())
				_, b := in.rawOff(stmt.End())
				return textEdit{a, b, text + in.dir(stmt.End())}, stmt, ""
			}
		}
	}

	// ---- continuation form: `if v := helper(args); COND(v) {..}` / `if COND(helper(args)) {..}`: the if statement is
	// evaluated at every return of the helper with v bound to the returned expression (decided there when the
	// returned expression is a literal or evidently non-nil) -------------------------------------------------------
	if ed, st, ok := in.continuationForm(p, stack, stmt, parent, between, call, c, id, nres, wrapBody); ok {
		return ed, st, ""
	}

	bodyText, nReturns, why := in.bodyText(c, id, in.resultTempRewrite(c, id, nres))
	if why != "" {
		return textEdit{}, nil, why
	}
	core := wrapBody(bodyText, nReturns)

	direct := false
	switch s := stmt.(type) {
	case *ast.ExprStmt:
		direct = s.X == call
	case *ast.AssignStmt:
		direct = len(s.Rhs) == 1 && s.Rhs[0] == call
		if direct {
			// operands on the left are evaluated before the call: they must not contain calls or receives
			for _, l := range s.Lhs {
				bad := false
				ast.Inspect(l, func(n ast.Node) bool {
					switch x := n.(type) {
					case *ast.CallExpr:
						// len / cap of a local variable: the helper cannot reach the variable, the value is the same
						// before and after it
						pure := false
						if id, ok := x.Fun.(*ast.Ident); ok && (id.Name == "len" || id.Name == "cap") && len(x.Args) == 1 {
							if _, isBuiltin := p.TypesInfo.Uses[id].(*types.Builtin); isBuiltin {
								if arg, ok := x.Args[0].(*ast.Ident); ok {
									if v, ok := p.TypesInfo.Uses[arg].(*types.Var); ok && !v.IsField() && v.Parent() != nil && v.Parent() != v.Pkg().Scope() {
										pure = true
									}
								}
							}
						}
						if !pure {
							bad = true
						}
					case *ast.UnaryExpr:
						if x.Op == token.ARROW {
							bad = true
						}
					}
					return true
				})
				if bad {
					return textEdit{}, nil, "the assignment target contains a call evaluated before the helper"
				}
			}
		}
	case *ast.ReturnStmt:
		direct = len(s.Results) == 1 && s.Results[0] == call
	}
	var replaced ast.Node = stmt
	var text string
	mk := func(post string) string {
		return resDecl + core + in.dir(stmt.Pos()) + post
	}
	if direct {
		post := ""
		switch s := stmt.(type) {
		case *ast.ExprStmt:
			for i, t := range resTemps {
				if i == 0 {
					post = "; _ = " + t
				} else {
					post += "; _ = " + t
				}
			}
		case *ast.AssignStmt:
			post = "; " + in.rangeText(s.Lhs[0].Pos(), s.Lhs[len(s.Lhs)-1].End()) + " " + s.Tok.String() + " " + strings.Join(resTemps, ", ")
		case *ast.ReturnStmt:
			post = "; return " + strings.Join(resTemps, ", ")
		}
		switch {
		case isStmtList(parent, stmt):
			text = mk(post)
		default:
			// the init statement of an if
			ifs, ok := parent.(*ast.IfStmt)
			if !ok || ifs.Init != stmt {
				return textEdit{}, nil, "the call statement is in a position that cannot hold several statements"
			}
			replaced = ifs
			text = "{ " + resDecl + core + in.dir(stmt.Pos()) + post + "; " + in.dir(ifs.Cond.Pos()) + "if " + in.rangeText(ifs.Cond.Pos(), ifs.End()) + " }"
		}
	} else {
		// hoist: the call is a sub-expression evaluated unconditionally and before every other call of the statement
		if nres != 1 {
			return textEdit{}, nil, "a multi-value or void call used inside an expression"
		}
		for _, b := range between {
			switch x := b.(type) {
			case *ast.FuncLit:
				return textEdit{}, nil, "internal: literal between statement and call"
			case *ast.BinaryExpr:
				if (x.Op == token.LAND || x.Op == token.LOR) && !(x.X.Pos() <= call.Pos() && call.End() <= x.X.End()) {
					return textEdit{}, nil, "the call is evaluated conditionally (right operand of && or ||)"
				}
			}
		}
		var area []ast.Node // expressions of the statement evaluated once, before its sub-statements
		switch s := stmt.(type) {
		case *ast.ExprStmt:
			area = []ast.Node{s.X}
		case *ast.AssignStmt:
			for _, e := range s.Lhs {
				area = append(area, e)
			}
			for _, e := range s.Rhs {
				area = append(area, e)
			}
		case *ast.ReturnStmt:
			for _, e := range s.Results {
				area = append(area, e)
			}
		case *ast.IncDecStmt:
			area = []ast.Node{s.X}
		case *ast.SendStmt:
			area = []ast.Node{s.Chan, s.Value}
		case *ast.IfStmt:
			if !(s.Cond.Pos() <= call.Pos() && call.End() <= s.Cond.End()) {
				return textEdit{}, nil, "the call is in an unsupported part of an if statement"
			}
			area = []ast.Node{s.Cond}
		case *ast.SwitchStmt:
			if s.Init != nil || s.Tag == nil || !(s.Tag.Pos() <= call.Pos() && call.End() <= s.Tag.End()) {
				return textEdit{}, nil, "the call is in an unsupported part of a switch statement"
			}
			area = []ast.Node{s.Tag}
		case *ast.RangeStmt:
			if !(s.X.Pos() <= call.Pos() && call.End() <= s.X.End()) {
				return textEdit{}, nil, "the call is in an unsupported part of a range statement"
			}
			area = []ast.Node{s.X}
		default:
			return textEdit{}, nil, fmt.Sprintf("the call is used inside a %T", stmt)
		}
		anc := map[ast.Node]bool{}
		for _, b := range between {
			anc[b] = true
		}
		reorder := false
		for _, a := range area {
			ast.Inspect(a, func(n ast.Node) bool {
				if n == nil || reorder {
					return false
				}
				if _, ok := n.(*ast.FuncLit); ok {
					return false
				}
				if n.Pos() >= call.Pos() {
					return false
				}
				switch x := n.(type) {
				case *ast.CallExpr:
					if anc[x] || x == call {
						return true
					}
					if tv, ok := info.Types[x.Fun]; ok && tv.IsType() {
						return true // conversion
					}
					if idn, ok := x.Fun.(*ast.Ident); ok {
						if _, isB := info.Uses[idn].(*types.Builtin); isB && (idn.Name == "len" || idn.Name == "cap") {
							return true
						}
					}
					if x.End() <= call.Pos() {
						reorder = true
					}
				case *ast.UnaryExpr:
					if x.Op == token.ARROW && x.End() <= call.Pos() {
						reorder = true
					}
				}
				return true
			})
		}
		if reorder {
			return textEdit{}, nil, "hoisting the call would move it before another call of the same statement"
		}
		// the statement with the call replaced by the result temporary
		_, so := in.rawOff(stmt.Pos())
		_, se := in.rawOff(stmt.End())
		_, co := in.rawOff(call.Pos())
		_, ce := in.rawOff(call.End())
		fname, _ := in.rawOff(stmt.Pos())
		src := in.src(fname)
		rewritten := func(from int) string {
			return string(src[from:co]) + resTemps[0] + in.dir(call.End()) + string(src[ce:se])
		}
		switch s := stmt.(type) {
		case *ast.IfStmt:
			pre := ""
			if s.Init != nil {
				pre = in.nodeText(s.Init) + "; "
			}
			_, condOff := in.rawOff(s.Cond.Pos())
			text = "{ " + pre + resDecl + core + "; " + in.dir(s.Cond.Pos()) + "if " + rewritten(condOff) + " }"
		default:
			if !isStmtList(parent, stmt) {
				return textEdit{}, nil, "the statement is in a position that cannot hold several statements"
			}
			text = resDecl + core + "; " + in.dir(stmt.Pos()) + rewritten(so)
		}
	}
	_, a := in.rawOff(replaced.Pos())
	_, b := in.rawOff(replaced.End())
	return textEdit{a, b, text + in.dir(replaced.End())}, stmtOf(replaced), ""
}

// accessorCand: the declaration of a reference function in package p, as a candidate for the expression form only.
func (in *inliner) accessorCand(p *packages.Package, f *types.Func) *inlCand {
	for _, file := range p.Syntax {
		for _, d := range file.Decls {
			fd, ok := d.(*ast.FuncDecl)
			if !ok || fd.Body == nil || p.TypesInfo.Defs[fd.Name] != types.Object(f) || fd.Type.TypeParams != nil {
				continue
			}
			if len(fd.Body.List) != 1 {
				return nil
			}
			if _, ok := fd.Body.List[0].(*ast.ReturnStmt); !ok {
				return nil
			}
			return &inlCand{obj: f, sig: f.Type().(*types.Signature), fd: fd, pkg: p, file: file, callsCand: map[*types.Func]bool{}}
		}
	}
	return nil
}

// recvText: the receiver expression of a method call, adjusted to the receiver's declared form ("" for functions).
func (in *inliner) recvText(p *packages.Package, call *ast.CallExpr, f *types.Func) (string, bool) {
	sig := f.Type().(*types.Signature)
	if sig.Recv() == nil {
		_, ok := call.Fun.(*ast.Ident)
		return "", ok
	}
	sel, ok := call.Fun.(*ast.SelectorExpr)
	if !ok {
		return "", false
	}
	si := p.TypesInfo.Selections[sel]
	if si == nil || len(si.Index()) != 1 || si.Kind() != types.MethodVal {
		return "", false
	}
	xt := p.TypesInfo.TypeOf(sel.X)
	_, recvPtr := sig.Recv().Type().(*types.Pointer)
	_, xPtr := xt.Underlying().(*types.Pointer)
	xs := in.nodeText(sel.X)
	switch {
	case recvPtr && !xPtr:
		return "&(" + xs + ")", true
	case !recvPtr && xPtr:
		return "*(" + xs + ")", true
	}
	return xs, true
}

// exprForm: a helper whose body is a single `return E` (an accessor, a predicate, a small computation) is replaced
// by E itself, with the parameters replaced by the arguments. It applies when that cannot change what is evaluated or
// in which order: E holds no function literal; every argument (and the receiver) is either simple - identifiers,
// field selections, literals, &x, *x - or used exactly once by an E that makes no calls; no argument with a possible
// side effect is dropped; argument and parameter types are identical (no implicit conversion is lost).
func (in *inliner) exprForm(p *packages.Package, stack []ast.Node, stmt ast.Stmt, call *ast.CallExpr, c *inlCand, recvExpr string) (textEdit, bool) {
	info := p.TypesInfo
	cinfo := c.pkg.TypesInfo
	if c.lit != nil || c.fd.Body == nil || len(c.fd.Body.List) != 1 {
		return textEdit{}, false
	}
	ret, ok := c.fd.Body.List[0].(*ast.ReturnStmt)
	if !ok || len(ret.Results) != 1 {
		return textEdit{}, false
	}
	sig := c.sig
	if sig.Results().Len() != 1 || sig.Variadic() || call.Ellipsis.IsValid() {
		return textEdit{}, false
	}
	E := ret.Results[0]
	pure := true
	hasLit := false
	ast.Inspect(E, func(n ast.Node) bool {
		switch x := n.(type) {
		case *ast.FuncLit:
			hasLit = true
		case *ast.CallExpr:
			isConv := false
			if tv, ok := cinfo.Types[x.Fun]; ok && tv.IsType() {
				isConv = true
			}
			if id, ok := x.Fun.(*ast.Ident); ok {
				if b, ok := cinfo.Uses[id].(*types.Builtin); ok && (b.Name() == "len" || b.Name() == "cap") {
					isConv = true
				}
			}
			if !isConv {
				pure = false
			}
		case *ast.UnaryExpr:
			if x.Op == token.ARROW {
				pure = false
			}
		}
		return true
	})
	if hasLit {
		return textEdit{}, false
	}
	// parameters (receiver first) and their arguments
	type par struct {
		obj  *types.Var
		text string
		expr ast.Expr
	}
	var pars []par
	if sig.Recv() != nil {
		if c.fd.Recv == nil || len(c.fd.Recv.List) != 1 {
			return textEdit{}, false
		}
		var ro *types.Var
		if len(c.fd.Recv.List[0].Names) == 1 {
			ro, _ = cinfo.Defs[c.fd.Recv.List[0].Names[0]].(*types.Var)
		}
		sel := call.Fun.(*ast.SelectorExpr)
		pars = append(pars, par{ro, recvExpr, sel.X})
	}
	i := 0
	if c.fd.Type.Params != nil {
		for _, fld := range c.fd.Type.Params.List {
			names := fld.Names
			if len(names) == 0 {
				names = []*ast.Ident{nil}
			}
			for _, nm := range names {
				if i >= len(call.Args) {
					return textEdit{}, false
				}
				var po *types.Var
				if nm != nil {
					po, _ = cinfo.Defs[nm].(*types.Var)
				}
				// no implicit conversion may be lost
				at := info.TypeOf(call.Args[i])
				if at == nil || !types.Identical(at, sig.Params().At(i).Type()) {
					return textEdit{}, false
				}
				pars = append(pars, par{po, in.nodeText(call.Args[i]), call.Args[i]})
				i++
			}
		}
	}
	if i != len(call.Args) {
		return textEdit{}, false
	}
	var simple func(e ast.Expr) bool
	simple = func(e ast.Expr) bool {
		switch x := e.(type) {
		case *ast.Ident, *ast.BasicLit:
			return true
		case *ast.ParenExpr:
			return simple(x.X)
		case *ast.SelectorExpr:
			return simple(x.X)
		case *ast.StarExpr:
			return simple(x.X)
		case *ast.UnaryExpr:
			return (x.Op == token.AND || x.Op == token.SUB || x.Op == token.NOT) && simple(x.X)
		}
		return false
	}
	// uses of each parameter inside E
	type use struct {
		a, b int
		par  int
	}
	var uses []use
	count := make([]int, len(pars))
	ast.Inspect(E, func(n ast.Node) bool {
		id, ok := n.(*ast.Ident)
		if !ok {
			return true
		}
		o := cinfo.Uses[id]
		for k, pr := range pars {
			if pr.obj != nil && o == types.Object(pr.obj) {
				_, a := in.rawOff(id.Pos())
				_, b := in.rawOff(id.End())
				uses = append(uses, use{a, b, k})
				count[k]++
			}
		}
		return true
	})
	for k, pr := range pars {
		if simple(pr.expr) {
			continue
		}
		if count[k] == 1 && pure {
			continue
		}
		return textEdit{}, false
	}
	cf, ea := in.rawOff(E.Pos())
	_, eb := in.rawOff(E.End())
	src := in.src(cf)
	sort.Slice(uses, func(i, j int) bool { return uses[i].a < uses[j].a })
	var sb strings.Builder
	sb.WriteString("(" + in.dir(E.Pos()))
	last := ea
	for _, u := range uses {
		sb.Write(src[last:u.a])
		pr := pars[u.par]
		needParens := true
		switch ex := pr.expr.(type) {
		case *ast.Ident, *ast.BasicLit:
			needParens = pr.text != in.nodeText(ex) // &(x) / *(x) built for the receiver
		case *ast.SelectorExpr:
			needParens = pr.text != in.nodeText(ex)
		}
		if needParens {
			sb.WriteString("(" + in.dir(pr.expr.Pos()) + pr.text + ")")
		} else {
			sb.WriteString(in.dir(pr.expr.Pos()) + pr.text)
		}
		last = u.b
	}
	sb.Write(src[last:eb])
	sb.WriteString(")")
	text := sb.String()
	// the expression's type must be the declared result type
	if et := cinfo.TypeOf(E); et == nil || !types.Identical(et, sig.Results().At(0).Type()) {
		if c.fd.Type.Results == nil || len(c.fd.Type.Results.List) != 1 {
			return textEdit{}, false
		}
		text = "(" + in.calleeText(c, c.fd.Type.Results.List[0].Type) + ")" + text
	}
	_, a := in.rawOff(call.Pos())
	_, b := in.rawOff(call.End())
	return textEdit{a, b, text + in.dir(call.End())}, true
}

// enclosingFuncType: the signature of the innermost function (declaration or literal) around the call.
func enclosingFuncType(stack []ast.Node, info *types.Info) *types.Signature {
	for i := len(stack) - 1; i >= 0; i-- {
		switch x := stack[i].(type) {
		case *ast.FuncLit:
			sig, _ := info.TypeOf(x).(*types.Signature)
			return sig
		case *ast.FuncDecl:
			if f, ok := info.Defs[x.Name].(*types.Func); ok {
				return f.Type().(*types.Signature)
			}
			return nil
		}
	}
	return nil
}

// escapes: the statement contains an unlabelled break/continue that leaves it, a goto, or a label.
func escapes(n ast.Node) (brk, cont, other bool) {
	var walk func(n ast.Node, inLoop, inBreakable bool)
	walk = func(n ast.Node, inLoop, inBreakable bool) {
		if n == nil {
			return
		}
		switch x := n.(type) {
		case *ast.FuncLit:
			return
		case *ast.LabeledStmt:
			other = true
		case *ast.BranchStmt:
			switch x.Tok {
			case token.GOTO, token.FALLTHROUGH:
				other = true
			case token.BREAK:
				if x.Label == nil && !inBreakable {
					brk = true
				}
			case token.CONTINUE:
				if x.Label == nil && !inLoop {
					cont = true
				}
			}
			return
		case *ast.ForStmt:
			walk(x.Init, inLoop, inBreakable)
			walk(x.Post, inLoop, inBreakable)
			walk(x.Body, true, true)
			return
		case *ast.RangeStmt:
			walk(x.Body, true, true)
			return
		case *ast.SwitchStmt:
			walk(x.Init, inLoop, inBreakable)
			walk(x.Body, inLoop, true)
			return
		case *ast.TypeSwitchStmt:
			walk(x.Init, inLoop, inBreakable)
			walk(x.Body, inLoop, true)
			return
		case *ast.SelectStmt:
			walk(x.Body, inLoop, true)
			return
		}
		// generic descent over statements
		switch x := n.(type) {
		case *ast.BlockStmt:
			for _, s := range x.List {
				walk(s, inLoop, inBreakable)
			}
		case *ast.IfStmt:
			walk(x.Init, inLoop, inBreakable)
			walk(x.Body, inLoop, inBreakable)
			walk(x.Else, inLoop, inBreakable)
		case *ast.CaseClause:
			for _, s := range x.Body {
				walk(s, inLoop, inBreakable)
			}
		case *ast.CommClause:
			walk(x.Comm, inLoop, inBreakable)
			for _, s := range x.Body {
				walk(s, inLoop, inBreakable)
			}
		case *ast.LabeledStmt:
			walk(x.Stmt, inLoop, inBreakable)
		}
	}
	walk(n, false, false)
	return
}

// continuationForm: see inlineCall.
func (in *inliner) continuationForm(p *packages.Package, stack []ast.Node, stmt ast.Stmt, parent ast.Node, between []ast.Node, call *ast.CallExpr, c *inlCand, id, nres int,
	wrapBody func(string, int) string) (textEdit, ast.Stmt, bool) {
	info := p.TypesInfo
	if nres != 1 {
		return textEdit{}, nil, false
	}
	var ifs *ast.IfStmt
	var condExpr ast.Expr     // the condition the continuation tests (the if's own, or what is left after peeling &&)
	var outerConds []ast.Expr // peeled left operands, outermost first
	vname := ""               // the variable the if statement binds the result to ("" when the call sits in the condition)
	switch s := stmt.(type) {
	case *ast.AssignStmt:
		pi, ok := parent.(*ast.IfStmt)
		if !ok || pi.Init != stmt || s.Tok != token.DEFINE || len(s.Lhs) != 1 || len(s.Rhs) != 1 || s.Rhs[0] != call {
			return textEdit{}, nil, false
		}
		idn, ok := s.Lhs[0].(*ast.Ident)
		if !ok || idn.Name == "_" {
			return textEdit{}, nil, false
		}
		ifs, vname = pi, idn.Name
		condExpr = pi.Cond
	case *ast.IfStmt:
		if s.Init != nil || !(s.Cond.Pos() <= call.Pos() && call.End() <= s.Cond.End()) {
			return textEdit{}, nil, false
		}
		// `if A && B(call) { body }` (no else) is `if A { if B(call) { body } }`: peel the operands evaluated before
		condExpr = s.Cond
		for {
			e := condExpr
			for {
				if pe, ok := e.(*ast.ParenExpr); ok {
					e = pe.X
					continue
				}
				break
			}
			be, ok := e.(*ast.BinaryExpr)
			if !ok || be.Op != token.LAND || s.Else != nil || !(be.Y.Pos() <= call.Pos() && call.End() <= be.Y.End()) {
				break
			}
			outerConds = append(outerConds, be.X)
			condExpr = be.Y
		}
		// the call must be the (remaining) condition, possibly negated or parenthesised (evaluated exactly once, first)
		for _, b := range between {
			if b.Pos() <= condExpr.Pos() && condExpr.End() <= b.End() && b != ast.Node(condExpr) {
				continue // a peeled && (or the parentheses around it)
			}
			switch x := b.(type) {
			case *ast.ParenExpr:
			case *ast.UnaryExpr:
				if x.Op != token.NOT {
					return textEdit{}, nil, false
				}
			default:
				return textEdit{}, nil, false
			}
		}
		ifs = s
	default:
		return textEdit{}, nil, false
	}
	// the continuation (condition, body, else) moves into the helper's body: it must not leave through an
	// unlabelled break, must not continue a loop when a return site is inside a helper loop, and must not mention
	// a name the helper declares
	var contNodes []ast.Node
	contNodes = append(contNodes, condExpr, ifs.Body)
	if ifs.Else != nil {
		contNodes = append(contNodes, ifs.Else)
	}
	anyCont := false
	for _, n := range contNodes[1:] {
		b, cn, o := escapes(n)
		if b || o {
			return textEdit{}, nil, false
		}
		anyCont = anyCont || cn
	}
	retInLoop := false
	{
		var walk func(n ast.Node, inLoop bool)
		walk = func(n ast.Node, inLoop bool) {
			ast.Inspect(n, func(m ast.Node) bool {
				switch x := m.(type) {
				case *ast.FuncLit:
					return false
				case *ast.ForStmt:
					if m != n {
						walk(x.Body, true)
						return false
					}
				case *ast.RangeStmt:
					if m != n {
						walk(x.Body, true)
						return false
					}
				case *ast.ReturnStmt:
					if inLoop {
						retInLoop = true
					}
				}
				return true
			})
		}
		walk(c.fd.Body, false)
	}
	if anyCont && retInLoop {
		return textEdit{}, nil, false
	}
	declared := map[string]bool{}
	ast.Inspect(c.fd, func(n ast.Node) bool {
		if idn, ok := n.(*ast.Ident); ok {
			if o := c.pkg.TypesInfo.Defs[idn]; o != nil && o != types.Object(c.obj) {
				declared[idn.Name] = true
			}
		}
		return true
	})
	// a parameter (or the receiver) bound to the very variable the continuation mentions, and never reassigned by the
	// helper, shadows that variable with an equal value: harmless
	sameValueParam := map[string]types.Object{}
	{
		bindArg := func(name string, arg ast.Expr) {
			if name == "" || name == "_" || arg == nil {
				return
			}
			for {
				if pe, ok := arg.(*ast.ParenExpr); ok {
					arg = pe.X
					continue
				}
				break
			}
			aid, ok := arg.(*ast.Ident)
			if !ok || aid.Name != name {
				return
			}
			obj := info.Uses[aid]
			if obj == nil {
				return
			}
			reassigned := false
			ast.Inspect(c.fd.Body, func(n ast.Node) bool {
				switch x := n.(type) {
				case *ast.AssignStmt:
					for _, l := range x.Lhs {
						if li, ok := l.(*ast.Ident); ok && li.Name == name {
							if d := c.pkg.TypesInfo.Uses[li]; d != nil && d.Parent() != nil && d.Parent() != c.pkg.Types.Scope() {
								reassigned = true
							}
							if c.pkg.TypesInfo.Defs[li] != nil {
								reassigned = true // redeclared in an inner scope: keep it simple
							}
						}
					}
				case *ast.IncDecStmt:
					if li, ok := x.X.(*ast.Ident); ok && li.Name == name {
						reassigned = true
					}
				case *ast.UnaryExpr:
					if li, ok := x.X.(*ast.Ident); ok && x.Op == token.AND && li.Name == name {
						reassigned = true
					}
				case *ast.RangeStmt:
					for _, e := range []ast.Expr{x.Key, x.Value} {
						if li, ok := e.(*ast.Ident); ok && li.Name == name {
							reassigned = true
						}
					}
				}
				return true
			})
			if !reassigned {
				sameValueParam[name] = obj
			}
		}
		if c.fd.Recv != nil && len(c.fd.Recv.List) == 1 && len(c.fd.Recv.List[0].Names) == 1 {
			if sel, ok := call.Fun.(*ast.SelectorExpr); ok {
				bindArg(c.fd.Recv.List[0].Names[0].Name, sel.X)
			}
		}
		if c.fd.Type.Params != nil && !call.Ellipsis.IsValid() {
			i := 0
			for _, f := range c.fd.Type.Params.List {
				for _, nm := range f.Names {
					if i < len(call.Args) {
						if _, variadic := f.Type.(*ast.Ellipsis); !variadic {
							bindArg(nm.Name, call.Args[i])
						}
					}
					i++
				}
				if len(f.Names) == 0 {
					i++
				}
			}
		}
	}
	clash := false
	for _, n := range contNodes {
		// the continuation must not assign to a variable that is shadowed by an equal-valued parameter
		ast.Inspect(n, func(m ast.Node) bool {
			switch x := m.(type) {
			case *ast.AssignStmt:
				for _, l := range x.Lhs {
					if li, ok := l.(*ast.Ident); ok {
						if _, sh := sameValueParam[li.Name]; sh {
							clash = true
						}
					}
				}
			case *ast.IncDecStmt:
				if li, ok := x.X.(*ast.Ident); ok {
					if _, sh := sameValueParam[li.Name]; sh {
						clash = true
					}
				}
			case *ast.UnaryExpr:
				if li, ok := x.X.(*ast.Ident); ok && x.Op == token.AND {
					if _, sh := sameValueParam[li.Name]; sh {
						clash = true
					}
				}
			}
			return true
		})
		ast.Inspect(n, func(m ast.Node) bool {
			idn, ok := m.(*ast.Ident)
			if !ok {
				return true
			}
			o := info.Uses[idn]
			if o == nil {
				return true
			}
			if same, ok := sameValueParam[idn.Name]; ok && same == o {
				return true
			}
			if v, ok := o.(*types.Var); ok && v.IsField() {
				return true
			}
			if o.Pos() >= ifs.Pos() && o.Pos() < ifs.End() {
				return true // declared inside the if statement itself (including v)
			}
			if declared[idn.Name] {
				clash = true
			}
			return true
		})
	}
	if clash {
		return textEdit{}, nil, false
	}
	// the shape of the condition, for deciding it at literal returns
	condKind := "" // "v", "!v", "v!=nil", "v==nil"
	isV := func(e ast.Expr) bool {
		for {
			if pe, ok := e.(*ast.ParenExpr); ok {
				e = pe.X
				continue
			}
			break
		}
		if vname == "" {
			return e == ast.Expr(call)
		}
		idn, ok := e.(*ast.Ident)
		return ok && idn.Name == vname
	}
	isNil := func(e ast.Expr) bool { tv, ok := info.Types[e]; return ok && tv.IsNil() }
	cond := condExpr
	for {
		if pe, ok := cond.(*ast.ParenExpr); ok {
			cond = pe.X
			continue
		}
		break
	}
	switch x := cond.(type) {
	case *ast.UnaryExpr:
		if x.Op == token.NOT && isV(x.X) {
			condKind = "!v"
		}
	case *ast.BinaryExpr:
		if (x.Op == token.NEQ || x.Op == token.EQL) && (isV(x.X) && isNil(x.Y) || isV(x.Y) && isNil(x.X)) {
			condKind = "v!=nil"
			if x.Op == token.EQL {
				condKind = "v==nil"
			}
		}
	default:
		if isV(cond) {
			condKind = "v"
		}
	}
	label := fmt.Sprintf("_inl%d", id)
	tmpName := vname
	if tmpName == "" {
		tmpName = fmt.Sprintf("_inl%d_r0", id)
	}
	// texts of the two arms and of the whole if statement with the call replaced
	thenText := in.dir(ifs.Body.Lbrace) + in.nodeText(ifs.Body)
	elseText := ""
	if ifs.Else != nil {
		elseText = in.dir(ifs.Else.Pos()) + in.nodeText(ifs.Else)
	}
	// condWith renders the condition with the call replaced by repl
	condWith := func(repl string) string {
		if vname != "" {
			return in.dir(condExpr.Pos()) + in.nodeText(condExpr)
		}
		return in.dir(condExpr.Pos()) + in.rangeText(condExpr.Pos(), call.Pos()) + repl + in.dir(call.End()) + in.rangeText(call.End(), condExpr.End())
	}
	ifWith := func(repl string) string {
		t := "if " + condWith(repl) + " " + thenText
		if elseText != "" {
			t += " else " + elseText
		}
		return t
	}
	fullIf := ifWith(tmpName)
	resType := ""
	if c.fd.Type.Results != nil && len(c.fd.Type.Results.List) == 1 {
		resType = in.calleeText(c, c.fd.Type.Results.List[0].Type)
	}
	if resType == "" {
		return textEdit{}, nil, false
	}
	var namedRes string
	if c.fd.Type.Results != nil {
		for _, f := range c.fd.Type.Results.List {
			for _, nm := range f.Names {
				namedRes = nm.Name
			}
		}
	}
	evidentlyNonNil := func(ret *ast.ReturnStmt, e ast.Expr) bool {
		switch x := e.(type) {
		case *ast.CallExpr:
			if sel, ok := x.Fun.(*ast.SelectorExpr); ok {
				if f, ok := c.pkg.TypesInfo.Uses[sel.Sel].(*types.Func); ok && f.Pkg() != nil {
					full := f.Pkg().Path() + "." + f.Name()
					return full == "fmt.Errorf" || full == "errors.New"
				}
			}
		case *ast.Ident:
			// return x directly inside `if x != nil { ... }` with no assignment to x in that block
			obj := c.pkg.TypesInfo.Uses[x]
			if obj == nil {
				return false
			}
			var found bool
			ast.Inspect(c.fd.Body, func(n ast.Node) bool {
				is, ok := n.(*ast.IfStmt)
				if !ok || !(is.Body.Pos() <= ret.Pos() && ret.End() <= is.Body.End()) {
					return true
				}
				be, ok := is.Cond.(*ast.BinaryExpr)
				if !ok || be.Op != token.NEQ {
					return true
				}
				l, lok := be.X.(*ast.Ident)
				if !lok || c.pkg.TypesInfo.Uses[l] != obj {
					return true
				}
				if tv, ok := c.pkg.TypesInfo.Types[be.Y]; !ok || !tv.IsNil() {
					return true
				}
				assigned := false
				ast.Inspect(is.Body, func(m ast.Node) bool {
					switch y := m.(type) {
					case *ast.AssignStmt:
						for _, lh := range y.Lhs {
							if li, ok := lh.(*ast.Ident); ok && (c.pkg.TypesInfo.Uses[li] == obj) {
								assigned = true
							}
						}
					case *ast.UnaryExpr:
						if y.Op == token.AND {
							if li, ok := y.X.(*ast.Ident); ok && c.pkg.TypesInfo.Uses[li] == obj {
								assigned = true
							}
						}
					case *ast.FuncLit:
						assigned = true
					}
					return true
				})
				if !assigned {
					found = true
				}
				return true
			})
			return found
		}
		return false
	}
	rewrite := func(ret *ast.ReturnStmt) (string, string) {
		var e ast.Expr
		etext := ""
		switch {
		case len(ret.Results) == 1:
			e = ret.Results[0]
			etext = in.calleeText(c, e)
		case len(ret.Results) == 0 && namedRes != "":
			etext = namedRes
		default:
			return "", "unsupported return in continuation form"
		}
		// decide the condition when the returned expression settles it
		decided, val := false, false
		if e != nil {
			tv := c.pkg.TypesInfo.Types[e]
			switch condKind {
			case "v", "!v":
				if tv.Value != nil && (tv.Value.String() == "true" || tv.Value.String() == "false") {
					decided, val = true, tv.Value.String() == "true"
					if condKind == "!v" {
						val = !val
					}
				}
			case "v!=nil", "v==nil":
				if tv.IsNil() {
					decided, val = true, condKind == "v==nil"
				} else if evidentlyNonNil(ret, e) {
					decided, val = true, condKind == "v!=nil"
				}
			}
		}
		bind := ""
		if vname != "" {
			bind = fmt.Sprintf("var %s %s = %s; _ = %s; ", vname, resType, etext, vname)
		} else {
			bind = fmt.Sprintf("var %s %s = %s; _ = %s; ", tmpName, resType, etext, tmpName)
		}
		switch {
		case decided && val:
			return "{ " + bind + thenText + "; break " + label + " }", ""
		case decided && !val && elseText != "":
			return "{ " + bind + elseText + "; break " + label + " }", ""
		case decided && !val:
			if e != nil {
				if tv := c.pkg.TypesInfo.Types[e]; tv.Value != nil || tv.IsNil() {
					return "break " + label, ""
				}
			}
			return "{ " + bind + "break " + label + " }", ""
		}
		if vname == "" && e != nil {
			// the result is only tested: test the returned expression itself (no temporary, the branch structure of
			// `a && b` stays a branch structure)
			return "{ " + ifWith("("+etext+")") + "; break " + label + " }", ""
		}
		return "{ " + bind + fullIf + "; break " + label + " }", ""
	}
	bodyText, nReturns, why := in.bodyText(c, id, rewrite)
	if why != "" || nReturns == 0 {
		return textEdit{}, nil, false
	}
	text := wrapBody(bodyText, nReturns)
	for i := len(outerConds) - 1; i >= 0; i-- {
		text = "if " + in.dir(outerConds[i].Pos()) + in.nodeText(outerConds[i]) + " { " + text + " }"
	}
	_, a := in.rawOff(ifs.Pos())
	_, b := in.rawOff(ifs.End())
	return textEdit{a, b, text + in.dir(ifs.End())}, ifs, true
}

func stmtOf(n ast.Node) ast.Stmt {
	s, _ := n.(ast.Stmt)
	return s
}

// bodyText renders the callee body (with braces). rewrite == nil keeps the returns; otherwise every return of
// the body (not of nested literals) is replaced by rewrite's text.
func (in *inliner) bodyText(c *inlCand, id int, rewrite func(ret *ast.ReturnStmt) (string, string)) (string, int, string) {
	file, bo := in.rawOff(c.fd.Body.Pos())
	_, be := in.rawOff(c.fd.Body.End())
	src := in.src(file)
	var es []textEdit
	nret := 0
	label := fmt.Sprintf("_inl%d", id)
	why := ""
	labels := map[string]bool{}
	ast.Inspect(c.fd.Body, func(n ast.Node) bool {
		switch x := n.(type) {
		case *ast.FuncLit:
			return false
		case *ast.LabeledStmt:
			labels[x.Label.Name] = true
		}
		return true
	})
	ast.Inspect(c.fd.Body, func(n ast.Node) bool {
		switch x := n.(type) {
		case *ast.FuncLit:
			return false
		case *ast.LabeledStmt:
			_, a := in.rawOff(x.Label.Pos())
			_, b := in.rawOff(x.Label.End())
			es = append(es, textEdit{a, b, x.Label.Name + label})
		case *ast.BranchStmt:
			if x.Label != nil && labels[x.Label.Name] {
				_, a := in.rawOff(x.Label.Pos())
				_, b := in.rawOff(x.Label.End())
				es = append(es, textEdit{a, b, x.Label.Name + label})
			}
		case *ast.ReturnStmt:
			if rewrite == nil {
				return true
			}
			nret++
			_, a := in.rawOff(x.Pos())
			_, b := in.rawOff(x.End())
			t, w := rewrite(x)
			if w != "" {
				why = w
				return false
			}
			es = append(es, textEdit{a, b, t + in.dir(x.End())})
			return false
		}
		return true
	})
	if why != "" {
		return "", 0, why
	}
	// imports shadowed at the call site are reached through their alias; identifiers inside rewritten returns are
	// part of the replacement text already rendered by the rewriter, so only edits outside them are kept
	for _, ae := range in.aliasEdits(c, c.fd.Body) {
		inside := false
		for _, e := range es {
			if ae.off >= e.off && ae.end <= e.end {
				inside = true
			}
		}
		if !inside {
			es = append(es, ae)
		}
	}
	sort.Slice(es, func(i, j int) bool { return es[i].off < es[j].off })
	var sb strings.Builder
	last := bo
	for _, e := range es {
		if e.off < last {
			return "", 0, "internal: overlapping body edits"
		}
		sb.Write(src[last:e.off])
		sb.WriteString(e.text)
		last = e.end
	}
	sb.Write(src[last:be])
	return sb.String(), nret, ""
}

// resultTempRewrite: return e1, e2 -> { r0, r1 = e1, e2; break L }
func (in *inliner) resultTempRewrite(c *inlCand, id, nres int) func(ret *ast.ReturnStmt) (string, string) {
	label := fmt.Sprintf("_inl%d", id)
	var named []string
	if c.fd.Type.Results != nil {
		for _, f := range c.fd.Type.Results.List {
			for _, nm := range f.Names {
				named = append(named, nm.Name)
			}
		}
	}
	var resTemps []string
	for i := 0; i < nres; i++ {
		resTemps = append(resTemps, fmt.Sprintf("_inl%d_r%d", id, i))
	}
	return func(x *ast.ReturnStmt) (string, string) {
		switch {
		case nres == 0:
			return "break " + label, ""
		case len(x.Results) == 0:
			if len(named) != nres {
				return "", "bare return without named results"
			}
			return "{ " + strings.Join(resTemps, ", ") + " = " + strings.Join(named, ", ") + "; break " + label + " }", ""
		default:
			return "{ " + strings.Join(resTemps, ", ") + " = " + in.calleeRange(c, x, x.Results[0].Pos(), x.Results[len(x.Results)-1].End()) + "; break " + label + " }", ""
		}
	}
}

// captureCheck: every identifier of the callee that denotes a package-level object, an import or a universe
// object must denote the same thing at the call site; imports missing in the caller's file are scheduled.
func (in *inliner) captureCheck(p *packages.Package, callerFile *ast.File, call *ast.CallExpr, c *inlCand, imports map[string]map[string]string) string {
	info := p.TypesInfo
	scope := p.Types.Scope().Innermost(call.Pos())
	if scope == nil {
		return "no scope at the call site"
	}
	callerFileName, _ := in.rawOff(callerFile.Pos())
	calleeFileName, _ := in.rawOff(c.file.Pos())
	why := ""
	check := func(root ast.Node) {
		if root == nil {
			return
		}
		ast.Inspect(root, func(n ast.Node) bool {
			idn, ok := n.(*ast.Ident)
			if !ok || why != "" {
				return why == ""
			}
			obj := info.Uses[idn]
			if obj == nil {
				return true
			}
			switch o := obj.(type) {
			case *types.PkgName:
				aliasFor := func() {
					name := "_inlp_" + o.Name()
					if imports[callerFileName] == nil {
						imports[callerFileName] = map[string]string{}
					}
					imports[callerFileName][name] = o.Imported().Path()
					in.alias[o] = name
				}
				if _, done := in.alias[o]; done {
					return true
				}
				if callerFileName == calleeFileName {
					if _, at := scope.LookupParent(idn.Name, call.Pos()); at != obj {
						aliasFor() // the import's name is shadowed by a local declaration at the call site
					}
					return true
				}
				// find the import in the caller's file
				found := false
				for _, is := range callerFile.Imports {
					var pn *types.PkgName
					if is.Name != nil {
						pn, _ = info.Defs[is.Name].(*types.PkgName)
					} else {
						pn, _ = info.Implicits[is].(*types.PkgName)
					}
					if pn != nil && pn.Imported() == o.Imported() && pn.Name() == o.Name() {
						if _, at := scope.LookupParent(idn.Name, call.Pos()); at == pn {
							found = true
						}
					}
				}
				if !found {
					if _, at := scope.LookupParent(idn.Name, call.Pos()); at != nil {
						aliasFor() // imported under another name, or the name is taken at the call site
						return true
					}
					if imports[callerFileName] == nil {
						imports[callerFileName] = map[string]string{}
					}
					imports[callerFileName][o.Name()] = o.Imported().Path()
				}
			default:
				par := obj.Parent()
				if par == p.Types.Scope() || par == types.Universe {
					if _, at := scope.LookupParent(idn.Name, call.Pos()); at != obj {
						why = "identifier " + idn.Name + " means something else at the call site"
					}
				} else if c.lit != nil && par != nil && obj.Pkg() == p.Types && (obj.Pos() < c.lit.Pos() || obj.Pos() >= c.lit.End()) {
					// a variable captured by the literal: the call site must see the same variable under that name
					if vv, isVar := obj.(*types.Var); isVar && vv.IsField() {
						return true
					}
					if _, at := scope.LookupParent(idn.Name, call.Pos()); at != obj {
						why = "captured variable " + idn.Name + " is not the one visible at the call site"
					}
				}
			}
			return true
		})
	}
	check(c.fd.Body)
	if c.fd.Recv != nil {
		check(c.fd.Recv)
	}
	if c.fd.Type.Params != nil {
		check(c.fd.Type.Params)
	}
	if c.fd.Type.Results != nil {
		check(c.fd.Type.Results)
	}
	return why
}

// normaliseHelpers runs inlining rounds until nothing changes. Returns the world to analyse.
func normaliseHelpers(w *World, repo string, overlay map[string][]byte, extraEnv []string) (*World, map[string][]byte) {
	in := &inliner{w: w, overlay: map[string][]byte{}, stuck: map[string]bool{}, inlined: map[string]int{}}
	for k, v := range overlay {
		in.overlay[k] = v
	}
	cur := w
	for round := 0; round < 12; round++ {
		in.w = cur
		edits, changed := in.round()
		if !changed {
			break
		}
		ov, err := in.applyEdits(edits)
		if err != nil {
			cur.Notes = append(cur.Notes, in.notes...)
			cur.Notes = append(cur.Notes, "helper normalisation stopped: "+err.Error())
			return cur, in.overlay
		}
		next, err := loadWorldRaw(repo, ov, extraEnv)
		if err != nil {
			msg := err.Error()
			if len(msg) > 600 {
				msg = msg[:600]
			}
			cur.Notes = append(cur.Notes, "helper normalisation abandoned (the normalised program does not load; the tree is analysed as written from the last good round): "+msg)
			if os.Getenv("GOCHK_DEBUG_INLINE") != "" {
				for f, b := range ov {
					_ = os.WriteFile("/tmp/inline_debug_"+strings.ReplaceAll(strings.TrimPrefix(f, "/"), "/", "_"), b, 0o644)
				}
			}
			return cur, in.overlay
		}
		next.Notes = cur.Notes
		in.overlay = ov
		cur = next
	}
	sort.Strings(in.notes)
	cur.Notes = append(cur.Notes, in.notes...)
	if d := os.Getenv("GOCHK_DUMP_OVERLAY"); d != "" {
		for f, b := range in.overlay {
			_ = os.WriteFile(d+"/"+strings.ReplaceAll(strings.TrimPrefix(f, "/"), "/", "_"), b, 0o644)
		}
	}
	return cur, in.overlay
}

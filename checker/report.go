package main

// report.go - obligations, rule bookkeeping, known findings, evidence and replay files.

import (
	"bufio"
	"encoding/json"
	"fmt"
	"os"
	"path/filepath"
	"sort"
	"strings"
)

const (
	stOK        = "discharged"
	stViolated  = "violated"
	stUndecided = "undecided"
	stKnown     = "known-finding"
)

type Obligation struct {
	Rule   string `json:"rule"`
	Key    string `json:"construct"`
	Pos    string `json:"pos"`
	Status string `json:"status"`
	Detail string `json:"detail,omitempty"`
	// NonTrivial: the discharge needed a path/dataflow/evaluation argument (not a mere presence check).
	NonTrivial bool `json:"nontrivial"`
}

type RuleInfo struct {
	ID    string `json:"id"`
	Text  string `json:"text"`
	Floor int    `json:"floor"`
	Count int    `json:"instances"`
}

type Report struct {
	Prop  string
	Rules []*RuleInfo
	Obls  []*Obligation
	seen  map[string]int
	Notes []string
}

type Rule struct {
	rep  *Report
	info *RuleInfo
}

func NewReport(prop string) *Report { return &Report{Prop: prop, seen: map[string]int{}} }

// Rule registers a rule; floor is the hand-confirmed minimum number of instances it must bind to.
func (r *Report) Rule(id, text string, floor int) *Rule {
	info := &RuleInfo{ID: id, Text: text, Floor: floor}
	r.Rules = append(r.Rules, info)
	return &Rule{rep: r, info: info}
}

func (ru *Rule) add(status, key, pos, detail string, nontrivial bool) {
	k := ru.info.ID + "@" + key
	ru.rep.seen[k]++
	if n := ru.rep.seen[k]; n > 1 {
		key = fmt.Sprintf("%s#%d", key, n)
	}
	ru.info.Count++
	ru.rep.Obls = append(ru.rep.Obls, &Obligation{Rule: ru.info.ID, Key: key, Pos: pos, Status: status, Detail: detail, NonTrivial: nontrivial})
}

// OK records a discharged obligation that needed a path / dataflow / evaluation argument.
func (ru *Rule) OK(key, pos, detail string) { ru.add(stOK, key, pos, detail, true) }

// Present records a discharged obligation that is a mere presence / table check.
func (ru *Rule) Present(key, pos, detail string) { ru.add(stOK, key, pos, detail, false) }

func (ru *Rule) Bad(key, pos, detail string)       { ru.add(stViolated, key, pos, detail, true) }
func (ru *Rule) Undecided(key, pos, detail string) { ru.add(stUndecided, key, pos, detail, true) }

// Check is a convenience: OK when cond holds, Bad otherwise.
func (ru *Rule) Check(cond bool, key, pos, okDetail, badDetail string) bool {
	if cond {
		ru.OK(key, pos, okDetail)
	} else {
		ru.Bad(key, pos, badDetail)
	}
	return cond
}

func (r *Report) Note(format string, a ...interface{}) {
	r.Notes = append(r.Notes, fmt.Sprintf(format, a...))
}

// finish applies floors and the known findings file.
func (r *Report) finish(known []knownFinding) {
	for _, ri := range r.Rules {
		if ri.Count < ri.Floor {
			r.Obls = append(r.Obls, &Obligation{Rule: ri.ID, Key: "floor", Pos: "-", Status: stViolated, NonTrivial: true,
				Detail: fmt.Sprintf("rule bound to %d instance(s), fewer than the %d confirmed by hand: the anchored construct disappeared or changed shape (undecided, not a vacuous pass)", ri.Count, ri.Floor)})
		}
	}
	for _, o := range r.Obls {
		if o.Status != stViolated && o.Status != stUndecided {
			continue
		}
		for _, k := range known {
			if k.Prop == r.Prop && k.Rule == o.Rule && k.Key == o.Key {
				o.Status = stKnown
				o.Detail = k.Text + " | " + o.Detail
			}
		}
	}
}

type knownFinding struct{ Prop, Rule, Key, Text string }

// readKnown parses known_findings.txt: lines "known: property=Cxx rule=Rxx.y construct=<key> <text>".
func readKnown(path string) ([]knownFinding, []string, error) {
	f, err := os.Open(path)
	if err != nil {
		if os.IsNotExist(err) {
			return nil, nil, nil
		}
		return nil, nil, err
	}
	defer f.Close()
	var out []knownFinding
	var fixed []string
	sc := bufio.NewScanner(f)
	for sc.Scan() {
		line := strings.TrimSpace(sc.Text())
		if strings.HasPrefix(line, "fixed:") {
			fixed = append(fixed, line)
			continue
		}
		if !strings.HasPrefix(line, "known:") {
			continue
		}
		fs := strings.Fields(strings.TrimPrefix(line, "known:"))
		k := knownFinding{}
		var rest []string
		for _, f := range fs {
			switch {
			case strings.HasPrefix(f, "property=") && k.Prop == "":
				k.Prop = strings.TrimPrefix(f, "property=")
			case strings.HasPrefix(f, "rule=") && k.Rule == "":
				k.Rule = strings.TrimPrefix(f, "rule=")
			case strings.HasPrefix(f, "construct=") && k.Key == "":
				k.Key = strings.TrimPrefix(f, "construct=")
			default:
				rest = append(rest, f)
			}
		}
		k.Text = strings.Join(rest, " ")
		if k.Prop != "" && k.Rule != "" && k.Key != "" {
			out = append(out, k)
		}
	}
	return out, fixed, sc.Err()
}

type evidence struct {
	PropertyID  string                 `json:"property_id"`
	Tier        string                 `json:"tier"`
	Seed        int                    `json:"seed"`
	Level       string                 `json:"level"`
	Coverage    map[string]interface{} `json:"coverage"`
	Assumptions []string               `json:"assumptions"`
	WallS       float64                `json:"wall_s"`
	Violations  int                    `json:"violations"`
}

func (r *Report) counts() (total, ok, bad, undecided, known, nontrivial int) {
	distinct := map[string]bool{}
	for _, o := range r.Obls {
		total++
		switch o.Status {
		case stOK:
			ok++
		case stViolated:
			bad++
		case stUndecided:
			undecided++
		case stKnown:
			known++
		}
		if o.NonTrivial {
			distinct[o.Rule+"@"+o.Key] = true
		}
	}
	return total, ok, bad, undecided, known, len(distinct)
}

// writeEvidence writes evidence/<id>.json and one replay file per violated obligation; returns the replay paths.
func (r *Report) writeEvidence(w *World, verifDir, tier string, seed int, level string, wall float64, extra map[string]interface{}, assumptions []string, cmdline string) ([]string, error) {
	total, ok, bad, undecided, known, nontrivial := r.counts()
	evDir := filepath.Join(verifDir, "evidence")
	repDir := filepath.Join(evDir, "replay")
	if err := os.MkdirAll(repDir, 0o755); err != nil {
		return nil, err
	}
	// remove stale replay files of this property
	old, _ := filepath.Glob(filepath.Join(repDir, r.Prop+"-*.json"))
	for _, f := range old {
		os.Remove(f)
	}
	var replays []string
	n := 0
	for _, o := range r.Obls {
		if o.Status != stViolated && o.Status != stUndecided {
			continue
		}
		n++
		p := filepath.Join(repDir, fmt.Sprintf("%s-%d.json", r.Prop, n))
		text := ""
		for _, ri := range r.Rules {
			if ri.ID == o.Rule {
				text = ri.Text
			}
		}
		b, _ := json.MarshalIndent(map[string]interface{}{"property": r.Prop, "rule": o.Rule, "rule_text": text, "construct": o.Key, "pos": o.Pos, "status": o.Status, "detail": o.Detail, "repo": w.Repo}, "", " ")
		if err := os.WriteFile(p, b, 0o644); err != nil {
			return nil, err
		}
		replays = append(replays, p)
	}
	// samples: a few obligations of every rule, violated ones first
	var samples []interface{}
	perRule := map[string]int{}
	sorted := append([]*Obligation(nil), r.Obls...)
	sort.SliceStable(sorted, func(i, j int) bool { return sorted[i].Status != stOK && sorted[j].Status == stOK })
	for _, o := range sorted {
		if o.Status == stOK && perRule[o.Rule] >= 3 {
			continue
		}
		perRule[o.Rule]++
		samples = append(samples, o)
	}
	cov := map[string]interface{}{
		"explanation":         fmt.Sprintf("Static analysis of /repo's working tree (typed AST + go/ssa, no repository code executed). %d rule(s) produced %d obligation(s): %d discharged, %d violated, %d undecided, %d known finding(s). Each obligation is keyed by rule+construct; a rule that binds fewer instances than its hand-confirmed floor fails. See DESIGN.md for what each rule does and does not decide.", len(r.Rules), total, ok, bad, undecided, known),
		"evaluations":         total,
		"distinct_nontrivial": nontrivial,
		"rule":                "one evaluation = one obligation (rule instance bound to a construct of the current source); non-trivial = discharged by a dominance / path / dataflow / finite-evaluation argument rather than a presence or table check; distinct = distinct rule+construct keys",
		"samples":             samples,
		"obligations":         total,
		"discharged":          ok,
		"violated":            bad,
		"undecided":           undecided,
		"known_findings":      known,
		"checker_cmd":         cmdline,
		"trusted_base":        []string{"go/types, go/ssa, go/packages (golang.org/x/tools v0.29.0)", "regexp/syntax (for embedded regular expression constants)", "documented behaviour of the standard library functions named in the rules", "Go memory model (channel send happens-before receive; go statement happens-before goroutine start)"},
		"rules":               r.Rules,
		"analysed":            map[string]int{"packages": len(w.Pkgs), "files": w.NFiles, "functions": w.NFuncs, "ssa_blocks": w.NBlocks, "ssa_instructions": w.NInstrs},
		"exhaustive":          false,
		"notes":               r.Notes,
	}
	for k, v := range extra {
		cov[k] = v
	}
	ev := evidence{PropertyID: r.Prop, Tier: tier, Seed: seed, Level: level, Coverage: cov, Assumptions: assumptions, WallS: wall, Violations: bad + undecided}
	b, err := json.MarshalIndent(ev, "", " ")
	if err != nil {
		return nil, err
	}
	if err := os.WriteFile(filepath.Join(evDir, r.Prop+".json"), b, 0o644); err != nil {
		return nil, err
	}
	return replays, nil
}

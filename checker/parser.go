package main

// parser.go - role resolution for parseCLIArgs (iterator, cursor, current-token tests, effects) and
// E-TS, the token typestate dataflow shared by C03, C04, C09 and C10.

import (
	"fmt"
	"go/token"
	"go/types"

	"golang.org/x/tools/go/ssa"
)

const (
	nIterNew    = "sliceiterator.New"
	nIterNext   = "(*sliceiterator.Iterator).Next"
	nIterValue  = "(*sliceiterator.Iterator).Value"
	nIterPeek   = "(*sliceiterator.Iterator).PeekNextValue"
	nIterExists = "(*sliceiterator.Iterator).ExistsNext"
	nIterIsLast = "(*sliceiterator.Iterator).IsLast"
	nSave       = "(*option.Option).Save"
	nIsOption   = "getoptions.isOption"
	nMatcher    = "getoptions.getAliasNameFromPartialEntry"
	nStoreRest  = "getoptions.storeRemainingAsText"
	nNewUnknown = "getoptions.newUnknownCLIOption"
	nParse      = "(*getoptions.GetOpt).Parse"
	nDispatch   = "(*getoptions.GetOpt).Dispatch"
	nParseCLI   = "getoptions.parseCLIArgs"
)

type parserModel struct {
	w    *World
	fn   *ssa.Function
	ig   *IG
	iter ssa.Value // the iterator (result of sliceiterator.New, or an *Iterator parameter for helpers)

	lenSets map[*ssa.If][2][5]bool // when non-nil, matchLenTest records the candidate-count classes of every test it sees

	nextCalls   []*ssa.Call
	valueCalls  []*ssa.Call
	peekCalls   []*ssa.Call
	existsCalls []*ssa.Call
	mainNext    *ssa.Call
	mainNextIf  *ssa.If
	saveCalls   []*ssa.Call
	isOptCalls  []*ssa.Call
	termIf      *ssa.If // Value() == "--"
	termTrue    int     // successor index of the "is terminator" edge
	cursorPhi   *ssa.Phi
	complParam  *ssa.Parameter // completionMode
	errs        []string

	fChildText, fUnknownOptions, fChildOptions, fChildCommands, fRequireOrder, fUnknownMode, fMode *types.Var
	fCalled, fUsedAlias                                                                            *types.Var
}

func isTreePtr(t types.Type) bool {
	return typeString(t) == "*getoptions.programTree"
}
func isOptionPtr(t types.Type) bool { return typeString(t) == "*option.Option" }
func isIterPtr(t types.Type) bool   { return typeString(t) == "*sliceiterator.Iterator" }

// iterCall reports whether in is a call of the named iterator method on the model's iterator.
func (m *parserModel) iterCall(in ssa.Instruction, name string) bool {
	c, ok := in.(*ssa.Call)
	return ok && isMethodCallOn(c, name, m.iter)
}

func newParserModel(w *World, fn *ssa.Function, iter ssa.Value) *parserModel {
	m := &parserModel{w: w, fn: fn, ig: buildIG(fn), iter: iter}
	m.fChildText = w.Field("getoptions", "programTree", "ChildText")
	m.fUnknownOptions = w.Field("getoptions", "programTree", "UnknownOptions")
	m.fChildOptions = w.Field("getoptions", "programTree", "ChildOptions")
	m.fChildCommands = w.Field("getoptions", "programTree", "ChildCommands")
	m.fRequireOrder = w.Field("getoptions", "programTree", "requireOrder")
	m.fUnknownMode = w.Field("getoptions", "programTree", "unknownMode")
	m.fMode = w.Field("getoptions", "programTree", "mode")
	m.fCalled = w.Field("option", "Option", "Called")
	m.fUsedAlias = w.Field("option", "Option", "UsedAlias")
	if iter == nil {
		for _, c := range callsTo(fn, nIterNew) {
			if m.iter != nil {
				m.errs = append(m.errs, "more than one iterator is created in "+short(fn))
			}
			m.iter = c.Value()
		}
	}
	if m.iter == nil {
		m.errs = append(m.errs, "no argv iterator found in "+short(fn))
		return m
	}
	eachInstr(fn, func(in ssa.Instruction) {
		c, ok := in.(*ssa.Call)
		if !ok {
			return
		}
		switch {
		case m.iterCall(c, nIterNext):
			m.nextCalls = append(m.nextCalls, c)
		case m.iterCall(c, nIterValue):
			m.valueCalls = append(m.valueCalls, c)
		case m.iterCall(c, nIterPeek):
			m.peekCalls = append(m.peekCalls, c)
		case m.iterCall(c, nIterExists):
			m.existsCalls = append(m.existsCalls, c)
		case calleeName(c) == nSave:
			m.saveCalls = append(m.saveCalls, c)
		case calleeName(c) == nIsOption:
			m.isOptCalls = append(m.isOptCalls, c)
		}
	})
	// main Next: the one whose block dominates every other iterator call
	for _, n := range m.nextCalls {
		all := true
		for _, o := range m.nextCalls {
			if o != n && !n.Block().Dominates(o.Block()) {
				all = false
			}
		}
		if all && len(*n.Referrers()) > 0 {
			m.mainNext = n
			break
		}
	}
	if m.mainNext != nil {
		if iff, ok := m.mainNext.Block().Instrs[len(m.mainNext.Block().Instrs)-1].(*ssa.If); ok && iff.Cond == ssa.Value(m.mainNext) {
			m.mainNextIf = iff
		}
		for _, in := range m.mainNext.Block().Instrs {
			if phi, ok := in.(*ssa.Phi); ok && isTreePtr(phi.Type()) {
				m.cursorPhi = phi
			}
		}
	}
	for _, p := range fn.Params {
		if p.Name() == "completionMode" || (m.complParam == nil && len(fn.Params) == 4 && p == fn.Params[0] && typeString(p.Type()) == "string") {
			m.complParam = p
		}
	}
	// terminator test: If on (Value() == "--")
	for _, b := range fn.Blocks {
		if len(b.Instrs) == 0 {
			continue
		}
		iff, ok := b.Instrs[len(b.Instrs)-1].(*ssa.If)
		if !ok {
			continue
		}
		for _, f := range condFacts(iff.Cond, true, iff) {
			x, y := f.X, f.Y
			if y == nil {
				continue
			}
			if _, ok := constString(x); ok {
				x, y = y, x
			}
			s, ok := constString(y)
			if !ok || s != "--" {
				continue
			}
			c, ok := x.(*ssa.Call)
			if !ok || !m.iterCall(c, nIterValue) {
				continue
			}
			if f.Op != token.EQL && f.Op != token.NEQ {
				continue
			}
			if m.termIf == nil || b.Dominates(m.termIf.Block()) {
				m.termIf = iff
				if f.Op == token.EQL {
					m.termTrue = 0
				} else {
					m.termTrue = 1
				}
			}
		}
	}
	return m
}

// ---------------------------------------------------------------- effect classification

// storeField decomposes a store through a field address.
func storeField(in ssa.Instruction) (base ssa.Value, f *types.Var, val ssa.Value, ok bool) {
	st, isSt := in.(*ssa.Store)
	if !isSt {
		return nil, nil, nil, false
	}
	fa, isFA := st.Addr.(*ssa.FieldAddr)
	if !isFA {
		return nil, nil, nil, false
	}
	return fa.X, fieldOfAddr(fa), st.Val, true
}

// isAppendOf reports whether v is append(load(base.f), ...) and returns the appended operands.
func isAppendOf(v ssa.Value, f *types.Var) (first ssa.Value, rest []ssa.Value, ok bool) {
	c, isCall := v.(*ssa.Call)
	if !isCall || calleeName(c) != "builtin:append" || len(c.Call.Args) < 1 {
		return nil, nil, false
	}
	return c.Call.Args[0], c.Call.Args[1:], true
}

// loadOfField reports whether v is a load of field f and returns the base.
func loadOfField(v ssa.Value, f *types.Var) (ssa.Value, bool) {
	u, ok := v.(*ssa.UnOp)
	if !ok || u.Op != token.MUL {
		return nil, false
	}
	fa, ok := u.X.(*ssa.FieldAddr)
	if !ok || fieldOfAddr(fa) != f {
		return nil, false
	}
	return fa.X, true
}

// effect kinds of the parser on the current token
const (
	effSave       = "save"
	effOptStore   = "option-field-store"
	effTreeStore  = "tree-field-store"
	effNewUnknown = "unknown-record"
	effCursorMove = "cursor-move"
	effHelper     = "bulk-copy-helper"
)

type effect struct {
	Kind  string
	Instr ssa.Instruction
	Field *types.Var
}

// effects lists every interpretation effect in the parser function.
func (m *parserModel) effects() []effect {
	var out []effect
	eachInstr(m.fn, func(in ssa.Instruction) {
		if c, ok := in.(*ssa.Call); ok {
			switch calleeName(c) {
			case nSave:
				out = append(out, effect{effSave, in, nil})
			case nNewUnknown:
				out = append(out, effect{effNewUnknown, in, nil})
			case nStoreRest:
				out = append(out, effect{effHelper, in, nil})
			default:
				// any other same-module callee that receives the cursor or an option may have effects
				if callee := c.Call.StaticCallee(); callee != nil && m.w.PkgOfFn(callee) != nil && callee.Blocks != nil {
					if n := calleeName(c); n != nIsOption && n != nMatcher && n != nIterNew && !isIterMethod(n) {
						for _, a := range c.Call.Args {
							if isTreePtr(a.Type()) || isOptionPtr(a.Type()) {
								if !m.w.isPure(callee) {
									out = append(out, effect{"call:" + n, in, nil})
								}
								break
							}
						}
					}
				}
			}
			return
		}
		if base, f, _, ok := storeField(in); ok {
			switch {
			case isOptionPtr(base.Type()):
				out = append(out, effect{effOptStore, in, f})
			case isTreePtr(base.Type()):
				out = append(out, effect{effTreeStore, in, f})
			}
		}
	})
	// cursor moves: phi edges of the cursor phi that carry a different node
	for _, mv := range m.cursorMoves() {
		out = append(out, effect{effCursorMove, mv.pred.Instrs[len(mv.pred.Instrs)-1], nil})
	}
	return out
}

// cursorMove: the cursor takes the value val on the edge leaving block pred.
type cursorMove struct {
	pred *ssa.BasicBlock
	val  ssa.Value
}

// cursorMoves lists the sites where the cursor is given another node. The cursor is the phi at the head of the
// main loop; intermediate phis that merely merge "cursor unchanged" with a new node (a flag + break out of the
// command scan instead of a labelled continue, for instance) are looked through, and a site reached through several
// such merges counts once.
func (m *parserModel) cursorMoves() []cursorMove {
	var out []cursorMove
	if m.cursorPhi == nil {
		return nil
	}
	seenMove := map[[2]interface{}]bool{}
	seenPhi := map[*ssa.Phi]bool{m.cursorPhi: true}
	var expand func(phi *ssa.Phi)
	expand = func(phi *ssa.Phi) {
		for i, e := range phi.Edges {
			pred := phi.Block().Preds[i]
			if e == ssa.Value(m.cursorPhi) {
				continue
			}
			if p, ok := e.(*ssa.Parameter); ok && p.Parent() == m.fn {
				continue // initialisation from the tree parameter
			}
			if inner, ok := e.(*ssa.Phi); ok && m.isCursorMerge(inner, map[*ssa.Phi]bool{}) {
				if !seenPhi[inner] {
					seenPhi[inner] = true
					expand(inner)
				}
				continue
			}
			k := [2]interface{}{pred, e}
			if !seenMove[k] {
				seenMove[k] = true
				out = append(out, cursorMove{pred, e})
			}
		}
	}
	expand(m.cursorPhi)
	return out
}

// isCursorMerge: phi (not the cursor itself) has the cursor, or another such merge, among its operands.
func (m *parserModel) isCursorMerge(phi *ssa.Phi, seen map[*ssa.Phi]bool) bool {
	if phi == m.cursorPhi || seen[phi] {
		return false
	}
	seen[phi] = true
	for _, e := range phi.Edges {
		if e == ssa.Value(m.cursorPhi) {
			return true
		}
		if p2, ok := e.(*ssa.Phi); ok && m.isCursorMerge(p2, seen) {
			return true
		}
	}
	return false
}

// isCursorValue: v is the cursor or a merge of the cursor with the nodes it moves to.
func (m *parserModel) isCursorValue(v ssa.Value) bool {
	if v == ssa.Value(m.cursorPhi) {
		return true
	}
	phi, ok := v.(*ssa.Phi)
	return ok && m.isCursorMerge(phi, map[*ssa.Phi]bool{})
}

func isIterMethod(n string) bool {
	switch n {
	case nIterNext, nIterValue, nIterPeek, nIterExists, nIterIsLast, "(*sliceiterator.Iterator).Size", "(*sliceiterator.Iterator).Index", "(*sliceiterator.Iterator).Remaining":
		return true
	}
	return false
}

// isPure: the function (and its same-module callees) performs no store outside its own allocations,
// no channel operation, no go/defer, and calls only pure stdlib string helpers.
func (w *World) isPure(fn *ssa.Function) bool {
	return w.pureRec(fn, map[*ssa.Function]bool{})
}

var pureExternal = map[string]bool{
	"strings.HasPrefix": true, "strings.HasSuffix": true, "strings.TrimPrefix": true, "strings.TrimSuffix": true, "strings.Contains": true,
	"strings.Split": true, "strings.SplitN": true, "strings.ToLower": true, "strings.Join": true, "strings.Index": true, "strings.Cut": true,
	"(*regexp.Regexp).FindStringSubmatch": true, "(*regexp.Regexp).MatchString": true, "strconv.Atoi": true, "strconv.ParseFloat": true, "strconv.ParseInt": true,
	"builtin:append": true, "builtin:len": true, "builtin:cap": true, "sort.Strings": true, "builtin:copy": true,
	"unicode/utf8.RuneCountInString": true, "strings.Repeat": true, "strings.ReplaceAll": true, "strings.TrimSpace": true, "strings.ToUpper": true,
	"strings.Fields": true, "strings.EqualFold": true, "strings.TrimLeft": true, "strings.TrimRight": true, "strings.Trim": true,
	"fmt.Sprintf": true, "fmt.Errorf": true, "errors.New": true, "strconv.Itoa": true, "strings.LastIndex": true, "strings.Count": true,
}

func (w *World) pureRec(fn *ssa.Function, seen map[*ssa.Function]bool) bool {
	if seen[fn] {
		return true
	}
	seen[fn] = true
	if fn.Blocks == nil {
		return pureExternal[short(fn)]
	}
	pure := true
	for _, f := range funcsWithAnon(fn) {
		eachInstr(f, func(in ssa.Instruction) {
			switch x := in.(type) {
			case *ssa.Store:
				if _, ok := rootOfAddr(x.Addr).(*ssa.Alloc); !ok {
					pure = false
				}
			case *ssa.MapUpdate:
				if _, ok := x.Map.(*ssa.MakeMap); !ok {
					pure = false
				}
			case *ssa.Send, *ssa.Go, *ssa.Defer, *ssa.Panic:
				pure = false
			case ssa.CallInstruction:
				n := calleeName(x)
				if callee := x.Common().StaticCallee(); callee != nil && callee.Blocks != nil && w.PkgOfFn(callee) != nil {
					if !w.pureRec(callee, seen) {
						pure = false
					}
				} else if !pureExternal[n] && !isIterPureMethod(n) {
					if _, isLogger := loggerCall(x); !isLogger {
						pure = false
					}
				}
			}
		})
	}
	return pure
}

func isIterPureMethod(n string) bool {
	switch n {
	case nIterValue, nIterPeek, nIterExists, nIterIsLast:
		return true
	}
	return false
}

// loggerCall recognises calls on a *log.Logger (debug channel, not an observable output of the properties).
func loggerCall(c ssa.CallInstruction) (string, bool) {
	n := calleeName(c)
	switch n {
	case "(*log.Logger).Printf", "(*log.Logger).Println", "(*log.Logger).Print", "(*log.Logger).SetPrefix", "(*log.Logger).SetOutput":
		return n, true
	}
	return "", false
}

// ---------------------------------------------------------------- E-TS: token typestate

const (
	tsDisposed  = 1 << iota // the current token has been accounted for
	tsFresh                 // a token became current and nothing accounts for it yet
	tsExhausted             // the iterator is past its end (Next is absorbing)
)

type tsConfig struct {
	m *parserModel
	// entry state of the function (helpers are entered with a Fresh token)
	entry int
	// disposition: the instruction accounts for the current token; exhaust: it also drains the iterator
	disposition func(in ssa.Instruction) (disposes, exhausts bool)
	// pruneEdge: the k-th successor edge of block b is infeasible (justified by a separately checked lemma)
	pruneEdge func(b *ssa.BasicBlock, k int) bool
	// loopExitOnlyAfterIteration: for these headers the exit edge (index) is only taken after >= 1 iteration
	nonEmptyLoops map[*ssa.BasicBlock]loopInfo
	// okReturn: a return that ends token processing legitimately even if Fresh (error returns)
	okReturn func(r *ssa.Return) bool
	// edgeDisposes: taking the k-th successor edge of b accounts for the current token (e.g. the terminator test)
	edgeDisposes func(b *ssa.BasicBlock, k int) bool
}

type loopInfo struct {
	preheader *ssa.BasicBlock
	exitSucc  int
}

type tsViolation struct {
	At    ssa.Instruction
	What  string
	Since ssa.Instruction
}

// runTypestate runs the may-analysis and reports every Next()/success return reachable while a token is Fresh.
func runTypestate(cfg *tsConfig) []tsViolation {
	m := cfg.m
	fn := m.fn
	in := map[*ssa.BasicBlock]int{}
	// per-edge contributions, needed for the non-empty loop refinement
	contrib := map[*ssa.BasicBlock]map[*ssa.BasicBlock]int{}
	// where a Fresh state was created (for the report)
	var viols []tsViolation
	seenViol := map[ssa.Instruction]bool{}
	work := []*ssa.BasicBlock{fn.Blocks[0]}
	in[fn.Blocks[0]] = cfg.entry
	inWork := map[*ssa.BasicBlock]bool{fn.Blocks[0]: true}
	addContrib := func(from, to *ssa.BasicBlock, st int) {
		if st == 0 {
			return
		}
		if contrib[to] == nil {
			contrib[to] = map[*ssa.BasicBlock]int{}
		}
		old := contrib[to][from]
		if old|st != old {
			contrib[to][from] = old | st
			in[to] |= st
			if !inWork[to] {
				inWork[to] = true
				work = append(work, to)
			}
		}
	}
	for len(work) > 0 {
		b := work[0]
		work = work[1:]
		inWork[b] = false
		st := in[b]
		// state used for the exit edge of a non-empty loop: only what arrives over back edges
		exitSt := -1
		if li, ok := cfg.nonEmptyLoops[b]; ok {
			exitSt = 0
			for from, s := range contrib[b] {
				if from != li.preheader {
					exitSt |= s
				}
			}
		}
		var trueSt, falseSt = -1, -1 // refined states for the two edges of a Next() test
		for _, ins := range b.Instrs {
			if c, ok := ins.(*ssa.Call); ok && m.iterCall(c, nIterNext) {
				if st&tsFresh != 0 && !seenViol[ins] {
					seenViol[ins] = true
					viols = append(viols, tsViolation{At: ins, What: "iterator.Next() reached while the current token is not accounted for (token dropped)"})
				}
				// is the result tested by this block's If?
				tested := false
				if iff, ok := b.Instrs[len(b.Instrs)-1].(*ssa.If); ok && iff.Cond == ssa.Value(c) {
					tested = true
				}
				nst := 0
				if st&(tsDisposed|tsFresh) != 0 {
					nst |= tsFresh
				}
				if tested {
					trueSt = nst // a new token is current
					falseSt = tsExhausted
					if st&tsExhausted != 0 && nst == 0 {
						trueSt = 0 // exhausted iterators never yield a token again
					}
					st = nst | (st & tsExhausted)
				} else {
					// unconditional advance: either a new token or the end
					st = nst | (st & tsExhausted)
					if nst != 0 {
						st |= 0
					}
				}
				continue
			}
			if r, ok := ins.(*ssa.Return); ok {
				if st&tsFresh != 0 && !(cfg.okReturn != nil && cfg.okReturn(r)) && !seenViol[ins] {
					seenViol[ins] = true
					viols = append(viols, tsViolation{At: ins, What: "success return reached while the current token is not accounted for (token dropped)"})
				}
				continue
			}
			if d, ex := cfg.disposition(ins); d {
				if ex {
					st = tsExhausted
				} else if st&tsFresh != 0 {
					st = (st &^ tsFresh) | tsDisposed
				}
			}
		}
		// a block that merges a boolean flag (phi of constants) and branches on it right away: each branch carries only
		// what arrived over the predecessors that set the flag accordingly (e.g. `found = true; break` … `if found`)
		flagEdge := [2]int{-1, -1}
		if iff, ok := b.Instrs[len(b.Instrs)-1].(*ssa.If); ok && trueSt < 0 {
			cond := iff.Cond
			neg := false
			if u, ok := cond.(*ssa.UnOp); ok && u.Op == token.NOT {
				cond, neg = u.X, true
			}
			if phi, ok := cond.(*ssa.Phi); ok && phi.Block() == b && isBoolType(phi.Type()) {
				plain := true
				for _, ins := range b.Instrs {
					switch x := ins.(type) {
					case *ssa.Phi, *ssa.If, *ssa.DebugRef:
					case *ssa.UnOp:
						if x.Op != token.NOT {
							plain = false
						}
					default:
						plain = false
					}
				}
				allConst := true
				for _, e := range phi.Edges {
					if c, ok := e.(*ssa.Const); !ok || c.Value == nil {
						allConst = false
					}
				}
				if plain && allConst {
					var tSt, fSt int
					for i, e := range phi.Edges {
						cs := contrib[b][b.Preds[i]]
						if i == 0 && b == fn.Blocks[0] {
							cs |= cfg.entry
						}
						if e.(*ssa.Const).Value.String() == "true" {
							tSt |= cs
						} else {
							fSt |= cs
						}
					}
					if neg {
						tSt, fSt = fSt, tSt
					}
					flagEdge = [2]int{tSt, fSt}
				}
			}
		}
		for k, s := range b.Succs {
			if cfg.pruneEdge != nil && cfg.pruneEdge(b, k) {
				continue
			}
			out := st
			if flagEdge[0] >= 0 && k < 2 {
				out = flagEdge[k]
			}
			if trueSt >= 0 {
				if k == 0 {
					out = trueSt
				} else {
					out = falseSt
				}
			}
			if li, ok := cfg.nonEmptyLoops[b]; ok && k == li.exitSucc && exitSt >= 0 {
				// the exit edge carries what flowed around the loop at least once
				out = exitSt
			}
			if cfg.edgeDisposes != nil && cfg.edgeDisposes(b, k) && out&tsFresh != 0 {
				out = (out &^ tsFresh) | tsDisposed
			}
			addContrib(b, s, out)
		}
	}
	return viols
}

func (v tsViolation) String(w *World) string {
	return fmt.Sprintf("%s at %s", v.What, w.IPos(v.At))
}

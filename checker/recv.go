package main

// recv.go - value receivers of read-only methods. A method that the reference tree declares on the pointer
// (`func (a *Iterator) Value() string`) may be moved to the value (`func (a Iterator) Value() string`) when it changes
// nothing of its receiver: the two are indistinguishable for every caller the library has (the calls take the
// address, or copy the value, implicitly). go/ssa, however, names the two differently and copies the receiver, and
// every rule anchored at `(*sliceiterator.Iterator).Value` would lose its anchor. In the in-memory overlay the receiver
// is written as the pointer again - but only when the body never assigns to the receiver or to one of its fields
// (directly, by ++/--, by taking a field's address, or by calling one of its pointer-receiver methods): a method that
// does write keeps its value receiver, and the rules then see what the program does (the write is lost on a copy).

import (
	"go/ast"
	"go/token"
	"go/types"

	"golang.org/x/tools/go/packages"
)

func pointerReceiversBack(w *World, repo string, overlay map[string][]byte, extraEnv []string) (*World, map[string][]byte) {
	in := &inliner{w: w, overlay: map[string][]byte{}}
	for k, v := range overlay {
		in.overlay[k] = v
	}
	edits := map[string][]textEdit{}
	var notes []string
	for _, p := range w.Pkgs {
		for _, file := range p.Syntax {
			for _, d := range file.Decls {
				fd, ok := d.(*ast.FuncDecl)
				if !ok || fd.Recv == nil || len(fd.Recv.List) != 1 || fd.Body == nil {
					continue
				}
				rt := fd.Recv.List[0].Type
				if _, isPtr := rt.(*ast.StarExpr); isPtr {
					continue
				}
				tid, ok := rt.(*ast.Ident)
				if !ok {
					continue
				}
				obj, ok := p.TypesInfo.Defs[fd.Name].(*types.Func)
				if !ok {
					continue
				}
				pkgShort := shortName(p.PkgPath)
				ptrName := "(*" + pkgShort + "." + tid.Name + ")." + fd.Name.Name
				valName := "(" + pkgShort + "." + tid.Name + ")." + fd.Name.Name
				if _, known := baselineFuncs[ptrName]; !known {
					continue
				}
				if _, known := baselineFuncs[valName]; known {
					continue
				}
				if !readOnlyReceiver(p, fd) {
					continue
				}
				_ = obj
				fname, off := in.rawOff(rt.Pos())
				edits[fname] = append(edits[fname], textEdit{off, off, "*"})
				notes = append(notes, "method "+valName+" reads its receiver only: analysed with the pointer receiver of the reference ("+ptrName+")")
			}
		}
	}
	if len(edits) == 0 {
		return w, overlay
	}
	nov, err := in.applyEdits(edits)
	if err != nil {
		return w, overlay
	}
	next, err := loadWorldRaw(repo, nov, extraEnv)
	if err != nil {
		w.Notes = append(w.Notes, "value receivers kept as written (the program with pointer receivers does not load)")
		return w, overlay
	}
	next.Notes = append(w.Notes, notes...)
	return next, nov
}

// readOnlyReceiver: the body never writes the receiver variable or anything reached through it.
func readOnlyReceiver(p *packages.Package, fd *ast.FuncDecl) bool {
	names := fd.Recv.List[0].Names
	if len(names) == 0 || names[0].Name == "_" {
		return true
	}
	recv := p.TypesInfo.Defs[names[0]]
	if recv == nil {
		return false
	}
	rootIsRecv := func(e ast.Expr) bool {
		for {
			switch x := e.(type) {
			case *ast.ParenExpr:
				e = x.X
			case *ast.SelectorExpr:
				e = x.X
			case *ast.IndexExpr:
				e = x.X
			case *ast.StarExpr:
				e = x.X
			case *ast.Ident:
				return p.TypesInfo.Uses[x] == recv
			default:
				return false
			}
		}
	}
	ok := true
	ast.Inspect(fd.Body, func(n ast.Node) bool {
		switch x := n.(type) {
		case *ast.AssignStmt:
			for _, l := range x.Lhs {
				if rootIsRecv(l) {
					// writing through a pointer or into a map/slice held by a field changes shared state either way;
					// a direct field or the variable itself is what a copy would lose
					ok = false
				}
			}
		case *ast.IncDecStmt:
			if rootIsRecv(x.X) {
				ok = false
			}
		case *ast.UnaryExpr:
			if x.Op == token.AND && rootIsRecv(x.X) {
				ok = false
			}
		case *ast.CallExpr:
			// a pointer-receiver method called on the receiver (or a field of it)
			if sel, isSel := x.Fun.(*ast.SelectorExpr); isSel && rootIsRecv(sel.X) {
				if s, found := p.TypesInfo.Selections[sel]; found {
					if f, isF := s.Obj().(*types.Func); isF {
						if sig, isSig := f.Type().(*types.Signature); isSig && sig.Recv() != nil {
							if _, ptr := sig.Recv().Type().(*types.Pointer); ptr {
								if _, already := p.TypesInfo.TypeOf(sel.X).(*types.Pointer); !already {
									ok = false
								}
							}
						}
					}
				}
			}
		case *ast.FuncLit:
			// a literal capturing the receiver: leave alone
			ast.Inspect(x.Body, func(m ast.Node) bool {
				if id, isId := m.(*ast.Ident); isId && p.TypesInfo.Uses[id] == recv {
					ok = false
				}
				return true
			})
		}
		return ok
	})
	return ok
}

package main

// rules_round3.go - rules added after the third round of independently seeded changes.

import (
	"fmt"
	"go/token"
	"go/types"
	"strings"

	"golang.org/x/tools/go/ssa"
)

var (
	_ = fmt.Sprintf
	_ = token.ADD
	_ = strings.Join
	_ types.Type
)

func init() {
	addRules("C06", rPairLoopComplete("R06.13"))
	addRules("C07", rPairLoopComplete("R07.7"))
	addRules("C05", rPairLoopComplete("R05.8"))
	addRules("C10", rC10CommandFnWriters)
	addRules("C15", rC15TaskImmutable)
	addRules("C16", rC16EveryDependencyRecorded)
	addRules("C20", rC20NoHiddenState)
	addRules("C01", func(w *World, r *Report) {
		subRule(w, r, rC02Loops, "R01.10", "an optional value written with `=` is the only value taken: the optional-value loop starts counting at the number of attached values (same obligations as C02 R02.1)", 2)
	}, rArgsUnmodified("R01.11"))
	addRules("C03", exactStopsRule("R03.9"))
	addRules("C04", rC04OnlyParserInterprets)
	addRules("C11", func(w *World, r *Report) {
		subRule(w, r, rC12GetEnvBody, "R11.12", "a required option supplied through its environment variable counts as supplied whatever the value (same obligations as C12 R12.4)", 9)
	})
	addRules("C16", func(w *World, r *Report) {
		subRule(w, r, rC15Serial, "R16.10", "a ready vertex is withheld only by the serial-mode scan for a running vertex (same obligations as C15 R15.4)", 2)
	})
	addRules("C17", func(w *World, r *Report) {
		subRule(w, r, rC09Sites, "R17.8", "completion walks the earlier words exactly as the parser does, the require-order stop included: what is offered behind it would be taken as plain text (same obligations as C09 R09.1)", 2)
	})
}

// R04.9
func rC04OnlyParserInterprets(w *World, r *Report) {
	ru := r.Rule("R04.9", "tokens are interpreted in one place only: the splitter (isOption) and the matcher are called by the parser (and its helpers) and nowhere else - Parse and Dispatch never look again at the tokens that were returned as remaining (what stands behind `--` is never taken for an option)", 3)
	p := w.Fn(nParseCLI)
	if p == nil {
		ru.Undecided("anchor", "-", "parser not found")
		return
	}
	n := 0
	for _, target := range []string{nIsOption, nMatcher} {
		for _, fn := range w.Funcs {
			for _, c := range callsTo(fn, target) {
				n++
				ok := fn == p || (fn.Parent() != nil && fn.Parent() == p) || onlyCalledFrom(w, fn, map[string]bool{nParseCLI: true})
				ru.Check(ok, "interpreter/"+target+"/"+short(fn), w.IPos(c), "called by the parser", target+" is called outside the parser: tokens the parser returned verbatim (e.g. behind `--`) are interpreted after all")
			}
		}
	}
	if n == 0 {
		ru.Bad("interpreter", w.Pos(p.Pos()), "no call of the splitter / matcher found")
	}
}

// R20.5
func rC20NoHiddenState(w *World, r *Report) {
	ru := r.Rule("R20.5", "no hidden state: no function reachable from Parse / Dispatch / Help / completion (user functions cut off) writes a package-level variable of the library, updates a package-level map or slice, or stores through one (a second run in the same process sees what the first one saw)", 30)
	roots := c19Roots(w)
	for _, rt := range roots {
		if rt == nil {
			ru.Undecided("anchor", "-", "an entry point was not found")
			return
		}
	}
	reach := w.reachableFrom(roots, cutUserCode)
	var globalRoot func(v ssa.Value, depth int) *ssa.Global
	globalRoot = func(v ssa.Value, depth int) *ssa.Global {
		if depth > 6 {
			return nil
		}
		switch x := v.(type) {
		case *ssa.Global:
			return x
		case *ssa.UnOp:
			if x.Op == token.MUL {
				return globalRoot(x.X, depth+1)
			}
		case *ssa.FieldAddr:
			return globalRoot(x.X, depth+1)
		case *ssa.IndexAddr:
			return globalRoot(x.X, depth+1)
		case *ssa.Slice:
			return globalRoot(x.X, depth+1)
		}
		return nil
	}
	own := func(g *ssa.Global) bool { return g != nil && g.Pkg != nil && w.Pkgs[g.Pkg.Pkg.Path()] != nil }
	for _, fn := range w.Funcs {
		if !reach[fn] || fn.Pkg == nil || shortName(fn.Pkg.Pkg.Path()) == "dag" {
			continue
		}
		bad := ""
		var at ssa.Instruction
		eachInstr(fn, func(in ssa.Instruction) {
			switch x := in.(type) {
			case *ssa.Store:
				if g := globalRoot(x.Addr, 0); own(g) {
					bad, at = "stores to package variable "+g.Name(), in
				}
			case *ssa.MapUpdate:
				if g := globalRoot(x.Map, 0); own(g) {
					bad, at = "updates package-level map "+g.Name(), in
				}
			}
		})
		if bad != "" {
			ru.Bad("hidden-state/"+short(fn), w.IPos(at), short(fn)+" "+bad+": what a run reports depends on earlier runs in the same process")
		} else {
			ru.OK("hidden-state/"+short(fn), w.Pos(fn.Pos()), "no write to package-level state")
		}
	}
}

// R16.9
func rC16EveryDependencyRecorded(w *World, r *Report) {
	ru := r.Rule("R16.9", "every declared dependency becomes an edge: in TaskDependsOn the loop over the dependency list reaches its next iteration only after appending the dependency to the vertex's Children (nothing, a self-dependency included, is silently dropped - the cycle check sees every declared edge)", 1)
	fn := w.Fn("(*dag.Graph).TaskDependsOn")
	if fn == nil {
		ru.Undecided("anchor", "-", "TaskDependsOn not found")
		return
	}
	var deps *ssa.Parameter
	for _, p := range fn.Params {
		if typeString(p.Type()) == "[]*dag.Task" {
			deps = p
		}
	}
	fChildren := w.Field("dag", "Vertex", "Children")
	if deps == nil || fChildren == nil {
		ru.Undecided("anchor", w.Pos(fn.Pos()), "dependency list parameter / Vertex.Children not found")
		return
	}
	ig := buildIG(fn)
	n := 0
	for _, h := range fn.Blocks {
		if rangeCollectionOfHeader(h) != ssa.Value(deps) {
			continue
		}
		n++
		isAppend := func(in ssa.Instruction) bool {
			_, f, v, ok := storeField(in)
			if !ok || f != fChildren {
				return false
			}
			_, _, isApp := isAppendOf(v, fChildren)
			return isApp
		}
		hdr := h.Instrs[0]
		ok, wit := ig.mustPass(ig.edgeStart(h, 0), isAppend, func(in ssa.Instruction) bool { return in == hdr })
		if ok {
			ru.OK("TaskDependsOn/every-dependency", w.IPos(hdr), "each iteration appends the dependency to Children before the next one starts")
		} else {
			_ = wit
			ru.Bad("TaskDependsOn/every-dependency", w.IPos(hdr), "an iteration of the dependency loop can finish without recording the edge: that dependency (possibly a cycle) is silently ignored")
		}
	}
	if n == 0 {
		ru.Bad("TaskDependsOn/every-dependency", w.Pos(fn.Pos()), "no loop over the dependency list found")
	}
}

// R15.5
func rC15TaskImmutable(w *World, r *Report) {
	ru := r.Rule("R15.5", "the function that runs is the one guarded by the lock taken: Task.Fn and Task.ID are written only while a fresh Task is constructed (composite literal), never on an existing Task; a vertex refers to the caller's Task object (stores to Vertex.Task store a *Task parameter or a fresh Task)", 3)
	for _, fname := range []string{"Fn", "ID"} {
		f := w.Field("dag", "Task", fname)
		if f == nil {
			ru.Undecided("anchor/Task."+fname, "-", "field not found")
			continue
		}
		n := 0
		for _, u := range w.fieldUses(f) {
			if u.Kind != "write" && u.Kind != "addr-escapes" {
				continue
			}
			n++
			_, fresh := rootOfAddr(u.Addr.X).(*ssa.Alloc)
			ru.Check(u.Kind == "write" && fresh, "Task."+fname+"/writer/"+short(u.Fn), w.IPos(u.Instr), "initialisation of a fresh Task", "an existing Task is modified: a graph that locks one Task object would run the function of another (a Task shared by two graphs could execute twice at the same time)")
		}
		if n == 0 {
			ru.Bad("Task."+fname+"/writer", "-", "no initialisation of Task."+fname+" found")
		}
	}
	if f := w.Field("dag", "Vertex", "Task"); f != nil {
		for _, u := range w.fieldUses(f) {
			if u.Kind != "write" {
				continue
			}
			st := u.Instr.(*ssa.Store)
			good := false
			for _, leaf := range phiLeaves(st.Val, map[ssa.Value]bool{}) {
				switch x := leaf.(type) {
				case *ssa.Parameter:
					good = true
				case *ssa.Alloc:
					good = true
				default:
					_ = x
					good = false
				}
				if !good {
					break
				}
			}
			ru.Check(good, "Vertex.Task/writer/"+short(u.Fn), w.IPos(st), "the caller's Task object (or a fresh placeholder)", "a vertex is given a Task object other than the one the caller shares between graphs")
		}
	}
}

// R10.9
func rC10CommandFnWriters(w *World, r *Report) {
	ru := r.Rule("R10.9", "the function a command runs is the one registered for that command: programTree.CommandFn is stored only by SetCommandFn, from its parameter, on the receiver's own node (no command starts out with another command's function)", 1)
	f := w.Field("getoptions", "programTree", "CommandFn")
	if f == nil {
		ru.Undecided("anchor", "-", "field programTree.CommandFn not found")
		return
	}
	n := 0
	for _, u := range w.fieldUses(f) {
		if u.Kind != "write" {
			continue
		}
		n++
		st, _ := u.Instr.(*ssa.Store)
		good := st != nil && short(u.Fn) == "(*getoptions.GetOpt).SetCommandFn" && len(u.Fn.Params) == 2 && st.Val == ssa.Value(u.Fn.Params[1])
		if good {
			b, ok := loadOfFieldNamed(u.Addr.X, "programTree")
			good = ok && b == ssa.Value(u.Fn.Params[0])
		}
		ru.Check(good, "CommandFn/writer/"+short(u.Fn), w.IPos(u.Instr), "SetCommandFn stores its parameter on the receiver's node", "a command's function is set outside SetCommandFn (a command without its own function would silently run another one)")
	}
	if n == 0 {
		ru.Bad("CommandFn/writer", "-", "no store of programTree.CommandFn found")
	}
}

// rPairLoopComplete (R06.13 / R07.7 / R05.8): every pair the splitter produced for a token is processed.
func rPairLoopComplete(id string) func(w *World, r *Report) {
	return func(w *World, r *Report) {
		ru := r.Rule(id, "every option of a token is processed: the parser's loop over the pairs returned by the splitter is left only when the pairs are exhausted, by a return (a Parse error), or at the require-order stop (the whole token goes to the remaining list); no continue/break of the argument loop skips the rest of a bundle", 2)
		m := parserOrFail(w, ru)
		if m == nil {
			return
		}
		pl := m.pairLoop()
		if pl == nil {
			ru.Undecided("pair-loop", w.Pos(m.fn.Pos()), "range loop over the pairs returned by isOption not found")
			return
		}
		loop := naturalLoop(pl.header)
		n := 0
		for b := range loop {
			for k, s := range b.Succs {
				if loop[s] {
					continue
				}
				n++
				key := fmt.Sprintf("pair-loop/exit@%s", w.IPos(b.Instrs[len(b.Instrs)-1]))
				switch {
				case b == pl.header:
					ru.OK("pair-loop/exhausted", w.IPos(b.Instrs[len(b.Instrs)-1]), "the loop ends when every pair was processed")
				case leadsOnlyToReturn(s):
					ru.OK(key, w.IPos(b.Instrs[len(b.Instrs)-1]), "leaves the loop by returning from the parser")
				case m.isRequireOrderStop(b, k, s):
					ru.OK(key, w.IPos(b.Instrs[len(b.Instrs)-1]), "require-order stop: the whole token is stored in the remaining list and parsing ends")
				default:
					ru.Bad(key, w.IPos(b.Instrs[len(b.Instrs)-1]), "the per-pair loop is left before all options of the token are processed (the rest of a bundle such as -abc would be silently dropped)")
				}
			}
		}
		if n == 0 {
			ru.Bad("pair-loop/exhausted", w.IPos(pl.header.Instrs[0]), "the pair loop has no exit")
		}
	}
}

// leadsOnlyToReturn: the block (through unconditional jumps) ends in a return.
func leadsOnlyToReturn(b *ssa.BasicBlock) bool {
	for i := 0; i < 8 && b != nil && len(b.Instrs) > 0; i++ {
		switch b.Instrs[len(b.Instrs)-1].(type) {
		case *ssa.Return:
			return true
		case *ssa.Jump:
			b = b.Succs[0]
		default:
			return false
		}
	}
	return false
}

// isRequireOrderStop: the edge b -k-> s leaves towards the code that stores the rest of the arguments under requireOrder.
func (m *parserModel) isRequireOrderStop(b *ssa.BasicBlock, k int, s *ssa.BasicBlock) bool {
	hasStore := false
	for _, in := range b.Instrs {
		if c, ok := in.(ssa.CallInstruction); ok && calleeName(c) == nStoreRest {
			hasStore = true
		}
	}
	if !hasStore {
		return false
	}
	for _, f := range factsAt(b) {
		if f.Y == nil && f.Truth {
			if _, ok := loadOfField(f.X, m.fRequireOrder); ok {
				return true
			}
		}
	}
	return false
}

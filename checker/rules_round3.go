package main

// rules_round3.go - rules added after the third round of independently seeded changes.

import (
	"fmt"
	"go/token"
	"go/types"
	"regexp"
	"strings"

	"golang.org/x/tools/go/ssa"
)

var (
	_ = fmt.Sprintf
	_ = token.ADD
	_ = strings.Join
	_ types.Type
)

func init() {
	addRules("C06", rPairLoopComplete("R06.13"))
	addRules("C07", rPairLoopComplete("R07.7"))
	addRules("C05", rPairLoopComplete("R05.8"))
	addRules("C10", rC10CommandFnWriters)
	addRules("C15", rC15TaskImmutable)
	addRules("C16", rC16EveryDependencyRecorded)
	addRules("C20", rC20NoHiddenState)
	addRules("C01", func(w *World, r *Report) {
		subRule(w, r, rC02Loops, "R01.10", "an optional value written with `=` is the only value taken: the optional-value loop starts counting at the number of attached values (same obligations as C02 R02.1)", 2)
	}, rArgsUnmodified("R01.11"))
	addRules("C03", exactStopsRule("R03.9"), func(w *World, r *Report) {
		subRule(w, r, rC01ErrDiscipline, "R03.10", "a value the option refuses fails the parse: Save never reports success for a token it did not store (same obligations as C01 R01.5)", 10)
	})
	addRules("C03", func(w *World, r *Report) {
		subRule(w, r, rC18TableWriters, "R03.11", "an unknown option stays unknown: parsing never adds entries to a node's option table, so a second occurrence of the same unknown token is handed over like the first (same obligations as C18 R18.13)", 2)
	})
	addRules("C08", func(w *World, r *Report) {
		subRule(w, r, rC18TableWriters, "R08.12", "an unknown option stays unknown for the whole parse (same obligations as C18 R18.13)", 2)
	})
	addRules("C08", func(w *World, r *Report) {
		subRule(w, r, rC01Regex, "R08.9", "every token that starts with a dash is recognised as an option, whatever bytes follow (same obligations as C01 R01.1)", 2)
	}, func(w *World, r *Report) {
		subRule(w, r, rC09Readers, "R08.10", "nothing but SetRequireOrder puts a node into require-order mode, where unknown options are returned instead of reported (same obligations as C09 R09.3)", 3)
	})
	addRules("C16", func(w *World, r *Report) {
		subRule(w, r, rC15Buffer, "R16.11", "a task's completion is always reported: the output flush cannot block forever (lock and unlock paired on every path; same obligations as C15 R15.3)", 1)
	})
	addRules("C18", func(w *World, r *Report) {
		subRule(w, r, rC06Alias, "R18.12", "an option is listed under the name it was declared with: AddChildOption stores the record under exactly the given key (same obligations as C06 R06.3)", 2)
	}, rC18TableWriters)
	addRules("C15", rC15SerialFlag("R15.6"))
	addRules("C14", rC15SerialFlag("R14.8"))
	addRules("C17", rC17ValidValuesSuggested)
	addRules("C13", rC13RetriesPerVertex)
	addRules("C05", rMessageFormats("R05.9", 10))
	addRules("C01", rMessageFormats("R01.12", 10))
	addRules("C08", rMessageFormats("R08.11", 10))
	addRules("C11", rMessageFormats("R11.14", 10))
	addRules("C20", rMessageFormats("R20.6", 10))
	addRules("C10", func(w *World, r *Report) {
		subRule(w, r, rC02SplitFirst, "R10.10", "the values the command function sees are the parsed ones: map values are not cut (same obligations as C02 R02.5)", 1)
	})
	addRules("C11", func(w *World, r *Report) {
		subRule(w, r, rC06Readers, "R11.13", "whether help was requested is read from the record registered at the level asked (same obligations as C06 R06.6)", 3)
	})
	addRules("C12", func(w *World, r *Report) {
		subRule(w, r, rC06Readers, "R12.7", "Called / CalledAs / Value report the record registered at the level asked (same obligations as C06 R06.6)", 3)
	}, func(w *World, r *Report) {
		subRule(w, r, rC06Writers, "R12.8", "Called and UsedAlias set from the environment at definition time are never cleared again (same obligations as C06 R06.1)", 3)
	})
	addRules("C04", rC04OnlyParserInterprets)
	addRules("C11", func(w *World, r *Report) {
		subRule(w, r, rC12GetEnvBody, "R11.12", "a required option supplied through its environment variable counts as supplied whatever the value (same obligations as C12 R12.4)", 9)
	})
	addRules("C16", func(w *World, r *Report) {
		subRule(w, r, rC15Serial, "R16.10", "a ready vertex is withheld only by the serial-mode scan for a running vertex (same obligations as C15 R15.4)", 2)
	})
	addRules("C17", func(w *World, r *Report) {
		subRule(w, r, rC09Sites, "R17.8", "completion walks the earlier words exactly as the parser does, the require-order stop included: what is offered behind it would be taken as plain text (same obligations as C09 R09.1)", 2)
	})
}

// R04.9
func rC04OnlyParserInterprets(w *World, r *Report) {
	ru := r.Rule("R04.9", "tokens are interpreted in one place only: the splitter (isOption) and the matcher are called by the parser (and its helpers) and nowhere else - Parse and Dispatch never look again at the tokens that were returned as remaining (what stands behind `--` is never taken for an option)", 3)
	p := w.Fn(nParseCLI)
	if p == nil {
		ru.Undecided("anchor", "-", "parser not found")
		return
	}
	n := 0
	for _, target := range []string{nIsOption, nMatcher} {
		for _, fn := range w.Funcs {
			for _, c := range callsTo(fn, target) {
				if w.detachedAPI(fn) {
					continue // a new accessor for the program: Parse and Dispatch do not reach it
				}
				n++
				ok := fn == p || (fn.Parent() != nil && fn.Parent() == p) || onlyCalledFrom(w, fn, map[string]bool{nParseCLI: true})
				ru.Check(ok, "interpreter/"+target+"/"+short(fn), w.IPos(c), "called by the parser", target+" is called outside the parser: tokens the parser returned verbatim (e.g. behind `--`) are interpreted after all")
			}
		}
	}
	if n == 0 {
		ru.Bad("interpreter", w.Pos(p.Pos()), "no call of the splitter / matcher found")
	}
}

// R20.5
func rC20NoHiddenState(w *World, r *Report) {
	ru := r.Rule("R20.5", "no hidden state: no function reachable from Parse / Dispatch / Help / completion (user functions cut off) writes a package-level variable of the library, updates a package-level map or slice, or stores through one (a second run in the same process sees what the first one saw)", 30)
	roots := c19Roots(w)
	for _, rt := range roots {
		if rt == nil {
			ru.Undecided("anchor", "-", "an entry point was not found")
			return
		}
	}
	reach := w.reachableFrom(roots, cutUserCode)
	var globalRoot func(v ssa.Value, depth int) *ssa.Global
	globalRoot = func(v ssa.Value, depth int) *ssa.Global {
		if depth > 6 {
			return nil
		}
		switch x := v.(type) {
		case *ssa.Global:
			return x
		case *ssa.UnOp:
			if x.Op == token.MUL {
				return globalRoot(x.X, depth+1)
			}
		case *ssa.FieldAddr:
			return globalRoot(x.X, depth+1)
		case *ssa.IndexAddr:
			return globalRoot(x.X, depth+1)
		case *ssa.Slice:
			return globalRoot(x.X, depth+1)
		}
		return nil
	}
	own := func(g *ssa.Global) bool { return g != nil && g.Pkg != nil && w.Pkgs[g.Pkg.Pkg.Path()] != nil }
	for _, fn := range w.Funcs {
		if !reach[fn] || fn.Pkg == nil || shortName(fn.Pkg.Pkg.Path()) == "dag" {
			continue
		}
		bad := ""
		var at ssa.Instruction
		eachInstr(fn, func(in ssa.Instruction) {
			switch x := in.(type) {
			case *ssa.Store:
				if g := globalRoot(x.Addr, 0); own(g) {
					bad, at = "stores to package variable "+g.Name(), in
				}
			case *ssa.MapUpdate:
				if g := globalRoot(x.Map, 0); own(g) {
					bad, at = "updates package-level map "+g.Name(), in
				}
			}
		})
		if bad != "" {
			ru.Bad("hidden-state/"+short(fn), w.IPos(at), short(fn)+" "+bad+": what a run reports depends on earlier runs in the same process")
		} else {
			ru.OK("hidden-state/"+short(fn), w.Pos(fn.Pos()), "no write to package-level state")
		}
	}
}

// R16.9
func rC16EveryDependencyRecorded(w *World, r *Report) {
	ru := r.Rule("R16.9", "every declared dependency becomes an edge: in TaskDependsOn the loop over the dependency list reaches its next iteration only after appending the dependency to the vertex's Children (nothing, a self-dependency included, is silently dropped - the cycle check sees every declared edge)", 1)
	fn := w.Fn("(*dag.Graph).TaskDependsOn")
	if fn == nil {
		ru.Undecided("anchor", "-", "TaskDependsOn not found")
		return
	}
	var deps *ssa.Parameter
	for _, p := range fn.Params {
		if typeString(p.Type()) == "[]*dag.Task" {
			deps = p
		}
	}
	fChildren := w.Field("dag", "Vertex", "Children")
	if deps == nil || fChildren == nil {
		ru.Undecided("anchor", w.Pos(fn.Pos()), "dependency list parameter / Vertex.Children not found")
		return
	}
	ig := buildIG(fn)
	n := 0
	for _, h := range fn.Blocks {
		if rangeCollectionOfHeader(h) != ssa.Value(deps) {
			continue
		}
		n++
		isAppend := func(in ssa.Instruction) bool {
			_, f, v, ok := storeField(in)
			if !ok || f != fChildren {
				return false
			}
			_, _, isApp := isAppendOf(v, fChildren)
			return isApp
		}
		hdr := h.Instrs[0]
		ok, wit := ig.mustPass(ig.edgeStart(h, 0), isAppend, func(in ssa.Instruction) bool { return in == hdr })
		if ok {
			ru.OK("TaskDependsOn/every-dependency", w.IPos(hdr), "each iteration appends the dependency to Children before the next one starts")
		} else {
			_ = wit
			ru.Bad("TaskDependsOn/every-dependency", w.IPos(hdr), "an iteration of the dependency loop can finish without recording the edge: that dependency (possibly a cycle) is silently ignored")
		}
	}
	if n == 0 {
		ru.Bad("TaskDependsOn/every-dependency", w.Pos(fn.Pos()), "no loop over the dependency list found")
	}
}

// R15.5
func rC15TaskImmutable(w *World, r *Report) {
	ru := r.Rule("R15.5", "the function that runs is the one guarded by the lock taken: Task.Fn and Task.ID are written only while a fresh Task is constructed (composite literal), never on an existing Task; a vertex refers to the caller's Task object (stores to Vertex.Task store a *Task parameter or a fresh Task)", 3)
	for _, fname := range []string{"Fn", "ID"} {
		f := w.Field("dag", "Task", fname)
		if f == nil {
			ru.Undecided("anchor/Task."+fname, "-", "field not found")
			continue
		}
		n := 0
		for _, u := range w.fieldUses(f) {
			if u.Kind != "write" && u.Kind != "addr-escapes" {
				continue
			}
			n++
			_, fresh := rootOfAddr(u.Addr.X).(*ssa.Alloc)
			ru.Check(u.Kind == "write" && fresh, "Task."+fname+"/writer/"+short(u.Fn), w.IPos(u.Instr), "initialisation of a fresh Task", "an existing Task is modified: a graph that locks one Task object would run the function of another (a Task shared by two graphs could execute twice at the same time)")
		}
		if n == 0 {
			ru.Bad("Task."+fname+"/writer", "-", "no initialisation of Task."+fname+" found")
		}
	}
	if f := w.Field("dag", "Vertex", "Task"); f != nil {
		for _, u := range w.fieldUses(f) {
			if u.Kind != "write" {
				continue
			}
			st := u.Instr.(*ssa.Store)
			good := false
			for _, leaf := range phiLeaves(st.Val, map[ssa.Value]bool{}) {
				switch x := leaf.(type) {
				case *ssa.Parameter:
					good = true
				case *ssa.Alloc:
					good = true
				default:
					_ = x
					good = false
				}
				if !good {
					break
				}
			}
			ru.Check(good, "Vertex.Task/writer/"+short(u.Fn), w.IPos(st), "the caller's Task object (or a fresh placeholder)", "a vertex is given a Task object other than the one the caller shares between graphs")
		}
	}
}

// isFreshNode: v is a node allocated in this function, or the result of a library function that returns a node it has
// just allocated on every path.
func isFreshNode(v ssa.Value) bool {
	switch x := v.(type) {
	case *ssa.Alloc:
		return true
	case *ssa.Call:
		cal := x.Call.StaticCallee()
		if cal == nil || cal.Blocks == nil {
			return false
		}
		all, n := true, 0
		eachInstr(cal, func(in ssa.Instruction) {
			if ret, ok := in.(*ssa.Return); ok && len(ret.Results) >= 1 {
				n++
				if _, fresh := ret.Results[0].(*ssa.Alloc); !fresh {
					all = false
				}
			}
		})
		return all && n > 0
	}
	return false
}

// R10.9
func rC10CommandFnWriters(w *World, r *Report) {
	ru := r.Rule("R10.9", "the function a command runs is the one registered for that command: programTree.CommandFn is stored only by SetCommandFn, from its parameter, on the receiver's own node (no command starts out with another command's function)", 1)
	f := w.Field("getoptions", "programTree", "CommandFn")
	if f == nil {
		ru.Undecided("anchor", "-", "field programTree.CommandFn not found")
		return
	}
	n := 0
	for _, u := range w.fieldUses(f) {
		if u.Kind != "write" {
			continue
		}
		n++
		st, _ := u.Instr.(*ssa.Store)
		good := st != nil && short(u.Fn) == "(*getoptions.GetOpt).SetCommandFn" && len(u.Fn.Params) == 2 && st.Val == ssa.Value(u.Fn.Params[1])
		if good {
			b, ok := loadOfFieldNamed(u.Addr.X, "programTree")
			good = ok && b == ssa.Value(u.Fn.Params[0])
		}
		if !good && st != nil {
			// the built-in help command: HelpCommand gives the node it has just created the library's own help function
			top := u.Fn
			for top.Parent() != nil {
				top = top.Parent()
			}
			val := st.Val
			if ct, ok := val.(*ssa.ChangeType); ok {
				val = ct.X
			}
			if fv, ok := val.(*ssa.Function); ok && short(fv) == "getoptions.runHelp" && short(top) == "(*getoptions.GetOpt).HelpCommand" {
				if isFreshNode(u.Addr.X) {
					good = true
				}
			}
		}
		ru.Check(good, "CommandFn/writer/"+short(u.Fn), w.IPos(u.Instr), "SetCommandFn stores its parameter on the receiver's node", "a command's function is set outside SetCommandFn (a command without its own function would silently run another one)")
	}
	if n == 0 {
		ru.Bad("CommandFn/writer", "-", "no store of programTree.CommandFn found")
	}
}

// rPairLoopComplete (R06.13 / R07.7 / R05.8): every pair the splitter produced for a token is processed.
func rPairLoopComplete(id string) func(w *World, r *Report) {
	return func(w *World, r *Report) {
		ru := r.Rule(id, "every option of a token is processed: the parser's loop over the pairs returned by the splitter is left only when the pairs are exhausted, by a return (a Parse error), or at the require-order stop (the whole token goes to the remaining list); no continue/break of the argument loop skips the rest of a bundle", 2)
		m := parserOrFail(w, ru)
		if m == nil {
			return
		}
		pl := m.pairLoop()
		if pl == nil {
			ru.Undecided("pair-loop", w.Pos(m.fn.Pos()), "range loop over the pairs returned by isOption not found")
			return
		}
		loop := naturalLoop(pl.header)
		n := 0
		for b := range loop {
			for k, s := range b.Succs {
				if loop[s] {
					continue
				}
				n++
				key := fmt.Sprintf("pair-loop/exit@%s", w.IPos(b.Instrs[len(b.Instrs)-1]))
				switch {
				case b == pl.header:
					ru.OK("pair-loop/exhausted", w.IPos(b.Instrs[len(b.Instrs)-1]), "the loop ends when every pair was processed")
				case leadsOnlyToReturn(s):
					ru.OK(key, w.IPos(b.Instrs[len(b.Instrs)-1]), "leaves the loop by returning from the parser")
				case m.isRequireOrderStop(b, k, s):
					ru.OK(key, w.IPos(b.Instrs[len(b.Instrs)-1]), "require-order stop: the whole token is stored in the remaining list and parsing ends")
				default:
					ru.Bad(key, w.IPos(b.Instrs[len(b.Instrs)-1]), "the per-pair loop is left before all options of the token are processed (the rest of a bundle such as -abc would be silently dropped)")
				}
			}
		}
		if n == 0 {
			ru.Bad("pair-loop/exhausted", w.IPos(pl.header.Instrs[0]), "the pair loop has no exit")
		}
	}
}

// leadsOnlyToReturn: the block (through unconditional jumps) ends in a return.
func leadsOnlyToReturn(b *ssa.BasicBlock) bool {
	for i := 0; i < 8 && b != nil && len(b.Instrs) > 0; i++ {
		switch b.Instrs[len(b.Instrs)-1].(type) {
		case *ssa.Return:
			return true
		case *ssa.Jump:
			b = b.Succs[0]
		default:
			return false
		}
	}
	return false
}

// isRequireOrderStop: the edge b -k-> s leaves towards the code that stores the rest of the arguments under requireOrder.
func (m *parserModel) isRequireOrderStop(b *ssa.BasicBlock, k int, s *ssa.BasicBlock) bool {
	hasStore := false
	for _, in := range b.Instrs {
		if c, ok := in.(ssa.CallInstruction); ok && calleeName(c) == nStoreRest {
			hasStore = true
		}
	}
	if !hasStore {
		return false
	}
	for _, f := range factsAt(b) {
		if f.Y == nil && f.Truth {
			if _, ok := loadOfField(f.X, m.fRequireOrder); ok {
				return true
			}
		}
	}
	return false
}

// ---- message formats ---------------------------------------------------------------------------------------------

// globalConstString: the constant string a package-level variable is initialised with (and never assigned again).
func globalConstString(w *World, g *ssa.Global) (string, bool) {
	if g.Pkg == nil {
		return "", false
	}
	val, n := "", 0
	fns := append([]*ssa.Function{}, w.Funcs...)
	if initFn := g.Pkg.Func("init"); initFn != nil {
		fns = append(fns, initFn)
	}
	for _, fn := range fns {
		eachInstr(fn, func(in ssa.Instruction) {
			if st, ok := in.(*ssa.Store); ok && st.Addr == ssa.Value(g) {
				n++
				if s, ok := constString(st.Val); ok {
					val = s
				} else {
					n += 100
				}
			}
		})
	}
	return val, n == 1
}

// formatString resolves a format operand built from constants, package-level message variables and `+`.
func formatString(w *World, v ssa.Value, depth int) (string, bool) {
	if depth > 6 {
		return "", false
	}
	if s, ok := constString(v); ok {
		return s, true
	}
	switch x := v.(type) {
	case *ssa.BinOp:
		if x.Op == token.ADD {
			a, ok1 := formatString(w, x.X, depth+1)
			b, ok2 := formatString(w, x.Y, depth+1)
			return a + b, ok1 && ok2
		}
	case *ssa.UnOp:
		if g, ok := x.X.(*ssa.Global); ok && x.Op == token.MUL {
			return globalConstString(w, g)
		}
	}
	return "", false
}

// verbArgs lists, for a printf format, the 1-based argument index every verb consumes (0 for a malformed directive).
// truncatingVerbRe: a string-like verb with a precision (%.32s, %-10.5v): prints at most that many characters.
var truncatingVerbRe = regexp.MustCompile(`%[-+# 0-9\[\]]*\.[0-9*]+[svq]`)

func verbArgs(format string) []int {
	var out []int
	next := 1
	for i := 0; i < len(format); i++ {
		if format[i] != '%' {
			continue
		}
		i++
		if i < len(format) && format[i] == '%' {
			continue
		}
		// flags, width, precision, explicit indexes
		for i < len(format) {
			c := format[i]
			if c == '[' {
				j := strings.IndexByte(format[i:], ']')
				if j < 0 {
					out = append(out, 0)
					return out
				}
				n := 0
				for _, d := range format[i+1 : i+j] {
					if d < '0' || d > '9' {
						n = -1
						break
					}
					n = n*10 + int(d-'0')
				}
				if n <= 0 {
					out = append(out, 0)
					return out
				}
				next = n
				i += j + 1
				continue
			}
			if c == '*' {
				out = append(out, next)
				next++
				i++
				continue
			}
			if strings.IndexByte("+-# 0123456789.", c) >= 0 {
				i++
				continue
			}
			break
		}
		if i >= len(format) {
			out = append(out, 0)
			return out
		}
		out = append(out, next)
		next++
	}
	return out
}

// rMessageFormats: every message built from a message variable prints each of its arguments exactly once, in order.
func rMessageFormats(id string, floor int) func(w *World, r *Report) {
	return func(w *World, r *Report) {
		ru := r.Rule(id, "diagnostics carry what they are given: wherever the library formats a message whose format comes from a package-level message variable (package text) or a constant, the format consumes every argument exactly once and in order (no argument is dropped, repeated or shifted by an explicit index)", floor)
		for _, fn := range w.Funcs {
			for _, c := range allCalls(fn) {
				n := calleeName(c)
				fi := -1
				switch n {
				case "fmt.Errorf", "fmt.Sprintf", "fmt.Printf":
					fi = 0
				case "fmt.Fprintf":
					fi = 1
				}
				if fi < 0 || len(c.Common().Args) < fi+2 {
					continue
				}
				a := c.Common().Args
				format, ok := formatString(w, a[fi], 0)
				if !ok {
					continue
				}
				// only messages that involve a message variable or report an option
				usesVar := false
				p := NewProv(w, fn)
				p.maxDepth = 0
				p.Slice(a[fi])
				for _, s := range p.Srcs {
					if s.Kind == "global" {
						usesVar = true
					}
				}
				if !usesVar {
					continue
				}
				els, spreads, okEls := elementsOf(a[fi+1], map[ssa.Value]bool{})
				if !okEls || len(spreads) > 0 {
					continue
				}
				verbs := verbArgs(format)
				good := len(verbs) == len(els)
				for i, v := range verbs {
					if v != i+1 {
						good = false
					}
				}
				if m := truncatingVerbRe.FindString(format); m != "" {
					ru.Bad("format/precision/"+short(fn), w.IPos(c), fmt.Sprintf("message format %q prints an argument with %s: a long name or value is cut short, and two that share a beginning become indistinguishable in the diagnostic", format, m))
				}
				ru.Check(good, "format/"+short(fn), w.IPos(c), fmt.Sprintf("%q consumes its %d argument(s) once each, in order", format, len(els)), fmt.Sprintf("message format %q does not print its %d argument(s) once each and in order (verbs use arguments %v): part of the diagnostic (e.g. the list of candidates, the offending value) is lost or repeated", format, len(els), verbs))
			}
		}
	}
}

// R15.6 (also R14.8)
func rC15SerialFlag(id string) func(w *World, r *Report) {
	return func(w *World, r *Report) {
		ru := r.Rule(id, "serial mode is what SetSerial says: Graph.serial is written only by SetSerial, which stores true unconditionally (no other setter turns it on or off)", 1)
		f := w.Field("dag", "Graph", "serial")
		if f == nil {
			ru.Undecided("anchor", "-", "field Graph.serial not found")
			return
		}
		n := 0
		for _, u := range w.fieldUses(f) {
			if u.Kind == "read" {
				continue
			}
			if _, fresh := rootOfAddr(u.Addr.X).(*ssa.Alloc); fresh {
				continue // a Graph literal being built
			}
			n++
			st, _ := u.Instr.(*ssa.Store)
			good := st != nil && short(u.Fn) == "(*dag.Graph).SetSerial"
			if good {
				c, isC := st.Val.(*ssa.Const)
				good = isC && c.Value != nil && c.Value.String() == "true" && st.Block() == u.Fn.Blocks[0]
			}
			ru.Check(good, "serial/writer/"+short(u.Fn), w.IPos(u.Instr), "SetSerial: serial = true", "the serial flag is written outside SetSerial (or conditionally): a graph asked to run serially can run tasks concurrently, and cancellation no longer stops queued tasks")
		}
		if n == 0 {
			ru.Bad("serial/writer", "-", "SetSerial does not set the serial flag: serial graphs are scheduled by the concurrency limit alone")
		}
	}
}

// R17.9
func rC17ValidValuesSuggested(w *World, r *Report) {
	ru := r.Rule("R17.9", "what is offered after `--name=` is what the parser accepts: the ValidValues modifier always makes the option's suggested values equal to its (extended) valid values", 1)
	var fn *ssa.Function
	for _, f := range w.Funcs {
		if strings.HasPrefix(short(f), "(*getoptions.GetOpt).ValidValues$") {
			fn = f
		}
	}
	if fn == nil {
		ru.Undecided("anchor", "-", "ValidValues modifier not found")
		return
	}
	n := 0
	eachInstr(fn, func(in ssa.Instruction) {
		_, f, v, ok := storeField(in)
		if !ok || f.Name() != "SuggestedValues" {
			return
		}
		n++
		// the stored value is the option's ValidValues (the value just stored there, or a load of the field)
		fromValid := false
		if _, ok := loadOfFieldNamed(v, "ValidValues"); ok {
			fromValid = true
		}
		eachInstr(fn, func(i2 ssa.Instruction) {
			if _, f2, v2, ok := storeField(i2); ok && f2.Name() == "ValidValues" && v2 == v {
				fromValid = true
			}
		})
		uncond := in.Block() == fn.Blocks[0] || len(factsAt(in.Block())) == 0
		ru.Check(fromValid && uncond, "ValidValues/suggested", w.IPos(in), "SuggestedValues = ValidValues, always", "the suggested values are not (always) replaced by the valid values: completion offers values the parser rejects or hides valid ones")
	})
	if n == 0 {
		ru.Bad("ValidValues/suggested", w.Pos(fn.Pos()), "the ValidValues modifier does not set the suggested values")
	}
}

// R13.9
func rC13RetriesPerVertex(w *World, r *Report) {
	ru := r.Rule("R13.9", "the retry budget belongs to the vertex of one graph: Vertex.Retries is written only by TaskRetries, from its parameter (a new vertex starts with zero; nothing is carried in the shared Task)", 1)
	f := w.Field("dag", "Vertex", "Retries")
	if f == nil {
		ru.Undecided("anchor", "-", "field Vertex.Retries not found")
		return
	}
	n := 0
	for _, u := range w.fieldUses(f) {
		if u.Kind == "read" {
			continue
		}
		n++
		st, _ := u.Instr.(*ssa.Store)
		good := false
		if st != nil {
			if short(u.Fn) == "(*dag.Graph).TaskRetries" {
				_, good = st.Val.(*ssa.Parameter)
			} else if c, isC := st.Val.(*ssa.Const); isC {
				k, ok := constInt(c)
				good = ok && k == 0
			}
		}
		ru.Check(good, "Retries/writer/"+short(u.Fn), w.IPos(u.Instr), "TaskRetries stores its parameter", "a vertex gets a retry count from somewhere other than TaskRetries on this graph (e.g. from the shared Task): a task can be entered more often than this graph allows")
		if st != nil && short(u.Fn) == "(*dag.Graph).TaskRetries" {
			// whatever count is given is stored: the only condition on the store is that the vertex was found
			extra := ""
			for _, fc := range factsAt(st.Block()) {
				onCount := false
				for _, side := range []ssa.Value{fc.X, fc.Y} {
					if side != nil && derivedFrom(side, []ssa.Value{st.Val}, 0) {
						onCount = true
					}
				}
				if onCount && fc.If != nil {
					extra = w.IPos(fc.If)
				}
			}
			ru.Check(extra == "", "Retries/unconditional", w.IPos(st), "stored for every count", "TaskRetries stores the count only under a condition on it (at "+extra+"): some counts (0, negative) are silently ignored and an earlier, larger budget stays in force")
		}
	}
	if n == 0 {
		ru.Bad("Retries/writer", "-", "TaskRetries does not store the retry count")
	}
}

// R18.13
func rC18TableWriters(w *World, r *Report) {
	ru := r.Rule("R18.13", "the options of a level are fixed at definition time: entries are put into a node's ChildOptions table only by AddChildOption and copyOptionsFromParent (never while parsing), so the help option, the help command and Help() all see the same table", 2)
	fCO := w.Field("getoptions", "programTree", "ChildOptions")
	if fCO == nil {
		ru.Undecided("anchor", "-", "field programTree.ChildOptions not found")
		return
	}
	n := 0
	for _, fn := range w.Funcs {
		eachInstr(fn, func(in ssa.Instruction) {
			if c, ok := in.(*ssa.Call); ok && calleeBase(c) == "maps.Copy" && len(c.Call.Args) == 2 {
				// maps.Copy(node.ChildOptions, …): a registration site like the assignment it replaces
				if _, ok := loadOfField(c.Call.Args[0], fCO); ok {
					n++
					name := short(fn)
					good := name == "(*getoptions.programTree).AddChildOption" || name == "getoptions.copyOptionsFromParent"
					ru.Check(good, "table-entry/"+name, w.IPos(c), "definition-time registration", name+" adds entries to a node's option table: what a level offers depends on how it was reached (the help routes disagree)")
				}
				return
			}
			mu, ok := in.(*ssa.MapUpdate)
			if !ok {
				return
			}
			if _, ok := loadOfField(mu.Map, fCO); !ok {
				return
			}
			n++
			name := short(fn)
			good := name == "(*getoptions.programTree).AddChildOption" || name == "getoptions.copyOptionsFromParent"
			ru.Check(good, "table-entry/"+name, w.IPos(mu), "definition-time registration", name+" adds entries to a node's option table: what a level offers depends on how it was reached (the help routes disagree)")
		})
	}
	if n == 0 {
		ru.Bad("table-entry", "-", "no registration of options found")
	}
}

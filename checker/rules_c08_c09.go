package main

// C08 - unknown options are never silently ignored.  C09 - require-order.

import (
	"fmt"
	"go/constant"
	"go/token"
	"go/types"
	"strings"

	"golang.org/x/tools/go/ssa"
)

func init() {
	register("C08", "other", []string{
		"decides: the no-match edge always records the unknown option built from the verbatim token; Pass and Warn both pass the token through; Parse applies the policy (Fail: error naming the first record, Warn: warning to Writer) before its success return; configuration read through the cursor is inherited by every child node; records survive command descent",
		"does not decide the wording of messages",
	}, rC08Record, passThroughRule("R08.1c"), rC08Policy, rInherit("R08.3"), rC08Handoff, rC08NewUnknown, rC08ModeWriters, exactStopsRule("R08.7"), func(w *World, r *Report) {
		subRule(w, r, rC02Lookahead, "R08.8", "an option-looking token is never swallowed as a value, known or not (same obligations as C02 R02.2)", 5)
	})
	register("C09", "other", []string{
		"decides: both stop sites test the cursor's requireOrder before the non-ordered handling and bulk-copy the tail; nothing is interpreted afterwards; requireOrder is read nowhere else (so parsing before the stop point does not depend on it); the flag is inherited by every child node; the positional stop comes after the command scan",
	}, rC09Sites, rC09Helper, rC09Readers, rInherit("R09.4"), rC09AfterBulk, typestateRule("R09.6"), exactStopsRule("R09.7"), rArgsUnmodified("R09.8"))
}

// unknownModeConsts returns the values of Fail, Warn, Pass.
func unknownModeConsts(w *World) (fail, warn, pass int64, ok bool) {
	get := func(n string) (int64, bool) {
		c, isC := w.Obj("getoptions", n).(*types.Const)
		if !isC {
			return 0, false
		}
		return constant.Int64Val(c.Val())
	}
	var o1, o2, o3 bool
	fail, o1 = get("Fail")
	warn, o2 = get("Warn")
	pass, o3 = get("Pass")
	return fail, warn, pass, o1 && o2 && o3
}

// matchLenTest: the tests on the length of the matcher's result, decided over the lengths 0, 1 and "several"
// (sampled as 2, 3, 4) with what the enclosing tests already established: an edge is the "no match" edge when only
// length 0 takes it, the "ambiguous" edge when exactly the lengths above 1 take it. `len(m) != 1` after
// `len(m) > 1` returned is the no-match test as much as `len(m) == 0` is.
func (m *parserModel) matchLenTest(want func(onEdge, other [5]bool) bool) (*ssa.If, int, *ssa.Call) {
	lenOf := func(f Fact) (*ssa.Call, int64, bool) {
		if f.Y == nil {
			return nil, 0, false
		}
		c, ok := f.X.(*ssa.Call)
		if !ok || calleeName(c) != "builtin:len" {
			return nil, 0, false
		}
		mc, ok := c.Call.Args[0].(*ssa.Call)
		if !ok || calleeName(mc) != nMatcher {
			return nil, 0, false
		}
		k, ok := constInt(f.Y)
		return mc, k, ok
	}
	holds := func(op token.Token, n, k int64) bool {
		switch op {
		case token.EQL:
			return n == k
		case token.NEQ:
			return n != k
		case token.LSS:
			return n < k
		case token.LEQ:
			return n <= k
		case token.GTR:
			return n > k
		case token.GEQ:
			return n >= k
		}
		return true
	}
	classes := func(facts []Fact, mc *ssa.Call) (set [5]bool) {
		for n := range set {
			set[n] = true
			for _, f := range facts {
				if c, k, ok := lenOf(f); ok && c == mc && !holds(f.Op, int64(n), k) {
					set[n] = false
				}
			}
		}
		return set
	}
	for _, b := range m.fn.Blocks {
		if len(b.Instrs) == 0 {
			continue
		}
		iff, ok := b.Instrs[len(b.Instrs)-1].(*ssa.If)
		if !ok {
			continue
		}
		var mc *ssa.Call
		for _, f := range condFacts(iff.Cond, true, iff) {
			if c, _, ok := lenOf(f); ok {
				mc = c
			}
		}
		if mc == nil {
			for _, f := range condFacts(iff.Cond, false, iff) {
				if c, _, ok := lenOf(f); ok {
					mc = c
				}
			}
		}
		if mc == nil {
			continue
		}
		at := factsAt(b)
		var sets [2][5]bool
		for k := 0; k < 2; k++ {
			sets[k] = classes(append(append([]Fact{}, at...), condFacts(iff.Cond, k == 0, iff)...), mc)
		}
		if m.lenSets != nil {
			m.lenSets[iff] = sets
		}
		for k := 0; k < 2; k++ {
			if want(sets[k], sets[1-k]) {
				return iff, k, mc
			}
		}
	}
	return nil, 0, nil
}

// noMatchIf finds the test that singles out `len(matches) == 0` on the matcher's result in the parser and the successor
// index of its "no match" edge.
func (m *parserModel) noMatchIf() (*ssa.If, int, *ssa.Call) {
	return m.matchLenTest(func(on, other [5]bool) bool {
		return on == [5]bool{true, false, false, false, false} && !other[0]
	})
}

// isUnknownAppend: in is `cursor.UnknownOptions = append(cursor.UnknownOptions, rec)` with rec a newUnknownCLIOption result.
func (m *parserModel) isUnknownAppend(in ssa.Instruction) (*ssa.Call, bool) {
	base, f, val, ok := storeField(in)
	if !ok || f != m.fUnknownOptions || !isTreePtr(base.Type()) {
		return nil, false
	}
	first, rest, ok := isAppendOf(val, f)
	if !ok {
		return nil, false
	}
	if b2, ok := loadOfField(first, f); !ok || b2 != base {
		return nil, false
	}
	for _, r := range rest {
		els, _, _ := elementsOf(r, map[ssa.Value]bool{})
		for _, e := range els {
			if c, ok := e.(*ssa.Call); ok && calleeName(c) == nNewUnknown {
				return c, true
			}
		}
	}
	return nil, false
}

// stringArgs: the arguments of a call whose type is string, in order.
func stringArgs(c *ssa.Call) []ssa.Value {
	var out []ssa.Value
	for _, a := range c.Call.Args {
		if typeString(a.Type()) == "string" {
			out = append(out, a)
		}
	}
	return out
}

// verifiedOnceFlags: variables (phis of constants: a bool, or an enumeration) that leave their initial value only
// after a verbatim ChildText append executed for the current token. The map gives the initial value (false / the
// constant the append is guarded by).
func (m *parserModel) verifiedOnceFlags() map[*ssa.Phi]constant.Value {
	out := map[*ssa.Phi]constant.Value{}
	cache := map[*ssa.Function]*helperSum{}
	eachInstr(m.fn, func(in ssa.Instruction) {
		d, _ := m.basicDisposition(in, cache)
		if _, isStore := in.(*ssa.Store); !d || !isStore {
			return
		}
		for _, f := range factsAt(in.Block()) {
			// the append is guarded by "flag still has its initial value": !flag, flag == init
			var phi *ssa.Phi
			var init constant.Value
			switch {
			case f.Op == token.ILLEGAL && !f.Truth:
				phi, _ = f.X.(*ssa.Phi)
				init = constant.MakeBool(false)
			case f.Op == token.EQL && f.Y != nil:
				x, y := f.X, f.Y
				if _, isC := x.(*ssa.Const); isC {
					x, y = y, x
				}
				if c, isC := y.(*ssa.Const); isC && c.Value != nil {
					phi, _ = x.(*ssa.Phi)
					init = c.Value
				}
			}
			if phi == nil || init == nil {
				continue
			}
			good := true
			sawOther := false
			// the flag's values, looked at through the merges between the place it is set and the loop header
			var walk func(ph *ssa.Phi, seen map[*ssa.Phi]bool)
			walk = func(ph *ssa.Phi, seen map[*ssa.Phi]bool) {
				if seen[ph] {
					return
				}
				seen[ph] = true
				for i, e := range ph.Edges {
					if e == ssa.Value(phi) {
						continue
					}
					if inner, isPhi := e.(*ssa.Phi); isPhi {
						walk(inner, seen)
						continue
					}
					c, ok := e.(*ssa.Const)
					if !ok || c.Value == nil || c.Value.Kind() != init.Kind() {
						good = false
						continue
					}
					if !constant.Compare(c.Value, token.EQL, init) {
						sawOther = true
						// the edge must come from a block dominated by the append's block, after the append
						pred := ph.Block().Preds[i]
						if !in.Block().Dominates(pred) {
							good = false
						}
					}
				}
			}
			walk(phi, map[*ssa.Phi]bool{})
			if good && sawOther {
				out[phi] = init
			}
		}
	})
	return out
}

// onceFlagSet: the fact says that a verified once-flag has left its initial value.
func onceFlagSet(f Fact, flags map[*ssa.Phi]constant.Value) bool {
	switch {
	case f.Op == token.ILLEGAL && f.Truth:
		if phi, ok := f.X.(*ssa.Phi); ok {
			if init, ok := flags[phi]; ok && init.Kind() == constant.Bool {
				return true
			}
		}
	case (f.Op == token.EQL || f.Op == token.NEQ) && f.Y != nil:
		x, y := f.X, f.Y
		if _, isC := x.(*ssa.Const); isC {
			x, y = y, x
		}
		phi, ok1 := x.(*ssa.Phi)
		c, ok2 := y.(*ssa.Const)
		if !ok1 || !ok2 || c.Value == nil {
			return false
		}
		init, ok := flags[phi]
		if !ok || init.Kind() != c.Value.Kind() {
			return false
		}
		same := constant.Compare(c.Value, token.EQL, init)
		return (f.Op == token.NEQ && same) || (f.Op == token.EQL && !same)
	}
	return false
}

// R08.1
func rC08Record(w *World, r *Report) {
	ru := r.Rule("R08.1", "on the no-match edge (no require-order) every path records the unknown option, built from the verbatim token, in UnknownOptions; with unknown mode Pass or Warn the record carries the typed name and the verbatim token", 2)
	m := parserOrFail(w, ru)
	if m == nil {
		return
	}
	iff, k, _ := m.noMatchIf()
	if iff == nil {
		ru.Undecided("no-match-test", w.Pos(m.fn.Pos()), "test len(matches) == 0 on the matcher result not found")
		return
	}
	starts := m.ig.edgeStart(iff.Block(), k)
	pl := m.pairLoop()
	cache := map[*ssa.Function]*helperSum{}
	isTarget := func(in ssa.Instruction) bool {
		if in == ssa.Instruction(m.mainNext) {
			return true
		}
		if pl != nil && len(pl.header.Instrs) > 0 && in == pl.header.Instrs[0] {
			return true
		}
		if ret, ok := in.(*ssa.Return); ok {
			return isNilConst(ret.Results[len(ret.Results)-1])
		}
		return false
	}
	// (a) always recorded (or require-order stop)
	via := func(in ssa.Instruction) bool {
		if _, ok := m.isUnknownAppend(in); ok {
			return true
		}
		if d, ex := m.basicDisposition(in, cache); d && ex {
			return true // require-order bulk copy
		}
		return false
	}
	ok, wit := m.ig.mustPass(starts, via, isTarget)
	if ok {
		ru.OK("no-match/recorded", w.IPos(iff), "every path from the no-match edge records the option in UnknownOptions (or stops under require-order)")
	} else {
		ru.Bad("no-match/recorded", w.IPos(wit), "a path from the no-match edge reaches the next pair/token without recording the unknown option: it would be silently ignored")
	}
	// (b) the record carries the verbatim token and the typed name
	n := 0
	eachInstr(m.fn, func(in ssa.Instruction) {
		c, ok := m.isUnknownAppend(in)
		if !ok {
			return
		}
		n++
		// (name, verbatim): the first two string arguments (an unused node parameter may have been dropped)
		args := append([]ssa.Value{nil}, stringArgs(c)...)
		good := len(args) >= 3
		why := ""
		if good {
			if vc, ok := args[2].(*ssa.Call); !ok || !m.iterCall(vc, nIterValue) {
				good = false
				why = "verbatim argument is not iterator.Value()"
			}
			p := NewProv(w, m.fn)
			p.Slice(args[1])
			if b := p.BadOps(func(k string, in ssa.Instruction) bool { return k == "strslice" && sepSliceOK(w, in) }); len(b) > 0 && !onlySplitterOps(b) {
				good = false
				why += " name argument transformed: " + strings.Join(b, ",")
			}
		}
		if good {
			ru.OK("no-match/record-verbatim", w.IPos(c), "record = newUnknownCLIOption(cursor, pair.Option, iterator.Value(), pair.Args...)")
		} else {
			ru.Bad("no-match/record-verbatim", w.IPos(c), "unknown record is not built from the verbatim token: "+why)
		}
	})
	if n == 0 {
		ru.Bad("no-match/record-verbatim", w.IPos(iff), "no UnknownOptions append found")
	}
}

// passThroughRule (R08.1c / R03.7): with unknown mode Pass or Warn the token of an unknown option stays in the remaining list.
func passThroughRule(id string) func(w *World, r *Report) {
	return func(w *World, r *Report) {
		ru := r.Rule(id, "with unknown mode Pass or Warn every path from the no-match edge (no require-order) appends the token verbatim to ChildText before the next token is taken (once per token)", 2)
		m := parserOrFail(w, ru)
		if m == nil {
			return
		}
		iff, k, _ := m.noMatchIf()
		if iff == nil {
			ru.Undecided("no-match-test", w.Pos(m.fn.Pos()), "test len(matches) == 0 on the matcher result not found")
			return
		}
		starts := m.ig.edgeStart(iff.Block(), k)
		cache := map[*ssa.Function]*helperSum{}
		isTarget := func(in ssa.Instruction) bool {
			if in == ssa.Instruction(m.mainNext) {
				return true
			}
			if ret, ok := in.(*ssa.Return); ok {
				return isNilConst(ret.Results[len(ret.Results)-1])
			}
			return false
		}
		// (c) Pass and Warn pass the token through
		_, warn, pass, okc := unknownModeConsts(w)
		if !okc {
			ru.Undecided("unknown-mode-consts", "-", "constants Fail/Warn/Pass not found")
			return
		}
		flags := m.verifiedOnceFlags()
		for _, mc := range []struct {
			name string
			val  int64
		}{{"Warn", warn}, {"Pass", pass}} {
			edgeOK := func(term ssa.Instruction, k int, env boolEnv) bool {
				t, ok := term.(*ssa.If)
				if !ok {
					return true
				}
				for _, f := range condFacts(t.Cond, k == 0, t) {
					if f.Y != nil {
						if _, isMode := loadOfField(f.X, m.fUnknownMode); isMode {
							if c, ok := constInt(f.Y); ok {
								if f.Op == token.EQL && c != mc.val {
									return false
								}
								if f.Op == token.NEQ && c == mc.val {
									return false
								}
							}
						}
					}
					// once-flag already set: the token was appended earlier for this token
					if onceFlagSet(f, flags) {
						return false
					}
					// require-order stop handled by (a)
					if f.Op == token.ILLEGAL && f.Truth {
						if _, isRO := loadOfField(f.X, m.fRequireOrder); isRO {
							return false
						}
					}
				}
				return true
			}
			isAppend := func(in ssa.Instruction) bool {
				if _, isStore := in.(*ssa.Store); !isStore {
					return false
				}
				d, _ := m.basicDisposition(in, cache)
				return d
			}
			seen := m.ig.reachPS(starts, isAppend, edgeOK)
			var wit ssa.Instruction
			for i, s := range seen {
				if s && isTarget(m.ig.instrs[i]) && !isAppend(m.ig.instrs[i]) {
					wit = m.ig.instrs[i]
				}
			}
			if wit == nil {
				ru.OK("no-match/pass-through/"+mc.name, w.IPos(iff), "with unknown mode "+mc.name+" every path appends the token verbatim to ChildText (or it was already appended for this token)")
			} else {
				ru.Bad("no-match/pass-through/"+mc.name, w.IPos(wit), "with unknown mode "+mc.name+" a path reaches the next token without the token being kept in the remaining list")
			}
		}
	}
}

func onlySplitterOps(bad []string) bool {
	for _, b := range bad {
		ok := false
		for _, allowed := range []string{"call:(*regexp.Regexp).FindStringSubmatch", "call:strings.Split", "convert:string->[]rune", "convert:rune->string", "convert:[]rune->string", "call:strings.TrimPrefix", "call:strings.CutPrefix", "binop:+", "call:" + nIterValue, "call:" + nIterPeek} {
			if strings.HasPrefix(b, allowed+" ") {
				ok = true
			}
		}
		if !ok {
			return false
		}
	}
	return true
}

// R08.2
func rC08Policy(w *World, r *Report) {
	ru := r.Rule("R08.2", "Parse walks the final node's UnknownOptions in encounter order before its success return: mode Fail returns a non-nil error naming the record, mode Warn writes a warning naming it to Writer", 3)
	fn := w.Fn(nParse)
	if fn == nil {
		ru.Undecided("anchor", "-", "Parse not found")
		return
	}
	fUnk := w.Field("getoptions", "programTree", "UnknownOptions")
	fMode := w.Field("getoptions", "programTree", "unknownMode")
	fail, warn, _, okc := unknownModeConsts(w)
	if !okc {
		ru.Undecided("unknown-mode-consts", "-", "constants not found")
		return
	}
	var header *ssa.BasicBlock
	for _, b := range fn.Blocks {
		if coll := rangeCollectionOfHeader(b); coll != nil {
			if _, ok := loadOfField(coll, fUnk); ok {
				header = b
			}
		}
	}
	if header == nil {
		ru.Bad("policy-loop", w.Pos(fn.Pos()), "no forward range loop over the node's UnknownOptions in Parse: unknown options are not acted upon")
		return
	}
	ig := buildIG(fn)
	// success return must pass through the loop header
	isHdr := func(in ssa.Instruction) bool { return in.Block() == header }
	isSucc := func(in ssa.Instruction) bool {
		ret, ok := in.(*ssa.Return)
		if !ok || len(ret.Results) != 2 {
			return false
		}
		return isNilConst(ret.Results[1]) && !isNilConst(ret.Results[0])
	}
	if ok, wit := ig.mustPass([]int{0}, isHdr, isSucc); ok {
		ru.OK("policy-loop/before-success", w.IPos(header.Instrs[0]), "every success return of Parse passes the unknown-option policy loop")
	} else {
		ru.Bad("policy-loop/before-success", w.IPos(wit), "a success return of Parse bypasses the unknown-option policy loop")
	}
	// arms
	var failArm, warnArm bool
	for _, b := range fn.Blocks {
		if !header.Dominates(b) || len(b.Instrs) == 0 {
			continue
		}
		iff, ok := b.Instrs[len(b.Instrs)-1].(*ssa.If)
		if !ok {
			continue
		}
		for _, f := range condFacts(iff.Cond, true, iff) {
			if f.Y == nil || f.Op != token.EQL {
				continue
			}
			if _, isMode := loadOfField(f.X, fMode); !isMode {
				continue
			}
			c, _ := constInt(f.Y)
			starts := ig.edgeStart(b, 0)
			stopAtHdr := func(in ssa.Instruction) bool { return in.Block() == header }
			seen := ig.reachFrom(starts, stopAtHdr)
			switch c {
			case fail:
				// every path on this edge returns a non-nil error built from the record's Name
				good := true
				hasRet := false
				for i, s := range seen {
					if !s {
						continue
					}
					in := ig.instrs[i]
					if in.Block() == header {
						good = false
					}
					if ret, ok := in.(*ssa.Return); ok {
						hasRet = true
						if isNilConst(ret.Results[1]) {
							good = false
						} else if !mentionsField(w, fn, ret.Results[1], "Name") {
							good = false
						}
					}
				}
				if good && hasRet {
					failArm = true
					ru.OK("policy/Fail", w.IPos(iff), "Fail: returns an error built from the record's Name")
				} else {
					ru.Bad("policy/Fail", w.IPos(iff), "Fail arm does not always return an error naming the unknown option")
				}
			case warn:
				good := false
				for i, s := range seen {
					if !s {
						continue
					}
					if c, ok := ig.instrs[i].(*ssa.Call); ok && (calleeName(c) == "fmt.Fprintf" || calleeName(c) == "fmt.Fprintln" || calleeName(c) == "fmt.Fprint") {
						if isLoadOfGlobal(c.Call.Args[0], "getoptions.Writer") && mentionsFieldArgs(w, fn, c, "Name") {
							good = true
						}
					}
				}
				if good {
					warnArm = true
					ru.OK("policy/Warn", w.IPos(iff), "Warn: writes a warning built from the record's Name to Writer")
				} else {
					ru.Bad("policy/Warn", w.IPos(iff), "Warn arm does not write a warning naming the option to Writer")
				}
			}
		}
	}
	if !failArm {
		ru.Bad("policy/Fail-arm", w.IPos(header.Instrs[0]), "no Fail arm found in the policy loop")
	}
	if !warnArm {
		ru.Bad("policy/Warn-arm", w.IPos(header.Instrs[0]), "no Warn arm found in the policy loop")
	}
}

func isLoadOfGlobal(v ssa.Value, name string) bool {
	// possibly wrapped in interface conversions
	for {
		switch x := v.(type) {
		case *ssa.ChangeInterface:
			v = x.X
			continue
		case *ssa.MakeInterface:
			v = x.X
			continue
		}
		break
	}
	// a destination that defaults to the global: a merge whose operands are the global and fields that the
	// reference tree does not have (a per-node writer set by a new setter, nil unless the program uses it)
	if phi, isPhi := v.(*ssa.Phi); isPhi {
		hasGlobal := false
		for _, leaf := range phiLeaves(phi, map[ssa.Value]bool{}) {
			switch {
			case isLoadOfGlobal(leaf, name):
				hasGlobal = true
			default:
				ld, ok := leaf.(*ssa.UnOp)
				if !ok || ld.Op != token.MUL {
					return false
				}
				fa, ok := ld.X.(*ssa.FieldAddr)
				if !ok || isBaselineField(fieldOfAddr(fa)) {
					return false
				}
			}
		}
		return hasGlobal
	}
	u, ok := v.(*ssa.UnOp)
	if !ok || u.Op != token.MUL {
		return false
	}
	g, ok := u.X.(*ssa.Global)
	return ok && shortName(g.String()) == name
}

// mentionsField: the provenance of v includes a load of a field with that name.
func mentionsField(w *World, fn *ssa.Function, v ssa.Value, field string) bool {
	p := NewProv(w, fn)
	p.Slice(v)
	for _, s := range p.Srcs {
		if s.Kind == "field" && s.Field != nil && s.Field.Name() == field {
			return true
		}
	}
	return false
}

func mentionsFieldArgs(w *World, fn *ssa.Function, c *ssa.Call, field string) bool {
	for _, a := range c.Call.Args {
		if mentionsField(w, fn, a, field) {
			return true
		}
	}
	return false
}

// rInherit (R08.3 / R09.4): every configuration field read through the cursor in the parser is copied from the parent
// in every composite literal that creates a child programTree.
func rInherit(id string) func(w *World, r *Report) {
	return func(w *World, r *Report) {
		ru := r.Rule(id, "every configuration field the parser reads through the cursor (discovered: unknownMode, requireOrder) is copied from the parent in every literal that creates a child programTree (a node with a Parent)", 4)
		m := parserOrFail(w, ru)
		if m == nil {
			return
		}
		// discover configuration fields: scalar fields loaded through the cursor
		cfgFields := map[*types.Var]bool{}
		eachInstr(m.fn, func(in ssa.Instruction) {
			fa, ok := in.(*ssa.FieldAddr)
			if !ok || !isTreePtr(fa.X.Type()) {
				return
			}
			f := fieldOfAddr(fa)
			switch f.Type().Underlying().(type) {
			case *types.Basic:
				if _, isParam := fa.X.(*ssa.Parameter); isParam {
					return // read from the root only (mapKeysToLower)
				}
				// only reads
				for _, ref := range *fa.Referrers() {
					if u, ok := ref.(*ssa.UnOp); ok && u.Op == token.MUL && isBaselineField(f) && !loggedOnly(u) {
						cfgFields[f] = true
					}
				}
			}
		})
		if len(cfgFields) == 0 {
			ru.Undecided("config-fields", w.Pos(m.fn.Pos()), "no configuration field read through the cursor")
			return
		}
		fParent := w.Field("getoptions", "programTree", "Parent")
		lits := 0
		for _, fn := range w.Funcs {
			eachInstr(fn, func(in ssa.Instruction) {
				a, ok := in.(*ssa.Alloc)
				if !ok || typeString(a.Type()) != "*getoptions.programTree" {
					return
				}
				stores := map[*types.Var]ssa.Value{}
				for _, f2 := range funcsWithAnon(fn) {
					eachInstr(f2, func(in2 ssa.Instruction) {
						if base, f, v, ok := storeField(in2); ok && base == ssa.Value(a) {
							stores[f] = v
						}
					})
				}
				parent, hasParent := stores[fParent]
				if !hasParent || isNilConst(parent) {
					return // a root node
				}
				lits++
				for f := range cfgFields {
					key := short(fn) + "/child-literal/" + f.Name()
					v, ok := stores[f]
					if !ok {
						ru.Bad(key, w.IPos(a), "child node literal does not inherit "+f.Name()+" from its parent: the child would parse with the zero value")
						continue
					}
					base, ok := loadOfField(v, f)
					if ok && sameVal(base, parent) {
						ru.OK(key, w.IPos(a), f.Name()+" copied from the parent node")
					} else {
						ru.Bad(key, w.IPos(a), f.Name()+" is set from something other than the parent's value: "+v.String())
					}
				}
			})
		}
		if lits == 0 {
			ru.Undecided("child-literals", "-", "no child programTree literal found")
		}
	}
}

// R08.4
func rC08Handoff(w *World, r *Report) {
	ru := r.Rule("R08.4", "unknown-option records collected before a command name are carried into the command's node when the cursor moves", 1)
	m := parserOrFail(w, ru)
	if m == nil {
		return
	}
	handoff(w, ru, m, "C08")
}

// R08.5: the record constructor keeps name and verbatim text.
func rC08NewUnknown(w *World, r *Report) {
	ru := r.Rule("R08.5", "newUnknownCLIOption stores its name parameter as the record's Name (through option.New) and its verbatim parameter as Verbatim, unmodified", 2)
	fn := w.Fn(nNewUnknown)
	if fn == nil {
		ru.Undecided("anchor", "-", "newUnknownCLIOption not found")
		return
	}
	var pName, pVerb *ssa.Parameter
	for _, p := range fn.Params {
		switch p.Name() {
		case "name":
			pName = p
		case "verbatim":
			pVerb = p
		}
	}
	okName := false
	for _, c := range callsTo(fn, "option.New") {
		if pName != nil && c.Common().Args[0] == ssa.Value(pName) {
			okName = true
		}
	}
	ru.Check(okName, "name", w.Pos(fn.Pos()), "option.New(name, …) with the name parameter", "record is not created with the name parameter")
	okVerb := false
	eachInstr(fn, func(in ssa.Instruction) {
		if _, f, v, ok := storeField(in); ok && f.Name() == "Verbatim" && pVerb != nil && v == ssa.Value(pVerb) {
			okVerb = true
		}
	})
	ru.Check(okVerb, "verbatim", w.Pos(fn.Pos()), "Verbatim = verbatim parameter", "Verbatim is not the unmodified parameter")
	// option.New stores name as Name
	if on := w.Fn("option.New"); on != nil {
		good := false
		eachInstr(on, func(in ssa.Instruction) {
			if _, f, v, ok := storeField(in); ok && f.Name() == "Name" {
				if p, ok := v.(*ssa.Parameter); ok && p == on.Params[0] {
					good = true
				}
			}
		})
		ru.Check(good, "option.New/Name", w.Pos(on.Pos()), "Name = name parameter", "option.New does not store its name parameter as Name")
	}
}

// ------------------------------------------------------------------ C09

// R09.1
func rC09Sites(w *World, r *Report) {
	ru := r.Rule("R09.1", "require-order stop sites: each bulk copy outside the terminator edge is dominated by the true edge of the cursor's requireOrder test and comes after the matcher found nothing (option-looking token) or after the command scan (plain token); the non-ordered handling (unknown record, positional append) is dominated by the false edge", 5)
	m := parserOrFail(w, ru)
	if m == nil {
		return
	}
	region := m.termRegion()
	cache := map[*ssa.Function]*helperSum{}
	isRO := func(f Fact, truth bool) bool {
		if f.Op != token.ILLEGAL || f.Truth != truth {
			return false
		}
		base, ok := loadOfField(f.X, m.fRequireOrder)
		return ok && isTreePtr(base.Type())
	}
	nmIf, nmK, _ := m.noMatchIf()
	sites := 0
	for _, e := range m.effects() {
		b := e.Instr.Block()
		facts := factsAt(b)
		switch {
		case e.Kind == effHelper:
			if region[m.ig.idx[e.Instr]] && m.termIf != nil && !edgeDominates(m.termIf.Block(), 1-m.termTrue, b) {
				continue
			}
			sites++
			under := false
			for _, f := range facts {
				if isRO(f, true) {
					under = true
				}
			}
			if !under {
				ru.Bad("stop-site/guard", w.IPos(e.Instr), "bulk copy not guarded by the cursor's requireOrder: parsing would stop without require-order being set")
				continue
			}
			// placement
			if nmIf != nil && edgeDominates(nmIf.Block(), nmK, b) {
				ru.OK("stop-site/unknown-option", w.IPos(e.Instr), "stop at the first option-looking token that matches nothing, under requireOrder")
			} else {
				// after the command scan: every path from the loop head passes the range over ChildCommands
				isScan := m.isCommandScan
				seen := m.ig.reachFromE(m.ig.after(m.mainNext), isScan, m.normalEdgeOK)
				if seen[m.ig.idx[e.Instr]] {
					ru.Bad("stop-site/positional", w.IPos(e.Instr), "require-order stop for a plain token can happen before the command scan: a subcommand name would stop the parse")
				} else {
					ru.OK("stop-site/positional", w.IPos(e.Instr), "stop at the first plain token that is not a command name, under requireOrder, after the command scan")
				}
			}
		case e.Kind == effNewUnknown, e.Kind == effTreeStore && (e.Field == m.fUnknownOptions || e.Field == m.fChildText):
			if !m.mainNext.Block().Dominates(b) || m.inCompletionOnly(b) {
				continue
			}
			if e.Kind == effTreeStore {
				// carry-over at the cursor move is not token handling
				if base, _, _, _ := storeField(e.Instr); base != ssa.Value(m.cursorPhi) {
					continue
				}
				if e.Field == m.fChildText {
					if d, _ := m.basicDisposition(e.Instr, cache); !d {
						continue
					}
				}
			}
			notRO := false
			for _, f := range facts {
				if isRO(f, false) {
					notRO = true
				}
			}
			key := "non-ordered-handling/" + e.Kind
			if e.Field != nil {
				key += "/" + e.Field.Name()
			}
			if notRO {
				ru.OK(key, w.IPos(e.Instr), "only reached when requireOrder is false")
			} else {
				ru.Bad(key, w.IPos(e.Instr), "non-ordered handling of an unmatched token is not excluded under require-order: the parse would continue past the stop point")
			}
		}
	}
	if sites < 2 {
		ru.Bad("stop-sites", w.Pos(m.fn.Pos()), fmt.Sprintf("%d require-order stop site(s) found, expected one for unmatched options and one for plain tokens", sites))
	}
}

// R09.2
func rC09Helper(w *World, r *Report) {
	ru := r.Rule("R09.2", "bulk-copy helper summary: copies the current and every following token verbatim, in order, and returns only when the iterator is drained", 1)
	h := w.Fn(nStoreRest)
	if h == nil {
		ru.Undecided("anchor", "-", "storeRemainingAsText not found")
		return
	}
	s := w.helperSummary(h, map[*ssa.Function]*helperSum{})
	if s.disposes && s.exhausts {
		ru.OK("storeRemainingAsText", w.Pos(h.Pos()), "typestate on the helper body: entry token and every token advanced to are appended verbatim; every return is on the Next()==false edge")
	} else {
		ru.Bad("storeRemainingAsText", w.Pos(h.Pos()), fmt.Sprintf("disposes=%v exhausts=%v %s", s.disposes, s.exhausts, s.why))
	}
}

// R09.3
func rC09Readers(w *World, r *Report) {
	ru := r.Rule("R09.3", "non-interference: requireOrder is read only by the parser's stop tests (feeding nothing but a branch) and by the inheritance copy; written only by SetRequireOrder and the child-node literals", 3)
	f := w.Field("getoptions", "programTree", "requireOrder")
	if f == nil {
		ru.Undecided("anchor", "-", "field requireOrder not found")
		return
	}
	for _, u := range w.fieldUses(f) {
		n := short(u.Fn)
		switch u.Kind {
		case "read":
			ld, _ := u.Instr.(ssa.Value)
			onlyBranch := ld != nil
			inherit := false
			if ld != nil && ld.Referrers() != nil {
				for _, ref := range *ld.Referrers() {
					switch x := ref.(type) {
					case *ssa.If:
					case *ssa.DebugRef:
					case *ssa.MakeInterface:
						if !onlyLogged(x) { // an operand of a debug Logger line says nothing to the parse
							onlyBranch = false
						}
					case *ssa.Store:
						if _, f2, _, ok := storeField(x); ok && f2 == f {
							inherit = true
						} else {
							onlyBranch = false
						}
					default:
						onlyBranch = false
					}
				}
			}
			switch {
			case n == nParseCLI && onlyBranch && !inherit:
				ru.OK("reader/"+n, w.IPos(u.Instr), "read feeds only a branch in the parser")
			case inherit && onlyBranch:
				ru.OK("reader/"+n, w.IPos(u.Instr), "inheritance copy into a child node")
			default:
				ru.Bad("reader/"+n, w.IPos(u.Instr), "requireOrder is read outside the stop tests / inheritance copy (or its value flows into a computation): parsing before the stop point may depend on it")
			}
		case "write":
			// the setter on the receiver's own node, or the initialisation of a node that is being created (a fresh
			// literal inheriting from its parent); an existing node is never rewritten
			_, fresh := rootOfAddr(u.Addr.X).(*ssa.Alloc)
			switch {
			case n == "(*getoptions.GetOpt).SetRequireOrder":
				ru.Present("writer/"+n, w.IPos(u.Instr), "expected writer")
			case fresh:
				ru.Present("writer/"+n, w.IPos(u.Instr), "expected writer: initialisation of the node being created")
			case n == "(*getoptions.GetOpt).NewCommand" || strings.HasPrefix(n, "(*getoptions.GetOpt).HelpCommand"):
				ru.Bad("writer/"+n, w.IPos(u.Instr), "requireOrder of an existing node is rewritten: a command's own SetRequireOrder (or its absence) is overridden")
			default:
				ru.Bad("writer/"+n, w.IPos(u.Instr), "unexpected writer of requireOrder")
			}
		default:
			ru.Bad("escape/"+n, w.IPos(u.Instr), "address of requireOrder escapes")
		}
	}
}

// R09.5 = R04.4
func rC09AfterBulk(w *World, r *Report) {
	ru := r.Rule("R09.5", "after every bulk copy of the tail no interpretation effect is reachable: no option after the stop point is set or marked called", 3)
	m := parserOrFail(w, ru)
	if m == nil {
		return
	}
	afterBulk(w, ru, m)
}

// R08.6
func rC08ModeWriters(w *World, r *Report) {
	ru := r.Rule("R08.6", "the unknown mode of a node is written only by SetUnknownMode (with the value it is given) and by the inheritance copy in the child-node literals; Parse and the parser read it only to branch", 3)
	f := w.Field("getoptions", "programTree", "unknownMode")
	if f == nil {
		ru.Undecided("anchor", "-", "field unknownMode not found")
		return
	}
	for _, u := range w.fieldUses(f) {
		n := short(u.Fn)
		switch u.Kind {
		case "write":
			st := u.Instr.(*ssa.Store)
			_, isParam := st.Val.(*ssa.Parameter)
			_, isInherit := loadOfField(st.Val, f)
			switch {
			case n == "(*getoptions.GetOpt).SetUnknownMode" && isParam:
				ru.Present("writer/"+n, w.IPos(st), "setter stores the given mode")
			case isInherit:
				if _, isAlloc := u.Addr.X.(*ssa.Alloc); isAlloc {
					ru.Present("writer/"+n, w.IPos(st), "inheritance copy into a new node")
				} else {
					ru.Bad("writer/"+n, w.IPos(st), "the unknown mode of an existing node is overwritten")
				}
			default:
				ru.Bad("writer/"+n, w.IPos(st), "the unknown mode is changed behind the user's back (e.g. Fail silently turned into Pass): unknown options would no longer be reported")
			}
		case "read":
			if n != nParseCLI && n != nParse && n != "(*getoptions.GetOpt).NewCommand" && !strings.HasPrefix(n, "(*getoptions.GetOpt).HelpCommand") {
				// anywhere else only the inheritance copy into a node that is being created
				inheritOnly := false
				if ld, ok := u.Instr.(ssa.Value); ok && ld.Referrers() != nil {
					inheritOnly = true
					for _, ref := range *ld.Referrers() {
						switch x := ref.(type) {
						case *ssa.DebugRef:
						case *ssa.Store:
							base, f2, _, okS := storeField(x)
							_, fresh := base.(*ssa.Alloc)
							if !okS || f2 != f || !fresh {
								inheritOnly = false
							}
						default:
							inheritOnly = false
						}
					}
				}
				if !inheritOnly {
					ru.Bad("reader/"+n, w.IPos(u.Instr), "unexpected reader of the unknown mode")
				}
			}
		default:
			ru.Bad("escape/"+n, w.IPos(u.Instr), "address of unknownMode escapes")
		}
	}
}

// loggedOnly: the value is used for nothing but debug Logger lines (every referrer boxes it for a Logger call).
func loggedOnly(v ssa.Value) bool {
	refs := v.Referrers()
	if refs == nil {
		return false
	}
	n := 0
	for _, r := range *refs {
		switch x := r.(type) {
		case *ssa.DebugRef:
		case *ssa.MakeInterface:
			if !onlyLogged(x) {
				return false
			}
			n++
		default:
			return false
		}
	}
	return n > 0
}

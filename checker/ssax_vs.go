package main

// ssax_vs.go - value-sensitive reachability. The instruction-graph searches (reachFrom, reachFromE and everything
// built on them) prune branch edges that contradict what the path itself established about a value: the outcome of
// an earlier test of the same value, or the operand a phi took on the edge by which its block was entered (a nil or
// boolean constant, an evidently non-nil value such as the result of fmt.Errorf). Only infeasible paths are pruned,
// so every "on all paths" / "no path" argument made over the pruned graph holds for the program. This is what lets
// code of the form `r = nil | errors.New(..)` ... `if r != nil { return r }` (the shape a helper takes once it is
// inlined, and a common hand-written idiom) be analysed as precisely as the straight-line version.
//
// Facts are kept only for values that can matter later (phis, operands of phis, values tested more than once);
// a fact about a value is dropped when the path executes the instruction that defines it again (loops). The search
// falls back to plain reachability (a superset of paths: still sound) if the state budget is exhausted.

import (
	"go/token"
	"go/types"
	"sort"
	"strconv"
	"strings"

	"golang.org/x/tools/go/ssa"
)

type triEnv map[ssa.Value]int8 // 1 = false / nil, 2 = true / non-nil

func (e triEnv) key() string {
	if len(e) == 0 {
		return ""
	}
	ks := make([]string, 0, len(e))
	for v, t := range e {
		if t != 0 {
			ks = append(ks, v.Name()+"="+strconv.Itoa(int(t)))
		}
	}
	sort.Strings(ks)
	return strings.Join(ks, ",")
}

func isNilable(v ssa.Value) bool {
	switch v.Type().Underlying().(type) {
	case *types.Pointer, *types.Slice, *types.Map, *types.Chan, *types.Signature, *types.Interface:
		return true
	}
	return false
}

// evalTri evaluates a boolean value (1 false, 2 true) or the nil-ness of a nilable value (1 nil, 2 non-nil); 0 = unknown.
func evalTri(v ssa.Value, env triEnv) int8 {
	if t, ok := env[v]; ok && t != 0 {
		return t
	}
	switch x := v.(type) {
	case *ssa.Const:
		if x.Value == nil {
			if isNilable(x) {
				return 1
			}
			return 0
		}
		switch x.Value.String() {
		case "true":
			return 2
		case "false":
			return 1
		}
	case *ssa.UnOp:
		if x.Op == token.NOT {
			switch evalTri(x.X, env) {
			case 1:
				return 2
			case 2:
				return 1
			}
		}
	case *ssa.BinOp:
		if x.Op == token.EQL || x.Op == token.NEQ {
			var o ssa.Value
			if isNilConst(x.Y) {
				o = x.X
			} else if isNilConst(x.X) {
				o = x.Y
			}
			if o != nil {
				t := evalTri(o, env)
				if t == 0 {
					return 0
				}
				isNil := t == 1
				if x.Op == token.EQL == isNil {
					return 2
				}
				return 1
			}
		}
	case *ssa.MakeInterface, *ssa.Alloc, *ssa.MakeClosure, *ssa.MakeMap, *ssa.MakeChan, *ssa.MakeSlice, *ssa.FieldAddr, *ssa.IndexAddr, *ssa.Function:
		return 2
	case *ssa.ChangeInterface:
		return evalTri(x.X, env)
	case *ssa.ChangeType:
		return evalTri(x.X, env)
	case *ssa.Call:
		switch calleeName(x) {
		case "fmt.Errorf", "errors.New":
			return 2
		}
	}
	return 0
}

// relevant: the values whose facts are worth carrying along a path.
func (g *IG) relevantValues() map[ssa.Value]bool {
	if g.relevant != nil {
		return g.relevant
	}
	rel := map[ssa.Value]bool{}
	tested := map[ssa.Value]int{}
	for _, in := range g.instrs {
		switch x := in.(type) {
		case *ssa.Phi:
			rel[x] = true
			for _, e := range x.Edges {
				if _, isConst := e.(*ssa.Const); !isConst {
					rel[e] = true
				}
			}
		case *ssa.If:
			c := x.Cond
			if u, ok := c.(*ssa.UnOp); ok && u.Op == token.NOT {
				c = u.X
			}
			if b, ok := c.(*ssa.BinOp); ok && (b.Op == token.EQL || b.Op == token.NEQ) {
				if isNilConst(b.Y) {
					tested[b.X]++
				} else if isNilConst(b.X) {
					tested[b.Y]++
				}
			} else {
				tested[c]++
			}
		}
	}
	for v, n := range tested {
		if n >= 2 {
			rel[v] = true
		}
	}
	g.relevant = rel
	return rel
}

// learn records what taking the k-th edge of an If teaches.
func learnFromIf(iff *ssa.If, k int, env triEnv, rel map[ssa.Value]bool) {
	c := iff.Cond
	truth := k == 0
	for {
		if u, ok := c.(*ssa.UnOp); ok && u.Op == token.NOT {
			c, truth = u.X, !truth
			continue
		}
		break
	}
	if b, ok := c.(*ssa.BinOp); ok && (b.Op == token.EQL || b.Op == token.NEQ) {
		var o ssa.Value
		if isNilConst(b.Y) {
			o = b.X
		} else if isNilConst(b.X) {
			o = b.Y
		}
		if o != nil && rel[o] {
			isNil := (b.Op == token.EQL) == truth
			if isNil {
				env[o] = 1
			} else {
				env[o] = 2
			}
		}
		return
	}
	if rel[c] && isBoolType(c.Type()) {
		if truth {
			env[c] = 2
		} else {
			env[c] = 1
		}
	}
}

const reachVSBudget = 400000

// reachVS: see the file comment. edgeOK (may be nil) prunes further.
func (g *IG) reachVS(starts []int, stop func(ssa.Instruction) bool, edgeOK func(term ssa.Instruction, k int) bool) ([]bool, bool) {
	rel := g.relevantValues()
	type st struct {
		n   int
		env triEnv
	}
	reached := make([]bool, len(g.instrs))
	seen := map[string]bool{}
	var stack []st
	for _, s := range starts {
		env := triEnv{}
		// a start at the head of a block with a single predecessor inherits what that edge teaches
		in := g.instrs[s]
		b := in.Block()
		if g.first[b] == s && len(b.Preds) == 1 {
			p := b.Preds[0]
			if iff, ok := p.Instrs[len(p.Instrs)-1].(*ssa.If); ok && p.Succs[0] != p.Succs[1] {
				k := 1
				if p.Succs[0] == b {
					k = 0
				}
				learnFromIf(iff, k, env, rel)
			}
		}
		stack = append(stack, st{s, env})
	}
	states := 0
	for len(stack) > 0 {
		cur := stack[len(stack)-1]
		stack = stack[:len(stack)-1]
		k := strconv.Itoa(cur.n) + "|" + cur.env.key()
		if seen[k] {
			continue
		}
		seen[k] = true
		states++
		if states > reachVSBudget {
			return nil, false
		}
		reached[cur.n] = true
		in := g.instrs[cur.n]
		if stop != nil && stop(in) {
			continue
		}
		env := cur.env
		// executing the definition of a value again invalidates what was known about it
		if v, ok := in.(ssa.Value); ok {
			if _, isPhi := in.(*ssa.Phi); !isPhi {
				if _, had := env[v]; had {
					nenv := triEnv{}
					for a, t := range env {
						if a != v {
							nenv[a] = t
						}
					}
					env = nenv
				}
			}
		}
		b := in.Block()
		isTerm := b.Instrs[len(b.Instrs)-1] == in
		if !isTerm {
			for _, m := range g.succ[cur.n] {
				stack = append(stack, st{m, env})
			}
			continue
		}
		for ki, m := range g.succ[cur.n] {
			iff, isIf := in.(*ssa.If)
			if isIf && b.Succs[0] != b.Succs[1] {
				if v := evalTri(iff.Cond, env); (v == 2 && ki == 1) || (v == 1 && ki == 0) {
					continue
				}
			}
			if edgeOK != nil && !edgeOK(in, ki) {
				continue
			}
			if ki >= len(b.Succs) {
				continue
			}
			succ := b.Succs[ki]
			nenv := triEnv{}
			for a, t := range env {
				nenv[a] = t
			}
			if isIf && b.Succs[0] != b.Succs[1] {
				learnFromIf(iff, ki, nenv, rel)
			}
			// phis of the successor are evaluated simultaneously on the old environment (plus what the edge taught)
			predIdx := -1
			npred := 0
			for i, p := range succ.Preds {
				if p == b {
					predIdx = i
					npred++
				}
			}
			type upd struct {
				phi *ssa.Phi
				t   int8
			}
			var upds []upd
			for _, si := range succ.Instrs {
				phi, ok := si.(*ssa.Phi)
				if !ok {
					break
				}
				t := int8(0)
				if predIdx >= 0 && npred == 1 {
					t = evalTri(phi.Edges[predIdx], nenv)
				}
				upds = append(upds, upd{phi, t})
			}
			for _, u := range upds {
				if u.t == 0 {
					delete(nenv, u.phi)
				} else {
					nenv[u.phi] = u.t
				}
			}
			stack = append(stack, st{m, nenv})
		}
	}
	return reached, true
}

package main

// ssax_vs.go - value-sensitive reachability. The instruction-graph searches (reachFrom, reachFromE and everything
// built on them) prune branch edges that contradict what the path itself established about a value: the outcome of
// an earlier test of the same value, or the operand a phi took on the edge by which its block was entered (a nil or
// boolean constant, an evidently non-nil value such as the result of fmt.Errorf). Only infeasible paths are pruned,
// so every "on all paths" / "no path" argument made over the pruned graph holds for the program. This is what lets
// code of the form `r = nil | errors.New(..)` ... `if r != nil { return r }` (the shape a helper takes once it is
// inlined, and a common hand-written idiom) be analysed as precisely as the straight-line version.
//
// Facts are kept only for values that can matter later (phis, operands of phis, values tested more than once);
// a fact about a value is dropped when the path executes the instruction that defines it again (loops). The search
// falls back to plain reachability (a superset of paths: still sound) if the state budget is exhausted.

import (
	"fmt"
	"go/constant"
	"go/token"
	"go/types"
	"os"
	"sort"
	"strconv"

	"golang.org/x/tools/go/ssa"
)

// vsVal is what a path knows about a value: t: 1 = false / nil, 2 = true / non-nil; c: its constant value.
type vsVal struct {
	t int8
	c constant.Value
	// pending: an assumption about the value the instruction will produce the next time the path executes it
	// (used to assume something about "the element of this iteration"); it is not a fact yet
	pending bool
	// sticky: the assumption holds for every execution of the instruction (a field that does not change during the
	// exploration: "the option's kind is K"), not only for the next one
	sticky bool
}

type triEnv map[ssa.Value]vsVal

func (e triEnv) key() string { return e.keyWith(nil) }

// keyWith renders the environment canonically; ids gives small stable numbers to values (names are slow to build).
func (e triEnv) keyWith(ids map[ssa.Value]int) string {
	if len(e) == 0 {
		return ""
	}
	type ent struct {
		id int
		nm string
		v  vsVal
	}
	es := make([]ent, 0, len(e))
	for v, t := range e {
		if t.t == 0 && t.c == nil {
			continue
		}
		if ids != nil {
			id, ok := ids[v]
			if !ok {
				id = len(ids) + 1
				ids[v] = id
			}
			es = append(es, ent{id: id, v: t})
		} else {
			es = append(es, ent{nm: v.Name(), v: t})
		}
	}
	sort.Slice(es, func(i, j int) bool {
		if es[i].id != es[j].id {
			return es[i].id < es[j].id
		}
		return es[i].nm < es[j].nm
	})
	buf := make([]byte, 0, 16*len(es))
	for _, x := range es {
		if ids != nil {
			buf = strconv.AppendInt(buf, int64(x.id), 10)
		} else {
			buf = append(buf, x.nm...)
		}
		buf = append(buf, '=')
		buf = strconv.AppendInt(buf, int64(x.v.t), 10)
		if x.v.c != nil {
			buf = append(buf, '/')
			buf = append(buf, x.v.c.ExactString()...)
		}
		if x.v.pending {
			buf = append(buf, '?')
		}
		buf = append(buf, ',')
	}
	return string(buf)
}

// evalConst: the constant value of v along the path, if known.
func evalConst(v ssa.Value, env triEnv) constant.Value {
	switch x := v.(type) {
	case *ssa.Const:
		return x.Value
	case *ssa.ChangeType:
		return evalConst(x.X, env)
	}
	if t, ok := env[v]; ok && !t.pending {
		return t.c
	}
	for _, o := range sameValueClass(v) {
		if t, ok := env[o]; ok && !t.pending && t.c != nil {
			return t.c
		}
	}
	// a constant lookup table applied to a known key (consttable.go)
	if tab, key, half := tableLookup(v); tab != nil {
		if k := evalConst(key, env); k != nil {
			return tab.get(k, half)
		}
	}
	return nil
}

func isNilable(v ssa.Value) bool {
	switch v.Type().Underlying().(type) {
	case *types.Pointer, *types.Slice, *types.Map, *types.Chan, *types.Signature, *types.Interface:
		return true
	}
	return false
}

// evalTri evaluates a boolean value (1 false, 2 true) or the nil-ness of a nilable value (1 nil, 2 non-nil); 0 = unknown.
func evalTri(v ssa.Value, env triEnv) int8 {
	if t, ok := env[v]; ok && t.t != 0 && !t.pending {
		return t.t
	}
	if t, ok := env[v]; ok && !t.pending && t.c != nil && t.c.Kind() == constant.Bool {
		if constant.BoolVal(t.c) {
			return 2
		}
		return 1
	}
	switch v.(type) {
	case *ssa.Lookup, *ssa.Extract:
		if c := evalConst(v, env); c != nil && c.Kind() == constant.Bool {
			if constant.BoolVal(c) {
				return 2
			}
			return 1
		}
	}
	switch x := v.(type) {
	case *ssa.Const:
		if x.Value == nil {
			if isNilable(x) {
				return 1
			}
			return 0
		}
		switch x.Value.String() {
		case "true":
			return 2
		case "false":
			return 1
		}
	case *ssa.UnOp:
		if x.Op == token.NOT {
			switch evalTri(x.X, env) {
			case 1:
				return 2
			case 2:
				return 1
			}
		}
	case *ssa.BinOp:
		switch x.Op {
		case token.EQL, token.NEQ, token.LSS, token.LEQ, token.GTR, token.GEQ:
			if a, b := evalConst(x.X, env), evalConst(x.Y, env); a != nil && b != nil && a.Kind() == b.Kind() && a.Kind() != constant.Unknown {
				if (a.Kind() == constant.Bool || a.Kind() == constant.String || a.Kind() == constant.Int) && (x.Op == token.EQL || x.Op == token.NEQ || a.Kind() != constant.Bool) {
					if constant.Compare(a, x.Op, b) {
						return 2
					}
					return 1
				}
			}
		}
		if x.Op == token.EQL || x.Op == token.NEQ {
			var o ssa.Value
			if isNilConst(x.Y) {
				o = x.X
			} else if isNilConst(x.X) {
				o = x.Y
			}
			if o != nil {
				t := evalTri(o, env)
				if t == 0 {
					return 0
				}
				isNil := t == 1
				if x.Op == token.EQL == isNil {
					return 2
				}
				return 1
			}
		}
	case *ssa.MakeInterface, *ssa.Alloc, *ssa.MakeClosure, *ssa.MakeMap, *ssa.MakeChan, *ssa.MakeSlice, *ssa.FieldAddr, *ssa.IndexAddr, *ssa.Function:
		return 2
	case *ssa.ChangeInterface:
		return evalTri(x.X, env)
	case *ssa.ChangeType:
		return evalTri(x.X, env)
	case *ssa.Call:
		switch calleeName(x) {
		case "fmt.Errorf", "errors.New":
			return 2
		}
	}
	return 0
}

// relevant: the values whose facts are worth carrying along a path.
func (g *IG) relevantValues() map[ssa.Value]bool {
	if g.relevant != nil {
		return g.relevant
	}
	rel := map[ssa.Value]bool{}
	tested := map[ssa.Value]int{}
	flagPhi := map[*ssa.Phi]bool{}
	for _, in := range g.instrs {
		switch x := in.(type) {
		case *ssa.Phi:
			// a phi matters when one of its operands is a constant (a flag, an error that may be nil, an enumeration)
			for _, e := range x.Edges {
				if _, isConst := e.(*ssa.Const); isConst {
					flagPhi[x] = true
				}
			}
		case *ssa.If:
			c := x.Cond
			if u, ok := c.(*ssa.UnOp); ok && u.Op == token.NOT {
				c = u.X
			}
			if b, ok := c.(*ssa.BinOp); ok && (b.Op == token.EQL || b.Op == token.NEQ) {
				if isNilConst(b.Y) {
					tested[b.X]++
				} else if isNilConst(b.X) {
					tested[b.Y]++
				} else if _, ok := b.Y.(*ssa.Const); ok {
					tested[b.X]++
				} else if _, ok := b.X.(*ssa.Const); ok {
					tested[b.Y]++
				}
			} else {
				tested[c]++
			}
		}
	}
	// phis that merge flag phis are flags as well
	for changed := true; changed; {
		changed = false
		for _, in := range g.instrs {
			if x, ok := in.(*ssa.Phi); ok && !flagPhi[x] {
				for _, e := range x.Edges {
					if p2, ok := e.(*ssa.Phi); ok && flagPhi[p2] {
						flagPhi[x] = true
						changed = true
					}
				}
			}
		}
	}
	for p := range flagPhi {
		// only flags that some test can observe (directly or through another flag)
		rel[p] = true
		for _, e := range p.Edges {
			if _, isConst := e.(*ssa.Const); !isConst {
				if _, isPhi := e.(*ssa.Phi); !isPhi {
					if tested[e] > 0 || evalTri(e, nil) != 0 {
						rel[e] = true
					}
				}
			}
		}
	}
	for v, n := range tested {
		// a value tested once here and once through a value known to equal it (gvn.go) is tested twice
		total := n
		for _, o := range sameValueClass(v) {
			total += tested[o]
		}
		if total >= 2 {
			rel[v] = true
			for _, o := range sameValueClass(v) {
				rel[o] = true
			}
		}
	}
	g.relevant = rel
	return rel
}

// factLiveness: for every block, the relevant values a fact about which can still influence something reachable from
// the block's entry: a test of the value (directly or through a comparison / negation) or a relevant phi fed by it.
func (g *IG) factLiveness(rel map[ssa.Value]bool, cacheable bool) map[*ssa.BasicBlock]map[ssa.Value]bool {
	key := len(rel)
	if cacheable && g.liveCache != nil && g.liveKey == key {
		return g.liveCache
	}
	// use sites: value -> blocks at whose END the value is consumed
	uses := map[ssa.Value]map[*ssa.BasicBlock]bool{}
	add := func(v ssa.Value, b *ssa.BasicBlock) {
		if !rel[v] {
			return
		}
		// a use of a value keeps what is known about the values equal to it alive as well
		for _, m := range append([]ssa.Value{v}, sameValueClass(v)...) {
			if uses[m] == nil {
				uses[m] = map[*ssa.BasicBlock]bool{}
			}
			uses[m][b] = true
		}
	}
	var operandsOfCond func(v ssa.Value, b *ssa.BasicBlock, depth int)
	operandsOfCond = func(v ssa.Value, b *ssa.BasicBlock, depth int) {
		if depth > 4 {
			return
		}
		add(v, b)
		switch x := v.(type) {
		case *ssa.UnOp:
			if x.Op == token.NOT {
				operandsOfCond(x.X, b, depth+1)
			}
		case *ssa.BinOp:
			operandsOfCond(x.X, b, depth+1)
			operandsOfCond(x.Y, b, depth+1)
		case *ssa.ChangeInterface:
			operandsOfCond(x.X, b, depth+1)
		case *ssa.ChangeType:
			operandsOfCond(x.X, b, depth+1)
		}
	}
	for _, b := range g.fn.Blocks {
		if len(b.Instrs) == 0 {
			continue
		}
		if iff, ok := b.Instrs[len(b.Instrs)-1].(*ssa.If); ok {
			operandsOfCond(iff.Cond, b, 0)
		}
		for _, in := range b.Instrs {
			phi, ok := in.(*ssa.Phi)
			if !ok {
				break
			}
			if !rel[phi] {
				continue
			}
			for i, e := range phi.Edges {
				operandsOfCond(e, b.Preds[i], 0)
			}
		}
	}
	out := map[*ssa.BasicBlock]map[ssa.Value]bool{}
	for _, b := range g.fn.Blocks {
		out[b] = map[ssa.Value]bool{}
	}
	for v, bs := range uses {
		// backward reachability from the use blocks
		seen := map[*ssa.BasicBlock]bool{}
		var stack []*ssa.BasicBlock
		for b := range bs {
			seen[b] = true
			stack = append(stack, b)
		}
		for len(stack) > 0 {
			b := stack[len(stack)-1]
			stack = stack[:len(stack)-1]
			out[b][v] = true
			for _, p := range b.Preds {
				if !seen[p] {
					seen[p] = true
					stack = append(stack, p)
				}
			}
		}
	}
	if cacheable {
		g.liveCache, g.liveKey = out, key
	}
	return out
}

// learn records what taking the k-th edge of an If teaches.
func learnFromIf(iff *ssa.If, k int, env triEnv, rel map[ssa.Value]bool) {
	c := iff.Cond
	truth := k == 0
	for {
		if u, ok := c.(*ssa.UnOp); ok && u.Op == token.NOT {
			c, truth = u.X, !truth
			continue
		}
		break
	}
	if b, ok := c.(*ssa.BinOp); ok && (b.Op == token.EQL || b.Op == token.NEQ) {
		var o ssa.Value
		if isNilConst(b.Y) {
			o = b.X
		} else if isNilConst(b.X) {
			o = b.Y
		}
		if o != nil && rel[o] {
			isNil := (b.Op == token.EQL) == truth
			if isNil {
				env[o] = vsVal{t: 1}
			} else {
				env[o] = vsVal{t: 2}
			}
			return
		}
		// x == const on the taken edge; x != const where x is a phi of constants with a single other value
		var x ssa.Value
		var k constant.Value
		if cc, ok := b.Y.(*ssa.Const); ok && cc.Value != nil {
			x, k = b.X, cc.Value
		} else if cc, ok := b.X.(*ssa.Const); ok && cc.Value != nil {
			x, k = b.Y, cc.Value
		}
		if x != nil && rel[x] {
			if (b.Op == token.EQL) == truth {
				env[x] = vsVal{c: k}
			} else if phi, ok := x.(*ssa.Phi); ok {
				var other constant.Value
				n := 0
				for _, e := range phi.Edges {
					ec, isC := e.(*ssa.Const)
					if !isC || ec.Value == nil {
						n = 99
						break
					}
					if constant.Compare(ec.Value, token.EQL, k) {
						continue
					}
					if other == nil || !constant.Compare(ec.Value, token.EQL, other) {
						other = ec.Value
						n++
					}
				}
				if n == 1 {
					env[x] = vsVal{c: other}
				}
			}
		}
		return
	}
	if rel[c] && isBoolType(c.Type()) {
		if truth {
			env[c] = vsVal{t: 2}
		} else {
			env[c] = vsVal{t: 1}
		}
	}
}

const reachVSBudget = 400000

// reachVS: see the file comment. edgeOK (may be nil) prunes further.
func (g *IG) reachVS(starts []int, stop func(ssa.Instruction) bool, edgeOK func(term ssa.Instruction, k int) bool) ([]bool, bool) {
	return g.reachVSInit(starts, stop, edgeOK, nil)
}

// reachEdges is reachFromE that also reports the control-flow edges taken (value-sensitively). Falls back to all
// edges between reached blocks when the state budget is exhausted.
func (g *IG) reachEdges(starts []int, stop func(ssa.Instruction) bool, edgeOK func(term ssa.Instruction, k int) bool) ([]bool, map[[2]*ssa.BasicBlock]bool) {
	g.recordEdges = map[[2]*ssa.BasicBlock]bool{}
	defer func() { g.recordEdges = nil }()
	if r, ok := g.reachVSInit(starts, stop, edgeOK, nil); ok {
		return r, g.recordEdges
	}
	r := g.reachFromE(starts, stop, edgeOK)
	edges := map[[2]*ssa.BasicBlock]bool{}
	for i, s := range r {
		if s {
			b := g.instrs[i].Block()
			for _, sc := range b.Succs {
				edges[[2]*ssa.BasicBlock{b, sc}] = true
			}
		}
	}
	return r, edges
}

// valuesOverEdges: the values v can have given the set of edges taken: a phi contributes the operands of the taken
// incoming edges only (recursively); anything else is itself.
func valuesOverEdges(v ssa.Value, edges map[[2]*ssa.BasicBlock]bool, seen map[ssa.Value]bool) []ssa.Value {
	if seen[v] {
		return nil
	}
	seen[v] = true
	phi, ok := v.(*ssa.Phi)
	if !ok {
		return []ssa.Value{v}
	}
	var out []ssa.Value
	for i, e := range phi.Edges {
		if edges[[2]*ssa.BasicBlock{phi.Block().Preds[i], phi.Block()}] {
			out = append(out, valuesOverEdges(e, edges, seen)...)
		}
	}
	return out
}

// reachAssuming explores from the function entry under assumptions about some values (e.g. a parameter equal to
// a constant). Falls back to plain reachability when the budget is exhausted.
func (g *IG) reachAssuming(init triEnv, stop func(ssa.Instruction) bool) []bool {
	if len(g.instrs) == 0 {
		return nil
	}
	if r, ok := g.reachVSInit([]int{0}, stop, nil, init); ok {
		return r
	}
	return g.reachPlain([]int{0}, stop)
}

func (g *IG) reachVSInit(starts []int, stop func(ssa.Instruction) bool, edgeOK func(term ssa.Instruction, k int) bool, init triEnv) ([]bool, bool) {
	rel := g.relevantValues()
	if len(init) > 0 {
		r2 := map[ssa.Value]bool{}
		for v := range rel {
			r2[v] = true
		}
		for v := range init {
			r2[v] = true
		}
		rel = r2
	}
	type st struct {
		n   int
		env triEnv
	}
	reached := make([]bool, len(g.instrs))
	seen := map[string]bool{}
	if g.valIDs == nil {
		g.valIDs = map[ssa.Value]int{}
	}
	var stack []st
	for _, s := range starts {
		env := triEnv{}
		for v, t := range init {
			if vi, isInstr := v.(ssa.Instruction); isInstr && vi.Block() != nil {
				if _, isPhi := v.(*ssa.Phi); !isPhi {
					sb := g.instrs[s].Block()
					before := vi.Block() != sb && vi.Block().Dominates(sb) || vi.Block() == sb && g.idx[vi] < s
					if !before {
						t.pending = true
					}
				}
			}
			env[v] = t
		}
		// a start at the head of a block with a single predecessor inherits what that edge teaches
		in := g.instrs[s]
		b := in.Block()
		if g.first[b] == s && len(b.Preds) == 1 {
			p := b.Preds[0]
			if iff, ok := p.Instrs[len(p.Instrs)-1].(*ssa.If); ok && p.Succs[0] != p.Succs[1] {
				k := 1
				if p.Succs[0] == b {
					k = 0
				}
				learnFromIf(iff, k, env, rel)
			}
		}
		stack = append(stack, st{s, env})
	}
	live := g.factLiveness(rel, len(init) == 0)
	states := 0
	for len(stack) > 0 {
		cur := stack[len(stack)-1]
		stack = stack[:len(stack)-1]
		// facts about values that no reachable test or phi can observe any more are dropped (keeps the state space small)
		if lb := live[g.instrs[cur.n].Block()]; lb != nil {
			var drop []ssa.Value
			for v, t := range cur.env {
				if !lb[v] && !t.pending {
					drop = append(drop, v)
				}
			}
			if len(drop) > 0 {
				nenv := triEnv{}
				for a, t := range cur.env {
					nenv[a] = t
				}
				for _, v := range drop {
					delete(nenv, v)
				}
				cur.env = nenv
			}
		}
		k := strconv.Itoa(cur.n) + "|" + cur.env.keyWith(g.valIDs)
		if seen[k] {
			continue
		}
		seen[k] = true
		states++
		if states > reachVSBudget {
			if os.Getenv("GOCHK_VS_DEBUG") != "" {
				fmt.Fprintf(os.Stderr, "reachVS: budget exhausted in %s (%d relevant values)\n", short(g.fn), len(rel))
			}
			return nil, false
		}
		// walk the rest of the block without creating intermediate states
		env := cur.env
		n := cur.n
		b := g.instrs[n].Block()
		last := g.first[b] + len(b.Instrs) - 1
		stopped := false
		for ; n <= last; n++ {
			reached[n] = true
			in := g.instrs[n]
			if stop != nil && stop(in) {
				stopped = true
				break
			}
			// executing the definition of a value again invalidates what was known about it
			if v, ok := in.(ssa.Value); ok {
				if _, isPhi := in.(*ssa.Phi); !isPhi {
					if old, had := env[v]; had {
						nenv := triEnv{}
						for a, t := range env {
							if a != v {
								nenv[a] = t
							}
						}
						if old.pending || old.sticky {
							old.pending = false
							nenv[v] = old // the assumption applies to this execution
						}
						env = nenv
					}
				}
			}
		}
		if stopped {
			continue
		}
		in := g.instrs[last]
		for ki, m := range g.succ[last] {
			iff, isIf := in.(*ssa.If)
			if isIf && b.Succs[0] != b.Succs[1] {
				if os.Getenv("GOCHK_VS_TRACE") != "" {
					if bo, ok := iff.Cond.(*ssa.BinOp); ok && bo.X.Name() == os.Getenv("GOCHK_VS_TRACE") {
						t, had := env[bo.X]
						fmt.Fprintf(os.Stderr, "TRACE block %d cond %s: env has=%v val=%v pending=%v eval=%d\n", b.Index, bo, had, t.c, t.pending, evalTri(iff.Cond, env))
					}
				}
				if v := evalTri(iff.Cond, env); (v == 2 && ki == 1) || (v == 1 && ki == 0) {
					continue
				}
			}
			if edgeOK != nil && !edgeOK(in, ki) {
				continue
			}
			if ki >= len(b.Succs) {
				continue
			}
			succ := b.Succs[ki]
			nenv := triEnv{}
			for a, t := range env {
				nenv[a] = t
			}
			if isIf && b.Succs[0] != b.Succs[1] {
				learnFromIf(iff, ki, nenv, rel)
			}
			// phis of the successor are evaluated simultaneously on the old environment (plus what the edge taught)
			predIdx := -1
			npred := 0
			for i, p := range succ.Preds {
				if p == b {
					predIdx = i
					npred++
				}
			}
			type upd struct {
				phi *ssa.Phi
				t   vsVal
			}
			var upds []upd
			for _, si := range succ.Instrs {
				phi, ok := si.(*ssa.Phi)
				if !ok {
					break
				}
				if !rel[phi] {
					continue
				}
				var t vsVal
				if predIdx >= 0 && npred == 1 {
					t.t = evalTri(phi.Edges[predIdx], nenv)
					if c := evalConst(phi.Edges[predIdx], nenv); c != nil && (c.Kind() == constant.Bool || c.Kind() == constant.String || c.Kind() == constant.Int) {
						t.c = c
					}
				}
				upds = append(upds, upd{phi, t})
			}
			for _, u := range upds {
				if u.t.t == 0 && u.t.c == nil {
					delete(nenv, u.phi)
				} else {
					nenv[u.phi] = u.t
				}
			}
			if g.recordEdges != nil {
				g.recordEdges[[2]*ssa.BasicBlock{b, succ}] = true
			}
			stack = append(stack, st{m, nenv})
		}
	}
	if os.Getenv("GOCHK_VS_DEBUG") != "" && states > 20000 {
		fmt.Fprintf(os.Stderr, "reachVS: %d states in %s (%d relevant values)\n", states, short(g.fn), len(rel))
	}
	return reached, true
}

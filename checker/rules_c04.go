package main

// C04 - `--` ends option parsing.

import (
	"fmt"
	"go/token"
	"strings"

	"golang.org/x/tools/go/ssa"
)

func init() {
	register("C04", "other", []string{
		"decides: the terminator test dominates every interpretation effect; the terminator edge only advances and bulk-copies; every look-ahead consumption refuses `--`; nothing is interpreted after a bulk copy; optional kinds never enter the mandatory-value loop",
		"the bulk-copy helper's summary (copies current and all following tokens verbatim, drains the iterator) is computed by the typestate engine, see C03",
	}, rC04Dominates, rC04TrueEdge, rC04Lookahead, rC04AfterBulk, rC04OptionalMin, func(w *World, r *Report) {
		subRule(w, r, rC10Call, "R04.6", "what Dispatch runs is decided by the parser alone: the function of the final node, never re-derived from the remaining arguments (same obligations as C10 R10.1)", 2)
	}, func(w *World, r *Report) {
		subRule(w, r, rC10FinalNode, "R04.7", "finalNode is only the parser's result (same obligations as C10 R10.4)", 2)
	}, rArgsUnmodified("R04.8"))
}

func (m *parserModel) normalEdgeOK(term ssa.Instruction, k int) bool {
	return !m.normalModePrune(term.Block(), k)
}

// R04.1
func rC04Dominates(w *World, r *Report) {
	ru := r.Rule("R04.1", "in the main loop the false edge of the test iterator.Value() == \"--\" dominates every interpretation effect on the current token (Save, option-field store, unknown record, accumulator append, cursor move, effectful helper call)", 10)
	m := parserOrFail(w, ru)
	if m == nil {
		return
	}
	if m.termIf == nil {
		ru.Undecided("terminator-test", w.Pos(m.fn.Pos()), "no test of the current token against \"--\" found in the parser")
		return
	}
	// the tested Value() refers to the main token: no other advance can precede it inside one iteration
	tb := m.termIf.Block()
	for _, n := range m.nextCalls {
		if n == m.mainNext {
			continue
		}
		seen := m.ig.reachFromE(m.ig.after(n), func(in ssa.Instruction) bool { return in == ssa.Instruction(m.mainNext) }, m.normalEdgeOK)
		if seen[m.ig.idx[m.termIf]] {
			ru.Bad("terminator-test/main-token", w.IPos(m.termIf), "the terminator test can be reached after a look-ahead advance at "+w.IPos(n)+" without returning to the loop head")
		}
	}
	if !m.mainNext.Block().Dominates(tb) {
		ru.Bad("terminator-test/main-token", w.IPos(m.termIf), "terminator test is not inside the main argument loop")
	} else {
		ru.OK("terminator-test/main-token", w.IPos(m.termIf), "tests the token made current by the loop-head Next()")
	}
	falseK := 1 - m.termTrue
	trueRegion := m.termRegion()
	// the tokeniser itself refuses "--": what is only reachable after it accepted the current token is not reachable
	// for the terminator either (the terminator test may then come after the option block)
	var acceptedEdges [][2]interface{}
	if tokeniserRejectsTerminator(w) {
		for _, oc := range m.isOptCalls {
			if len(oc.Call.Args) == 0 || !m.mainNext.Block().Dominates(oc.Block()) {
				continue
			}
			vc, isCall := oc.Call.Args[0].(*ssa.Call)
			if !isCall || !m.iterCall(vc, nIterValue) {
				continue
			}
			// no look-ahead advance between the loop head and the call: the token is the current one
			cur := true
			for _, n := range m.nextCalls {
				if n != m.mainNext && n.Block().Dominates(oc.Block()) {
					cur = false
				}
			}
			if !cur || oc.Referrers() == nil {
				continue
			}
			for _, ref := range *oc.Referrers() {
				ex, isEx := ref.(*ssa.Extract)
				if !isEx || ex.Index != 1 || ex.Referrers() == nil {
					continue
				}
				for _, r2 := range *ex.Referrers() {
					if iff, isIf := r2.(*ssa.If); isIf && iff.Cond == ssa.Value(ex) {
						acceptedEdges = append(acceptedEdges, [2]interface{}{iff.Block(), 0})
					}
				}
			}
		}
	}
	behindAccepted := func(b *ssa.BasicBlock) bool {
		for _, ae := range acceptedEdges {
			if edgeDominates(ae[0].(*ssa.BasicBlock), ae[1].(int), b) {
				return true
			}
		}
		return false
	}
	for _, e := range m.effects() {
		b := e.Instr.Block()
		key := "effect/" + e.Kind
		if e.Field != nil {
			key += "/" + e.Field.Name()
		}
		if !m.mainNext.Block().Dominates(b) {
			continue // before the loop
		}
		if m.inCompletionOnly(b) {
			continue
		}
		if trueRegion[m.ig.idx[e.Instr]] && !edgeDominates(tb, falseK, b) {
			continue // judged by R04.2
		}
		if edgeDominates(tb, falseK, b) {
			ru.OK(key, w.IPos(e.Instr), "only reachable when the current token is not \"--\"")
		} else if behindAccepted(b) {
			ru.OK(key, w.IPos(e.Instr), "only reachable after the tokeniser accepted the current token, which it never does for \"--\"")
		} else {
			ru.Bad(key, w.IPos(e.Instr), "interpretation effect not dominated by the terminator test: a \"--\" token (or what follows it) can be interpreted here: "+describeInstr(e.Instr))
		}
	}
}

// tokeniserRejectsTerminator: isOption tests its text against "--" in a block that every return lies behind, and on the
// equal edge only returns false.
func tokeniserRejectsTerminator(w *World) bool {
	fn := w.Fn(nIsOption)
	if fn == nil || len(fn.Params) == 0 {
		return false
	}
	for _, b := range fn.Blocks {
		iff, ok := b.Instrs[len(b.Instrs)-1].(*ssa.If)
		if !ok {
			continue
		}
		bo, ok := iff.Cond.(*ssa.BinOp)
		if !ok || bo.Op != token.EQL || bo.X != ssa.Value(fn.Params[0]) {
			continue
		}
		if s, ok := constString(bo.Y); !ok || s != "--" {
			continue
		}
		ig := buildIG(fn)
		good, n := true, 0
		for i, sn := range ig.reachPlain(ig.edgeStart(b, 0), nil) {
			if ret, isRet := ig.instrs[i].(*ssa.Return); isRet && sn {
				n++
				c, isC := ret.Results[len(ret.Results)-1].(*ssa.Const)
				if !isC || c.Value == nil || c.Value.String() != "false" {
					good = false
				}
			}
		}
		for _, rb := range fn.Blocks {
			if _, isRet := rb.Instrs[len(rb.Instrs)-1].(*ssa.Return); isRet && !b.Dominates(rb) {
				good = false
			}
		}
		if good && n > 0 {
			return true
		}
	}
	return false
}

// termRegion: instructions reachable from the terminator edge before the loop head is reached again.
func (m *parserModel) termRegion() []bool {
	if m.termIf == nil {
		return make([]bool, len(m.ig.instrs))
	}
	return m.ig.reachFromE(m.ig.edgeStart(m.termIf.Block(), m.termTrue), func(in ssa.Instruction) bool { return in == ssa.Instruction(m.mainNext) }, m.normalEdgeOK)
}

// inCompletionOnly: block is only reachable when completionMode != "".
func (m *parserModel) inCompletionOnly(b *ssa.BasicBlock) bool {
	if m.complParam == nil {
		return false
	}
	for _, f := range factsAt(b) {
		if f.Y == nil {
			continue
		}
		if s, ok := constString(f.Y); ok && s == "" && f.X == ssa.Value(m.complParam) && f.Op == token.NEQ {
			return true
		}
	}
	return false
}

// R04.2
func rC04TrueEdge(w *World, r *Report) {
	ru := r.Rule("R04.2", "the terminator edge only advances the iterator and bulk-copies the tail verbatim: no Save / option store / unknown record / cursor move there; if the loop head can be reached again the iterator has been drained", 2)
	m := parserOrFail(w, ru)
	if m == nil || m.termIf == nil {
		if m != nil {
			ru.Undecided("terminator-test", w.Pos(m.fn.Pos()), "no terminator test")
		}
		return
	}
	region := m.termRegion()
	cache := map[*ssa.Function]*helperSum{}
	bad := 0
	for _, e := range m.effects() {
		if !region[m.ig.idx[e.Instr]] {
			continue
		}
		if edgeDominates(m.termIf.Block(), 1-m.termTrue, e.Instr.Block()) {
			continue
		}
		switch {
		case e.Kind == effHelper:
			ru.OK("terminator-edge/bulk-copy", w.IPos(e.Instr), "tail handed to the bulk-copy helper")
		case e.Kind == effTreeStore && e.Field == m.fChildText:
			if d, _ := m.basicDisposition(e.Instr, cache); d {
				ru.OK("terminator-edge/append", w.IPos(e.Instr), "verbatim append of the current token")
			} else {
				bad++
				ru.Bad("terminator-edge/append", w.IPos(e.Instr), "ChildText written after the terminator by something other than a verbatim append")
			}
		default:
			bad++
			ru.Bad("terminator-edge/"+e.Kind, w.IPos(e.Instr), "interpretation effect on the terminator edge: "+describeInstr(e.Instr))
		}
	}
	// the tail must be copied: on the edge where a following token exists, a disposing+draining helper (or inline drain) is passed
	// before the function can return; checked by the typestate (C03 R03.4). Here: if the loop head is reachable again, the iterator is drained.
	drained := func(in ssa.Instruction) bool {
		if _, ex := m.basicDisposition(in, cache); ex {
			return true
		}
		return false
	}
	// follow only: from terminator edge; a tested Next() false edge counts as drained
	seen := m.ig.reachFromE(m.ig.edgeStart(m.termIf.Block(), m.termTrue), drained, func(term ssa.Instruction, k int) bool {
		if !m.normalEdgeOK(term, k) {
			return false
		}
		if iff, ok := term.(*ssa.If); ok {
			if c, ok := iff.Cond.(*ssa.Call); ok && m.iterCall(c, nIterNext) && k == 1 {
				return false // iterator exhausted on this edge
			}
		}
		return true
	})
	if seen[m.ig.idx[m.mainNext]] {
		ru.Bad("terminator-edge/resume", w.IPos(m.termIf), "after the terminator the main loop can resume with tokens left: they would be interpreted instead of being returned verbatim")
	} else {
		ru.OK("terminator-edge/resume", w.IPos(m.termIf), "the loop head cannot be reached again with tokens left")
	}
	_ = bad
}

// R04.3
func rC04Lookahead(w *World, r *Report) {
	ru := r.Rule("R04.3", "every look-ahead consumption (iterator advance other than the loop-head one) either serves a still-missing mandatory value (bounded by MinArgs) or is dominated by the test peeked != \"--\"", 2)
	m := parserOrFail(w, ru)
	if m == nil {
		return
	}
	fMin := w.Field("option", "Option", "MinArgs")
	region := m.termRegion()
	for _, n := range m.nextCalls {
		if n == m.mainNext {
			continue
		}
		if region[m.ig.idx[n]] && m.termIf != nil && !edgeDominates(m.termIf.Block(), 1-m.termTrue, n.Block()) {
			continue // the advance over "--" itself
		}
		key := "lookahead-advance"
		facts := factsAt(n.Block())
		// (B) inside the mandatory loop: i < load(MinArgs)
		mandatory := false
		for _, f := range facts {
			if f.Op == token.LSS {
				if _, ok := loadOfField(f.Y, fMin); ok {
					mandatory = true
				}
			}
			if f.Op == token.GTR {
				if _, ok := loadOfField(f.X, fMin); ok {
					mandatory = true
				}
			}
		}
		if mandatory {
			ru.OK(key+"/mandatory", w.IPos(n), "advance bounded by i < MinArgs: takes a still-missing mandatory value (which may be \"--\")")
			continue
		}
		// (A) dominated by peek != "--" with no advance between the peek and this Next
		refused := false
		for _, f := range facts {
			if f.Op != token.NEQ || f.Y == nil {
				continue
			}
			x, y := f.X, f.Y
			if _, ok := constString(x); ok {
				x, y = y, x
			}
			if s, ok := constString(y); !ok || s != "--" {
				continue
			}
			ex, ok := x.(*ssa.Extract)
			if !ok || ex.Index != 0 {
				continue
			}
			pk, ok := ex.Tuple.(*ssa.Call)
			if !ok || !m.iterCall(pk, nIterPeek) {
				continue
			}
			// no other advance between the peek and n
			seen := m.ig.reachFromE(m.ig.after(pk), func(in ssa.Instruction) bool {
				return in != ssa.Instruction(n) && m.iterCall(in, nIterNext)
			}, nil)
			clean := true
			for _, o := range m.nextCalls {
				if o != n && seen[m.ig.idx[o]] && o.Block().Dominates(n.Block()) && pk.Block().Dominates(o.Block()) {
					clean = false
				}
			}
			if clean && pk.Block().Dominates(n.Block()) {
				refused = true
			}
		}
		if refused {
			ru.OK(key+"/greedy", w.IPos(n), "advance dominated by peeked != \"--\"")
		} else {
			ru.Bad(key+"/greedy", w.IPos(n), "look-ahead consumption that does not refuse \"--\": an optional or multi-value option can swallow the terminator and what follows it")
		}
	}
}

// R04.4 (shared with C09): after a bulk copy nothing is interpreted.
func rC04AfterBulk(w *World, r *Report) {
	ru := r.Rule("R04.4", "after every bulk copy of the tail no interpretation effect is reachable (the helper drains the iterator, so `break` and `continue` are equivalent)", 3)
	m := parserOrFail(w, ru)
	if m == nil {
		return
	}
	afterBulk(w, ru, m)
}

func afterBulk(w *World, ru *Rule, m *parserModel) {
	cache := map[*ssa.Function]*helperSum{}
	effs := m.effects()
	for _, e := range effs {
		if e.Kind != effHelper {
			continue
		}
		_, ex := m.basicDisposition(e.Instr, cache)
		if !ex {
			ru.Bad("bulk-copy/summary", w.IPos(e.Instr), "helper does not drain the iterator / copy every remaining token")
			continue
		}
		seen := m.ig.reachFromE(m.ig.after(e.Instr), nil, func(term ssa.Instruction, k int) bool {
			if !m.normalEdgeOK(term, k) {
				return false
			}
			if iff, ok := term.(*ssa.If); ok {
				if c, ok := iff.Cond.(*ssa.Call); ok && m.iterCall(c, nIterNext) && k == 0 {
					return false // a drained iterator yields no token
				}
			}
			return true
		})
		var hit []string
		for _, e2 := range effs {
			if seen[m.ig.idx[e2.Instr]] {
				hit = append(hit, e2.Kind+" at "+w.IPos(e2.Instr))
			}
		}
		if len(hit) == 0 {
			ru.OK("bulk-copy/nothing-after", w.IPos(e.Instr), "no interpretation effect reachable after the bulk copy")
		} else {
			ru.Bad("bulk-copy/nothing-after", w.IPos(e.Instr), "effects reachable after the bulk copy: "+joinLimited(hit, 4))
		}
	}
}

// R04.5: optional kinds never enter the mandatory-value loop.
func rC04OptionalMin(w *World, r *Report) {
	ru := r.Rule("R04.5", "kinds with an optional value have MinArgs == 0 (so only the `--`-refusing greedy loop can take their value); IsOptional is written only by option.New", 3)
	fn := w.Fn("option.New")
	fOpt := w.Field("option", "Option", "IsOptional")
	fMin := w.Field("option", "Option", "MinArgs")
	if fn == nil || fOpt == nil || fMin == nil {
		ru.Undecided("anchor", "-", "option.New / IsOptional / MinArgs not found")
		return
	}
	// the per-kind bounds set by option.New: one value per occurrence unless the definer says otherwise (MaxArgs = 1
	// wherever New sets it), none mandatory exactly for the optional-value kinds (MinArgs = 0 next to IsOptional = true)
	if fMax := w.Field("option", "Option", "MaxArgs"); fMax != nil {
		eachInstr(fn, func(in ssa.Instruction) {
			_, f, v, ok := storeField(in)
			if !ok || f != fMax {
				return
			}
			// table-driven form: the bounds are fields of one entry of a package-level table indexed by the kind
			if tab, fmx, ok := tableField(w, v); ok {
				var fmn, fop string
				for _, i2 := range in.Block().Parent().Blocks {
					for _, i3 := range i2.Instrs {
						if _, f2, v2, ok := storeField(i3); ok {
							if t2, fn2, ok := tableField(w, v2); ok && t2 == tab {
								if f2 == fMin {
									fmn = fn2
								}
								if f2 == fOpt {
									fop = fn2
								}
							}
						}
					}
				}
				entries, why := globalMapLiteral(w, tab)
				if why != "" || fmn == "" {
					ru.Undecided("New/bounds/table", w.IPos(in), "per-kind table "+tab.Name()+" not understood: "+why)
					return
				}
				bad := ""
				for _, e := range entries {
					emx, ok1 := constInt(e.fields[fmx])
					emn, ok2 := constInt(e.fields[fmn])
					eop := false
					if fop != "" {
						if c, ok := e.fields[fop].(*ssa.Const); ok && c.Value != nil && c.Value.String() == "true" {
							eop = true
						}
					}
					if e.fields[fmx] == nil {
						emx, ok1 = 0, true
					}
					if e.fields[fmn] == nil {
						emn, ok2 = 0, true
					}
					if !(ok1 && ok2 && ((emn == 1 && emx == 1 && !eop) || (emn == 0 && emx == 1 && eop) || (emn == 0 && emx == 0 && !eop))) {
						bad = "an entry of " + tab.Name()
					}
				}
				ru.Check(bad == "", "New/bounds", w.IPos(in), "per-kind bounds from the table: (1,1), (0,1) for the optional-value kinds, (0,0) for flags", "option.New gives a kind other default bounds than one value (mandatory or optional) or none ("+bad+")")
				return
			}
			mx, isC := constInt(v)
			mn, optional, haveMin := int64(-1), false, false
			for _, i2 := range in.Block().Instrs {
				if _, f2, v2, ok := storeField(i2); ok {
					if f2 == fMin {
						if k, ok := constInt(v2); ok {
							mn, haveMin = k, true
						}
					}
					if f2 == fOpt {
						if c, ok := v2.(*ssa.Const); ok && c.Value != nil && c.Value.String() == "true" {
							optional = true
						}
					}
				}
			}
			good := isC && haveMin && ((mn == 1 && mx == 1 && !optional) || (mn == 0 && mx == 1 && optional) || (mn == 0 && mx == 0 && !optional))
			ru.Check(good, "New/bounds", w.IPos(in), "per-kind bounds: (1,1), (0,1) for the optional-value kinds, (0,0) for flags", "option.New gives a kind other default bounds than one value (mandatory or optional) or none: an option of that kind takes - or refuses - a following argument that the other spellings of the same command line treat differently")
		})
	}
	for _, u := range w.fieldUses(fOpt) {
		if u.Kind == "read" {
			continue
		}
		if u.Fn != fn {
			ru.Bad("IsOptional-writer/"+short(u.Fn), w.IPos(u.Instr), "IsOptional written outside option.New")
			continue
		}
		st := u.Instr.(*ssa.Store)
		// find the MinArgs store in the same block
		var minv ssa.Value
		for _, in := range st.Block().Instrs {
			if _, f, v, ok := storeField(in); ok && f == fMin {
				minv = v
			}
		}
		// table-driven form: both values are fields of one entry of a package-level table indexed by the kind
		if tab, fo, ok := tableField(w, st.Val); ok && minv != nil {
			if tab2, fm, ok2 := tableField(w, minv); ok2 && tab2 == tab {
				entries, why := globalMapLiteral(w, tab)
				if why != "" {
					ru.Undecided("optional-kind/table", w.IPos(st), "per-kind table "+tab.Name()+" not understood: "+why)
					continue
				}
				n := 0
				for _, e := range entries {
					if c, isC := e.fields[fo].(*ssa.Const); !isC || c.Value == nil || c.Value.String() != "true" {
						continue
					}
					n++
					mk, isK := int64(0), true
					if mv, has := e.fields[fm]; has {
						mk, isK = constInt(mv)
					}
					if isK && mk == 0 {
						ru.OK("optional-kind/MinArgs", e.pos, "table entry sets "+fo+" and "+fm+" = 0")
					} else {
						ru.Bad("optional-kind/MinArgs", e.pos, "table entry sets "+fo+" but "+fm+" is not 0: the mandatory loop would take `--` as the optional value")
					}
				}
				if n == 0 {
					ru.Bad("optional-kind/MinArgs", w.IPos(st), "no entry of the per-kind table is optional")
				}
				continue
			}
		}
		k, ok := int64(0), false
		if minv != nil {
			k, ok = constInt(minv)
		}
		if ok && k == 0 {
			ru.OK("optional-kind/MinArgs", w.IPos(st), "arm sets IsOptional and MinArgs = 0")
		} else {
			ru.Bad("optional-kind/MinArgs", w.IPos(st), fmt.Sprintf("arm sets IsOptional but MinArgs is not the constant 0 (%v): the mandatory loop would take `--` as the optional value", minv))
		}
	}
	// writers of MinArgs
	for _, u := range w.fieldUses(fMin) {
		if u.Kind == "read" {
			continue
		}
		n := short(u.Fn)
		if u.Fn == fn || strings.HasSuffix(n, "SliceVar") || strings.HasSuffix(n, "StringMapVar") {
			continue
		}
		ru.Bad("MinArgs-writer/"+n, w.IPos(u.Instr), "unexpected writer of MinArgs")
	}
}

// ---- package-level tables (map literals initialised once) -------------------------------------------------------------

type mapLitEntry struct {
	key    ssa.Value
	fields map[string]ssa.Value
	pos    string
}

// tableField: v is `spec.f` where spec := table[key] and table is a package-level map of the library.
func tableField(w *World, v ssa.Value) (*ssa.Global, string, bool) {
	u, ok := v.(*ssa.UnOp)
	if !ok || u.Op != token.MUL {
		return nil, "", false
	}
	fa, ok := u.X.(*ssa.FieldAddr)
	if !ok {
		return nil, "", false
	}
	var lk *ssa.Lookup
	switch x := fa.X.(type) {
	case *ssa.Alloc:
		for _, sv := range storesInto(x) {
			if l, ok := sv.(*ssa.Lookup); ok {
				lk = l
			} else {
				return nil, "", false
			}
		}
	}
	if lk == nil {
		return nil, "", false
	}
	ld, ok := lk.X.(*ssa.UnOp)
	if !ok || ld.Op != token.MUL {
		return nil, "", false
	}
	g, ok := ld.X.(*ssa.Global)
	if !ok || g.Pkg == nil || w.Pkgs[g.Pkg.Pkg.Path()] == nil {
		return nil, "", false
	}
	return g, fieldOfAddr(fa).Name(), true
}

// globalMapLiteral reads the entries of a package-level map that is built by a composite literal in the package
// initialiser and never written anywhere else.
func globalMapLiteral(w *World, g *ssa.Global) ([]mapLitEntry, string) {
	initFn := g.Pkg.Func("init")
	if initFn == nil {
		return nil, "no package initialiser"
	}
	var mk ssa.Value
	for _, fn := range append([]*ssa.Function{initFn}, w.Funcs...) {
		bad := ""
		eachInstr(fn, func(in ssa.Instruction) {
			switch x := in.(type) {
			case *ssa.Store:
				if x.Addr == ssa.Value(g) {
					if fn != initFn || mk != nil {
						bad = "the table is assigned outside its initialiser (" + w.IPos(in) + ")"
					}
					mk = x.Val
				}
			case *ssa.MapUpdate:
				if ld, ok := x.Map.(*ssa.UnOp); ok && ld.X == ssa.Value(g) {
					bad = "the table is updated at " + w.IPos(in)
				}
			}
		})
		if bad != "" {
			return nil, bad
		}
	}
	if _, ok := mk.(*ssa.MakeMap); !ok {
		return nil, "the table is not a map literal"
	}
	var out []mapLitEntry
	why := ""
	eachInstr(initFn, func(in ssa.Instruction) {
		mu, ok := in.(*ssa.MapUpdate)
		if !ok || mu.Map != mk {
			return
		}
		e := mapLitEntry{key: mu.Key, fields: map[string]ssa.Value{}, pos: w.IPos(mu)}
		ld, ok := mu.Value.(*ssa.UnOp)
		if !ok {
			why = "entry value is not a struct literal"
			return
		}
		a, ok := ld.X.(*ssa.Alloc)
		if !ok {
			why = "entry value is not a struct literal"
			return
		}
		if refs := a.Referrers(); refs != nil {
			for _, r := range *refs {
				if fa, ok := r.(*ssa.FieldAddr); ok && fa.Referrers() != nil {
					for _, r2 := range *fa.Referrers() {
						if st, ok := r2.(*ssa.Store); ok && st.Addr == ssa.Value(fa) {
							e.fields[fieldOfAddr(fa).Name()] = st.Val
						}
					}
				}
			}
		}
		out = append(out, e)
	})
	if why != "" {
		return nil, why
	}
	if len(out) == 0 {
		return nil, "no entries"
	}
	return out, ""
}

package main

// world.go - loading of /repo's current working tree into typed syntax + SSA, and
// symbol lookup helpers. Nothing here executes repository code.

import (
	"fmt"
	"go/ast"
	"go/token"
	"go/types"
	"os"
	"os/exec"
	"path/filepath"
	"sort"
	"strings"

	"golang.org/x/tools/go/callgraph"
	"golang.org/x/tools/go/callgraph/cha"
	"golang.org/x/tools/go/packages"
	"golang.org/x/tools/go/ssa"
	"golang.org/x/tools/go/ssa/ssautil"
)

const modPath = "github.com/DavidGamba/go-getoptions"

// library packages that make up the product (relative to the module root).
var libPkgs = []string{".", "./internal/option", "./internal/help", "./internal/sliceiterator", "./text", "./dag"}

type World struct {
	Repo   string
	Fset   *token.FileSet
	Pkgs   map[string]*packages.Package // by import path
	Prog   *ssa.Program
	SPkgs  map[string]*ssa.Package
	Funcs  []*ssa.Function // every function with a body in the library packages (incl. anonymous)
	byName map[string]*ssa.Function
	cg     *callgraph.Graph
	Notes  []string // anchors located by role rather than by name (roles.go)
	// AsWritten is the same tree without helper normalisation (canonical names only); nil when nothing was inlined.
	// Rules that are anchored on a function boundary of their own (e.g. the per-option help renderer) use it.
	AsWritten *World
	// statistics for the evidence file
	NFiles, NFuncs, NBlocks, NInstrs int
	fileOf                           map[*ast.File]*packages.Package
	parents                          map[ast.Node]ast.Node
}

// LoadWorld loads the library packages from repo. overlay (may be nil) replaces file
// contents in memory (used by the sensitivity corpus; never touches the disk).
func LoadWorld(repo string, overlay map[string][]byte, extraEnv []string) (*World, error) {
	w, err := loadWorldRaw(repo, overlay, extraEnv)
	if err != nil {
		return nil, err
	}
	// rename tolerance (roles.go): unexported anchors missing under their canonical names are located by role
	// and renamed back in an in-memory overlay; the rules then run on the canonically named program.
	cur := overlay
	applyRoles := func() {
		for iter := 0; iter < 3; iter++ {
			rc := discoverRoles(w)
			if len(rc.renames) == 0 {
				break
			}
			sort.Strings(rc.notes)
			ov, err := rc.renameOverlay(cur)
			if err != nil {
				w.Notes = append(w.Notes, rc.notes...)
				w.Notes = append(w.Notes, "canonical renaming not applied: "+err.Error())
				break
			}
			w2, err := loadWorldRaw(repo, ov, extraEnv)
			if err != nil {
				w.Notes = append(w.Notes, rc.notes...)
				w.Notes = append(w.Notes, "canonical renaming not applied: the renamed program does not load: "+err.Error())
				break
			}
			w2.Notes = append(w.Notes, rc.notes...)
			w, cur = w2, ov
		}
	}
	applyRoles()
	// read-only methods moved from the pointer to the value receiver (recv.go)
	if rw, rov := pointerReceiversBack(w, repo, cur, extraEnv); rw != w {
		w, cur = rw, rov
		applyRoles()
	}
	// reference package functions that became methods (reshape.go)
	if mw, mov := methodsToFunctions(w, repo, cur, extraEnv); mw != w {
		w, cur = mw, mov
		applyRoles()
	}
	// helper normalisation (inline.go): functions that are not in the reference table are inlined into their callers
	// field groups (flatten.go): fields of a reference struct that were moved into a new sub-struct are read in place
	if fw, fov := flattenGroups(w, repo, cur, extraEnv); fw != w {
		w, cur = fw, fov
		applyRoles() // the fields that surfaced may be renamed ones
	}
	nw, ov := normaliseHelpers(w, repo, cur, extraEnv)
	// pre-sized slices filled by index, once per iteration (fillloops.go)
	nw, ov = fillLoopsToAppends(nw, repo, ov, extraEnv)
	// an assignment repeated verbatim right after itself (dupstmts.go)
	nw, ov = dropRepeatedAssignments(nw, repo, ov, extraEnv)
	// function literals that inlining left without a use (deadlits.go)
	nw, ov = deadLiterals(nw, repo, ov, extraEnv)
	// goroutine captures of write-once variables back to the parameters of the reference (captures.go)
	nw, ov = capturesToParams(nw, repo, ov, extraEnv)
	// scalar replacement (scalarise.go): local variables of struct types that are not in the reference table
	nw = scalariseLocals(nw, repo, ov, extraEnv)
	if nw != w {
		nw.AsWritten = w
	}
	return nw, nil
}

func loadWorldRaw(repo string, overlay map[string][]byte, extraEnv []string) (*World, error) {
	env := append(os.Environ(), "GOFLAGS=-mod=mod", "GOPROXY=off", "GOSUMDB=off", "GOTOOLCHAIN=local", "GOWORK=off")
	env = append(env, extraEnv...)
	fset := token.NewFileSet()
	cfg := &packages.Config{
		Mode:    packages.LoadSyntax | packages.NeedModule,
		Dir:     repo,
		Fset:    fset,
		Env:     env,
		Tests:   false,
		Overlay: overlay,
	}
	pkgs, err := packages.Load(cfg, libPkgs...)
	if err != nil {
		return nil, fmt.Errorf("load: %v", err)
	}
	if len(pkgs) != len(libPkgs) {
		return nil, fmt.Errorf("load: expected %d packages, got %d", len(libPkgs), len(pkgs))
	}
	w := &World{Repo: repo, Fset: fset, Pkgs: map[string]*packages.Package{}, SPkgs: map[string]*ssa.Package{},
		byName: map[string]*ssa.Function{}, fileOf: map[*ast.File]*packages.Package{}, parents: map[ast.Node]ast.Node{}}
	var errs []string
	for _, p := range pkgs {
		for _, e := range p.Errors {
			errs = append(errs, e.Error())
		}
		if len(p.IgnoredFiles) > 0 {
			for _, f := range p.IgnoredFiles {
				if strings.HasSuffix(f, ".go") {
					errs = append(errs, "build-constrained file not analysed: "+f)
				}
			}
		}
		w.Pkgs[p.PkgPath] = p
		w.NFiles += len(p.Syntax)
		for _, f := range p.Syntax {
			w.fileOf[f] = p
		}
	}
	if len(errs) > 0 {
		return nil, fmt.Errorf("load: package errors (the tree must type-check):\n  %s", strings.Join(errs, "\n  "))
	}
	prog, spkgs := ssautil.Packages(pkgs, ssa.BuilderMode(0))
	prog.Build()
	w.Prog = prog
	for i, sp := range spkgs {
		if sp == nil {
			return nil, fmt.Errorf("ssa: no package for %s", pkgs[i].PkgPath)
		}
		w.SPkgs[pkgs[i].PkgPath] = sp
	}
	for fn := range ssautil.AllFunctions(prog) {
		if fn.Blocks == nil || fn.Pkg == nil {
			continue
		}
		if _, ok := w.Pkgs[fn.Pkg.Pkg.Path()]; !ok {
			continue
		}
		if fn.Synthetic != "" {
			continue
		}
		w.Funcs = append(w.Funcs, fn)
	}
	sort.Slice(w.Funcs, func(i, j int) bool { return w.Funcs[i].String() < w.Funcs[j].String() })
	for _, fn := range w.Funcs {
		w.byName[short(fn)] = fn
		w.NFuncs++
		w.NBlocks += len(fn.Blocks)
		for _, b := range fn.Blocks {
			w.NInstrs += len(b.Instrs)
		}
	}
	return w, nil
}

// short renders a function name without the module prefix:
// getoptions.parseCLIArgs, (*getoptions.GetOpt).Parse, (*option.Option).Save, (*dag.Graph).Run$3, strings.HasPrefix
func short(fn *ssa.Function) string {
	if fn == nil {
		return "<nil>"
	}
	return shortName(fn.String())
}

func shortName(s string) string {
	s = strings.ReplaceAll(s, modPath+"/internal/", "")
	s = strings.ReplaceAll(s, modPath+"/", "")
	s = strings.ReplaceAll(s, modPath+".", "getoptions.")
	s = strings.ReplaceAll(s, modPath, "getoptions")
	return s
}

// Fn returns the function with the given short name, or nil.
func (w *World) Fn(name string) *ssa.Function { return w.byName[name] }

// Pkg returns the package by short name ("getoptions", "option", "help", "sliceiterator", "text", "dag").
func (w *World) Pkg(shortPkg string) *packages.Package {
	for path, p := range w.Pkgs {
		if shortName(path) == shortPkg {
			return p
		}
	}
	return nil
}

// Field returns the field object pkg.Type.field or nil.
func (w *World) Field(shortPkg, typ, field string) *types.Var {
	p := w.Pkg(shortPkg)
	if p == nil {
		return nil
	}
	obj := p.Types.Scope().Lookup(typ)
	if obj == nil {
		return nil
	}
	st, ok := obj.Type().Underlying().(*types.Struct)
	if !ok {
		return nil
	}
	for i := 0; i < st.NumFields(); i++ {
		if st.Field(i).Name() == field {
			return st.Field(i)
		}
	}
	return nil
}

// Obj returns the package-level object or nil.
func (w *World) Obj(shortPkg, name string) types.Object {
	p := w.Pkg(shortPkg)
	if p == nil {
		return nil
	}
	return p.Types.Scope().Lookup(name)
}

// Pos renders a position relative to the repo root: file.go:line
func (w *World) Pos(p token.Pos) string {
	if !p.IsValid() {
		return "?"
	}
	pos := w.Fset.Position(p)
	rel, err := filepath.Rel(w.Repo, pos.Filename)
	if err != nil {
		rel = pos.Filename
	}
	return fmt.Sprintf("%s:%d", rel, pos.Line)
}

// CG returns the CHA call graph of the loaded program (sound for the module's own code).
func (w *World) CG() *callgraph.Graph {
	if w.cg == nil {
		w.cg = cha.CallGraph(w.Prog)
	}
	return w.cg
}

// Decl returns the syntax of a source function (FuncDecl or FuncLit) and its package.
func (w *World) Decl(fn *ssa.Function) ast.Node { return fn.Syntax() }

// PkgOfFn returns the typed package the function belongs to.
func (w *World) PkgOfFn(fn *ssa.Function) *packages.Package {
	if fn == nil || fn.Pkg == nil {
		return nil
	}
	return w.Pkgs[fn.Pkg.Pkg.Path()]
}

// Info returns the types.Info for the package containing fn.
func (w *World) Info(fn *ssa.Function) *types.Info {
	if p := w.PkgOfFn(fn); p != nil {
		return p.TypesInfo
	}
	return nil
}

// AllFuncDecls iterates over every FuncDecl of the library packages in a stable order.
func (w *World) AllFuncDecls(f func(p *packages.Package, d *ast.FuncDecl)) {
	var paths []string
	for path := range w.Pkgs {
		paths = append(paths, path)
	}
	sort.Strings(paths)
	for _, path := range paths {
		p := w.Pkgs[path]
		for _, file := range p.Syntax {
			for _, d := range file.Decls {
				if fd, ok := d.(*ast.FuncDecl); ok && fd.Body != nil {
					f(p, fd)
				}
			}
		}
	}
}

// goListIgnored double checks with the go tool that no file of the library is excluded by build constraints.
func goListIgnored(repo string) (string, error) {
	cmd := exec.Command("go", append([]string{"list", "-f", "{{.ImportPath}} {{.IgnoredGoFiles}}"}, libPkgs...)...)
	cmd.Dir = repo
	cmd.Env = append(os.Environ(), "GOFLAGS=-mod=mod", "GOPROXY=off", "GOSUMDB=off", "GOTOOLCHAIN=local", "GOWORK=off")
	out, err := cmd.CombinedOutput()
	return string(out), err
}

package main

// C05 - abbreviations.  C06 - aliases / Called / CalledAs / defaults.  C07 - single-dash modes.

import (
	"bytes"
	"fmt"
	"go/ast"
	"go/printer"
	"go/token"
	"go/types"
	"sort"
	"strings"

	"golang.org/x/tools/go/ssa"
)

func init() {
	register("C05", "other", []string{
		"decides: exact lookup before the prefix scan, scan predicate HasPrefix(declared, typed) over the cursor's own table, ambiguity ⇒ error (listing the sorted candidates) before any effect of that pair, resolution stores/looks up the full declared name, the typed prefix flows nowhere past resolution (non-interference)",
		"map lookup and strings.HasPrefix semantics are trusted",
	}, rC05Matcher, rC05ParserGates, rC05FullName, rC05NonInterference, func(w *World, r *Report) {
		subRule(w, r, rC01Splitter, "R05.7", "the typed text reaches the matcher as written (same obligations as C01 R01.2)", 5)
	})
	register("C06", "other", []string{
		"decides: who may write Called/UsedAlias and the user variables; only the matched record is touched; aliases register the same record; New/Value/Save agree on the receiver field of every kind; the 12 definers have the same shape (default stored, kind ↔ pointer type, registration, modifiers) and their wrappers return the pointer they registered",
		"behaviour of user-supplied modifier functions is not decided",
	}, rC06Writers, rC06OnlyMatched, rC06Alias, rC06ReceiverOwnership, rC06Definers, rC06KindTable, rC06Readers, func(w *World, r *Report) { calledOnMatch(w, r, "R06.8") }, func(w *World, r *Report) {
		subRule(w, r, rC10CopyOptions, "R06.11", "the record a command sees is the parent's own (same obligations as C10 R10.5)", 3)
	}, func(w *World, r *Report) {
		subRule(w, r, rC01Splitter, "R06.12", "one-letter and non-ASCII aliases reach the matcher unmangled (same obligations as C01 R01.2)", 5)
	}, func(w *World, r *Report) {
		subRule(w, r, rC05Matcher, "R06.10", "names and aliases are interchangeable for abbreviations: the matcher treats every key of the table alike (same obligations as C05 R05.1)", 3)
	}, func(w *World, r *Report) {
		subRule(w, r, rC12GetEnvBody, "R06.9", "Called through the environment: the GetEnv modifier marks an option called only when it saved a valid non-empty value (same obligations as C12 R12.4)", 9)
	})
	register("C07", "other", []string{
		"decides: long options never consult the mode (information flow), Normal-mode single-dash branch ≡ long-option branch (structural equality), rune/byte unit consistency, bundling: one pair per character and only the last receives the attached value, single-dash: first rune is the option and the rest plus the attached text is the value; the parser hands the mode to the splitter only; Parse passes the root's mode",
		"the string equivalences themselves (-xyz=v ≡ -x -y -z=v, -xREST ≡ --x=REST) are decided only through these structural conditions",
	}, rC07ModeFlow, rC07NormalIsLong, rC07Units, rC07Bundling, rC07SingleDash, rC07Messages)
}

// ------------------------------------------------------------------ C05

// valuesOnPaths: the values v can have when control arrived through the given set of blocks: phis are resolved to
// the operands whose predecessor block is in the set (the start block counts only through its k-th edge); other values are returned as is.
func valuesOnPaths(v ssa.Value, blocks map[*ssa.BasicBlock]bool, start *ssa.BasicBlock, k int, seen map[ssa.Value]bool) []ssa.Value {
	if seen[v] {
		return nil
	}
	seen[v] = true
	phi, ok := v.(*ssa.Phi)
	if !ok || !blocks[phi.Block()] {
		return []ssa.Value{v}
	}
	var out []ssa.Value
	for i, e := range phi.Edges {
		p := phi.Block().Preds[i]
		if (blocks[p] && p != start) || (p == start && k < len(start.Succs) && start.Succs[k] == phi.Block() && start.Succs[1-k] != phi.Block()) {
			out = append(out, valuesOnPaths(e, blocks, start, k, seen)...)
		}
	}
	return out
}

func rC05Matcher(w *World, r *Report) {
	ru := r.Rule("R05.1", "matcher: the exact lookup entry ∈ table, returning the singleton {entry}, dominates the prefix scan; the scan appends a declared key only under strings.HasPrefix(key, entry) and ranges over the node parameter's ChildOptions", 3)
	fn := w.Fn(nMatcher)
	if fn == nil {
		ru.Undecided("anchor", "-", "getAliasNameFromPartialEntry not found")
		return
	}
	var node, entry *ssa.Parameter
	for _, p := range fn.Params {
		if isTreePtr(p.Type()) {
			node = p
		} else if typeString(p.Type()) == "string" {
			entry = p
		}
	}
	fCO := w.Field("getoptions", "programTree", "ChildOptions")
	if node == nil || entry == nil {
		ru.Undecided("params", w.Pos(fn.Pos()), "unexpected signature")
		return
	}
	isTable := func(v ssa.Value) bool { b, ok := loadOfField(v, fCO); return ok && b == ssa.Value(node) }
	// exact lookup
	var exactIf *ssa.If
	for _, b := range fn.Blocks {
		if len(b.Instrs) == 0 {
			continue
		}
		if iff, ok := b.Instrs[len(b.Instrs)-1].(*ssa.If); ok {
			if ex, ok := iff.Cond.(*ssa.Extract); ok && ex.Index == 1 {
				if lk, ok := ex.Tuple.(*ssa.Lookup); ok && lk.CommaOk && isTable(lk.X) && lk.Index == ssa.Value(entry) {
					exactIf = iff
				}
			}
		}
	}
	if exactIf == nil {
		ru.Bad("exact-lookup", w.Pos(fn.Pos()), "no exact lookup of the typed entry in the node's option table: an exact name that is also a prefix of others would be ambiguous")
		return
	}
	// true edge returns {entry}
	ig := buildIG(fn)
	seen := ig.reachFrom(ig.edgeStart(exactIf.Block(), 0), nil)
	good, n := true, 0
	reachedBlocks := map[*ssa.BasicBlock]bool{}
	for i, s := range seen {
		if s {
			reachedBlocks[ig.instrs[i].Block()] = true
		}
	}
	for i, s := range seen {
		if ret, ok := ig.instrs[i].(*ssa.Return); ok && s {
			n++
			// the value returned on these paths: a phi at a join (single exit) contributes only the operands that
			// arrive from blocks on the exact-match paths
			vals := valuesOnPaths(ret.Results[0], reachedBlocks, exactIf.Block(), 0, map[ssa.Value]bool{})
			for _, v := range vals {
				els, sp, ok := elementsOf(v, map[ssa.Value]bool{})
				if !ok || len(sp) > 0 || len(els) != 1 || els[0] != ssa.Value(entry) {
					good = false
				}
			}
			if len(vals) == 0 {
				good = false
			}
		}
	}
	ru.Check(good && n > 0, "exact-lookup/singleton", w.IPos(exactIf), "exact name ⇒ returns {entry}", "an exact match does not return exactly the entry itself")
	// scan
	scans := 0
	for _, b := range fn.Blocks {
		for _, in := range b.Instrs {
			rg, ok := in.(*ssa.Range)
			if !ok {
				continue
			}
			if !isTable(rg.X) {
				ru.Bad("scan/table", w.IPos(rg), "the scan ranges over something other than the node's own ChildOptions")
				continue
			}
			scans++
			// the scan visits every key: no exit from the loop other than exhausting the table
			for _, ref := range *rg.Referrers() {
				if nx, ok := ref.(*ssa.Next); ok {
					loop := naturalLoop(nx.Block())
					complete := true
					for lb := range loop {
						for _, sc := range lb.Succs {
							if !loop[sc] && lb != nx.Block() {
								complete = false
							}
						}
						for _, li := range lb.Instrs {
							if _, isRet := li.(*ssa.Return); isRet {
								complete = false
							}
						}
					}
					ru.Check(complete, "scan/complete", w.IPos(nx), "every declared name is compared", "the prefix scan can stop early: an ambiguous prefix would be resolved to whichever name the map yields first")
				}
			}
			ru.Check(edgeDominates(exactIf.Block(), 1, b), "scan/after-exact", w.IPos(rg), "prefix scan only when there is no exact match", "prefix scan is not dominated by the failed exact lookup: an exact name could be reported ambiguous")
		}
	}
	if scans == 0 {
		ru.Bad("scan", w.Pos(fn.Pos()), "no prefix scan over the option table")
	}
	// appends under HasPrefix(key, entry) - the appends of the scan (those after the failed exact lookup)
	apps := 0
	for _, b := range fn.Blocks {
		if !edgeDominates(exactIf.Block(), 1, b) {
			continue
		}
		for _, in := range b.Instrs {
			c, ok := in.(*ssa.Call)
			if !ok || calleeName(c) != "builtin:append" || len(c.Call.Args) != 2 {
				continue
			}
			els, _, _ := elementsOf(c.Call.Args[1], map[ssa.Value]bool{})
			for _, e := range els {
				apps++
				ex, isKey := e.(*ssa.Extract)
				okKey := false
				if isKey && ex.Index == 1 {
					if nx, ok := ex.Tuple.(*ssa.Next); ok {
						if rg, ok := nx.Iter.(*ssa.Range); ok && isTable(rg.X) {
							okKey = true
						}
					}
				}
				okPred := false
				for _, f := range factsAt(b) {
					if f.Op == token.ILLEGAL && f.Truth {
						if hc, ok := f.X.(*ssa.Call); ok && calleeName(hc) == "strings.HasPrefix" && hc.Call.Args[0] == e && hc.Call.Args[1] == ssa.Value(entry) {
							okPred = true
						}
					}
				}
				switch {
				case !okKey:
					ru.Bad("scan/candidate", w.IPos(c), "a candidate is not a key of the node's option table")
				case !okPred:
					ru.Bad("scan/predicate", w.IPos(c), "candidate appended without the test strings.HasPrefix(declaredName, typedText) (wrong predicate or operand order: e.g. Contains, EqualFold, or prefix of the typed text)")
				default:
					ru.OK("scan/predicate", w.IPos(c), "candidate = table key with HasPrefix(key, entry)")
				}
			}
		}
	}
	if apps == 0 {
		ru.Bad("scan/predicate", w.Pos(fn.Pos()), "the scan appends no candidate")
	}
	// every return after the scan hands back the accumulator that receives *every* matching key
	ig2 := buildIG(fn)
	for _, b := range fn.Blocks {
		for _, in := range b.Instrs {
			ret, ok := in.(*ssa.Return)
			if !ok || !edgeDominates(exactIf.Block(), 1, b) {
				continue
			}
			acc, ok := ret.Results[0].(*ssa.Phi)
			if !ok {
				ru.Bad("scan/result", w.IPos(ret), "the matcher does not return the scan's accumulator: "+ret.Results[0].String())
				continue
			}
			hdr := acc.Block()
			complete := true
			for _, lb := range fn.Blocks {
				iff, ok := lb.Instrs[len(lb.Instrs)-1].(*ssa.If)
				if !ok || !naturalLoop(hdr)[lb] {
					continue
				}
				hc, ok := iff.Cond.(*ssa.Call)
				if !ok || calleeName(hc) != "strings.HasPrefix" {
					continue
				}
				isApp := func(i2 ssa.Instruction) bool {
					c, ok := i2.(*ssa.Call)
					return ok && calleeName(c) == "builtin:append" && appendChainOf(c, acc, map[ssa.Value]bool{})
				}
				okAll, _ := ig2.mustPass(ig2.edgeStart(lb, 0), isApp, func(i2 ssa.Instruction) bool { return i2.Block() == hdr && i2 == hdr.Instrs[0] })
				if !okAll {
					complete = false
				}
			}
			ru.Check(complete, "scan/result", w.IPos(ret), "returns the list of all names with the typed prefix", "the list returned by the matcher can omit names that have the typed prefix: an ambiguous abbreviation would be resolved silently")
		}
	}
}

// ambiguityIf finds the test that singles out `len(matches) > 1` on the matcher's result.
func (m *parserModel) ambiguityIf() (*ssa.If, int, *ssa.Call) {
	return m.matchLenTest(func(on, other [5]bool) bool {
		return on == [5]bool{false, false, true, true, true} && !other[2] && !other[3] && !other[4]
	})
}

func rC05ParserGates(w *World, r *Report) {
	ru := r.Rule("R05.3", "parser: the match block (Called / UsedAlias stores, Save) is dominated by len(matches) <= 1 and len(matches) != 0; the > 1 edge returns a non-nil error built from the sorted candidate list and performs no effect", 4)
	m := parserOrFail(w, ru)
	if m == nil {
		return
	}
	amb, ambK, mc := m.ambiguityIf()
	nm, nmK, _ := m.noMatchIf()
	if amb == nil {
		ru.Bad("ambiguity-test", w.Pos(m.fn.Pos()), "no test len(matches) > 1 on the matcher result: an ambiguous prefix would be resolved silently to the first candidate")
		return
	}
	if nm == nil {
		ru.Bad("no-match-test", w.Pos(m.fn.Pos()), "no test len(matches) == 0")
		return
	}
	// ambiguity edge
	seen := m.ig.reachFrom(m.ig.edgeStart(amb.Block(), ambK), nil)
	effs := m.effects()
	var problems []string
	nret := 0
	sorted := false
	for i, s := range seen {
		if !s {
			continue
		}
		in := m.ig.instrs[i]
		for _, e := range effs {
			if e.Instr == in {
				problems = append(problems, "effect "+e.Kind+" at "+w.IPos(in))
			}
		}
		if c, ok := in.(*ssa.Call); ok && (calleeName(c) == "sort.Strings" || calleeBase(c) == "slices.Sort") && c.Call.Args[0] == ssa.Value(mc) {
			sorted = true
		}
		if ret, ok := in.(*ssa.Return); ok {
			nret++
			last := ret.Results[len(ret.Results)-1]
			if isNilConst(last) {
				problems = append(problems, "returns a nil error at "+w.IPos(ret))
			} else {
				p := NewProv(w, m.fn)
				p.opaque[nMatcher] = true
				p.Slice(last)
				has := false
				for _, o := range p.Ops {
					if o.Kind == "call:"+nMatcher {
						has = true
					}
				}
				if !has {
					problems = append(problems, "the error does not list the candidates")
				}
			}
		}
		if in == ssa.Instruction(m.mainNext) {
			problems = append(problems, "the ambiguity edge continues parsing")
		}
	}
	if nret == 0 {
		problems = append(problems, "the ambiguity edge does not return")
	}
	if !sorted {
		problems = append(problems, "the candidate list is not sorted before it is reported (see also C20)")
	}
	if len(problems) == 0 {
		ru.OK("ambiguity-edge", w.IPos(amb), "len(matches) > 1 ⇒ sort, return error listing the candidates, no effect")
	} else {
		ru.Bad("ambiguity-edge", w.IPos(amb), strings.Join(problems, "; "))
	}
	// the ambiguity test comes first: nothing is done with the matcher's result (no effect, no stop, no return,
	// no next token) before it has been tested for several candidates
	if mcIn := ssa.Instruction(mc); mc != nil {
		isEff := map[ssa.Instruction]bool{}
		for _, e := range effs {
			isEff[e.Instr] = true
		}
		// an edge of another test of the candidate count on which several candidates are impossible (`case 0:` of a
		// switch on the count) has been tested for several candidates as well
		m.lenSets = map[*ssa.If][2][5]bool{}
		m.matchLenTest(func(on, other [5]bool) bool { return false })
		lenSets := m.lenSets
		m.lenSets = nil
		isTarget := func(in ssa.Instruction) bool {
			if isEff[in] || in == ssa.Instruction(m.mainNext) {
				return true
			}
			if _, isRet := in.(*ssa.Return); isRet {
				return true
			}
			if c, isCall := in.(ssa.CallInstruction); isCall && calleeName(c) == nStoreRest {
				return true
			}
			return false
		}
		seenF := m.ig.reachFromE(m.ig.after(mcIn), func(in ssa.Instruction) bool { return in == ssa.Instruction(amb) }, func(term ssa.Instruction, k int) bool {
			if iff, ok := term.(*ssa.If); ok && k < 2 {
				if sets, ok := lenSets[iff]; ok && !sets[k][2] && !sets[k][3] && !sets[k][4] {
					return false
				}
			}
			return true
		})
		okFirst, wit := true, ssa.Instruction(nil)
		for i, sn := range seenF {
			if sn && isTarget(m.ig.instrs[i]) && m.ig.instrs[i] != ssa.Instruction(amb) {
				okFirst, wit = false, m.ig.instrs[i]
				break
			}
		}
		if okFirst {
			ru.OK("ambiguity-first", w.IPos(amb), "every use of the matcher's result comes after the test for several candidates")
		} else {
			ru.Bad("ambiguity-first", w.IPos(wit), "reached from the matcher call without passing the test for several candidates: an ambiguous prefix is handled silently on that path (e.g. stored as a remaining argument)")
		}
	}
	// match block gates
	for _, e := range effs {
		if e.Kind != effSave && !(e.Kind == effOptStore) {
			continue
		}
		b := e.Instr.Block()
		if !m.mainNext.Block().Dominates(b) || m.inCompletionOnly(b) {
			continue
		}
		key := "match-block/" + e.Kind
		if e.Field != nil {
			key += "/" + e.Field.Name()
		}
		g1 := edgeDominates(amb.Block(), 1-ambK, b)
		g2 := edgeDominates(nm.Block(), 1-nmK, b)
		if !(g1 && g2) && mc != nil {
			// not by dominance (the cases of a switch on the count meet again before the block): by paths - with no
			// candidate, or with several, the effect is unreachable from the matcher call along the edges that
			// count allows
			m.lenSets = map[*ssa.If][2][5]bool{}
			m.matchLenTest(func(on, other [5]bool) bool { return false })
			lenSets := m.lenSets
			m.lenSets = nil
			confined := len(lenSets) > 0
			for _, c := range []int{0, 2} {
				c := c
				seenC := m.ig.reachFromE(m.ig.after(ssa.Instruction(mc)), func(in ssa.Instruction) bool {
					return in == ssa.Instruction(m.mainNext) || in == ssa.Instruction(mc)
				}, func(term ssa.Instruction, k int) bool {
					if iff, ok := term.(*ssa.If); ok && k < 2 {
						if sets, ok := lenSets[iff]; ok && !sets[k][c] {
							return false
						}
					}
					return true
				})
				if seenC[m.ig.idx[e.Instr]] {
					confined = false
				}
			}
			if confined {
				g1, g2 = true, true
			}
		}
		if g1 && g2 {
			ru.OK(key, w.IPos(e.Instr), "only reached with exactly one candidate")
		} else {
			ru.Bad(key, w.IPos(e.Instr), fmt.Sprintf("option effect not confined to the single-candidate case (not-ambiguous=%v, found=%v)", g1, g2))
		}
	}
}

func rC05FullName(w *World, r *Report) {
	ru := r.Rule("R05.4", "resolution uses the full declared name: the table lookup key and the value stored in UsedAlias are matches[0] of the matcher called with the cursor and the pair's typed text", 3)
	m := parserOrFail(w, ru)
	if m == nil {
		return
	}
	_, lk := m.lookupOkIf()
	if lk == nil {
		ru.Undecided("lookup", w.Pos(m.fn.Pos()), "lookup not found")
		return
	}
	ok, why := matcherReturnsKeys(w, m, lk)
	ru.Check(ok, "lookup/key-is-matcher-result", w.IPos(lk), why, why)
	// index 0
	idxOK := false
	var mcall *ssa.Call
	if ld, ok := lk.Index.(*ssa.UnOp); ok {
		if ia, ok := ld.X.(*ssa.IndexAddr); ok {
			if k, ok := constInt(ia.Index); ok && k == 0 {
				idxOK = true
			}
			mcall, _ = ia.X.(*ssa.Call)
		}
	}
	ru.Check(idxOK, "lookup/first-candidate", w.IPos(lk), "key = matches[0]", "lookup key is not matches[0]")
	// matcher arguments: cursor and pair.Option
	if mcall != nil {
		a := mcall.Call.Args
		_, isOpt := loadOfFieldNamed(a[1], "Option")
		ru.Check(isTreePtr(a[0].Type()) && a[0] == ssa.Value(m.cursorPhi) && isOpt, "matcher/arguments", w.IPos(mcall), "matcher(cursor, pair.Option)", "the matcher is not asked about the current command level with the pair's typed text")
	}
	// UsedAlias stores
	for _, e := range m.effects() {
		if e.Kind == effOptStore && e.Field == m.fUsedAlias {
			_, _, val, _ := storeField(e.Instr)
			ru.Check(sameElem(val, lk.Index), "UsedAlias/full-name", w.IPos(e.Instr), "UsedAlias = matches[0]", "UsedAlias is not the full declared name (CalledAs would report the typed abbreviation or something else): "+val.String())
		}
	}
}

func rC05NonInterference(w *World, r *Report) {
	ru := r.Rule("R05.6", "non-interference: the typed option text of a pair flows only into the matcher and into the unknown-option record; nothing after resolution can distinguish a unique prefix from the full name", 2)
	m := parserOrFail(w, ru)
	if m == nil {
		return
	}
	n := 0
	eachInstr(m.fn, func(in ssa.Instruction) {
		fa, ok := in.(*ssa.FieldAddr)
		if !ok || fieldOfAddr(fa).Name() != "Option" || typeString(derefType(fa.X.Type())) != "getoptions.optionPair" {
			return
		}
		for _, ref := range *fa.Referrers() {
			ld, ok := ref.(*ssa.UnOp)
			if !ok {
				if _, isDbg := ref.(*ssa.DebugRef); !isDbg {
					ru.Bad("typed-text/use", w.IPos(ref), "pair.Option is written or its address escapes in the parser")
				}
				continue
			}
			for _, use := range *ld.Referrers() {
				n++
				if c, ok := use.(*ssa.Call); ok {
					cn := calleeName(c)
					if sa := stringArgs(c); (cn == nMatcher || cn == nNewUnknown) && len(sa) > 0 && sa[0] == ssa.Value(ld) {
						ru.OK("typed-text/use", w.IPos(use), "flows into "+cn)
						continue
					}
				}
				if _, isDbg := use.(*ssa.DebugRef); isDbg {
					n--
					continue
				}
				if mi, ok := use.(*ssa.MakeInterface); ok && onlyLogged(mi) {
					n--
					continue // handed to the debug Logger only
				}
				ru.Bad("typed-text/use", w.IPos(use), "the typed option text is used outside the matcher / unknown record: "+describeInstr(use))
			}
		}
	})
	if n == 0 {
		ru.Undecided("typed-text", w.Pos(m.fn.Pos()), "no use of pair.Option found")
	}
}

// ------------------------------------------------------------------ C06

func rC06Writers(w *World, r *Report) {
	ru := r.Rule("R06.1", "who may write Option.Called / Option.UsedAlias: the parser's match block, (*Option).SetCalled and the SetCalled modifier - nothing else", 4)
	table := map[string]string{
		nParseCLI:                          "match block",
		"(*option.Option).SetCalled":       "used by GetEnv (environment counts as called)",
		"(*getoptions.GetOpt).SetCalled$1": "public modifier",
	}
	for _, name := range []string{"Called", "UsedAlias"} {
		f := w.Field("option", "Option", name)
		if f == nil {
			ru.Undecided("anchor/"+name, "-", "field not found")
			continue
		}
		for _, u := range w.fieldUses(f) {
			if u.Kind == "read" {
				continue
			}
			n := short(u.Fn)
			if _, ok := table[n]; ok && u.Kind == "write" {
				ru.Present("writer/"+name+"/"+n, w.IPos(u.Instr), table[n])
			} else if u.Kind == "write" && isFreshZeroInit(u) {
				ru.Present("writer/"+name+"/"+n, w.IPos(u.Instr), "the zero value written out in the literal that creates the record")
			} else {
				ru.Bad("writer/"+name+"/"+n, w.IPos(u.Instr), "unexpected "+u.Kind+" of "+name+": an option could be reported as called although it was not given")
			}
		}
	}
	// callers of SetCalled
	for _, fn := range w.Funcs {
		for _, c := range callsTo(fn, "(*option.Option).SetCalled") {
			n := short(fn)
			if strings.HasPrefix(n, "(*getoptions.GetOpt).GetEnv$") {
				ru.Present("SetCalled-caller/"+n, w.IPos(c), "environment variable applied")
			} else {
				ru.Bad("SetCalled-caller/"+n, w.IPos(c), "unexpected caller of SetCalled")
			}
		}
	}
}

func rC06OnlyMatched(w *World, r *Report) {
	ru := r.Rule("R06.2", "only the matched record is touched: the receiver of every Save in the parser and the base of every option-field store is the single value obtained from the table lookup by matches[0]", 5)
	m := parserOrFail(w, ru)
	if m == nil {
		return
	}
	_, lk := m.lookupOkIf()
	if lk == nil {
		ru.Undecided("lookup", w.Pos(m.fn.Pos()), "lookup not found")
		return
	}
	var rec ssa.Value
	for _, ref := range *lk.Referrers() {
		if ex, ok := ref.(*ssa.Extract); ok && ex.Index == 0 {
			rec = ex
		}
	}
	for _, e := range m.effects() {
		switch e.Kind {
		case effSave:
			c := e.Instr.(*ssa.Call)
			ru.Check(c.Call.Args[0] == rec, "Save-receiver", w.IPos(c), "Save on the matched record", "Save is called on a record other than the matched one")
		case effOptStore:
			base, _, _, _ := storeField(e.Instr)
			ru.Check(base == rec, "store-base/"+e.Field.Name(), w.IPos(e.Instr), "store on the matched record", "an option record other than the matched one is modified")
		}
	}
	// no option-typed value is obtained by ranging over the table outside the completion block
	eachInstr(m.fn, func(in ssa.Instruction) {
		if c, ok := in.(*ssa.Call); ok && m.w.PkgOfFn(c.Call.StaticCallee()) != nil {
			for i, a := range c.Call.Args {
				if isOptionPtr(a.Type()) && a != rec && calleeName(c) != nSave && !m.inCompletionOnly(in.Block()) {
					ru.Bad("option-passed/"+calleeName(c), w.IPos(c), fmt.Sprintf("another option record (argument %d) is handed to %s", i, calleeName(c)))
				}
			}
		}
	})
}

func rC06Alias(w *World, r *Report) {
	ru := r.Rule("R06.3", "aliases are extra keys for the same record: the Alias modifier registers every alias with AddChildOption(alias, opt) using the option pointer it was given, and AddChildOption stores exactly that pointer under that key", 2)
	fn := w.Fn("(*getoptions.GetOpt).Alias$1")
	if fn == nil {
		ru.Undecided("anchor", "-", "Alias modifier closure not found")
		return
	}
	var opt *ssa.Parameter
	for _, p := range fn.Params {
		if isOptionPtr(p.Type()) {
			opt = p
		}
	}
	calls := callsTo(fn, "(*getoptions.programTree).AddChildOption")
	if len(calls) == 0 {
		ru.Bad("Alias/register", w.Pos(fn.Pos()), "aliases are not registered in the option table")
	}
	for _, c := range calls {
		a := c.Common().Args
		// alias key: element of the captured alias slice (range value)
		p := NewProv(w, fn).Slice(a[1])
		okKey := len(p.Ops) == 0
		ru.Check(a[2] == ssa.Value(opt) && okKey, "Alias/register", w.IPos(c), "AddChildOption(alias, opt) with the same record", "an alias is registered with a different record or a transformed name")
		// inside a range over all aliases
		if !blockInCycle(c.Block()) {
			ru.Bad("Alias/all", w.IPos(c), "registration is not inside the loop over all aliases")
		}
	}
	// SetAlias on the same record with the same list
	sa := callsTo(fn, "(*option.Option).SetAlias")
	ru.Check(len(sa) == 1 && sa[0].Common().Args[0] == ssa.Value(opt), "Alias/SetAlias", w.Pos(fn.Pos()), "opt.SetAlias(alias...) on the record", "the record's alias list is not updated")
	// AddChildOption: n.ChildOptions[name] = opt
	add := w.Fn("(*getoptions.programTree).AddChildOption")
	if add == nil {
		ru.Undecided("AddChildOption", "-", "not found")
		return
	}
	okStore := false
	eachInstr(add, func(in ssa.Instruction) {
		if mu, ok := in.(*ssa.MapUpdate); ok {
			if _, isTable := loadOfFieldNamed(mu.Map, "ChildOptions"); isTable && paramIndex(add, mu.Key) == 1 && paramIndex(add, mu.Value) == 2 {
				okStore = true
			}
		}
	})
	ru.Check(okStore, "AddChildOption/store", w.Pos(add.Pos()), "table[name] = opt", "AddChildOption does not store the given record under the given name")
}

func rC06ReceiverOwnership(w *World, r *Report) {
	ru := r.Rule("R06.4", "the user variables are written only through the Set* methods of Option and Save; Set* methods are called only by Save; Save is called only by the parser's match block, SetValue and GetEnv: an option that is not matched (or set through those) keeps its default", 8)
	sums := setterSummaries(w)
	for _, fn := range w.Funcs {
		ws := receiverWrites(fn)
		if len(ws) == 0 {
			continue
		}
		n := short(fn)
		if _, ok := sums[fn]; ok || n == nSave {
			ru.Present("receiver-writer/"+n, w.Pos(fn.Pos()), "setter / Save")
		} else {
			ru.Bad("receiver-writer/"+n, w.IPos(ws[0].in), "user variable written outside the Set* methods and Save")
		}
	}
	for _, fn := range w.Funcs {
		for _, c := range allCalls(fn) {
			callee := c.Common().StaticCallee()
			if _, ok := sums[callee]; ok {
				if short(fn) == nSave {
					continue
				}
				ru.Bad("setter-caller/"+short(fn), w.IPos(c), "setter "+short(callee)+" called outside Save")
			}
		}
		for _, c := range callsTo(fn, nSave) {
			n := short(fn)
			switch {
			case n == nParseCLI, n == "(*getoptions.GetOpt).SetValue", strings.HasPrefix(n, "(*getoptions.GetOpt).GetEnv$"):
				ru.Present("Save-caller/"+n, w.IPos(c), "expected caller")
			default:
				ru.Bad("Save-caller/"+n, w.IPos(c), "unexpected caller of Save: option values could change without being given")
			}
		}
	}
	// the pointer fields themselves are assigned only in New
	for _, fn := range w.Funcs {
		eachInstr(fn, func(in ssa.Instruction) {
			if _, f, _, ok := storeField(in); ok && isRecvPtrField(f) && isOptionPtr(in.(*ssa.Store).Addr.(*ssa.FieldAddr).X.Type()) {
				if short(fn) != "option.New" {
					ru.Bad("pointer-rebind/"+short(fn), w.IPos(in), "receiver pointer "+f.Name()+" re-bound outside option.New: the pointer returned at definition would no longer be the one written")
				}
			}
		})
	}
}

// kindTables extracts, from New / Value / Save, the receiver field used for each option kind.
func kindTables(w *World) (newT, valueT, saveT map[string]string, assertT map[string]string, problems []string) {
	newT, valueT, saveT, assertT = map[string]string{}, map[string]string{}, map[string]string{}, map[string]string{}
	kinds := optionKinds(w)
	kindOfBlock := func(fn *ssa.Function, b *ssa.BasicBlock) []string {
		var out []string
		seen := map[string]bool{}
		// direct predecessors testing OptType == K with b as true successor
		for _, p := range b.Preds {
			if len(p.Instrs) == 0 {
				continue
			}
			iff, ok := p.Instrs[len(p.Instrs)-1].(*ssa.If)
			if !ok || p.Succs[0] != b {
				continue
			}
			for _, f := range condFacts(iff.Cond, true, iff) {
				if f.Op == token.EQL && f.Y != nil {
					if c, ok := f.Y.(*ssa.Const); ok && c.Value != nil {
						if _, isKind := f.X.Type().(*types.Named); isKind && typeString(f.X.Type()) == "option.Type" {
							if name, ok := kinds[c.Value.String()]; ok && !seen[name] {
								seen[name] = true
								out = append(out, name)
							}
						}
					}
				}
			}
		}
		return out
	}
	// New
	if fn := w.Fn("option.New"); fn != nil {
		for _, b := range fn.Blocks {
			ks := kindOfBlock(fn, b)
			if len(ks) == 0 {
				continue
			}
			for _, in := range b.Instrs {
				if _, f, v, ok := storeField(in); ok && isRecvPtrField(f) {
					for _, k := range ks {
						newT[k] = f.Name()
						if ta, ok := v.(*ssa.TypeAssert); ok {
							assertT[k] = typeString(ta.AssertedType)
						}
					}
				}
			}
		}
	} else {
		problems = append(problems, "option.New not found")
	}
	// Value
	if fn := w.Fn("(*option.Option).Value"); fn != nil {
		for _, b := range fn.Blocks {
			ks := kindOfBlock(fn, b)
			for _, in := range b.Instrs {
				ret, ok := in.(*ssa.Return)
				if !ok {
					continue
				}
				fld := ""
				v := ret.Results[0]
				if mi, ok := v.(*ssa.MakeInterface); ok {
					v = mi.X
				}
				if u, ok := v.(*ssa.UnOp); ok && u.Op == token.MUL {
					if f := recvFieldOfPtr(u.X); f != nil {
						fld = f.Name()
					}
				}
				if len(ks) == 0 {
					valueT["default"] = fld
				}
				for _, k := range ks {
					valueT[k] = fld
				}
			}
		}
	} else {
		problems = append(problems, "Value not found")
	}
	// Save: sinks under a kind fact
	if fn := w.Fn(nSave); fn != nil {
		sinks, _ := saveSinks(w, fn, setterSummaries(w))
		for _, s := range sinks {
			for val, name := range kinds {
				_ = val
				if kindFactIs(w, s.in.Block(), name) || kindArmContains(w, fn, name, s.in.Block()) {
					if old, ok := saveT[name]; ok && old != s.field.Name() {
						problems = append(problems, "Save writes both "+old+" and "+s.field.Name()+" for "+name)
					}
					saveT[name] = s.field.Name()
				}
			}
		}
	} else {
		problems = append(problems, "Save not found")
	}
	return
}

// kindArmContains: block b is only reachable (within fn) through the true edge of a test OptType == kind
// (several kinds may share an arm: `case A, B:`), judged by path reachability rather than dominance.
func kindArmContains(w *World, fn *ssa.Function, kind string, b *ssa.BasicBlock) bool {
	c, ok := w.Obj("option", kind).(*types.Const)
	if !ok {
		return false
	}
	ig := buildIG(fn)
	for _, blk := range fn.Blocks {
		if len(blk.Instrs) == 0 {
			continue
		}
		iff, ok := blk.Instrs[len(blk.Instrs)-1].(*ssa.If)
		if !ok {
			continue
		}
		for _, f := range condFacts(iff.Cond, true, iff) {
			if f.Op != token.EQL || f.Y == nil {
				continue
			}
			if _, isKind := loadOfFieldNamed(f.X, "OptType"); !isKind {
				continue
			}
			k, ok := f.Y.(*ssa.Const)
			if !ok || k.Value == nil || k.Value.String() != c.Val().String() {
				continue
			}
			// b reachable from the true edge without passing another kind test
			seen := ig.reachFromE(ig.edgeStart(blk, 0), nil, func(term ssa.Instruction, k int) bool {
				if t, ok := term.(*ssa.If); ok {
					for _, f2 := range condFacts(t.Cond, true, t) {
						if f2.Y != nil {
							if _, isKind := loadOfFieldNamed(f2.X, "OptType"); isKind {
								return false
							}
						}
					}
				}
				return true
			})
			if len(b.Instrs) > 0 && seen[ig.first[b]] {
				return true
			}
		}
	}
	return false
}

// optionKinds maps the constant value of every option.Type constant to its name.
func optionKinds(w *World) map[string]string {
	out := map[string]string{}
	p := w.Pkg("option")
	if p == nil {
		return out
	}
	for _, n := range p.Types.Scope().Names() {
		if c, ok := p.Types.Scope().Lookup(n).(*types.Const); ok && typeString(c.Type()) == "option.Type" {
			out[c.Val().String()] = n
		}
	}
	return out
}

func rC06KindTable(w *World, r *Report) {
	ru := r.Rule("R06.7", "New, Value and Save agree, for every option kind, on the receiver field that holds the user variable (the pointer given at definition is the one written by Save and read by Value)", 12)
	newT, valueT, saveT, _, problems := kindTables(w)
	for _, p := range problems {
		ru.Undecided("tables", "-", p)
	}
	kinds := optionKinds(w)
	var names []string
	for _, n := range kinds {
		names = append(names, n)
	}
	sort.Strings(names)
	for _, k := range names {
		nf := newT[k]
		vf, ok := valueT[k]
		if !ok {
			vf = valueT["default"]
		}
		sf := saveT[k]
		pos := "-"
		if fn := w.Fn("option.New"); fn != nil {
			pos = w.Pos(fn.Pos())
		}
		switch {
		case nf == "":
			ru.Bad("kind/"+k, pos, "option.New binds no receiver pointer for this kind")
		case vf != nf:
			ru.Bad("kind/"+k, pos, fmt.Sprintf("New binds %s but Value reads %s", nf, vf))
		case sf != nf:
			ru.Bad("kind/"+k, pos, fmt.Sprintf("New binds %s but Save writes %q", nf, sf))
		default:
			ru.OK("kind/"+k, pos, "New/Value/Save all use "+nf)
		}
	}
}

// definerInfo describes one *Var definer.
var definerTable = []struct{ varFn, wrapFn, kind string }{
	{"BoolVar", "Bool", "BoolType"}, {"StringVar", "String", "StringType"}, {"StringVarOptional", "StringOptional", "StringOptionalType"},
	{"StringSliceVar", "StringSlice", "StringRepeatType"}, {"IntVar", "Int", "IntType"}, {"IntVarOptional", "IntOptional", "IntOptionalType"},
	{"IntSliceVar", "IntSlice", "IntRepeatType"}, {"IncrementVar", "Increment", "IncrementType"}, {"Float64Var", "Float64", "Float64Type"},
	{"Float64VarOptional", "Float64Optional", "Float64OptionalType"}, {"Float64SliceVar", "Float64Slice", "Float64RepeatType"}, {"StringMapVar", "StringMap", "StringMapType"},
}

func rC06Definers(w *World, r *Report) {
	ru := r.Rule("R06.5", "sibling agreement of the 12 definers: default stored through the pointer before option.New reads it; option.New(name, kind, p) with the kind whose asserted pointer type equals the static type of p; AddChildOption(name, n); every modifier called with (gopt, n); each wrapper passes &def and returns the same pointer", 24)
	_, _, _, assertT, _ := kindTables(w)
	for _, d := range definerTable {
		fn := w.Fn("(*getoptions.GetOpt)." + d.varFn)
		key := "definer/" + d.varFn
		if fn == nil {
			ru.Undecided(key, "-", "definer not found")
			continue
		}
		var problems []string
		ig := buildIG(fn)
		news := callsTo(fn, "option.New")
		adds := callsTo(fn, "(*getoptions.programTree).AddChildOption")
		if len(news) != 1 || len(adds) != 1 {
			ru.Bad(key, w.Pos(fn.Pos()), fmt.Sprintf("%d option.New and %d AddChildOption calls, expected one each", len(news), len(adds)))
			continue
		}
		nw := news[0].(*ssa.Call)
		na := nw.Call.Args
		var pParam, nameParam, defParam *ssa.Parameter
		// positional: (gopt, p *T, name string[, def T], fns ...ModifyFn) - parameter names are not relied on
		for _, p := range fn.Params[1:] {
			switch {
			case pParam == nil && nameParam == nil && isPointerType(p.Type()):
				pParam = p
			case pParam != nil && nameParam == nil && typeString(p.Type()) == "string":
				nameParam = p
			case nameParam != nil && defParam == nil && !strings.HasPrefix(typeString(p.Type()), "[]getoptions.ModifyFn") && types.Identical(p.Type(), derefType(pParam.Type())):
				defParam = p
			}
		}
		// kind constant
		kc, _ := w.Obj("option", d.kind).(*types.Const)
		if c, ok := na[1].(*ssa.Const); !ok || kc == nil || c.Value == nil || c.Value.String() != kc.Val().String() {
			problems = append(problems, "option.New is not called with "+d.kind)
		}
		if na[0] != ssa.Value(nameParam) {
			problems = append(problems, "option.New is not given the name parameter")
		}
		data := na[2]
		if mi, ok := data.(*ssa.MakeInterface); ok {
			data = mi.X
		}
		if data != ssa.Value(pParam) {
			problems = append(problems, "option.New is not given the pointer parameter")
		} else if want := assertT[d.kind]; want != typeString(pParam.Type()) {
			problems = append(problems, fmt.Sprintf("kind %s asserts %s but the pointer has type %s (would panic at definition)", d.kind, want, typeString(pParam.Type())))
		}
		// default store before New
		if defParam != nil {
			var st ssa.Instruction
			eachInstr(fn, func(in ssa.Instruction) {
				if s, ok := in.(*ssa.Store); ok && s.Addr == ssa.Value(pParam) && s.Val == ssa.Value(defParam) {
					st = in
				}
			})
			if st == nil {
				problems = append(problems, "the declared default is not stored through the pointer")
			} else if ok, _ := ig.mustPass([]int{0}, func(in ssa.Instruction) bool { return in == st }, func(in ssa.Instruction) bool { return in == ssa.Instruction(nw) }); !ok {
				problems = append(problems, "the default is stored after option.New (which reads it) - or after the modifiers ran, overriding an environment value")
			}
			// no store through p after the modifiers
			var stores int
			eachInstr(fn, func(in ssa.Instruction) {
				if s, ok := in.(*ssa.Store); ok && s.Addr == ssa.Value(pParam) {
					stores++
				}
			})
			if stores != 1 {
				problems = append(problems, fmt.Sprintf("%d stores through the pointer, expected exactly the default", stores))
			}
		}
		// AddChildOption(name, n)
		aa := adds[0].Common().Args
		if aa[1] != ssa.Value(nameParam) || aa[2] != ssa.Value(nw) {
			problems = append(problems, "AddChildOption is not called with (name, the new record)")
		}
		// modifiers: dynamic calls of ModifyFn with (gopt, n) in a range over fns
		mods := 0
		for _, c := range allCalls(fn) {
			// a same-module helper that applies the modifiers: h(gopt, n, fns) { for … { fn(gopt, n) } }
			if callee := c.Common().StaticCallee(); callee != nil && callee.Blocks != nil && w.PkgOfFn(callee) != nil && isModifierApplier(callee) {
				mods++
				a := c.Common().Args
				okArgs := false
				for i, p := range callee.Params {
					_ = p
					if i < len(a) && a[i] == ssa.Value(nw) {
						okArgs = true
					}
				}
				if len(a) == 0 || a[0] != ssa.Value(fn.Params[0]) || !okArgs {
					problems = append(problems, "the modifiers are not applied with (gopt, the new record)")
				}
				if ok, _ := ig.mustPass([]int{0}, func(in ssa.Instruction) bool { return in == adds[0] }, func(in ssa.Instruction) bool { return in == c }); !ok {
					problems = append(problems, "modifiers can run before the option is registered")
				}
				continue
			}
			if strings.HasPrefix(calleeName(c), "dyn:getoptions.ModifyFn") {
				mods++
				a := c.Common().Args
				if len(a) != 2 || a[0] != ssa.Value(fn.Params[0]) || a[1] != ssa.Value(nw) {
					problems = append(problems, "a modifier is not called with (gopt, the new record)")
				}
				if !blockInCycle(c.Block()) {
					problems = append(problems, "modifiers are not applied in a loop over all of them")
				}
				// after registration
				if ok, _ := ig.mustPass([]int{0}, func(in ssa.Instruction) bool { return in == adds[0] }, func(in ssa.Instruction) bool { return in == c }); !ok {
					problems = append(problems, "modifiers can run before the option is registered")
				}
			}
		}
		if mods != 1 {
			problems = append(problems, fmt.Sprintf("%d modifier call sites, expected one", mods))
		}
		if len(problems) == 0 {
			ru.OK(key, w.Pos(fn.Pos()), "default → New(name, "+d.kind+", p) → AddChildOption → modifiers")
		} else {
			ru.Bad(key, w.Pos(fn.Pos()), strings.Join(problems, "; "))
		}
		// wrapper
		wf := w.Fn("(*getoptions.GetOpt)." + d.wrapFn)
		wkey := "wrapper/" + d.wrapFn
		if wf == nil {
			ru.Undecided(wkey, "-", "wrapper not found")
			continue
		}
		calls := callsTo(wf, "(*getoptions.GetOpt)."+d.varFn)
		if len(calls) != 1 {
			ru.Bad(wkey, w.Pos(wf.Pos()), "wrapper does not call its *Var definer exactly once")
			continue
		}
		ptr := calls[0].Common().Args[1]
		okRet := false
		eachInstr(wf, func(in ssa.Instruction) {
			if ret, ok := in.(*ssa.Return); ok && len(ret.Results) == 1 {
				v := ret.Results[0]
				if v == ptr {
					okRet = true
				}
				// StringMap returns the map itself: load of the same alloc
				if u, ok := v.(*ssa.UnOp); ok && u.Op == token.MUL && u.X == ptr {
					okRet = true
				}
			}
		})
		_, isAlloc := ptr.(*ssa.Alloc)
		ru.Check(okRet && isAlloc, wkey, w.Pos(wf.Pos()), "returns the pointer it registered", "the wrapper returns a pointer other than the one handed to the definer: the program would read a variable the parser never writes")
		// the wrapper hands on everything it was given: name, default, bounds, modifiers
		dropped := ""
		for _, p := range wf.Params[1:] {
			fwd := false
			for _, a := range calls[0].Common().Args {
				if a == ssa.Value(p) {
					fwd = true
				}
				// a parameter whose address is taken lives in an alloc: passed as its load
				if u, ok := a.(*ssa.UnOp); ok && u.Op == token.MUL {
					if al, ok := u.X.(*ssa.Alloc); ok && allocHoldsParam(wf, al, p) {
						fwd = true
					}
				}
				if al, ok := a.(*ssa.Alloc); ok && allocHoldsParam(wf, al, p) {
					fwd = true
				}
			}
			if !fwd {
				dropped = p.Name()
			}
		}
		ru.Check(dropped == "", wkey+"/forwards", w.Pos(wf.Pos()), "every parameter is handed to the *Var definer", "the wrapper does not hand its parameter `"+dropped+"` to the definer: what was declared (aliases, description, required, env, default) is silently dropped")
	}
}

// allocHoldsParam: the alloc is the spill slot of parameter p (its only stores store p, or nothing for a local).
func allocHoldsParam(fn *ssa.Function, al *ssa.Alloc, p *ssa.Parameter) bool {
	holds := false
	eachInstr(fn, func(in ssa.Instruction) {
		if st, ok := in.(*ssa.Store); ok && st.Addr == ssa.Value(al) && st.Val == ssa.Value(p) {
			holds = true
		}
	})
	return holds
}

func isPointerType(t types.Type) bool { _, ok := t.Underlying().(*types.Pointer); return ok }

func rC06Readers(w *World, r *Report) {
	ru := r.Rule("R06.6", "Called / CalledAs / Value read the record stored under the given name in the table of the node the GetOpt views: Called returns record.Called, CalledAs record.UsedAlias, Value record.Value()", 3)
	for _, t := range []struct{ fn, field string }{{"Called", "Called"}, {"CalledAs", "UsedAlias"}, {"Value", ""}} {
		fn := w.Fn("(*getoptions.GetOpt)." + t.fn)
		if fn == nil {
			ru.Undecided("reader/"+t.fn, "-", "not found")
			continue
		}
		good := false
		var nameParam ssa.Value = fn.Params[1]
		eachInstr(fn, func(in ssa.Instruction) {
			ret, ok := in.(*ssa.Return)
			if !ok {
				return
			}
			for _, v := range phiLeaves(ret.Results[0], map[ssa.Value]bool{}) { // single exit: the cases meet in a phi
				if mi, ok := v.(*ssa.MakeInterface); ok {
					v = mi.X
				}
				var rec ssa.Value
				if t.field != "" {
					if b, ok := loadOfFieldNamed(v, t.field); ok {
						rec = b
					}
				} else if c, ok := v.(*ssa.Call); ok && calleeName(c) == "(*option.Option).Value" {
					rec = c.Call.Args[0]
				}
				if rec == nil {
					continue
				}
				if isOwnTableLookup(rec, fn.Params[0], nameParam, 0) {
					good = true
				}
			}
		})
		ru.Check(good, "reader/"+t.fn, w.Pos(fn.Pos()), "reads table[name] of the viewed node", t.fn+" does not report the field of the record registered under the given name")
	}
}

// ------------------------------------------------------------------ C07

func rC07ModeFlow(w *World, r *Report) {
	ru := r.Rule("R07.1", "information flow: in the splitter every read of the mode is dominated by the failed long-option test (match[1] is neither \"--\" nor \"/\"); in the parser the mode flows only into splitter calls; Parse passes the root's mode for a real parse", 4)
	fn := w.Fn(nIsOption)
	if fn == nil {
		ru.Undecided("anchor", "-", "isOption not found")
		return
	}
	var mode *ssa.Parameter
	for _, p := range fn.Params {
		if typeString(p.Type()) == "getoptions.Mode" {
			mode = p
		}
	}
	if mode == nil || mode.Referrers() == nil {
		ru.Undecided("mode-param", w.Pos(fn.Pos()), "mode parameter not found")
		return
	}
	n := 0
	for _, ref := range *mode.Referrers() {
		if _, ok := ref.(*ssa.DebugRef); ok {
			continue
		}
		if mi, ok := ref.(*ssa.MakeInterface); ok && onlyLogged(mi) {
			continue // an operand of a debug Logger line
		}
		n++
		notLong := false
		for _, f := range factsAt(ref.Block()) {
			if f.Op == token.NEQ && f.Y != nil {
				if s, ok := constString(f.Y); ok && s == "--" && isSubmatchElem(f.X, 1) {
					notLong = true
				}
			}
		}
		// decided over the finite set of texts the prefix group can hold: only `-` is left
		if left, ok := prefixesLeft(w, factsAt(ref.Block())); ok && !notLong {
			notLong = len(left) == 1 && left["-"]
		}
		ru.Check(notLong, "splitter/mode-read", w.IPos(ref), "mode consulted only for single-dash tokens", "the mode is consulted for tokens that may start with `--`: long options would be interpreted differently per mode")
	}
	if n == 0 {
		ru.Bad("splitter/mode-read", w.Pos(fn.Pos()), "the splitter never reads the mode")
	}
	// the long-option block returns (does not fall into the mode switch)
	// parser
	m := parserOrFail(w, ru)
	if m == nil {
		return
	}
	var pmode *ssa.Parameter
	for _, p := range m.fn.Params {
		if typeString(p.Type()) == "getoptions.Mode" {
			pmode = p
		}
	}
	if pmode != nil && pmode.Referrers() != nil {
		for _, ref := range *pmode.Referrers() {
			if _, ok := ref.(*ssa.DebugRef); ok {
				continue
			}
			c, ok := ref.(*ssa.Call)
			ru.Check(ok && calleeName(c) == nIsOption && c.Call.Args[1] == ssa.Value(pmode), "parser/mode-use", w.IPos(ref), "mode handed to the splitter", "the parser uses the mode outside splitter calls")
		}
	}
	// the real parse receives the root's mode
	if parse := w.Fn(nParse); parse != nil {
		for _, c := range callsTo(parse, nParseCLI) {
			a := c.Common().Args
			if s, ok := constString(a[0]); !ok || s != "" {
				continue
			}
			base, ok := loadOfFieldNamed(a[3], "mode")
			ru.Check(ok && sameVal(base, a[1]), "Parse/passes-root-mode", w.IPos(c), "parseCLIArgs(\"\", root, args, root.mode)", "the real parse is not given the mode configured on the root node")
		}
	}
	// fMode readers
	if f := w.Field("getoptions", "programTree", "mode"); f != nil {
		for _, u := range w.fieldUses(f) {
			n := short(u.Fn)
			switch {
			case u.Kind == "write" && n == "(*getoptions.GetOpt).SetMode":
				ru.Present("mode-field/"+n, w.IPos(u.Instr), "setter")
			case u.Kind == "read" && n == nParse:
				// must be the argument of the normal-mode parse call, loaded from gopt.programTree
				ld := u.Instr.(ssa.Value)
				good := false
				for _, ref := range *ld.Referrers() {
					if c, ok := ref.(*ssa.Call); ok && calleeName(c) == nParseCLI && c.Call.Args[3] == ld {
						if s, ok := constString(c.Call.Args[0]); ok && s == "" {
							if b, ok := loadOfFieldNamed(u.Addr.X, "programTree"); ok && b == ssa.Value(u.Fn.Params[0]) && sameVal(u.Addr.X, c.Call.Args[1]) {
								good = true
							}
						}
					}
				}
				ru.Check(good, "mode-field/Parse", w.IPos(u.Instr), "Parse passes the root's mode to the real parse", "Parse does not pass the root's mode to parseCLIArgs")
			case u.Kind == "read" && w.detachedAPI(u.Fn):
				ru.Present("mode-field/"+n, w.IPos(u.Instr), "read by an entry point that nothing of the library calls")
			default:
				ru.Bad("mode-field/"+n, w.IPos(u.Instr), "unexpected "+u.Kind+" of programTree.mode")
			}
		}
	}
}

// isSubmatchElem: v is a load of element idx of a FindStringSubmatch result.
func isSubmatchElem(v ssa.Value, idx int64) bool {
	u, ok := v.(*ssa.UnOp)
	if !ok || u.Op != token.MUL {
		return false
	}
	ia, ok := u.X.(*ssa.IndexAddr)
	if !ok {
		return false
	}
	k, ok := constInt(ia.Index)
	if !ok || k != idx {
		return false
	}
	return isSubmatchResult(ia.X, map[ssa.Value]bool{})
}

func isSubmatchResult(v ssa.Value, seen map[ssa.Value]bool) bool {
	if seen[v] {
		return true
	}
	seen[v] = true
	switch x := v.(type) {
	case *ssa.Call:
		return calleeName(x) == "(*regexp.Regexp).FindStringSubmatch"
	case *ssa.Phi:
		for _, e := range x.Edges {
			if c, ok := e.(*ssa.Const); ok && c.Value == nil {
				continue
			}
			if !isSubmatchResult(e, seen) {
				return false
			}
		}
		return true
	}
	return false
}

// canonicalStmts prints statements with local identifiers renamed in order of first appearance.
func canonicalStmts(fset *token.FileSet, info *types.Info, stmts []ast.Stmt) string {
	names := map[string]string{} // local variable name -> positional name (objects sharing a name share the positional name)
	var labels []string          // labels declared in the statements, in order (renamed positionally)
	var buf bytes.Buffer
	for _, s := range stmts {
		ast.Inspect(s, func(n ast.Node) bool {
			if ls, ok := n.(*ast.LabeledStmt); ok {
				labels = append(labels, ls.Label.Name)
			}
			return true
		})
	}
	for _, s := range stmts {
		ast.Inspect(s, func(n ast.Node) bool {
			switch x := n.(type) {
			case *ast.Ident:
				obj := info.ObjectOf(x)
				if v, ok := obj.(*types.Var); ok && !v.IsField() && v.Parent() != nil && v.Parent() != v.Pkg().Scope() {
					if _, seen := names[obj.Name()]; !seen {
						names[obj.Name()] = fmt.Sprintf("v%d", len(names))
					}
				}
			}
			return true
		})
	}
	// print with renamed identifiers
	for _, s := range stmts {
		var b bytes.Buffer
		printer.Fprint(&b, fset, s)
		buf.WriteString(b.String())
		buf.WriteString("\n")
	}
	out := buf.String()
	// textual substitution of whole-word identifiers in deterministic order (longest first)
	type kv struct{ from, to string }
	var subs []kv
	for name, to := range names {
		subs = append(subs, kv{name, to})
	}
	sort.Slice(subs, func(i, j int) bool {
		if len(subs[i].from) != len(subs[j].from) {
			return len(subs[i].from) > len(subs[j].from)
		}
		return subs[i].from < subs[j].from
	})
	for _, s := range subs {
		out = replaceWord(out, s.from, "§"+s.to)
	}
	for i, l := range labels {
		out = replaceWord(out, l, fmt.Sprintf("§L%d", i))
	}
	// strip comments and blank lines / indentation
	var lines []string
	for _, l := range strings.Split(out, "\n") {
		if i := strings.Index(l, "//"); i >= 0 {
			l = l[:i]
		}
		l = strings.TrimSpace(l)
		if l != "" {
			lines = append(lines, l)
		}
	}
	return strings.Join(lines, "\n")
}

func replaceWord(s, from, to string) string {
	var out strings.Builder
	isIdent := func(b byte) bool {
		return b == '_' || b >= '0' && b <= '9' || b >= 'a' && b <= 'z' || b >= 'A' && b <= 'Z'
	}
	for i := 0; i < len(s); {
		if strings.HasPrefix(s[i:], from) && (i == 0 || (!isIdent(s[i-1]) && s[i-1] != '.')) && (i+len(from) == len(s) || !isIdent(s[i+len(from)])) {
			out.WriteString(to)
			i += len(from)
			continue
		}
		out.WriteByte(s[i])
		i++
	}
	return out.String()
}

func rC07NormalIsLong(w *World, r *Report) {
	ru := r.Rule("R07.2", "sibling agreement: the long-option branch and the Normal-mode branch of the splitter are the same computation on (match[2], match[3]) (structural equality modulo local renaming), so `-name[=v]` ≡ `--name[=v]` in Normal mode", 1)
	fn := w.Fn(nIsOption)
	if fn == nil {
		ru.Undecided("anchor", "-", "isOption not found")
		return
	}
	decl, ok := fn.Syntax().(*ast.FuncDecl)
	if !ok {
		ru.Undecided("anchor", "-", "no syntax")
		return
	}
	info := w.Info(fn)
	var longBody, normalBody []ast.Stmt
	ast.Inspect(decl.Body, func(n ast.Node) bool {
		switch x := n.(type) {
		case *ast.IfStmt:
			var b bytes.Buffer
			printer.Fprint(&b, w.Fset, x.Cond)
			paramName := ""
			if len(decl.Type.Params.List) > 0 && len(decl.Type.Params.List[0].Names) > 0 {
				paramName = decl.Type.Params.List[0].Names[0].Name
			}
			if strings.Contains(b.String(), `== "--"`) && !strings.HasPrefix(strings.TrimSpace(b.String()), paramName+" == ") && longBody == nil {
				longBody = x.Body.List
			}
		case *ast.SwitchStmt:
			if id, ok := x.Tag.(*ast.Ident); ok {
				if v, ok := info.ObjectOf(id).(*types.Var); ok && typeString(v.Type()) == "getoptions.Mode" {
					for _, cc := range x.Body.List {
						c := cc.(*ast.CaseClause)
						if c.List == nil {
							normalBody = c.Body
						}
						for _, e := range c.List {
							if id, ok := e.(*ast.Ident); ok && id.Name == "Normal" {
								normalBody = c.Body
							}
						}
					}
				}
			}
		}
		return true
	})
	if normalBody == nil {
		// if-chain form: `if mode == Bundling {…return}` `if mode == SingleDash {…return}` followed by the Normal
		// statements, or `if … {…} else if … {…} else { Normal }`
		isModeTest := func(e ast.Expr) bool {
			be, ok := e.(*ast.BinaryExpr)
			if !ok || be.Op != token.EQL {
				return false
			}
			for _, side := range []ast.Expr{be.X, be.Y} {
				if id, ok := side.(*ast.Ident); ok {
					if v, ok := info.ObjectOf(id).(*types.Var); ok && typeString(v.Type()) == "getoptions.Mode" {
						return true
					}
				}
			}
			return false
		}
		terminates := func(b *ast.BlockStmt) bool {
			if b == nil || len(b.List) == 0 {
				return false
			}
			_, ok := b.List[len(b.List)-1].(*ast.ReturnStmt)
			return ok
		}
		ast.Inspect(decl.Body, func(n ast.Node) bool {
			blk, ok := n.(*ast.BlockStmt)
			if !ok || normalBody != nil {
				return true
			}
			last := -1
			for i, st := range blk.List {
				ifs, ok := st.(*ast.IfStmt)
				if !ok || ifs.Init != nil || !isModeTest(ifs.Cond) {
					continue
				}
				// else-if chain ending in a plain else
				cur := ifs
				for cur != nil {
					switch e := cur.Else.(type) {
					case *ast.IfStmt:
						if !isModeTest(e.Cond) {
							cur = nil
						} else {
							cur = e
						}
						continue
					case *ast.BlockStmt:
						normalBody = e.List
					}
					break
				}
				if normalBody != nil {
					return false
				}
				if ifs.Else == nil && terminates(ifs.Body) {
					last = i
				}
			}
			if last >= 0 && last+1 < len(blk.List) {
				normalBody = blk.List[last+1:]
			}
			return true
		})
	}
	astWhy := ""
	if longBody != nil && normalBody != nil {
		a := canonicalStmts(w.Fset, info, longBody)
		b := canonicalStmts(w.Fset, info, normalBody)
		if a == b {
			ru.OK("long-vs-normal", w.Pos(decl.Pos()), fmt.Sprintf("both branches are the same %d-line computation", strings.Count(a, "\n")+1))
			return
		}
		astWhy = "the Normal-mode single-dash branch differs from the long-option branch:\n--- long\n" + a + "\n--- normal\n" + b
	} else {
		astWhy = fmt.Sprintf("long-option branch found=%v, Normal-mode branch found=%v in the syntax", longBody != nil, normalBody != nil)
	}
	// decide on the intermediate representation: the code executed only for `--`/`/` tokens and the code executed
	// only in Normal mode must be the same computation (ssaiso.go)
	lb, nb, why := isOptionBranchEntries(w, fn)
	if lb == nil || nb == nil {
		if longBody != nil && normalBody != nil {
			ru.Bad("long-vs-normal", w.Pos(decl.Pos()), astWhy+"\n(intermediate representation: "+why+")")
		} else {
			ru.Undecided("branches", w.Pos(fn.Pos()), astWhy+"; "+why)
		}
		return
	}
	if same, detail := regionIso(lb, nb); same {
		ru.OK("long-vs-normal", w.Pos(decl.Pos()), "the long-option code and the Normal-mode code are the same computation: "+detail)
	} else {
		ru.Bad("long-vs-normal", w.Pos(decl.Pos()), astWhy+"\n(intermediate representation: "+detail+")")
	}
}

// isOptionBranchEntries locates, in the splitter, the entry block of the code executed only when the token starts
// with `--` (or `/`) and the entry block of the code executed only in Normal mode for single-dash tokens.
func isOptionBranchEntries(w *World, fn *ssa.Function) (long, normal *ssa.BasicBlock, why string) {
	ig := buildIG(fn)
	blocksOf := func(seen []bool) map[*ssa.BasicBlock]bool {
		out := map[*ssa.BasicBlock]bool{}
		for i, s := range seen {
			if s {
				out[ig.instrs[i].Block()] = true
			}
		}
		return out
	}
	// tests of the prefix group against constants
	var trueStarts, falseStarts []int
	isTestBlock := map[*ssa.BasicBlock]bool{}
	type test struct {
		iff *ssa.If
		pos bool
	}
	var tests []test
	for _, b := range fn.Blocks {
		if len(b.Instrs) == 0 {
			continue
		}
		iff, ok := b.Instrs[len(b.Instrs)-1].(*ssa.If)
		if !ok {
			continue
		}
		bo, ok := iff.Cond.(*ssa.BinOp)
		if !ok || (bo.Op != token.EQL && bo.Op != token.NEQ) {
			continue
		}
		x, y := bo.X, bo.Y
		if _, isC := constString(x); isC {
			x, y = y, x
		}
		if _, isC := constString(y); !isC || !isSubmatchElem(x, 1) {
			continue
		}
		isTestBlock[b] = true
		pos := bo.Op == token.EQL
		if c, _ := constString(y); c == "-" {
			// a comparison with the single dash: the other texts of the prefix group (`--`, `/`) take the other edge
			lang := prefixLangOf(w, x)
			onlyLong := len(lang) > 1
			for s := range lang {
				if s != "-" && s != "--" && s != "/" {
					onlyLong = false
				}
			}
			if !onlyLong {
				continue
			}
			pos = !pos
		}
		tests = append(tests, test{iff, pos})
	}
	if len(tests) == 0 {
		return nil, nil, "no test of the prefix group"
	}
	// explore from the tests themselves so that the phis of the blocks behind them are evaluated on the taken edge
	kTrueOf := map[ssa.Instruction]int{}
	for _, t := range tests {
		kTrueOf[t.iff] = 0
		if !t.pos {
			kTrueOf[t.iff] = 1
		}
		trueStarts = append(trueStarts, ig.idx[t.iff])
		b := t.iff.Block()
		if !isTestBlock[b.Succs[1-kTrueOf[t.iff]]] {
			falseStarts = append(falseStarts, ig.idx[t.iff])
		}
	}
	onlyTrue := func(term ssa.Instruction, k int) bool {
		if kt, ok := kTrueOf[term]; ok {
			return k == kt
		}
		return true
	}
	onlyFalse := func(term ssa.Instruction, k int) bool {
		if kt, ok := kTrueOf[term]; ok {
			return k != kt
		}
		return true
	}
	rt, rf := blocksOf(ig.reachFromE(trueStarts, nil, onlyTrue)), blocksOf(ig.reachFromE(falseStarts, nil, onlyFalse))
	longOnly := map[*ssa.BasicBlock]bool{}
	for b := range rt {
		if !rf[b] && !isTestBlock[b] {
			longOnly[b] = true
		}
	}
	le := regionEntries(longOnly)
	if len(le) != 1 {
		return nil, nil, fmt.Sprintf("%d entry block(s) for the long-option code", len(le))
	}
	// mode parameter
	var mode *ssa.Parameter
	for _, p := range fn.Params {
		if typeString(p.Type()) == "getoptions.Mode" {
			mode = p
		}
	}
	if mode == nil {
		return le[0], nil, "no Mode parameter"
	}
	reachMode := func(name string) map[*ssa.BasicBlock]bool {
		c, _ := w.Obj("getoptions", name).(*types.Const)
		if c == nil {
			return nil
		}
		return blocksOf(ig.reachAssuming(triEnv{mode: vsVal{c: c.Val()}}, nil))
	}
	rn, rb, rs := reachMode("Normal"), reachMode("Bundling"), reachMode("SingleDash")
	if rn == nil || rb == nil || rs == nil {
		return le[0], nil, "mode constants not found"
	}
	normalOnly := map[*ssa.BasicBlock]bool{}
	for b := range rn {
		if !rb[b] && !rs[b] {
			normalOnly[b] = true
		}
	}
	ne := regionEntries(normalOnly)
	if len(ne) != 1 {
		return le[0], nil, fmt.Sprintf("%d entry block(s) for the Normal-mode code", len(ne))
	}
	return le[0], ne[0], ""
}

func rC07Units(w *World, r *Report) {
	ru := r.Rule("R07.3", "unit consistency: a string that is decomposed into runes is never measured in bytes against a constant >= 1 in the same function (emptiness tests are unit independent)", 1)
	n := 0
	for _, fn := range w.Funcs {
		// strings decomposed by []rune(x)
		type elemKey struct {
			base ssa.Value
			idx  int64
		}
		keyOf := func(v ssa.Value) (elemKey, bool) {
			if u, ok := v.(*ssa.UnOp); ok && u.Op == token.MUL {
				if ia, ok := u.X.(*ssa.IndexAddr); ok {
					if k, ok := constInt(ia.Index); ok {
						return elemKey{ia.X, k}, true
					}
				}
			}
			return elemKey{v, -1}, true
		}
		runed := map[elemKey]ssa.Instruction{}
		eachInstr(fn, func(in ssa.Instruction) {
			if cv, ok := in.(*ssa.Convert); ok && typeString(cv.Type()) == "[]rune" {
				if k, ok := keyOf(cv.X); ok {
					runed[k] = in
				}
			}
		})
		if len(runed) == 0 {
			continue
		}
		eachInstr(fn, func(in ssa.Instruction) {
			bo, ok := in.(*ssa.BinOp)
			if !ok {
				return
			}
			check := func(lenSide, constSide ssa.Value) {
				c, ok := lenSide.(*ssa.Call)
				if !ok || calleeName(c) != "builtin:len" {
					return
				}
				arg := c.Call.Args[0]
				if cv, ok := arg.(*ssa.Convert); ok && typeString(cv.Type()) == "[]byte" {
					arg = cv.X // len([]byte(s)) is the byte length of s
				}
				if b, ok := arg.Type().Underlying().(*types.Basic); !ok || b.Info()&types.IsString == 0 {
					return
				}
				k, ok := keyOf(arg)
				if !ok {
					return
				}
				if _, isRuned := runed[k]; !isRuned {
					return
				}
				n++
				cv, isC := constInt(constSide)
				if !isC {
					ru.Bad("byte-length/"+short(fn), w.IPos(in), "byte length of a rune-decomposed string compared with a non-constant")
					return
				}
				emptiness := cv == 0 || (cv == 1 && (bo.Op == token.LSS || bo.Op == token.GEQ) && lenSide == bo.X)
				if emptiness {
					ru.OK("byte-length/"+short(fn), w.IPos(in), "emptiness test only")
				} else {
					ru.Bad("byte-length/"+short(fn), w.IPos(in), fmt.Sprintf("byte length compared with %d while the same string is split into runes: a multi-byte character is miscounted", cv))
				}
			}
			switch bo.Op {
			case token.LSS, token.LEQ, token.GTR, token.GEQ, token.EQL, token.NEQ:
				check(bo.X, bo.Y)
				check(bo.Y, bo.X)
			}
		})
	}
	if n == 0 {
		ru.Present("no-byte-length-of-runed-strings", "-", "no string that is split into runes is measured in bytes")
	}
}

func rC07Bundling(w *World, r *Report) {
	ru := r.Rule("R07.4", "bundling: one pair per character of the option text (every iteration of the per-character loop appends, nothing is filtered); the attached value is stored only into the last pair; the parser's per-pair loop does not use the pair's position", 3)
	fn := w.Fn(nIsOption)
	if fn == nil {
		ru.Undecided("anchor", "-", "isOption not found")
		return
	}
	bc, _ := w.Obj("getoptions", "Bundling").(*types.Const)
	if bc == nil {
		ru.Undecided("Bundling", "-", "constant not found")
		return
	}
	inBundling := func(b *ssa.BasicBlock) bool {
		for _, f := range factsAt(b) {
			if f.Op == token.EQL && f.Y != nil {
				if p, ok := f.X.(*ssa.Parameter); ok && typeString(p.Type()) == "getoptions.Mode" {
					if c, ok := f.Y.(*ssa.Const); ok && c.Value != nil && c.Value.String() == bc.Val().String() {
						return true
					}
				}
			}
		}
		return false
	}
	// per-character loop
	loops := 0
	for _, b := range fn.Blocks {
		coll := rangeCollectionOfHeader(b)
		if coll == nil || !inBundling(b) {
			continue
		}
		loops++
		c, ok := coll.(*ssa.Call)
		okSplit := ok && calleeName(c) == "strings.Split" && isSubmatchElem(c.Call.Args[0], 2)
		if okSplit {
			s, isC := constString(c.Call.Args[1])
			okSplit = isC && s == ""
		}
		ru.Check(okSplit, "bundling/per-character", w.IPos(b.Instrs[0]), "range over strings.Split(match[2], \"\")", "the bundle is not split per character of the whole option text")
		// accumulator appended on every iteration with the loop element as Option
		for _, in := range b.Instrs {
			phi, ok := in.(*ssa.Phi)
			if !ok || typeString(phi.Type()) != "[]getoptions.optionPair" {
				continue
			}
			ok2, why := w.provablyNonEmpty(phi, func(ssa.Value) bool { return true }, 0)
			ru.Check(ok2, "bundling/every-character-kept", w.IPos(phi), "every iteration appends a pair", "some characters of the bundle produce no pair: "+why)
		}
	}
	if loops == 0 {
		ru.Bad("bundling/per-character", w.Pos(fn.Pos()), "no per-character loop in the Bundling arm")
	}
	// stores to .Args in the bundling arm go to opts[len(opts)-1]
	stores := 0
	eachInstr(fn, func(in ssa.Instruction) {
		st, ok := in.(*ssa.Store)
		if !ok || !inBundling(in.Block()) {
			return
		}
		fa, ok := st.Addr.(*ssa.FieldAddr)
		if !ok || fieldOfAddr(fa).Name() != "Args" {
			return
		}
		stores++
		ia, ok := fa.X.(*ssa.IndexAddr)
		good := false
		if ok {
			if bo, ok := ia.Index.(*ssa.BinOp); ok && bo.Op == token.SUB {
				if k, ok := constInt(bo.Y); ok && k == 1 {
					if lc, ok := bo.X.(*ssa.Call); ok && calleeName(lc) == "builtin:len" && lc.Call.Args[0] == ia.X {
						good = true
					}
				}
			}
		}
		ru.Check(good, "bundling/value-to-last", w.IPos(st), "attached value stored into opts[len(opts)-1]", "the attached value of a bundle is not given to the last option only")
		// the store happens for every bundle that has a value: the only conditions on it are "there is a pair"
		// (len(opts) > 0, or nothing: the text group is never empty) and "there is a value"
		extra := ""
		for _, f := range factsAt(st.Block()) {
			if f.If == nil || !inBundling(f.If.Block()) {
				continue
			}
			x, y, op := f.X, f.Y, f.Op
			if y != nil {
				if _, isC := x.(*ssa.Const); isC {
					x, y = y, x
					switch op {
					case token.LSS:
						op = token.GTR
					case token.GTR:
						op = token.LSS
					case token.LEQ:
						op = token.GEQ
					case token.GEQ:
						op = token.LEQ
					}
				}
				if c, ok := lenOf(x); ok && typeString(c.Type()) == "[]getoptions.optionPair" {
					k, isK := constInt(y)
					if isK && ((op == token.GTR && k == 0) || (op == token.GEQ && k == 1) || (op == token.NEQ && k == 0)) {
						continue
					}
					extra = w.IPos(f.If)
					continue
				}
			}
		}
		ru.Check(extra == "", "bundling/value-kept", w.IPos(st), "stored whenever the bundle has at least one option", "the attached value of a bundle is stored only under a stronger condition on the number of options (at "+extra+"): `-p=80` with a single letter loses `=80`")
	})
	if stores == 0 {
		ru.Bad("bundling/value-to-last", w.Pos(fn.Pos()), "the Bundling arm never stores an attached value")
	}
	// parser: the pair loop index is used only to address the pair
	if m := parserOrFail(w, ru); m != nil {
		if pl := m.pairLoop(); pl != nil {
			good := true
			for _, in := range pl.header.Instrs {
				phi, ok := in.(*ssa.Phi)
				if !ok || !isIntType(phi.Type()) || phi.Comment != "rangeindex" {
					continue
				}
				for _, ref := range *phi.Referrers() {
					bo, ok := ref.(*ssa.BinOp)
					if !ok || bo.Op != token.ADD {
						good = false
						continue
					}
					for _, r2 := range *bo.Referrers() {
						switch r2.(type) {
						case *ssa.IndexAddr, *ssa.BinOp, *ssa.Phi, *ssa.DebugRef:
						default:
							good = false
						}
					}
				}
			}
			ru.Check(good, "parser/pair-position-unused", w.IPos(pl.header.Instrs[0]), "pairs are processed uniformly", "the parser treats pairs differently depending on their position in the bundle")
		}
	}
}

func isIntType(t types.Type) bool {
	b, ok := t.Underlying().(*types.Basic)
	return ok && b.Kind() == types.Int
}

func rC07SingleDash(w *World, r *Report) {
	ru := r.Rule("R07.5", "single-dash: the option is the first rune of the option text; when more than one rune or an attached text exists the value is the remaining runes followed by match[3] unmodified", 2)
	fn := w.Fn(nIsOption)
	if fn == nil {
		ru.Undecided("anchor", "-", "isOption not found")
		return
	}
	sc, _ := w.Obj("getoptions", "SingleDash").(*types.Const)
	inSD := func(b *ssa.BasicBlock) bool {
		for _, f := range factsAt(b) {
			if f.Op == token.EQL && f.Y != nil {
				if p, ok := f.X.(*ssa.Parameter); ok && typeString(p.Type()) == "getoptions.Mode" {
					if c, ok := f.Y.(*ssa.Const); ok && sc != nil && c.Value != nil && c.Value.String() == sc.Val().String() {
						return true
					}
				}
			}
		}
		return false
	}
	okOpt, okArgs := false, false
	nArgsStores, nGoodArgs := 0, 0
	eachInstr(fn, func(in ssa.Instruction) {
		st, ok := in.(*ssa.Store)
		if !ok || !inSD(in.Block()) {
			return
		}
		switch a := st.Addr.(type) {
		case *ssa.FieldAddr:
			switch fieldOfAddr(a).Name() {
			case "Option":
				// string(rune) of []rune(match[2])[0]
				if cv, ok := st.Val.(*ssa.Convert); ok && typeString(cv.Type()) == "string" {
					if ld, ok := cv.X.(*ssa.UnOp); ok {
						if ia, ok := ld.X.(*ssa.IndexAddr); ok {
							if k, ok := constInt(ia.Index); ok && k == 0 {
								if c2, ok := ia.X.(*ssa.Convert); ok && isSubmatchElem(c2.X, 2) {
									okOpt = true
								}
							}
						}
					}
				}
			case "Args":
				nArgsStores++
				els, _, _ := elementsOf(st.Val, map[ssa.Value]bool{})
				for _, e := range els {
					if bo, ok := e.(*ssa.BinOp); ok && bo.Op == token.ADD && isSubmatchElem(bo.Y, 3) {
						if cv, ok := bo.X.(*ssa.Convert); ok {
							if sl, ok := cv.X.(*ssa.Slice); ok && sl.High == nil {
								if k, ok := constInt(sl.Low); ok && k == 1 {
									if c2, ok := sl.X.(*ssa.Convert); ok && isSubmatchElem(c2.X, 2) {
										okArgs = true
										nGoodArgs++
									}
								}
							}
						}
					}
				}
			}
		}
	})
	ru.Check(okOpt, "single-dash/option", w.Pos(fn.Pos()), "Option = string([]rune(match[2])[0])", "the single-dash option is not the first character of the token")
	// the value is attached whenever there is one: the store of Args is skipped only when the option text is a
	// single rune AND nothing is attached (match[3] empty)
	ig := buildIG(fn)
	var argStores []ssa.Instruction
	eachInstr(fn, func(in ssa.Instruction) {
		if st, ok := in.(*ssa.Store); ok && inSD(in.Block()) {
			if fa, ok := st.Addr.(*ssa.FieldAddr); ok && fieldOfAddr(fa).Name() == "Args" {
				argStores = append(argStores, in)
			}
		}
	})
	isArgStore := func(in ssa.Instruction) bool {
		for _, a := range argStores {
			if a == in {
				return true
			}
		}
		return false
	}
	m3Empty := func(fc Fact) bool {
		if fc.Y == nil {
			return false
		}
		x, y, op := fc.X, fc.Y, fc.Op
		if _, isC := x.(*ssa.Const); isC {
			x, y = y, x
			switch op {
			case token.LSS:
				op = token.GTR
			case token.GTR:
				op = token.LSS
			case token.LEQ:
				op = token.GEQ
			case token.GEQ:
				op = token.LEQ
			}
		}
		if c, ok := lenOf(x); ok && isSubmatchElem(c, 3) {
			k, isK := constInt(y)
			return isK && ((op == token.LEQ && k == 0) || (op == token.EQL && k == 0) || (op == token.LSS && k == 1))
		}
		if isSubmatchElem(x, 3) {
			sv, isS := constString(y)
			return isS && sv == "" && op == token.EQL
		}
		return false
	}
	// the option text is a single rune: len([]rune(match[2])) <= 1
	oneRune := func(fc Fact) bool {
		if fc.Y == nil {
			return false
		}
		x, y, op := fc.X, fc.Y, fc.Op
		if _, isC := x.(*ssa.Const); isC {
			x, y = y, x
			switch op {
			case token.LSS:
				op = token.GTR
			case token.GTR:
				op = token.LSS
			case token.LEQ:
				op = token.GEQ
			case token.GEQ:
				op = token.LEQ
			}
		}
		k, isK := constInt(y)
		atMost := func(n int64) bool {
			return isK && ((op == token.LEQ && k == n) || (op == token.EQL && k == n) || (op == token.LSS && k == n+1))
		}
		isRunes := func(v ssa.Value) bool {
			cv, ok := v.(*ssa.Convert)
			return ok && typeString(cv.Type()) == "[]rune" && isSubmatchElem(cv.X, 2)
		}
		// utf8.RuneCountInString(match[2]) <= 1
		if rc, ok := x.(*ssa.Call); ok && calleeName(rc) == "unicode/utf8.RuneCountInString" && isSubmatchElem(rc.Call.Args[0], 2) {
			return atMost(1)
		}
		c, ok := lenOf(x)
		if !ok {
			return false
		}
		// len([]rune(match[2])[1:]) == 0
		if sl, ok := c.(*ssa.Slice); ok && sl.High == nil && isRunes(sl.X) {
			if lo, ok := constInt(sl.Low); ok && lo == 1 {
				return atMost(0)
			}
		}
		return isRunes(c) && atMost(1)
	}
	// the value itself is empty: string([]rune(match[2])[1:]) + match[3] == ""
	valueEmpty := func(fc Fact) bool {
		if fc.Y == nil || fc.Op != token.EQL {
			return false
		}
		x, y := fc.X, fc.Y
		if _, isC := x.(*ssa.Const); isC {
			x, y = y, x
		}
		if sv, isS := constString(y); !isS || sv != "" {
			return false
		}
		bo, ok := x.(*ssa.BinOp)
		return ok && bo.Op == token.ADD && isSubmatchElem(bo.Y, 3)
	}
	skipBad := ""
	skipRunes := ""
	nSkip := 0
	for _, b := range fn.Blocks {
		iff, ok := b.Instrs[len(b.Instrs)-1].(*ssa.If)
		if !ok || !inSD(b) || len(argStores) == 0 {
			continue
		}
		for k, sc := range b.Succs {
			// an edge after which the store can no longer happen, taken from a block from which it still could
			fromHere := ig.reachFrom([]int{ig.idx[iff]}, func(ssa.Instruction) bool { return false })
			fromSucc := ig.reachFrom([]int{ig.first[sc]}, func(ssa.Instruction) bool { return false })
			can, canAfter := false, false
			for _, a := range argStores {
				if fromHere[ig.idx[a]] {
					can = true
				}
				if fromSucc[ig.idx[a]] {
					canAfter = true
				}
			}
			if !can || canAfter {
				continue
			}
			// does this edge lead to a return of pairs at all (not the error / other-mode paths)
			nSkip++
			facts := append(factsAt(b), condFacts(iff.Cond, k == 0, iff)...)
			emptyKnown, oneKnown := false, false
			for _, fc := range facts {
				if m3Empty(fc) {
					emptyKnown = true
				}
				if oneRune(fc) {
					oneKnown = true
				}
				if valueEmpty(fc) {
					emptyKnown, oneKnown = true, true
				}
			}
			if !emptyKnown {
				skipBad = w.IPos(iff)
			}
			if !oneKnown {
				skipRunes = w.IPos(iff)
			}
		}
	}
	_ = isArgStore
	ru.Check(skipRunes == "" && nSkip > 0, "single-dash/value-glued", w.Pos(fn.Pos()), "the value is left out only when the option text is a single rune", "in single-dash mode the pair can be returned without its value although runes follow the first one (decided at "+skipRunes+"): `-j4` loses `4` and the option takes the next token instead")
	ru.Check(skipBad == "" && nSkip > 0, "single-dash/value-attached", w.Pos(fn.Pos()), "the value is left out only when match[3] is empty", "in single-dash mode the pair can be returned without its value although text is attached (decided at "+skipBad+"): `-x=v` loses `=v`")
	ru.Check(okArgs && nArgsStores == nGoodArgs, "single-dash/value", w.Pos(fn.Pos()), "Args = string([]rune(match[2])[1:]) + match[3]", fmt.Sprintf("the single-dash value is not exactly the rest of the token on every path (%d of %d stores have the documented shape)", nGoodArgs, nArgsStores))
}

// onlyLogged: the interface value is only stored into the variadic argument list of debug Logger calls.
func onlyLogged(mi *ssa.MakeInterface) bool {
	refs := mi.Referrers()
	if refs == nil || len(*refs) == 0 {
		return false
	}
	for _, r := range *refs {
		st, ok := r.(*ssa.Store)
		if !ok {
			return false
		}
		a, ok := rootOfAddr(st.Addr).(*ssa.Alloc)
		if !ok {
			return false
		}
		sl := sliceOfAlloc(a)
		if sl == nil || sl.Referrers() == nil {
			return false
		}
		for _, r2 := range *sl.Referrers() {
			c, ok := r2.(ssa.CallInstruction)
			if !ok {
				return false
			}
			if _, isLog := loggerCall(c); !isLog {
				return false
			}
		}
	}
	return true
}

// isOwnTableLookup: rec is the record found by looking `name` up in recv.programTree.ChildOptions, directly or
// through a same-module helper that does exactly that with its own receiver and name parameter.
func isOwnTableLookup(rec, recv, name ssa.Value, depth int) bool {
	// the cases meet in a phi: nil where nothing was looked up (that edge is never dereferenced: C19), the lookup elsewhere
	if phi, isPhi := rec.(*ssa.Phi); isPhi && depth <= 1 {
		n := 0
		for _, l := range phiLeaves(phi, map[ssa.Value]bool{}) {
			if isNilConst(l) {
				continue
			}
			if !isOwnTableLookup(l, recv, name, depth+1) {
				return false
			}
			n++
		}
		return n > 0
	}
	ex, ok := rec.(*ssa.Extract)
	if !ok || ex.Index != 0 {
		return false
	}
	switch t := ex.Tuple.(type) {
	case *ssa.Lookup:
		if t.Index != name {
			return false
		}
		tb, ok := loadOfFieldNamed(t.X, "ChildOptions")
		if !ok {
			return false
		}
		base, ok := loadOfFieldNamed(tb, "programTree")
		return ok && base == recv
	case *ssa.Call:
		callee := t.Call.StaticCallee()
		if callee == nil || callee.Blocks == nil || depth > 1 || len(t.Call.Args) != 2 || len(callee.Params) != 2 {
			return false
		}
		if t.Call.Args[0] != recv || t.Call.Args[1] != name {
			return false
		}
		all, n := true, 0
		eachInstr(callee, func(in ssa.Instruction) {
			if ret, ok := in.(*ssa.Return); ok && len(ret.Results) >= 1 {
				n++
				if !isOwnTableLookup(ret.Results[0], callee.Params[0], callee.Params[1], depth+1) {
					all = false
				}
			}
		})
		return all && n > 0
	}
	return false
}

// isModifierApplier: fn(recv *GetOpt, opt *option.Option, fns []ModifyFn) calls every fns[i](recv, opt) in a loop and does nothing else with them.
func isModifierApplier(fn *ssa.Function) bool {
	var recv, opt ssa.Value
	for _, p := range fn.Params {
		switch typeString(p.Type()) {
		case "*getoptions.GetOpt":
			recv = p
		case "*option.Option":
			opt = p
		}
	}
	if recv == nil || opt == nil {
		return false
	}
	n := 0
	ok := true
	for _, c := range allCalls(fn) {
		if calleeName(c) != nDynModifyFn {
			continue
		}
		n++
		a := c.Common().Args
		if len(a) != 2 || a[0] != recv || a[1] != opt || !blockInCycle(c.Block()) {
			ok = false
		}
	}
	return ok && n == 1
}

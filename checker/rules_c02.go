package main

// C02 - multi-value options (rules R02.x).

import (
	"fmt"
	"go/constant"
	"go/token"
	"go/types"
	"strings"

	"golang.org/x/tools/go/ssa"
)

type argLoop struct {
	header *ssa.BasicBlock
	iff    *ssa.If
	phi    *ssa.Phi
	field  string // MinArgs / MaxArgs
	op     token.Token
	bodyK  int // successor index of the loop body
}

// argLoops finds the loops of the parser whose condition compares an induction variable with rec.MinArgs / rec.MaxArgs.
func (m *parserModel) argLoops() []argLoop {
	var out []argLoop
	for _, b := range m.fn.Blocks {
		if len(b.Instrs) == 0 {
			continue
		}
		iff, ok := b.Instrs[len(b.Instrs)-1].(*ssa.If)
		if !ok {
			continue
		}
		bo, ok := iff.Cond.(*ssa.BinOp)
		if !ok {
			continue
		}
		x, y, op := bo.X, bo.Y, bo.Op
		fieldOf := func(v ssa.Value) string {
			for _, n := range []string{"MinArgs", "MaxArgs"} {
				if base, ok := loadOfFieldNamed(v, n); ok && isOptionPtr(base.Type()) {
					return n
				}
			}
			return ""
		}
		if fieldOf(x) != "" {
			// normalise to phi OP field
			x, y = y, x
			switch op {
			case token.LSS:
				op = token.GTR
			case token.GTR:
				op = token.LSS
			case token.LEQ:
				op = token.GEQ
			case token.GEQ:
				op = token.LEQ
			}
		}
		f := fieldOf(y)
		phi, isPhi := x.(*ssa.Phi)
		if f == "" || !isPhi || phi.Block() != b {
			continue
		}
		bodyK := 0
		if op == token.GEQ || op == token.GTR {
			bodyK = 1 // `if i >= max { break }` style
		}
		out = append(out, argLoop{header: b, iff: iff, phi: phi, field: f, op: op, bodyK: bodyK})
	}
	return out
}

// R02.1
func rC02Loops(w *World, r *Report) {
	ru := r.Rule("R02.1", "intake loops: the induction variable starts at the number of attached values, is compared strictly (i < MinArgs / i < MaxArgs), grows by one per iteration, and every iteration performs exactly one iterator advance followed by one Save(iterator.Value())", 2)
	m := parserOrFail(w, ru)
	if m == nil {
		return
	}
	loops := m.argLoops()
	seenMin, seenMax := false, false
	for _, l := range loops {
		key := "loop/" + l.field
		pos := w.IPos(l.iff)
		if l.field == "MinArgs" {
			seenMin = true
		} else {
			seenMax = true
		}
		var problems []string
		if !(l.op == token.LSS && l.bodyK == 0) && !(l.op == token.GEQ && l.bodyK == 1) {
			problems = append(problems, "the bound is not the strict comparison i < "+l.field+" (one value too many or too few would be consumed)")
		}
		// phi edges: init and +1
		for i, e := range l.phi.Edges {
			pred := l.header.Preds[i]
			if l.header.Dominates(pred) {
				bo, ok := e.(*ssa.BinOp)
				k := int64(0)
				if ok {
					k, _ = constInt(bo.Y)
				}
				if !ok || bo.Op != token.ADD || bo.X != ssa.Value(l.phi) || k != 1 {
					problems = append(problems, "the counter is not incremented by exactly one per iteration")
				}
			} else {
				if !m.isAttachedCount(e, map[ssa.Value]bool{}) {
					problems = append(problems, "the counter does not start at the number of `=`-attached values (len of the pair's Args): "+e.String())
				}
			}
		}
		// body
		body := m.ig.reachFrom(m.ig.edgeStart(l.header, l.bodyK), func(in ssa.Instruction) bool { return in.Block() == l.header })
		var nexts, saves []ssa.Instruction
		for i, s := range body {
			if !s || m.ig.instrs[i].Block() == l.header {
				continue
			}
			in := m.ig.instrs[i]
			// stay inside the loop: only blocks that can reach the header again or are dominated by the header
			if !l.header.Dominates(in.Block()) {
				continue
			}
			if m.iterCall(in, nIterNext) && m.reachesBlock(in, l.header) {
				nexts = append(nexts, in)
			}
			if c, ok := in.(*ssa.Call); ok && calleeName(c) == nSave && m.reachesBlock(in, l.header) {
				saves = append(saves, in)
			}
		}
		if len(nexts) != 1 {
			problems = append(problems, fmt.Sprintf("%d iterator advances in the loop body, expected exactly one", len(nexts)))
		}
		if len(saves) != 1 {
			problems = append(problems, fmt.Sprintf("%d Save calls in the loop body, expected exactly one", len(saves)))
		}
		if len(nexts) == 1 && len(saves) == 1 {
			isHdr := func(in ssa.Instruction) bool { return in.Block() == l.header }
			inLoop := naturalLoop(l.header)
			stay := func(term ssa.Instruction, k int) bool { return inLoop[term.Block().Succs[k]] }
			seen := m.ig.reachFromE(m.ig.edgeStart(l.header, l.bodyK), func(in ssa.Instruction) bool { return in == nexts[0] || isHdr(in) }, stay)
			if seen[m.ig.first[l.header]] {
				problems = append(problems, "an iteration can complete without advancing the iterator")
			}
			seen = m.ig.reachFromE(m.ig.after(nexts[0]), func(in ssa.Instruction) bool { return in == saves[0] || isHdr(in) }, stay)
			if seen[m.ig.first[l.header]] {
				problems = append(problems, "an iteration can advance without saving the value")
			}
			// the saved value is Value()
			sc := saves[0].(*ssa.Call)
			els, sp, _ := elementsOf(sc.Call.Args[1], map[ssa.Value]bool{})
			okv := len(els) == 1 && len(sp) == 0
			if okv {
				c, isC := els[0].(*ssa.Call)
				okv = isC && m.iterCall(c, nIterValue)
			}
			if !okv {
				problems = append(problems, "the value saved in the loop is not exactly iterator.Value()")
			}
			if m.ig.inCycleAvoiding(nexts[0], isHdr) {
				problems = append(problems, "the advance sits in an inner cycle")
			}
		}
		if len(problems) == 0 {
			ru.OK(key, pos, "for ; i < "+l.field+"; i++ { Next(); Save(Value()) } starting at len(pair.Args)")
		} else {
			ru.Bad(key, pos, strings.Join(problems, "; "))
		}
	}
	if !seenMin {
		ru.Bad("loop/MinArgs", w.Pos(m.fn.Pos()), "no loop bounded by MinArgs: the minimum is not enforced")
	}
	if !seenMax {
		ru.Bad("loop/MaxArgs", w.Pos(m.fn.Pos()), "no loop bounded by MaxArgs: the maximum is not honoured")
	}
}

func (m *parserModel) reachesBlock(in ssa.Instruction, b *ssa.BasicBlock) bool {
	seen := m.ig.reachFrom(m.ig.after(in), func(x ssa.Instruction) bool { return x.Block() == b })
	return seen[m.ig.first[b]]
}

// isAttachedCount: v is len(pair.Args) or the counter of the preceding intake loop.
func (m *parserModel) isAttachedCount(v ssa.Value, seen map[ssa.Value]bool) bool {
	if seen[v] {
		return true
	}
	seen[v] = true
	switch x := v.(type) {
	case *ssa.Call:
		if calleeName(x) == "builtin:len" {
			_, ok := loadOfFieldNamed(x.Call.Args[0], "Args")
			return ok
		}
	case *ssa.Phi:
		// the counter of the previous loop: all its entries must themselves be attached counts or +1 steps of itself
		for _, e := range x.Edges {
			if bo, ok := e.(*ssa.BinOp); ok && bo.Op == token.ADD && bo.X == ssa.Value(x) {
				continue
			}
			if !m.isAttachedCount(e, seen) {
				return false
			}
		}
		return true
	}
	return false
}

// greedyAdvance returns the look-ahead advance of the MaxArgs loop and the peek it depends on.
func (m *parserModel) greedyAdvance() (next *ssa.Call, peek *ssa.Call, loop *argLoop) {
	for _, l := range m.argLoops() {
		if l.field != "MaxArgs" {
			continue
		}
		l := l
		for _, n := range m.nextCalls {
			if n != m.mainNext && l.header.Dominates(n.Block()) && m.reachesBlock(n, l.header) {
				next = n
				loop = &l
			}
		}
	}
	if next == nil {
		return nil, nil, nil
	}
	for _, p := range m.peekCalls {
		if p.Block().Dominates(next.Block()) && loop.header.Dominates(p.Block()) {
			peek = p
		}
	}
	return next, peek, loop
}

type lookaheadConv struct {
	kindConst string
	callee    string
	desc      string
}

var lookaheadTable = []lookaheadConv{
	{"IntRepeatType", "strconv.Atoi", "int elements: strconv.Atoi(peeked) must succeed"},
	{"Float64RepeatType", "strconv.ParseFloat", "float64 elements: strconv.ParseFloat(peeked, 64) must succeed"},
	{"StringMapType", "strings.Contains", "map elements: the peeked token must contain '='"},
}

// R02.2
func rC02Lookahead(w *World, r *Report) {
	ru := r.Rule("R02.2", "greedy look-ahead stop set: the consuming advance of the MaxArgs loop is dominated by ExistsNext(), by isOption(peeked) == false, and for every kind whose elements are converted (int, float64, key=value) by the success of that conversion applied to the peeked token", 5)
	m := parserOrFail(w, ru)
	if m == nil {
		return
	}
	next, peek, loop := m.greedyAdvance()
	if next == nil || peek == nil {
		ru.Undecided("greedy-advance", w.Pos(m.fn.Pos()), "look-ahead advance / peek of the MaxArgs loop not found")
		return
	}
	var peeked ssa.Value
	for _, ref := range *peek.Referrers() {
		if ex, ok := ref.(*ssa.Extract); ok && ex.Index == 0 {
			peeked = ex
		}
	}
	facts := factsAt(next.Block())
	exists, notOpt := false, false
	for _, f := range facts {
		if f.Op != token.ILLEGAL {
			continue
		}
		if c, ok := f.X.(*ssa.Call); ok && m.iterCall(c, nIterExists) && f.Truth {
			exists = true
		}
		if ex, ok := f.X.(*ssa.Extract); ok && ex.Index == 1 {
			if c, ok := ex.Tuple.(*ssa.Call); ok {
				if m.iterCall(c, nIterPeek) && f.Truth {
					exists = true
				}
				if calleeName(c) == nIsOption && !f.Truth && c.Call.Args[0] == peeked {
					notOpt = true
				}
			}
		}
	}
	ru.Check(exists, "greedy/exists-next", w.IPos(next), "advance only when a following token exists", "the greedy advance is not guarded by ExistsNext(): Save would receive the empty string past the end")
	ru.Check(notOpt, "greedy/not-an-option", w.IPos(next), "advance only when the peeked token does not look like an option", "the greedy advance is not guarded by isOption(peeked) == false: a following option would be swallowed as a value")
	// per kind: from the true edge of OptType == K, the advance is only reachable through the converter's success edge
	for _, lc := range lookaheadTable {
		key := "greedy/element-check/" + lc.kindConst
		kc, ok := w.Obj("option", lc.kindConst).(*types.Const)
		if !ok {
			ru.Undecided(key, "-", "kind constant not found")
			continue
		}
		// locate `OptType == K` tests inside the loop, before the advance
		var kindIf *ssa.If
		for _, b := range m.fn.Blocks {
			if !loop.header.Dominates(b) || len(b.Instrs) == 0 {
				continue
			}
			iff, ok := b.Instrs[len(b.Instrs)-1].(*ssa.If)
			if !ok {
				continue
			}
			for _, f := range condFacts(iff.Cond, true, iff) {
				if f.Op == token.EQL && f.Y != nil {
					if _, isKind := loadOfFieldNamed(f.X, "OptType"); isKind {
						if c, ok := f.Y.(*ssa.Const); ok && c.Value != nil && c.Value.String() == kc.Val().String() && peek.Block().Dominates(b) {
							kindIf = iff
						}
					}
				}
			}
		}
		if kindIf == nil {
			ru.Bad(key, w.IPos(next), "the look-ahead has no arm for "+lc.kindConst+": tokens that are not well-formed elements would be consumed ("+lc.desc+")")
			continue
		}
		// explore from the kind's true edge, refusing the success edge of the right conversion of the peeked token
		found := false
		seen := m.ig.reachFromE(m.ig.edgeStart(kindIf.Block(), 0), func(in ssa.Instruction) bool { return in == ssa.Instruction(peek) || in == ssa.Instruction(m.mainNext) }, func(term ssa.Instruction, k int) bool {
			iff, ok := term.(*ssa.If)
			if !ok {
				return true
			}
			for _, f := range condFacts(iff.Cond, k == 0, iff) {
				if isConvSuccess(f, lc.callee, peeked) {
					found = true
					return false
				}
			}
			return true
		})
		switch {
		case !found:
			ru.Bad(key, w.IPos(kindIf), "arm for "+lc.kindConst+" does not test "+lc.callee+" on the peeked token")
		case seen[m.ig.idx[next]]:
			ru.Bad(key, w.IPos(kindIf), "for "+lc.kindConst+" the advance is reachable without the element check succeeding")
		default:
			ru.OK(key, w.IPos(kindIf), lc.desc)
		}
	}
}

// isConvSuccess: the fact says that conversion `callee` of value v succeeded.
func isConvSuccess(f Fact, callee string, v ssa.Value) bool {
	switch callee {
	case "strings.Contains":
		if f.Op == token.ILLEGAL && f.Truth {
			if c, ok := f.X.(*ssa.Call); ok && calleeName(c) == callee && c.Call.Args[0] == v {
				s, ok := constString(c.Call.Args[1])
				return ok && s == "="
			}
		}
	default:
		if f.Op == token.EQL && f.Y != nil && isNilConst(f.Y) {
			if ex, ok := f.X.(*ssa.Extract); ok && ex.Index == 1 {
				if c, ok := ex.Tuple.(*ssa.Call); ok && calleeName(c) == callee && c.Call.Args[0] == v {
					if callee == "strconv.ParseFloat" {
						b, ok := constInt(c.Call.Args[1])
						return ok && b == 64
					}
					return true
				}
			}
		}
	}
	return false
}

// saveElementConverters: for a receiver slice/map field, the conversions Save applies to the elements.
func saveElementConverters(w *World, field string) (ops []string, sink *sink) {
	fn := w.Fn(nSave)
	if fn == nil {
		return nil, nil
	}
	sinks, _ := saveSinks(w, fn, setterSummaries(w))
	for i := range sinks {
		s := sinks[i]
		if s.field.Name() != field {
			continue
		}
		p := NewProv(w, fn)
		p.Slice(s.val)
		if s.key != nil {
			p.Slice(s.key)
		}
		return p.OpKinds(), &sinks[i]
	}
	return nil, nil
}

// R02.3
func rC02ConverterAgreement(w *World, r *Report) {
	ru := r.Rule("R02.3", "converter agreement: for each repeat kind the look-ahead's well-formedness test and Save's conversion use the same function (Atoi/Atoi, ParseFloat(_,64)/ParseFloat(_,64), contains '=' / split on first '=')", 3)
	m := parserOrFail(w, ru)
	if m == nil {
		return
	}
	_, peek, loop := m.greedyAdvance()
	if peek == nil {
		ru.Undecided("greedy-advance", w.Pos(m.fn.Pos()), "look-ahead not found")
		return
	}
	lookCalls := map[string]bool{}
	for _, b := range m.fn.Blocks {
		if !loop.header.Dominates(b) {
			continue
		}
		for _, in := range b.Instrs {
			if c, ok := in.(*ssa.Call); ok {
				switch n := calleeName(c); n {
				case "strconv.Atoi", "strconv.ParseFloat", "strconv.ParseInt", "strings.Contains":
					lookCalls[n] = true
				}
			}
		}
	}
	for _, t := range []struct{ field, look, save, kind string }{
		{"pIntS", "strconv.Atoi", "call:strconv.Atoi", "int"},
		{"pFloat64S", "strconv.ParseFloat", "call:strconv.ParseFloat", "float64"},
		{"pStringM", "strings.Contains", "call:strings.SplitN", "key=value"},
	} {
		ops, s := saveElementConverters(w, t.field)
		key := "agreement/" + t.kind
		if s == nil {
			ru.Undecided(key, "-", "Save has no sink for "+t.field)
			continue
		}
		has := false
		var others []string
		for _, o := range ops {
			if o == t.save || (t.field == "pStringM" && (o == "call:strings.Cut" || o == "call:strings.Index" || o == "strslice")) {
				has = true
			} else if strings.HasPrefix(o, "call:strconv.") || o == "call:strings.Split" || o == "call:strings.Fields" || o == "call:strings.LastIndex" {
				others = append(others, o)
			}
		}
		switch {
		case !lookCalls[t.look]:
			ru.Bad(key, w.IPos(peek), "look-ahead does not use "+t.look+" for "+t.kind+" elements")
		case !has:
			ru.Bad(key, w.IPos(s.in), "Save converts "+t.kind+" elements with "+strings.Join(ops, ",")+" while the look-ahead tests "+t.look)
		case len(others) > 0:
			ru.Bad(key, w.IPos(s.in), "Save also applies "+strings.Join(others, ",")+" to "+t.kind+" elements: look-ahead and Save disagree on what is well-formed")
		default:
			ru.OK(key, w.IPos(s.in), "look-ahead "+t.look+" ↔ Save "+t.save)
		}
	}
}

// R02.4
func rC02AppendOrder(w *World, r *Report) {
	ru := r.Rule("R02.4", "append order: repeat kinds store append(existing, new...) with the existing slice first; new values are accumulated by forward iteration with appends only (no prepend, no sort, no de-duplication)", 4)
	fn := w.Fn(nSave)
	if fn == nil {
		ru.Undecided("anchor", "-", "Save not found")
		return
	}
	var a *ssa.Parameter
	if len(fn.Params) == 2 {
		a = fn.Params[1]
	}
	sinks, _ := saveSinks(w, fn, setterSummaries(w))
	for _, s := range sinks {
		name := s.field.Name()
		if name != "pStringS" && name != "pIntS" && name != "pFloat64S" {
			continue
		}
		key := "Save/" + name
		c, ok := s.val.(*ssa.Call)
		if !ok || calleeName(c) != "builtin:append" || len(c.Call.Args) != 2 {
			ru.Bad(key, w.IPos(s.in), "the slice stored is not append(existing, new...): "+s.val.String())
			continue
		}
		// first operand: load(*opt.pX)
		first := c.Call.Args[0]
		okFirst := false
		if u, ok := first.(*ssa.UnOp); ok && u.Op == token.MUL {
			if f := recvFieldOfPtr(u.X); f == s.field {
				okFirst = true
			}
		}
		if !okFirst {
			ru.Bad(key, w.IPos(s.in), "the existing values are not the first operand of append (values of earlier occurrences would be lost or come last)")
			continue
		}
		second := c.Call.Args[1]
		if name == "pStringS" {
			if second == ssa.Value(a) {
				ru.OK(key, w.IPos(s.in), "append(*p, a...) with the argument list itself")
			} else {
				ru.Bad(key, w.IPos(s.in), "appended values are not the argument list itself: "+second.String())
			}
			continue
		}
		// accumulator: every append in its history extends the accumulator at the end
		if ok, why := forwardAccumulator(second, map[ssa.Value]bool{}); ok {
			ru.OK(key, w.IPos(s.in), "append(*p, acc...) where acc is built by forward appends")
		} else {
			ru.Bad(key, w.IPos(s.in), "new values are not accumulated in order: "+why)
		}
	}
	// no sort / reverse helpers in Save
	for _, c := range allCalls(fn) {
		n := calleeName(c)
		if b := calleeBase(c); b == "slices.Contains" || b == "slices.Index" || b == "slices.ContainsFunc" || b == "slices.IndexFunc" {
			continue // membership tests read, they do not reorder
		}
		if strings.HasPrefix(n, "sort.") || strings.HasPrefix(n, "slices.") {
			ru.Bad("Save/reorder", w.IPos(c), "Save reorders values with "+n)
		}
	}
	// range over the argument list is a forward range (rangeindex loops are forward by construction); count them
	n := 0
	for _, b := range fn.Blocks {
		if rangeCollectionOfHeader(b) == ssa.Value(a) {
			n++
		} else if coll := rangeCollectionOfHeader(b); coll != nil {
			if ln, ok := coll.(*ssa.Parameter); ok && ln == a {
				n++
			}
		}
	}
	for _, b := range fn.Blocks {
		// len(a) is hoisted: header compares with a value that is len(a)
		if len(b.Instrs) == 0 {
			continue
		}
		if iff, ok := b.Instrs[len(b.Instrs)-1].(*ssa.If); ok {
			if cmp, ok := iff.Cond.(*ssa.BinOp); ok && cmp.Op == token.LSS {
				if ln, ok := cmp.Y.(*ssa.Call); ok && calleeName(ln) == "builtin:len" && ln.Call.Args[0] == ssa.Value(a) && b.Comment == "rangeindex.loop" {
					n++
				}
			}
		}
	}
	if n >= 3 {
		ru.OK("Save/forward-ranges", w.Pos(fn.Pos()), fmt.Sprintf("%d forward range loops over the argument list", n))
	} else {
		ru.Bad("Save/forward-ranges", w.Pos(fn.Pos()), fmt.Sprintf("only %d forward range loops over the argument list found (int, float64 and map arms iterate it)", n))
	}
}

func isAppendCall(v ssa.Value) bool {
	c, ok := v.(*ssa.Call)
	return ok && calleeName(c) == "builtin:append"
}

// forwardAccumulator: v is nil/empty, or a phi/append chain where every append has the accumulator as first operand.
func forwardAccumulator(v ssa.Value, seen map[ssa.Value]bool) (bool, string) {
	if seen[v] {
		return true, ""
	}
	seen[v] = true
	switch x := v.(type) {
	case *ssa.Const:
		return x.Value == nil, "non-nil constant"
	case *ssa.Phi:
		for _, e := range x.Edges {
			if ok, why := forwardAccumulator(e, seen); !ok {
				return false, why
			}
		}
		return true, ""
	case *ssa.Call:
		if calleeName(x) == "builtin:append" {
			// first operand must be the accumulator chain, second a fresh single-element literal
			if ok, why := forwardAccumulator(x.Call.Args[0], seen); !ok {
				return false, "append whose first operand is not the accumulator (prepend): " + why
			}
			if len(x.Call.Args) > 1 {
				if sl, ok := x.Call.Args[1].(*ssa.Slice); ok {
					if _, isAlloc := rootOfAddr(sl.X).(*ssa.Alloc); isAlloc {
						return true, ""
					}
				}
				// a list that was itself built front to back (the conversions of one argument collected by a helper)
				// and is appended whole keeps the order
				if _, isPhi := x.Call.Args[1].(*ssa.Phi); isPhi || isAppendCall(x.Call.Args[1]) {
					if ok, _ := forwardAccumulator(x.Call.Args[1], map[ssa.Value]bool{}); ok {
						return true, ""
					}
				}
				return false, "appended operand is not a fresh element literal: " + x.Call.Args[1].String()
			}
			return true, ""
		}
	case *ssa.Slice:
		if a, ok := rootOfAddr(x.X).(*ssa.Alloc); ok && len(storesInto(a)) == 0 {
			return true, ""
		}
		// a literal with elements is a list in the order written
		if a, ok := x.X.(*ssa.Alloc); ok && x.Low == nil && x.High == nil {
			if _, isArr := derefType(a.Type()).Underlying().(*types.Array); isArr && a.Comment == "slicelit" {
				return true, ""
			}
		}
	case *ssa.MakeSlice:
		return true, ""
	}
	return false, "not an append chain: " + v.String()
}

// R02.5
func rC02SplitFirst(w *World, r *Report) {
	ru := r.Rule("R02.5", "first-'=' split: the map key and value come from a first-occurrence split of the element (SplitN(e, \"=\", 2) / strings.Cut); nowhere in the library is a strings.Split result with a non-empty separator indexed by a constant >= 1 (the tail would be lost)", 1)
	fn := w.Fn(nSave)
	if fn == nil {
		ru.Undecided("anchor", "-", "Save not found")
		return
	}
	sinks, _ := saveSinks(w, fn, setterSummaries(w))
	found := false
	for _, s := range sinks {
		if s.field.Name() != "pStringM" {
			continue
		}
		found = true
		var problems []string
		check := func(v ssa.Value, wantIdx int64, what string) {
			u, ok := v.(*ssa.UnOp)
			var ia *ssa.IndexAddr
			if ok {
				ia, ok = u.X.(*ssa.IndexAddr)
			}
			if !ok {
				// strings.Index + slicing: key = e[:i], value = e[i+1:] with i = strings.Index(e, "=")
				if sl, isSl := v.(*ssa.Slice); isSl {
					var iv ssa.Value
					if wantIdx == 0 && sl.Low == nil {
						iv = sl.High
					}
					if wantIdx == 1 && sl.High == nil {
						if bo, isBo := sl.Low.(*ssa.BinOp); isBo && bo.Op == token.ADD {
							if k, isK := constInt(bo.Y); isK && k == 1 {
								iv = bo.X
							}
						}
					}
					if ic, isC := iv.(*ssa.Call); isC && calleeName(ic) == "strings.Index" && ic.Call.Args[0] == sl.X && isConstStr(ic.Call.Args[1], "=") {
						if p := NewProv(w, fn).Slice(sl.X); len(p.OpKinds()) == 0 {
							return
						}
					}
				}
				// strings.Cut results
				if ex, isEx := v.(*ssa.Extract); isEx {
					if c, isC := ex.Tuple.(*ssa.Call); isC && calleeName(c) == "strings.Cut" && int64(ex.Index) == wantIdx {
						if sep, ok := constString(c.Call.Args[1]); ok && sep == "=" {
							return
						}
					}
				}
				problems = append(problems, what+" is not an element of a split of the argument")
				return
			}
			c, ok := ia.X.(*ssa.Call)
			if !ok {
				problems = append(problems, what+" does not come from a split call")
				return
			}
			idx, _ := constInt(ia.Index)
			if idx != wantIdx {
				problems = append(problems, fmt.Sprintf("%s is element %d of the split", what, idx))
			}
			switch calleeName(c) {
			case "strings.SplitN":
				sep, ok1 := constString(c.Call.Args[1])
				n, ok2 := constInt(c.Call.Args[2])
				if !ok1 || sep != "=" || !ok2 || n != 2 {
					problems = append(problems, "split is not SplitN(e, \"=\", 2)")
				}
			case "strings.Split":
				problems = append(problems, "element is split on every '=' (strings.Split): the value `a=b` of `k=a=b` is cut to `a`")
			default:
				problems = append(problems, "split by "+calleeName(c))
			}
			if len(c.Call.Args) > 0 {
				p := NewProv(w, fn).Slice(c.Call.Args[0])
				if ops := p.OpKinds(); len(ops) > 0 {
					problems = append(problems, "the element is transformed before the split: "+strings.Join(ops, ","))
				}
			}
		}
		check(s.key, 0, "key")
		check(s.val, 1, "value")
		// every entry that contains a '=' is stored: inside the per-entry loop the write is guarded by nothing but
		// the test that the split found a separator
		{
			sb := s.in.Block()
			var loop map[*ssa.BasicBlock]bool
			var header *ssa.BasicBlock
			for _, h := range fn.Blocks {
				if !h.Dominates(sb) {
					continue
				}
				l := naturalLoop(h)
				if len(l) > 1 && l[sb] && (loop == nil || len(l) < len(loop)) {
					loop, header = l, h
				}
			}
			for _, f := range factsAt(sb) {
				if f.If == nil || loop == nil || !loop[f.If.Block()] || f.If.Block() == header {
					continue // outside the per-entry loop, or the loop's own continuation test
				}
				okFact := false
				x, y, op := f.X, f.Y, f.Op
				if y != nil {
					if _, isC := constInt(x); isC {
						x, y = y, x
						switch op {
						case token.LSS:
							op = token.GTR
						case token.GTR:
							op = token.LSS
						case token.LEQ:
							op = token.GEQ
						case token.GEQ:
							op = token.LEQ
						}
					}
					k, isK := constInt(y)
					if lc, isLen := lenOf(x); isLen && isK {
						if c, isC := lc.(*ssa.Call); isC && calleeName(c) == "strings.SplitN" {
							okFact = (op == token.GEQ && k == 2) || (op == token.GTR && k == 1) || (op == token.EQL && k == 2) || (op == token.NEQ && k == 1)
						}
					}
					if c, isC := x.(*ssa.Call); isC && isK && calleeName(c) == "strings.Index" {
						okFact = (op == token.GEQ && k == 0) || (op == token.GTR && k == -1) || (op == token.NEQ && k == -1)
					}
				} else if ex, isEx := f.X.(*ssa.Extract); isEx && f.Truth {
					if c, isC := ex.Tuple.(*ssa.Call); isC && calleeName(c) == "strings.Cut" && ex.Index == 2 {
						okFact = true
					}
				}
				if !okFact {
					problems = append(problems, "an entry is stored only under an extra condition ("+w.IPos(f.If)+"): well-formed key=value entries (an empty key or value included) would be rejected")
				}
			}
		}
		if len(problems) == 0 {
			ru.OK("Save/pStringM", w.IPos(s.in), "key, value = SplitN(e, \"=\", 2)")
		} else {
			ru.Bad("Save/pStringM", w.IPos(s.in), strings.Join(problems, "; "))
		}
	}
	if !found {
		ru.Bad("Save/pStringM", w.Pos(fn.Pos()), "no write of the map receiver found in Save")
	}
	// library-wide
	for _, f := range w.Funcs {
		for _, c := range callsTo(f, "strings.Split") {
			call, ok := c.(*ssa.Call)
			if !ok {
				continue
			}
			if sep, ok := constString(call.Call.Args[1]); ok && sep == "" {
				continue
			}
			for _, ref := range *call.Referrers() {
				if ia, ok := ref.(*ssa.IndexAddr); ok {
					if k, ok := constInt(ia.Index); ok && k >= 1 {
						ru.Bad("split-tail/"+short(f), w.IPos(call), fmt.Sprintf("strings.Split result indexed by %d: everything after the next separator is lost", k))
					}
				}
			}
		}
	}
}

// R02.7
func rC02Range(w *World, r *Report) {
	ru := r.Rule("R02.7", "int range a..b (a<b) expands inclusively: the expansion loop starts at a, steps by one, and b itself is appended (loop bound inclusive, or strict bound followed by an append of b)", 1)
	fn := w.Fn(nSave)
	if fn == nil {
		ru.Undecided("anchor", "-", "Save not found")
		return
	}
	ig := buildIG(fn)
	found := 0
	for _, b := range fn.Blocks {
		if len(b.Instrs) == 0 {
			continue
		}
		iff, ok := b.Instrs[len(b.Instrs)-1].(*ssa.If)
		if !ok {
			continue
		}
		cmp, ok := iff.Cond.(*ssa.BinOp)
		if !ok || (cmp.Op != token.LSS && cmp.Op != token.LEQ && cmp.Op != token.NEQ) {
			continue
		}
		j, ok := cmp.X.(*ssa.Phi)
		if !ok || j.Block() != b {
			continue
		}
		hiV := resolvePhi(cmp.Y, b) // a bound merged with its error by an inlined helper
		hi := converterOf(hiV)
		if hi == nil {
			continue
		}
		found++
		var problems []string
		var startLo ssa.Value
		for i, e := range j.Edges {
			if b.Dominates(b.Preds[i]) {
				bo, ok := e.(*ssa.BinOp)
				k := int64(0)
				if ok {
					k, _ = constInt(bo.Y)
				}
				if !ok || bo.Op != token.ADD || bo.X != ssa.Value(j) || k != 1 {
					problems = append(problems, "step is not +1")
				}
			} else if lo := converterOf(resolvePhi(e, b)); lo == nil {
				problems = append(problems, "the loop does not start at the converted lower bound")
			} else {
				startLo = lo
			}
		}
		// body appends j
		bodyAppends := false
		for _, blk := range fn.Blocks {
			if !b.Dominates(blk) {
				continue
			}
			for _, in := range blk.Instrs {
				if c, ok := in.(*ssa.Call); ok && calleeName(c) == "builtin:append" && len(c.Call.Args) == 2 {
					els, _, _ := elementsOf(c.Call.Args[1], map[ssa.Value]bool{})
					for _, e := range els {
						if e == ssa.Value(j) {
							bodyAppends = true
						}
					}
				}
			}
		}
		if !bodyAppends {
			problems = append(problems, "the loop body does not append the loop variable")
		}
		// the range is expanded exactly when a < b as numbers: the loop is entered under that comparison of the two
		// converted bounds (not of their texts)
		ordered := false
		for _, f := range factsAt(b) {
			if (f.Op == token.LSS || f.Op == token.GTR) && f.Y != nil {
				x, y := resolvePhi(f.X, b), resolvePhi(f.Y, b)
				if f.Op == token.GTR {
					x, y = y, x
				}
				// (a bound written j != b counts up to b only from a start below it: the comparison must be of the start itself)
				if cx := converterOf(x); cx != nil && converterOf(y) == hi && (cmp.Op != token.NEQ || cx == startLo) {
					ordered = true
				}
			}
		}
		if !ordered {
			problems = append(problems, "the expansion is not guarded by lower < upper on the converted numbers (a comparison of the texts orders 9 after 11)")
		}
		if cmp.Op == token.LSS || cmp.Op == token.NEQ {
			// b must be appended on every path from the loop exit to the next element / the store
			isAppendHi := func(in ssa.Instruction) bool {
				c, ok := in.(*ssa.Call)
				if !ok || calleeName(c) != "builtin:append" || len(c.Call.Args) != 2 {
					return false
				}
				els, _, _ := elementsOf(c.Call.Args[1], map[ssa.Value]bool{})
				for _, e := range els {
					if e == cmp.Y || e == hiV {
						return true
					}
				}
				return false
			}
			isEnd := func(in ssa.Instruction) bool {
				if _, ok := in.(*ssa.Return); ok {
					return true
				}
				return in.Block().Comment == "rangeindex.loop" && in == in.Block().Instrs[0]
			}
			if ok, _ := ig.mustPass(ig.edgeStart(b, 1), isAppendHi, isEnd); !ok {
				problems = append(problems, "strict bound j < b without appending b afterwards: the range is expanded exclusively")
			}
		}
		if len(problems) == 0 {
			ru.OK("Save/range-expansion", w.IPos(iff), "a, a+1, …, b appended in order (b included)")
		} else {
			ru.Bad("Save/range-expansion", w.IPos(iff), strings.Join(problems, "; "))
		}
	}
	if found == 0 {
		ru.Bad("Save/range-expansion", w.Pos(fn.Pos()), "no expansion loop bounded by the converted upper bound found")
	}
}

// R02.6
func rC02Validation(w *World, r *Report) {
	ru := r.Rule("R02.6", "definition-time validation: the four slice/map definers store min and max before registering the option; registration validates every repeat kind (min > 0, max > 0, max >= min) and panics on error", 6)
	kinds := []string{"StringRepeatType", "IntRepeatType", "Float64RepeatType", "StringMapType"}
	defs := []string{"(*getoptions.GetOpt).StringSliceVar", "(*getoptions.GetOpt).IntSliceVar", "(*getoptions.GetOpt).Float64SliceVar", "(*getoptions.GetOpt).StringMapVar"}
	for _, d := range defs {
		fn := w.Fn(d)
		if fn == nil {
			ru.Undecided("definer/"+d, "-", "not found")
			continue
		}
		ig := buildIG(fn)
		var reg ssa.Instruction
		for _, c := range callsTo(fn, "(*getoptions.programTree).AddChildOption") {
			reg = c
		}
		if reg == nil {
			ru.Bad("definer/"+d, w.Pos(fn.Pos()), "does not register through AddChildOption (which validates min/max)")
			continue
		}
		good := true
		for _, fld := range []string{"MinArgs", "MaxArgs"} {
			var st ssa.Instruction
			eachInstr(fn, func(in ssa.Instruction) {
				if _, f, v, ok := storeField(in); ok && f.Name() == fld {
					if _, isParam := v.(*ssa.Parameter); isParam {
						st = in
					}
				}
			})
			if st == nil {
				good = false
				ru.Bad("definer/"+d+"/"+fld, w.Pos(fn.Pos()), fld+" is not set from the parameter")
				continue
			}
			// the store precedes the registration on every path
			ok, _ := ig.mustPass([]int{0}, func(in ssa.Instruction) bool { return in == st }, func(in ssa.Instruction) bool { return in == reg })
			if !ok {
				good = false
				ru.Bad("definer/"+d+"/"+fld, w.IPos(st), fld+" is stored after the option is registered: the validation sees the defaults")
			}
		}
		if good {
			ru.OK("definer/"+d, w.IPos(reg), "min and max stored before AddChildOption")
		}
	}
	// AddChildOption validates the repeat kinds
	add := w.Fn("(*getoptions.programTree).AddChildOption")
	if add == nil {
		ru.Undecided("AddChildOption", "-", "not found")
		return
	}
	calls := callsTo(add, "(*option.Option).ValidateMinMaxArgs")
	if len(calls) == 0 {
		ru.Bad("AddChildOption/validate", w.Pos(add.Pos()), "registration no longer validates (min,max)")
	} else {
		vb := calls[0].Block()
		igA := buildIG(add)
		for _, k := range kinds {
			kc, _ := w.Obj("option", k).(*types.Const)
			covered := false
			if kc != nil {
				// under OptType == K every path reaches the validation call
				for _, b := range add.Blocks {
					if len(b.Instrs) == 0 {
						continue
					}
					iff, ok := b.Instrs[len(b.Instrs)-1].(*ssa.If)
					if !ok {
						continue
					}
					for _, f := range condFacts(iff.Cond, true, iff) {
						if f.Op == token.EQL && f.Y != nil {
							if _, isKind := loadOfFieldNamed(f.X, "OptType"); isKind {
								if c, ok := f.Y.(*ssa.Const); ok && c.Value != nil && c.Value.String() == kc.Val().String() {
									if b.Succs[0] == vb || igA.reachFrom(igA.edgeStart(b, 0), nil)[igA.idx[calls[0]]] {
										covered = true
									}
								}
							}
						}
					}
				}
			}
			ru.Check(covered, "AddChildOption/validate/"+k, w.IPos(calls[0]), "kind is validated at registration", "kind "+k+" is registered without (min,max) validation")
		}
		// error => panic
		call := calls[0].(*ssa.Call)
		panics := false
		for _, b := range add.Blocks {
			for _, in := range b.Instrs {
				if _, ok := in.(*ssa.Panic); ok {
					for _, f := range factsAt(b) {
						if f.Op == token.NEQ && f.Y != nil && isNilConst(f.Y) && f.X == ssa.Value(call) {
							panics = true
						}
					}
				}
			}
		}
		ru.Check(panics, "AddChildOption/panic-on-invalid", w.IPos(call), "invalid (min,max) panics at definition time", "a validation error is not turned into a definition-time panic")
	}
	// ValidateMinMaxArgs: the three rejections
	v := w.Fn("(*option.Option).ValidateMinMaxArgs")
	if v == nil {
		ru.Undecided("ValidateMinMaxArgs", "-", "not found")
		return
	}
	// decided over the values themselves: the function's tests compare the two fields with constants and with each
	// other, so its outcome for a pair (min, max) is fixed by the order of min, max and those constants; every order
	// is realised by the integers from two below the smallest constant to two above the largest. For each such pair
	// outside min >= 1, max >= 1, max >= min, no return of a nil error may be reachable. (`max <= 0` need not be
	// tested by name: min >= 1 and max >= min exclude it.)
	var loadsMin, loadsMax []ssa.Value
	consts := []int64{0, 1}
	stored := false
	eachInstr(v, func(in ssa.Instruction) {
		switch x := in.(type) {
		case *ssa.UnOp:
			if _, ok := loadOfFieldNamed(x, "MinArgs"); ok {
				loadsMin = append(loadsMin, x)
			}
			if _, ok := loadOfFieldNamed(x, "MaxArgs"); ok {
				loadsMax = append(loadsMax, x)
			}
		case *ssa.BinOp:
			for _, o := range []ssa.Value{x.X, x.Y} {
				if k, ok := constInt(o); ok && k > -1000 && k < 1000 {
					consts = append(consts, k)
				}
			}
		case *ssa.Store:
			if fa, ok := x.Addr.(*ssa.FieldAddr); ok {
				if n := fieldOfAddr(fa).Name(); n == "MinArgs" || n == "MaxArgs" {
					stored = true
				}
			}
		}
	})
	if stored || len(loadsMin) == 0 || len(loadsMax) == 0 {
		ru.Bad("ValidateMinMaxArgs/reads", w.Pos(v.Pos()), "the validation does not read both bounds (or writes them)")
		return
	}
	lo, hi := consts[0], consts[0]
	for _, k := range consts {
		if k < lo {
			lo = k
		}
		if k > hi {
			hi = k
		}
	}
	igV := buildIG(v)
	accepted := func(mn, mx int64) bool {
		env := triEnv{}
		for _, l := range loadsMin {
			env[l] = vsVal{c: constant.MakeInt64(mn)}
		}
		for _, l := range loadsMax {
			env[l] = vsVal{c: constant.MakeInt64(mx)}
		}
		seen := igV.reachAssuming(env, nil)
		for i, s := range seen {
			if ret, ok := igV.instrs[i].(*ssa.Return); ok && s && len(ret.Results) > 0 && isNilConst(ret.Results[0]) {
				return true
			}
		}
		return false
	}
	classes := []struct {
		desc string
		in   func(mn, mx int64) bool
	}{
		{"min <= 0", func(mn, mx int64) bool { return mn <= 0 }},
		{"max <= 0", func(mn, mx int64) bool { return mx <= 0 }},
		{"max < min", func(mn, mx int64) bool { return mx < mn }},
	}
	for _, cl := range classes {
		bad := ""
		n := 0
		for mn := lo - 2; mn <= hi+2; mn++ {
			for mx := lo - 2; mx <= hi+2; mx++ {
				if cl.in(mn, mx) {
					n++
					if accepted(mn, mx) && bad == "" {
						bad = fmt.Sprintf(" (min=%d, max=%d is accepted)", mn, mx)
					}
				}
			}
		}
		ru.Check(bad == "" && n > 0, "ValidateMinMaxArgs/"+cl.desc, w.Pos(v.Pos()), fmt.Sprintf("%s is rejected (%d pairs of bounds decided)", cl.desc, n), "the case "+cl.desc+" is not rejected at definition time"+bad)
	}
}

// R02.9 (also C01 R01.8, C10 R10.7): the intake loops stop for exactly the documented reasons.
func rC02ExactStops(w *World, r *Report) { exactStops(w, r, "R02.9") }

func exactStopsRule(id string) func(w *World, r *Report) {
	return func(w *World, r *Report) { exactStops(w, r, id) }
}

func exactStops(w *World, r *Report, id string) {
	ru := r.Rule(id, "exact stop set: the greedy loop is left only because the bound is reached, no token follows, the peeked token is `--`, looks like an option, or fails the element check of the kind (or by an error return); the mandatory loop only because the bound is reached or by an error return; and every path from the match to the greedy loop evaluates the mandatory loop's test. No other condition (e.g. the value equals a command name, an attached value exists) may end or skip the intake", 6)
	m := parserOrFail(w, ru)
	if m == nil {
		return
	}
	loops := m.argLoops()
	var minL, maxL *argLoop
	for i := range loops {
		if loops[i].field == "MinArgs" {
			minL = &loops[i]
		} else {
			maxL = &loops[i]
		}
	}
	if minL == nil || maxL == nil {
		ru.Undecided("loops", w.Pos(m.fn.Pos()), "mandatory / greedy intake loops not found")
		return
	}
	_, peek, _ := m.greedyAdvance()
	var peeked ssa.Value
	if peek != nil {
		for _, ref := range *peek.Referrers() {
			if ex, ok := ref.(*ssa.Extract); ok && ex.Index == 0 {
				peeked = ex
			}
		}
	}
	check := func(l *argLoop, greedy bool) {
		loop := naturalLoop(l.header)
		for b := range loop {
			for k, s := range b.Succs {
				if loop[s] {
					continue
				}
				iff, ok := b.Instrs[len(b.Instrs)-1].(*ssa.If)
				key := "exit/" + l.field
				if !ok {
					ru.Bad(key, w.IPos(b.Instrs[len(b.Instrs)-1]), "unconditional exit from the intake loop")
					continue
				}
				// exits that end in an error return are fine
				if onlyErrorReturns(m, s) {
					ru.OK(key+"/error", w.IPos(iff), "leaves through an error return")
					continue
				}
				allowed := ""
				for _, f := range condFacts(iff.Cond, k == 0, iff) {
					switch {
					case b == l.header:
						allowed = "bound reached"
					case !greedy:
					case f.Op == token.ILLEGAL && !f.Truth && isCallOf(m, f.X, nIterExists):
						allowed = "no following token"
					case f.Op == token.ILLEGAL && f.Truth && isIsOptionOf(f.X, peeked):
						allowed = "peeked token looks like an option"
					case f.Op == token.EQL && f.Y != nil && isConstStr(f.Y, "--") && f.X == peeked:
						allowed = "peeked token is the terminator"
					case f.Op == token.NEQ && f.Y != nil && isNilConst(f.Y) && isConvErrOf(f.X, peeked):
						allowed = "element conversion of the peeked token failed"
					case f.Op == token.ILLEGAL && !f.Truth && isContainsEq(f.X, peeked):
						allowed = "peeked token is not key=value"
					case f.Op == token.ILLEGAL && !f.Truth && isPeekOk(m, f.X):
						allowed = "no following token"
					}
				}
				if allowed != "" {
					ru.OK(key, w.IPos(iff), allowed)
				} else {
					ru.Bad(key, w.IPos(iff), "the "+map[bool]string{true: "greedy", false: "mandatory"}[greedy]+" intake loop is left for a reason outside the documented stop set: a value that should be consumed is refused (or the loop is cut short)")
				}
			}
		}
	}
	check(minL, false)
	check(maxL, true)
	// the mandatory loop's test is evaluated on every path from the match to the greedy loop
	lkIf, _ := m.lookupOkIf()
	if lkIf != nil {
		ok, _ := m.ig.mustPass(m.ig.edgeStart(lkIf.Block(), 0), func(in ssa.Instruction) bool { return in.Block() == minL.header }, func(in ssa.Instruction) bool { return in.Block() == maxL.header })
		ru.Check(ok, "mandatory-loop/not-skipped", w.IPos(minL.iff), "the minimum is enforced on every path", "the mandatory intake can be skipped (e.g. when a value was attached with `=`): fewer than min values are accepted")
	}
}

func onlyErrorReturns(m *parserModel, b *ssa.BasicBlock) bool {
	seen := m.ig.reachFrom([]int{m.ig.first[b]}, nil)
	n := 0
	for i, s := range seen {
		if !s {
			continue
		}
		in := m.ig.instrs[i]
		if in == ssa.Instruction(m.mainNext) {
			return false
		}
		if ret, ok := in.(*ssa.Return); ok {
			n++
			if isNilConst(ret.Results[len(ret.Results)-1]) {
				return false
			}
		}
	}
	return n > 0
}

func isCallOf(m *parserModel, v ssa.Value, name string) bool {
	c, ok := v.(*ssa.Call)
	return ok && m.iterCall(c, name)
}

func isIsOptionOf(v, arg ssa.Value) bool {
	ex, ok := v.(*ssa.Extract)
	if !ok || ex.Index != 1 {
		return false
	}
	c, ok := ex.Tuple.(*ssa.Call)
	return ok && calleeName(c) == nIsOption && c.Call.Args[0] == arg
}

func isConstStr(v ssa.Value, s string) bool { x, ok := constString(v); return ok && x == s }

func isConvErrOf(v, arg ssa.Value) bool {
	ex, ok := v.(*ssa.Extract)
	if !ok || ex.Index != 1 {
		return false
	}
	c, ok := ex.Tuple.(*ssa.Call)
	if !ok || c.Call.Args[0] != arg {
		return false
	}
	n := calleeName(c)
	return n == "strconv.Atoi" || n == "strconv.ParseFloat"
}

func isContainsEq(v, arg ssa.Value) bool {
	c, ok := v.(*ssa.Call)
	return ok && calleeName(c) == "strings.Contains" && c.Call.Args[0] == arg && isConstStr(c.Call.Args[1], "=")
}

func isPeekOk(m *parserModel, v ssa.Value) bool {
	ex, ok := v.(*ssa.Extract)
	if !ok || ex.Index != 1 {
		return false
	}
	c, ok := ex.Tuple.(*ssa.Call)
	return ok && m.iterCall(c, nIterPeek)
}

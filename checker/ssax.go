package main

// ssax.go - helpers over go/ssa: callee resolution, edge dominance, branch facts,
// instruction graphs (must-pass-through / reachability), field readers and writers.

import (
	"fmt"
	"go/constant"
	"go/token"
	"go/types"
	"sort"
	"strings"

	"golang.org/x/tools/go/ssa"
)

type typesVar = types.Var

// ---------------------------------------------------------------- callees

// calleeName returns the short name of the statically resolved callee of a call instruction:
// "strings.HasPrefix", "(*sliceiterator.Iterator).Next", "builtin:append", "invoke:io.Writer.Write",
// or "dyn:<type>" for a call through a function value.
func calleeName(c ssa.CallInstruction) string {
	cc := c.Common()
	if cc.IsInvoke() {
		return "invoke:" + shortName(cc.Value.Type().String()) + "." + cc.Method.Name()
	}
	switch v := cc.Value.(type) {
	case *ssa.Builtin:
		return "builtin:" + v.Name()
	case *ssa.Function:
		return short(v)
	case *ssa.MakeClosure:
		if f, ok := v.Fn.(*ssa.Function); ok {
			return short(f)
		}
	}
	return "dyn:" + shortName(cc.Value.Type().String())
}

// calleeBase: calleeName without the type arguments of a generic instance ("slices.Sort[[]string string]" -> "slices.Sort").
func calleeBase(c ssa.CallInstruction) string {
	n := calleeName(c)
	if i := strings.Index(n, "["); i > 0 && !strings.HasPrefix(n, "dyn:") && !strings.HasPrefix(n, "invoke:") {
		return n[:i]
	}
	return n
}

// isTotalSort: the call sorts its first argument completely (standard library sorts, old and new, and option.Sort).
func isTotalSort(n string) bool {
	switch n {
	case "sort.Strings", "sort.Ints", "sort.Slice", "sort.SliceStable", "option.Sort", "slices.Sort", "slices.SortFunc", "slices.SortStableFunc":
		return true
	}
	return false
}

// keysCallOf: v is slices.Sorted(maps.Keys(m)) / slices.Collect(maps.Keys(m)) / slices.AppendSeq(empty, maps.Keys(m)):
// returns m and whether the list is sorted.
func keysCallOf(v ssa.Value) (m ssa.Value, sorted, ok bool) {
	c, isCall := v.(*ssa.Call)
	if !isCall {
		return nil, false, false
	}
	var seq ssa.Value
	switch calleeBase(c) {
	case "slices.Sorted":
		seq, sorted = c.Call.Args[0], true
	case "slices.Collect":
		seq = c.Call.Args[0]
	case "slices.AppendSeq":
		if len(c.Call.Args) == 2 {
			if els, sp, okE := elementsOf(c.Call.Args[0], map[ssa.Value]bool{}); okE && len(els) == 0 && len(sp) == 0 {
				seq = c.Call.Args[1]
			}
		}
	}
	kc, isK := seq.(*ssa.Call)
	if seq == nil || !isK || calleeBase(kc) != "maps.Keys" {
		return nil, false, false
	}
	return kc.Call.Args[0], sorted, true
}

func staticCallee(c ssa.CallInstruction) *ssa.Function {
	cc := c.Common()
	if f := cc.StaticCallee(); f != nil {
		return f
	}
	return nil
}

// callArgs returns the arguments including the receiver (receiver first) for static method calls.
func callArgs(c ssa.CallInstruction) []ssa.Value { return c.Common().Args }

// funcsWithAnon returns fn and all functions literally nested in it.
func funcsWithAnon(fn *ssa.Function) []*ssa.Function {
	out := []*ssa.Function{fn}
	for _, a := range fn.AnonFuncs {
		out = append(out, funcsWithAnon(a)...)
	}
	return out
}

// eachInstr visits every instruction of fn (not of nested literals).
func eachInstr(fn *ssa.Function, f func(ssa.Instruction)) {
	for _, b := range fn.Blocks {
		for _, in := range b.Instrs {
			f(in)
		}
	}
}

// callsTo returns the call instructions in fn whose callee short name is one of names.
func callsTo(fn *ssa.Function, names ...string) []ssa.CallInstruction {
	var out []ssa.CallInstruction
	eachInstr(fn, func(in ssa.Instruction) {
		if c, ok := in.(ssa.CallInstruction); ok {
			n := calleeName(c)
			for _, want := range names {
				if n == want {
					out = append(out, c)
				}
			}
		}
	})
	return out
}

func allCalls(fn *ssa.Function) []ssa.CallInstruction {
	var out []ssa.CallInstruction
	eachInstr(fn, func(in ssa.Instruction) {
		if c, ok := in.(ssa.CallInstruction); ok {
			out = append(out, c)
		}
	})
	return out
}

// ---------------------------------------------------------------- constants

func constString(v ssa.Value) (string, bool) {
	if c, ok := v.(*ssa.Const); ok && c.Value != nil && c.Value.Kind() == constant.String {
		return constant.StringVal(c.Value), true
	}
	return "", false
}

func constInt(v ssa.Value) (int64, bool) {
	if c, ok := v.(*ssa.Const); ok && c.Value != nil && c.Value.Kind() == constant.Int {
		i, ok := constant.Int64Val(c.Value)
		return i, ok
	}
	return 0, false
}

func isNilConst(v ssa.Value) bool {
	c, ok := v.(*ssa.Const)
	return ok && c.Value == nil
}

// ---------------------------------------------------------------- dominance on edges

// edgeDominates reports whether the CFG edge from -> from.Succs[k] dominates block b:
// every path from the entry to b goes through that edge.
func edgeDominates(from *ssa.BasicBlock, k int, b *ssa.BasicBlock) bool {
	if k >= len(from.Succs) {
		return false
	}
	t := from.Succs[k]
	for j, s := range from.Succs {
		if j != k && s == t {
			return false // both edges lead to the same block
		}
	}
	if !t.Dominates(b) {
		return false
	}
	for _, p := range t.Preds {
		if p == from {
			continue
		}
		if !t.Dominates(p) { // another way into t that is not a back edge from inside t's region
			return false
		}
	}
	return true
}

// Fact is an atomic condition known to hold on an edge.
type Fact struct {
	Op    token.Token // EQL, NEQ, LSS, LEQ, GTR, GEQ for comparisons; token.ILLEGAL for a plain boolean value
	X, Y  ssa.Value   // operands (Y nil for a plain boolean)
	Truth bool        // for a plain boolean: its value on this edge
	If    *ssa.If
}

func negateOp(op token.Token) token.Token {
	switch op {
	case token.EQL:
		return token.NEQ
	case token.NEQ:
		return token.EQL
	case token.LSS:
		return token.GEQ
	case token.GEQ:
		return token.LSS
	case token.GTR:
		return token.LEQ
	case token.LEQ:
		return token.GTR
	}
	return token.ILLEGAL
}

// condFacts decomposes cond (assumed to evaluate to truth) into atomic facts.
func condFacts(cond ssa.Value, truth bool, iff *ssa.If) []Fact {
	out := condFactsRaw(cond, truth, iff)
	// a fact about a value is a fact about the values known to equal it (gvn.go)
	n := len(out)
	for i := 0; i < n; i++ {
		f := out[i]
		xs := append([]ssa.Value{f.X}, sameValueClass(f.X)...)
		ys := []ssa.Value{f.Y}
		if f.Y != nil {
			ys = append(ys, sameValueClass(f.Y)...)
		}
		if len(xs) == 1 && len(ys) == 1 {
			continue
		}
		for _, x := range xs {
			for _, y := range ys {
				if x == f.X && y == f.Y {
					continue
				}
				g := f
				g.X, g.Y = x, y
				out = append(out, g)
			}
		}
	}
	return out
}

func condFactsRaw(cond ssa.Value, truth bool, iff *ssa.If) []Fact {
	switch c := cond.(type) {
	case *ssa.UnOp:
		if c.Op == token.NOT {
			return condFactsRaw(c.X, !truth, iff)
		}
	case *ssa.BinOp:
		switch c.Op {
		case token.EQL, token.NEQ, token.LSS, token.LEQ, token.GTR, token.GEQ:
			op := c.Op
			if !truth {
				op = negateOp(op)
			}
			return []Fact{{Op: op, X: c.X, Y: c.Y, If: iff}}
		}
	}
	return []Fact{{Op: token.ILLEGAL, X: cond, Truth: truth, If: iff}}
}

// factsAt returns all atomic facts established by conditional edges that dominate block b, closed under
// "discriminant inversion": when a fact compares a phi of distinct constants with a constant and exactly one
// incoming edge of the phi is compatible, the facts of that edge hold as well (the value was selected on it).
func factsAt(b *ssa.BasicBlock) []Fact { return factsAtDepth(b, 0) }

func factsAtDepth(b *ssa.BasicBlock, depth int) []Fact {
	out := factsAtDirect(b)
	if depth > 3 {
		return out
	}
	done := map[*ssa.Phi]bool{}
	for i := 0; i < len(out); i++ {
		f := out[i]
		if f.Y == nil || (f.Op != token.EQL && f.Op != token.NEQ) {
			continue
		}
		phi, c := f.X, f.Y
		if _, ok := phi.(*ssa.Phi); !ok {
			phi, c = f.Y, f.X
		}
		p, ok := phi.(*ssa.Phi)
		cc, ok2 := c.(*ssa.Const)
		if ok && ok2 && cc.Value == nil && !done[p] {
			// nil-ness: a phi whose operands are each the nil constant or surely non-nil (a fresh error, an
			// allocation, a boxed value) was selected on the one edge compatible with the fact
			if j := nilnessEdge(p, f.Op == token.EQL); j >= 0 && !p.Block().Dominates(p.Block().Preds[j]) {
				done[p] = true
				pb := p.Block()
				pred := pb.Preds[j]
				out = append(out, factsAtDepth(pred, depth+1)...)
				if iff, ok := pred.Instrs[len(pred.Instrs)-1].(*ssa.If); ok && pred.Succs[0] != pred.Succs[1] {
					out = append(out, condFacts(iff.Cond, pred.Succs[0] == pb, iff)...)
				}
			}
			continue
		}
		if !ok || !ok2 || cc.Value == nil || done[p] {
			continue
		}
		pb := p.Block()
		feasible := -1
		n := 0
		good := true
		for j, e := range p.Edges {
			ec, isC := e.(*ssa.Const)
			if !isC || ec.Value == nil {
				good = false
				break
			}
			eq := constant.Compare(ec.Value, token.EQL, cc.Value)
			if eq == (f.Op == token.EQL) {
				feasible = j
				n++
			}
		}
		if !good || n != 1 || pb.Dominates(pb.Preds[feasible]) {
			continue
		}
		done[p] = true
		pred := pb.Preds[feasible]
		out = append(out, factsAtDepth(pred, depth+1)...)
		if iff, ok := pred.Instrs[len(pred.Instrs)-1].(*ssa.If); ok && pred.Succs[0] != pred.Succs[1] {
			out = append(out, condFacts(iff.Cond, pred.Succs[0] == pb, iff)...)
		}
	}
	return out
}

// surelyNonNil: the value cannot be nil (a freshly made error, an allocation, a boxed concrete value, a closure).
func surelyNonNil(v ssa.Value) bool {
	switch x := v.(type) {
	case *ssa.Call:
		n := calleeName(x)
		return n == "fmt.Errorf" || n == "errors.New"
	case *ssa.Alloc, *ssa.MakeInterface, *ssa.MakeClosure, *ssa.MakeMap, *ssa.MakeSlice, *ssa.MakeChan:
		return true
	}
	return false
}

// nilnessEdge: the single incoming edge of p compatible with "p is nil" (wantNil) or "p is not nil", when every
// operand is either the nil constant or surely non-nil; -1 otherwise.
func nilnessEdge(p *ssa.Phi, wantNil bool) int {
	feasible, n := -1, 0
	for j, e := range p.Edges {
		switch {
		case isNilConst(e):
			if wantNil {
				feasible = j
				n++
			}
		case surelyNonNil(e):
			if !wantNil {
				feasible = j
				n++
			}
		default:
			return -1
		}
	}
	if n != 1 {
		return -1
	}
	return feasible
}

// resolvePhi: the operand a phi certainly holds at block b, when the facts at b select the incoming edge of a sibling
// phi of the same block (two results of an inlined helper merged together: knowing `err == nil` tells which value the
// other one is). Applied repeatedly; returns v itself when nothing is known.
func resolvePhi(v ssa.Value, b *ssa.BasicBlock) ssa.Value {
	for depth := 0; depth < 4; depth++ {
		p, ok := v.(*ssa.Phi)
		if !ok {
			return v
		}
		pb := p.Block()
		if !pb.Dominates(b) {
			return v
		}
		edge := -1
		for _, f := range factsAt(b) {
			if f.Y == nil || (f.Op != token.EQL && f.Op != token.NEQ) {
				continue
			}
			x, y := f.X, f.Y
			if _, isPhi := x.(*ssa.Phi); !isPhi {
				x, y = y, x
			}
			q, ok := x.(*ssa.Phi)
			if !ok || q.Block() != pb {
				continue
			}
			if isNilConst(y) {
				if j := nilnessEdge(q, f.Op == token.EQL); j >= 0 {
					edge = j
				}
				continue
			}
			if c, ok := y.(*ssa.Const); ok && c.Value != nil {
				feasible, n := -1, 0
				allConst := true
				for j, e := range q.Edges {
					ec, isC := e.(*ssa.Const)
					if !isC || ec.Value == nil {
						allConst = false
						break
					}
					if constant.Compare(ec.Value, token.EQL, c.Value) == (f.Op == token.EQL) {
						feasible = j
						n++
					}
				}
				if allConst && n == 1 {
					edge = feasible
				}
			}
		}
		if edge < 0 || pb.Dominates(pb.Preds[edge]) {
			return v
		}
		v = p.Edges[edge]
	}
	return v
}

// returnTuples expands the results of a return through the phis that merge them (single-exit style): phis of the
// same block are expanded together, edge by edge, so that each tuple is a combination the function can really return;
// phis of different blocks are expanded independently (an over-approximation). At most limit tuples; nil if exceeded.
func returnTuples(results []ssa.Value, limit int) [][]ssa.Value {
	return returnTuplesBy(results, -1, limit)
}

// returnTuplesBy: as returnTuples, but only the phis of component `driver` (and the phis that share a block with
// them) are expanded; the other components keep their own structure (a list accumulated in a loop stays a phi).
func returnTuplesBy(results []ssa.Value, driver, limit int) [][]ssa.Value {
	work := [][]ssa.Value{append([]ssa.Value(nil), results...)}
	var out [][]ssa.Value
	seen := map[string]bool{}
	for len(work) > 0 {
		t := work[len(work)-1]
		work = work[:len(work)-1]
		var blk *ssa.BasicBlock
		for k, v := range t {
			if driver >= 0 && k != driver {
				continue
			}
			if p, ok := v.(*ssa.Phi); ok {
				blk = p.Block()
				break
			}
		}
		if blk == nil {
			out = append(out, t)
			if len(out) > limit {
				return nil
			}
			continue
		}
		key := ""
		for _, v := range t {
			key += fmt.Sprintf("%p,", v)
		}
		if seen[key] {
			continue
		}
		seen[key] = true
		for i := range blk.Preds {
			nt := make([]ssa.Value, len(t))
			for k, v := range t {
				if p, ok := v.(*ssa.Phi); ok && p.Block() == blk {
					nt[k] = p.Edges[i]
				} else {
					nt[k] = v
				}
			}
			work = append(work, nt)
		}
		if len(seen) > 4*limit {
			return nil
		}
	}
	return out
}

func factsAtDirect(b *ssa.BasicBlock) []Fact {
	var out []Fact
	fn := b.Parent()
	for _, blk := range fn.Blocks {
		if len(blk.Instrs) == 0 {
			continue
		}
		iff, ok := blk.Instrs[len(blk.Instrs)-1].(*ssa.If)
		if !ok {
			continue
		}
		if edgeDominates(blk, 0, b) {
			out = append(out, condFacts(iff.Cond, true, iff)...)
		} else if edgeDominates(blk, 1, b) {
			out = append(out, condFacts(iff.Cond, false, iff)...)
		}
	}
	return out
}

// ---------------------------------------------------------------- instruction graph

// IG is a control-flow graph at instruction granularity for one function.
type IG struct {
	fn     *ssa.Function
	instrs []ssa.Instruction
	idx    map[ssa.Instruction]int
	succ   [][]int
	first  map[*ssa.BasicBlock]int
	// cache for the value-sensitive search (ssax_vs.go)
	relevant    map[ssa.Value]bool
	valIDs      map[ssa.Value]int
	liveCache   map[*ssa.BasicBlock]map[ssa.Value]bool
	liveKey     int
	recordEdges map[[2]*ssa.BasicBlock]bool
}

func buildIG(fn *ssa.Function) *IG {
	g := &IG{fn: fn, idx: map[ssa.Instruction]int{}, first: map[*ssa.BasicBlock]int{}}
	for _, b := range fn.Blocks {
		g.first[b] = len(g.instrs)
		for _, in := range b.Instrs {
			g.idx[in] = len(g.instrs)
			g.instrs = append(g.instrs, in)
		}
	}
	g.succ = make([][]int, len(g.instrs))
	for _, b := range fn.Blocks {
		for i, in := range b.Instrs {
			n := g.idx[in]
			if i+1 < len(b.Instrs) {
				g.succ[n] = []int{n + 1}
			} else {
				for _, s := range b.Succs {
					if len(s.Instrs) > 0 {
						g.succ[n] = append(g.succ[n], g.first[s])
					}
				}
			}
		}
	}
	return g
}

// reachFrom returns the set of instructions reachable from the given start nodes (inclusive)
// without entering a node for which stop returns true (stop nodes are marked reached but not expanded).
func (g *IG) reachFrom(starts []int, stop func(ssa.Instruction) bool) []bool {
	if r, ok := g.reachVS(starts, stop, nil); ok {
		return r
	}
	return g.reachPlain(starts, stop)
}

// reachPlain is reachFrom without value sensitivity (used when the state budget of reachVS is exhausted).
func (g *IG) reachPlain(starts []int, stop func(ssa.Instruction) bool) []bool {
	seen := make([]bool, len(g.instrs))
	var stack []int
	for _, s := range starts {
		if !seen[s] {
			seen[s] = true
			stack = append(stack, s)
		}
	}
	for len(stack) > 0 {
		n := stack[len(stack)-1]
		stack = stack[:len(stack)-1]
		if stop != nil && stop(g.instrs[n]) {
			continue
		}
		for _, m := range g.succ[n] {
			if !seen[m] {
				seen[m] = true
				stack = append(stack, m)
			}
		}
	}
	return seen
}

// reachFromE is reachFrom with an edge filter: the k-th successor edge of a block terminator is followed only if edgeOK allows it.
func (g *IG) reachFromE(starts []int, stop func(ssa.Instruction) bool, edgeOK func(term ssa.Instruction, k int) bool) []bool {
	if r, ok := g.reachVS(starts, stop, edgeOK); ok {
		return r
	}
	seen := make([]bool, len(g.instrs))
	var stack []int
	for _, s := range starts {
		if !seen[s] {
			seen[s] = true
			stack = append(stack, s)
		}
	}
	for len(stack) > 0 {
		n := stack[len(stack)-1]
		stack = stack[:len(stack)-1]
		in := g.instrs[n]
		if stop != nil && stop(in) {
			continue
		}
		b := in.Block()
		isTerm := b.Instrs[len(b.Instrs)-1] == in
		for k, m := range g.succ[n] {
			if isTerm && edgeOK != nil && !edgeOK(in, k) {
				continue
			}
			if !seen[m] {
				seen[m] = true
				stack = append(stack, m)
			}
		}
	}
	return seen
}

// after returns the successor nodes of an instruction.
func (g *IG) after(in ssa.Instruction) []int { return g.succ[g.idx[in]] }

// edgeStart returns the first node of the k-th successor block of the block ending in iff.
func (g *IG) edgeStart(b *ssa.BasicBlock, k int) []int {
	if k < len(b.Succs) && len(b.Succs[k].Instrs) > 0 {
		return []int{g.first[b.Succs[k]]}
	}
	return nil
}

// mustPass reports whether every path from the start nodes to an instruction satisfying target
// contains an instruction satisfying via. It returns a witness target reached while avoiding via, if any.
func (g *IG) mustPass(starts []int, via func(ssa.Instruction) bool, target func(ssa.Instruction) bool) (bool, ssa.Instruction) {
	seen := g.reachFrom(starts, via)
	for i, s := range seen {
		if s && target(g.instrs[i]) && !via(g.instrs[i]) {
			return false, g.instrs[i]
		}
	}
	return true, nil
}

// inCycleAvoiding reports whether instruction in lies on a CFG cycle that contains no instruction satisfying avoid.
func (g *IG) inCycleAvoiding(in ssa.Instruction, avoid func(ssa.Instruction) bool) bool {
	seen := g.reachFrom(g.after(in), avoid)
	return seen[g.idx[in]]
}

// ---------------------------------------------------------------- loops

// blocksInCycleWith returns true if block a can reach itself.
func blockInCycle(a *ssa.BasicBlock) bool {
	seen := map[*ssa.BasicBlock]bool{}
	stack := append([]*ssa.BasicBlock(nil), a.Succs...)
	for len(stack) > 0 {
		b := stack[len(stack)-1]
		stack = stack[:len(stack)-1]
		if b == a {
			return true
		}
		if seen[b] {
			continue
		}
		seen[b] = true
		stack = append(stack, b.Succs...)
	}
	return false
}

// ---------------------------------------------------------------- fields

// fieldOfAddr resolves the struct field addressed by a FieldAddr.
func fieldOfAddr(fa *ssa.FieldAddr) *types.Var {
	t := fa.X.Type().Underlying()
	if p, ok := t.(*types.Pointer); ok {
		if st, ok := p.Elem().Underlying().(*types.Struct); ok {
			return st.Field(fa.Field)
		}
	}
	return nil
}

func fieldOfField(f *ssa.Field) *types.Var {
	if st, ok := f.X.Type().Underlying().(*types.Struct); ok {
		return st.Field(f.Field)
	}
	return nil
}

type fieldUse struct {
	Fn    *ssa.Function
	Instr ssa.Instruction
	Addr  *ssa.FieldAddr // nil for ssa.Field reads
	Kind  string         // "write", "read", "addr-escapes"
}

// fieldUses lists every write, read and address escape of the given field in the library.
func (w *World) fieldUses(f *types.Var) []fieldUse {
	var out []fieldUse
	for _, fn := range w.Funcs {
		eachInstr(fn, func(in ssa.Instruction) {
			switch x := in.(type) {
			case *ssa.FieldAddr:
				if fieldOfAddr(x) != f {
					return
				}
				refs := x.Referrers()
				if refs == nil {
					return
				}
				for _, r := range *refs {
					switch u := r.(type) {
					case *ssa.Store:
						if u.Addr == x {
							out = append(out, fieldUse{fn, u, x, "write"})
						} else {
							out = append(out, fieldUse{fn, u, x, "addr-escapes"})
						}
					case *ssa.UnOp:
						if u.Op == token.MUL {
							out = append(out, fieldUse{fn, u, x, "read"})
						} else {
							out = append(out, fieldUse{fn, u, x, "addr-escapes"})
						}
					case *ssa.DebugRef:
					default:
						out = append(out, fieldUse{fn, r, x, "addr-escapes"})
					}
				}
			case *ssa.Field:
				if fieldOfField(x) == f {
					out = append(out, fieldUse{fn, x, nil, "read"})
				}
			}
		})
	}
	return out
}

// ---------------------------------------------------------------- misc

func instrPos(in ssa.Instruction) token.Pos {
	if in == nil {
		return token.NoPos
	}
	if p := in.Pos(); p.IsValid() {
		return p
	}
	// fall back to operands / block neighbours
	if v, ok := in.(ssa.Value); ok {
		_ = v
	}
	b := in.Block()
	if b != nil {
		for _, o := range b.Instrs {
			if o.Pos().IsValid() {
				return o.Pos()
			}
		}
	}
	if in.Parent() != nil {
		return in.Parent().Pos()
	}
	return token.NoPos
}

func (w *World) IPos(in ssa.Instruction) string { return w.Pos(instrPos(in)) }

func sortedKeys(m map[string]bool) []string {
	var out []string
	for k := range m {
		out = append(out, k)
	}
	sort.Strings(out)
	return out
}

func describeInstr(in ssa.Instruction) string {
	s := in.String()
	if v, ok := in.(ssa.Value); ok && v.Name() != "" {
		s = v.Name() + " = " + s
	}
	return shortName(s)
}

func joinLimited(ss []string, n int) string {
	if len(ss) > n {
		return strings.Join(ss[:n], "; ") + fmt.Sprintf("; … (%d more)", len(ss)-n)
	}
	return strings.Join(ss, "; ")
}

// isMethodCallOn reports whether c is a static call of method name (short callee form) whose receiver is recv.
func isMethodCallOn(c ssa.CallInstruction, callee string, recv ssa.Value) bool {
	if calleeName(c) != callee {
		return false
	}
	args := c.Common().Args
	return len(args) > 0 && args[0] == recv
}

// derefType strips one pointer.
func derefType(t types.Type) types.Type {
	if p, ok := t.Underlying().(*types.Pointer); ok {
		return p.Elem()
	}
	return t
}

func typeString(t types.Type) string { return shortName(t.String()) }

// sameVal: a and b denote the same value: identical SSA values, or loads of the same field of the same base
// in a function that never stores to that field (go/ssa performs no common subexpression elimination).
func sameVal(a, b ssa.Value) bool {
	if a == b {
		return true
	}
	ua, ok1 := a.(*ssa.UnOp)
	ub, ok2 := b.(*ssa.UnOp)
	if !ok1 || !ok2 || ua.Op != token.MUL || ub.Op != token.MUL {
		return false
	}
	fa, ok1 := ua.X.(*ssa.FieldAddr)
	fb, ok2 := ub.X.(*ssa.FieldAddr)
	if !ok1 || !ok2 || fieldOfAddr(fa) != fieldOfAddr(fb) || !sameVal(fa.X, fb.X) {
		return false
	}
	f := fieldOfAddr(fa)
	stored := false
	for _, fn := range funcsWithAnon(ua.Parent()) {
		eachInstr(fn, func(in ssa.Instruction) {
			if st, ok := in.(*ssa.Store); ok {
				if x, ok := st.Addr.(*ssa.FieldAddr); ok && fieldOfAddr(x) == f {
					// a store into an object freshly allocated in this function cannot alias a different base
					if al, isAlloc := rootOfAddr(x.X).(*ssa.Alloc); isAlloc && rootOfAddr(fa.X) != ssa.Value(al) {
						if _, isParam := rootOfAddr(fa.X).(*ssa.Parameter); isParam {
							return
						}
					}
					stored = true
				}
			}
		})
	}
	return !stored
}

// ---------------------------------------------------------------- path-sensitive reachability over boolean phis

// boolEnv tracks, along one path, the value of boolean phi nodes: 0 unknown, 1 false, 2 true.
type boolEnv map[*ssa.Phi]int8

func (e boolEnv) key() string {
	var ks []string
	for p, v := range e {
		if v != 0 {
			ks = append(ks, fmt.Sprintf("%s=%d", p.Name(), v))
		}
	}
	sort.Strings(ks)
	return strings.Join(ks, ",")
}

func evalBool(v ssa.Value, env boolEnv) int8 {
	switch x := v.(type) {
	case *ssa.Const:
		if x.Value != nil {
			if x.Value.String() == "true" {
				return 2
			}
			if x.Value.String() == "false" {
				return 1
			}
		}
	case *ssa.Phi:
		return env[x]
	case *ssa.UnOp:
		if x.Op == token.NOT {
			switch evalBool(x.X, env) {
			case 1:
				return 2
			case 2:
				return 1
			}
		}
	}
	return 0
}

func isBoolType(t types.Type) bool {
	b, ok := t.Underlying().(*types.Basic)
	return ok && b.Kind() == types.Bool
}

// reachPS explores the instruction graph from starts, tracking the values of boolean phis along each path and pruning
// branch edges that contradict them. stop ends a path (the node is still reported as reached). edgeOK may prune further
// and receives the environment. It returns the set of reached instructions.
func (g *IG) reachPS(starts []int, stop func(ssa.Instruction) bool, edgeOK func(term ssa.Instruction, k int, env boolEnv) bool) []bool {
	type st struct {
		n   int
		env boolEnv
	}
	reached := make([]bool, len(g.instrs))
	seen := map[string]bool{}
	var stack []st
	for _, s := range starts {
		stack = append(stack, st{s, boolEnv{}})
	}
	for len(stack) > 0 {
		cur := stack[len(stack)-1]
		stack = stack[:len(stack)-1]
		k := fmt.Sprintf("%d|%s", cur.n, cur.env.key())
		if seen[k] {
			continue
		}
		seen[k] = true
		reached[cur.n] = true
		in := g.instrs[cur.n]
		if stop != nil && stop(in) {
			continue
		}
		b := in.Block()
		isTerm := b.Instrs[len(b.Instrs)-1] == in
		if !isTerm {
			for _, m := range g.succ[cur.n] {
				stack = append(stack, st{m, cur.env})
			}
			continue
		}
		for ki, m := range g.succ[cur.n] {
			if iff, ok := in.(*ssa.If); ok {
				if v := evalBool(iff.Cond, cur.env); (v == 2 && ki == 1) || (v == 1 && ki == 0) {
					continue
				}
			}
			if edgeOK != nil && !edgeOK(in, ki, cur.env) {
				continue
			}
			// evaluate the phis of the successor block simultaneously
			succ := b.Succs[ki]
			nenv := boolEnv{}
			for p, v := range cur.env {
				nenv[p] = v
			}
			predIdx := -1
			for i, p := range succ.Preds {
				if p == b {
					predIdx = i
				}
			}
			for _, si := range succ.Instrs {
				phi, ok := si.(*ssa.Phi)
				if !ok {
					break
				}
				if !isBoolType(phi.Type()) || predIdx < 0 {
					continue
				}
				nenv[phi] = evalBool(phi.Edges[predIdx], cur.env)
			}
			// a branch on a phi teaches its value on the taken edge
			if iff, ok := in.(*ssa.If); ok {
				c := iff.Cond
				neg := false
				if u, ok := c.(*ssa.UnOp); ok && u.Op == token.NOT {
					c, neg = u.X, true
				}
				if phi, ok := c.(*ssa.Phi); ok && isBoolType(phi.Type()) {
					truth := ki == 0
					if neg {
						truth = !truth
					}
					// only if the successor did not just redefine it
					redefined := false
					for _, si := range succ.Instrs {
						if si == ssa.Instruction(phi) {
							redefined = true
						}
					}
					if !redefined {
						if truth {
							nenv[phi] = 2
						} else {
							nenv[phi] = 1
						}
					}
				}
			}
			stack = append(stack, st{m, nenv})
		}
	}
	return reached
}

// naturalLoop returns the blocks of the natural loop(s) with the given header (header included).
func naturalLoop(h *ssa.BasicBlock) map[*ssa.BasicBlock]bool {
	in := map[*ssa.BasicBlock]bool{h: true}
	var stack []*ssa.BasicBlock
	for _, p := range h.Preds {
		if h.Dominates(p) && !in[p] {
			in[p] = true
			stack = append(stack, p)
		}
	}
	for len(stack) > 0 {
		b := stack[len(stack)-1]
		stack = stack[:len(stack)-1]
		for _, p := range b.Preds {
			if !in[p] && h.Dominates(p) {
				in[p] = true
				stack = append(stack, p)
			}
		}
	}
	return in
}

package main

// rules_round6.go - rules added after the sixth round of independently seeded changes, which were chosen by kind of
// mistake (copy-paste slips between variables of one type, swallowed or overwritten errors, conditions changed by one
// conjunct, early exits, state shared where it must be fresh) rather than by place.

import (
	"fmt"
	"go/ast"
	"go/constant"
	"go/token"
	"go/types"
	"sort"
	"strings"

	"golang.org/x/tools/go/ssa"
)

var _ = types.Identical
var _ = strings.HasPrefix

func init() {
	cur := map[string]string{"C03": "R03.15", "C04": "R04.11", "C05": "R05.13", "C06": "R06.15", "C08": "R08.15", "C09": "R09.10", "C10": "R10.14", "C17": "R17.14"}
	for prop, id := range cur {
		addRules(prop, rCurrentNode(id))
	}
	addRules("C01", rErrorReturned("R01.17", nParse, nParseCLI, 2,
		"a parse error always reaches the caller: in Parse, once parseCLIArgs has returned a non-nil error every path returns that error (no flag, mode or earlier option makes Parse succeed with a default in place of the rejected text)"),
		rPairLoopComplete("R01.18"))
	addRules("C19", rErrorReturned("R19.10", nParse, nParseCLI, 2,
		"a failed parse is reported as a failure: once parseCLIArgs has returned a non-nil error every path of Parse returns that error"))
	addRules("C16", rErrorReturned("R16.15", "(*dag.Graph).DepthFirstSort", "dag.visit", -1,
		"a cycle found from any starting vertex is reported: in DepthFirstSort, once visit has returned a non-nil error every path returns that error (it is not overwritten by the result of a later visit)"))
	addRules("C10", rPairLoopComplete("R10.15"))
	addRules("C02", typestateRule("R02.15"))
	addRules("C05", exactStopsRule("R05.14"))
	addRules("C06", func(w *World, r *Report) {
		subRule(w, r, rC07Units, "R06.16", "an alias of one character behaves like the name whatever its encoding length: rune / byte unit consistency in the tokeniser (same obligations as C07 R07.3)", 1)
	})
	addRules("C18", func(w *World, r *Report) {
		subRule(w, r, rC10Call, "R18.16", "Help() inside a command function renders the command it runs for: the GetOpt handed to the function views the selected node in both of its fields (same obligations as C10 R10.1)", 2)
	})
	addRules("C11", rHelpEverywhere("R11.17"))
	addRules("C02", func(w *World, r *Report) {
		subRule(w, r, rC12GetEnvBody, "R02.17", "what a slice or map option holds are the values consumed from the command line, in that order: the environment modifier never saves into a multi-value option (same obligations as C12 R12.4)", 9)
	})
	addRules("C15", rSemaphoreFresh("R15.10"))
}

// rCurrentNode: the parser works on the node it is currently at.
func rCurrentNode(id string) func(w *World, r *Report) {
	return func(w *World, r *Report) {
		ru := r.Rule(id, "the parser consults and updates the node it is currently at: in parseCLIArgs the root it was started on is used only as the initial value of the cursor and for the root-wide mapKeysToLower setting - never to read a mode, look a name up, store text or unknown options, or as the node handed to a helper (after a command name the root is a different node)", 1)
		fn := w.Fn(nParseCLI)
		if fn == nil {
			ru.Undecided("anchor", "-", "parseCLIArgs not found")
			return
		}
		var root *ssa.Parameter
		for _, p := range fn.Params {
			if isTreePtr(p.Type()) {
				root = p
			}
		}
		if root == nil || root.Referrers() == nil {
			ru.Undecided("anchor", w.Pos(fn.Pos()), "no root node parameter")
			return
		}
		n := 0
		cursor := false
		for _, ref := range *root.Referrers() {
			switch x := ref.(type) {
			case *ssa.DebugRef:
			case *ssa.Phi:
				cursor = true
			case *ssa.FieldAddr:
				if fieldOfAddr(x).Name() == "mapKeysToLower" || flowsOnlyIntoField(x, "MapKeysToLower") {
					continue // the root-wide map-key setting, handed to the record being saved
				}
				if !isBaselineField(fieldOfAddr(x)) {
					continue // a setting that a new feature added: which level it is read from is that feature's contract
				}
				n++
				ru.Bad("root-use/"+fieldOfAddr(x).Name(), w.IPos(x), "parseCLIArgs reads or writes "+fieldOfAddr(x).Name()+" of the root node instead of the current node: after a command name was seen the setting / table / list of the wrong level is used")
			case ssa.CallInstruction:
				n++
				ru.Bad("root-use/call/"+calleeName(x), w.IPos(x), "parseCLIArgs hands the root node to "+calleeName(x)+" instead of the current node: after a command name was seen the wrong level is searched or written")
			default:
				n++
				ru.Bad("root-use/other", w.IPos(ref), "the root node is used by "+describeInstr(ref)+" inside the parser")
			}
		}
		if n == 0 {
			ru.Check(cursor, "root-use", w.Pos(fn.Pos()), "the root only seeds the cursor", "the root parameter never becomes the cursor")
		}
	}
}

// flowsOnlyIntoField: the field address is only loaded, and what is loaded only ends up (through comparisons and
// conversions) in stores to a field of the given name.
func flowsOnlyIntoField(fa *ssa.FieldAddr, target string) bool {
	if fa.Referrers() == nil {
		return false
	}
	okAll, n := true, 0
	var follow func(v ssa.Value, depth int)
	follow = func(v ssa.Value, depth int) {
		if v.Referrers() == nil || depth > 4 {
			okAll = false
			return
		}
		for _, ref := range *v.Referrers() {
			switch x := ref.(type) {
			case *ssa.DebugRef:
			case *ssa.BinOp:
				follow(x, depth+1)
			case *ssa.Convert:
				follow(x, depth+1)
			case *ssa.ChangeType:
				follow(x, depth+1)
			case *ssa.Store:
				ta, ok := x.Addr.(*ssa.FieldAddr)
				if !ok || x.Val != v || fieldOfAddr(ta).Name() != target {
					okAll = false
				}
				n++
			default:
				okAll = false
			}
		}
	}
	for _, ref := range *fa.Referrers() {
		switch x := ref.(type) {
		case *ssa.DebugRef:
		case *ssa.UnOp:
			if x.Op != token.MUL {
				return false
			}
			follow(x, 0)
		default:
			return false
		}
	}
	return okAll && n > 0
}

// rErrorReturned: once callee has returned a non-nil error inside fn, fn returns that error on every path.
// errIdx: index of the error in the callee's result tuple, -1 when the callee returns just the error.
func rErrorReturned(id, fnName, callee string, errIdx int, text string) func(w *World, r *Report) {
	return func(w *World, r *Report) {
		ru := r.Rule(id, text, 1)
		fn := w.Fn(fnName)
		if fn == nil {
			ru.Undecided("anchor", "-", fnName+" not found")
			return
		}
		calls := callsTo(fn, callee)
		if callee == "dag.visit" {
			// by role (see R16.7): the recursive function DepthFirstSort calls with a vertex, returning an error
			calls = nil
			if v := dfsVisitFn(fn); v != nil {
				for _, c := range allCalls(fn) {
					if c.Common().StaticCallee() == v {
						calls = append(calls, c)
					}
				}
			}
		}
		if len(calls) == 0 {
			ru.Undecided("anchor", w.Pos(fn.Pos()), "no call of "+callee+" in "+fnName)
			return
		}
		ig := buildIG(fn)
		for _, c := range calls {
			if callee == nParseCLI {
				// the completion run (a non-empty completion target) prints the error and leaves through the exit path
				if s, ok := constString(c.Common().Args[0]); !ok || s != "" {
					continue
				}
			}
			var errV ssa.Value
			var def ssa.Instruction
			if errIdx < 0 {
				errV, def = c.Value(), c
			} else if c.Value() != nil && c.Value().Referrers() != nil {
				for _, ref := range *c.Value().Referrers() {
					if ex, ok := ref.(*ssa.Extract); ok && ex.Index == errIdx {
						errV, def = ex, ex
					}
				}
			}
			key := "error-returned/" + short(fn) + "/" + callee
			if errV == nil {
				ru.Bad(key, w.IPos(c), "the error result of "+callee+" is discarded")
				continue
			}
			ig.recordEdges = map[[2]*ssa.BasicBlock]bool{}
			reached, ok := ig.reachVSInit(ig.after(def), nil, nil, triEnv{errV: vsVal{t: 2}})
			edges := ig.recordEdges
			ig.recordEdges = nil
			if !ok {
				ru.Undecided(key, w.IPos(c), "path search exhausted")
				continue
			}
			bad := ""
			nret := 0
			if reached[ig.idx[c.(ssa.Instruction)]] {
				// the same call runs again before anything is returned: its next result replaces the error
				bad = w.IPos(c)
			}
			for i, in := range ig.instrs {
				ret, isRet := in.(*ssa.Return)
				if !isRet || !reached[i] || len(ret.Results) == 0 {
					continue
				}
				nret++
				res := ret.Results[len(ret.Results)-1]
				for _, v := range valuesFromEdges(res, edges, map[ssa.Value]bool{}) {
					if v == errV {
						continue
					}
					if wc, ok := v.(*ssa.Call); ok { // wrapped: fmt.Errorf("…%w…", …, err)
						wraps := false
						for _, a := range wc.Call.Args {
							els, _, _ := elementsOf(a, map[ssa.Value]bool{})
							for _, e := range append(els, a) {
								if mi, ok := e.(*ssa.MakeInterface); ok {
									e = mi.X
								}
								if e == errV {
									wraps = true
								}
							}
						}
						if wraps {
							continue
						}
					}
					bad = w.IPos(ret)
				}
			}
			if nret == 0 {
				bad = w.IPos(c)
			}
			ru.Check(bad == "", key, w.IPos(c), "every path after a non-nil error returns it", "after "+callee+" reported an error a path of "+short(fn)+" returns something else (at "+bad+"): the failure is swallowed, replaced or overwritten")
		}
	}
}

// dfsVisitFn: the recursive visit function of the depth-first sort, by role.
func dfsVisitFn(d *ssa.Function) *ssa.Function {
	for _, c := range allCalls(d) {
		f := c.Common().StaticCallee()
		if f == nil || f.Blocks == nil || f.Pkg != d.Pkg || f.Signature.Results().Len() != 1 || typeString(f.Signature.Results().At(0).Type()) != "error" {
			continue
		}
		hasVertex, rec := false, false
		for _, p := range f.Params {
			if typeString(p.Type()) == "*dag.Vertex" {
				hasVertex = true
			}
		}
		for _, c2 := range allCalls(f) {
			if c2.Common().StaticCallee() == f {
				rec = true
			}
		}
		if hasVertex && rec {
			return f
		}
	}
	return nil
}

// valuesFromEdges: like valuesOverEdges, but a phi none of whose incoming edges was taken (it was evaluated before the
// region of interest) stands for itself.
func valuesFromEdges(v ssa.Value, edges map[[2]*ssa.BasicBlock]bool, seen map[ssa.Value]bool) []ssa.Value {
	if seen[v] {
		return nil
	}
	seen[v] = true
	phi, ok := v.(*ssa.Phi)
	if !ok {
		return []ssa.Value{v}
	}
	var out []ssa.Value
	taken := false
	for i, e := range phi.Edges {
		if edges[[2]*ssa.BasicBlock{phi.Block().Preds[i], phi.Block()}] {
			taken = true
			out = append(out, valuesFromEdges(e, edges, seen)...)
		}
	}
	if !taken {
		return []ssa.Value{v}
	}
	return out
}

// rHelpEverywhere (R11.17): the help command is attached to every command of the tree.
func rHelpEverywhere(id string) func(w *World, r *Report) {
	return func(w *World, r *Report) {
		ru := r.Rule(id, "`<cmd> help` is a help request at every level: HelpCommand attaches the help command to every node of the tree except the help nodes themselves (the only condition on the way to the attaching AddChildCommand call is node.Name != the help command's name)", 1)
		fn := w.Fn("(*getoptions.GetOpt).HelpCommand")
		if fn == nil {
			ru.Undecided("anchor", "-", "HelpCommand not found")
			return
		}
		oa := &ordAnalysis{w: w}
		nameTest := func(fc Fact) bool {
			if fc.Op != token.NEQ || fc.Y == nil {
				return false
			}
			for _, side := range [][2]ssa.Value{{fc.X, fc.Y}, {fc.Y, fc.X}} {
				if _, isName := loadOfFieldNamed(side[0], "Name"); isName && typeString(side[1].Type()) == "string" {
					return true
				}
			}
			return false
		}
		extraAt := func(b *ssa.BasicBlock) string {
			for _, fc := range factsAt(b) {
				if nameTest(fc) || fc.If == nil {
					continue
				}
				// having left a loop that ran to its end is not a condition
				hb := fc.If.Block()
				isHeader := false
				for _, pr := range hb.Preds {
					if hb.Dominates(pr) {
						isHeader = true
					}
				}
				if isHeader && !naturalLoop(hb)[b] {
					continue
				}
				return w.IPos(fc.If)
			}
			return ""
		}
		n := 0
		for _, f := range funcsWithAnon(fn) {
			for _, site := range callsTo(f, "(*getoptions.programTree).AddChildCommand") {
				n++
				extra := extraAt(site.Block())
				// the literal that attaches may itself be called from the walk: the conditions on that call count too
				if f != fn {
					for _, g := range funcsWithAnon(fn) {
						for _, c := range allCalls(g) {
							hit := c.Common().StaticCallee() == f
							if !hit && strings.HasPrefix(calleeName(c), "dyn:") {
								for _, t := range oa.freeVarClosures(g, c.Common().Value) {
									if t == f {
										hit = true
									}
								}
							}
							if hit && extra == "" {
								extra = extraAt(c.Block())
							}
						}
					}
				}
				ru.Check(extra == "", "help-node/attached/"+short(f), w.IPos(site), "attached to every node that is not a help node", "the help command is attached only under an additional condition (at "+extra+"): at the levels that fail it `<cmd> help` is not a help request - the command runs with `help` as its argument")
			}
		}
		if n == 0 {
			ru.Bad("help-node/attached", w.Pos(fn.Pos()), "HelpCommand never attaches a help node")
		}
	}
}

// rSemaphoreFresh (R15.10): the bound applies to this Run with the limit in force now.
func rSemaphoreFresh(id string) func(w *World, r *Report) {
	return func(w *World, r *Report) {
		ru := r.Rule(id, "the concurrency bound of a Run is the limit in force when it starts: every channel the task goroutines of Run send a token on before calling the task is made in that Run (a fresh make with capacity g.maxParallel), never kept in the graph or reused from an earlier Run", 1)
		fn := w.Fn("(*dag.Graph).Run")
		if fn == nil {
			ru.Undecided("anchor", "-", "Run not found")
			return
		}
		n := 0
		for _, f := range funcsWithAnon(fn) {
			eachInstr(f, func(in ssa.Instruction) {
				snd, ok := in.(*ssa.Send)
				if !ok || typeString(snd.Chan.Type()) != "chan struct{}" {
					return
				}
				n++
				// resolve the channel: a free variable bound to a value of Run, or a value of Run itself
				ch := resolveLaunched(snd.Chan)
				mk, isMake := ch.(*ssa.MakeChan)
				good := isMake
				if isMake {
					_, fromLimit := loadOfFieldNamed(mk.Size, "maxParallel")
					good = fromLimit
				}
				ru.Check(good, "semaphore/fresh/"+short(f), w.IPos(snd), "make(chan struct{}, g.maxParallel) in this Run", "the semaphore is not made afresh from g.maxParallel in this Run (kept in the graph, shared, or sized otherwise): a limit set before a later Run is ignored, or runs share one bound")
			})
		}
		if n == 0 {
			ru.Bad("semaphore/fresh", w.Pos(fn.Pos()), "no token send found in Run")
		}
	}
}

// resolveLaunched follows a value used inside a goroutine literal back to the value of the launching function it
// stands for: through loads, write-once cells, captured variables, parameters with a single argument, and fields of
// a struct that the launching function allocates and fills once (`runner := &taskRunner{done: done, …}`).
func resolveLaunched(v ssa.Value) ssa.Value {
	for step := 0; step < 16; step++ {
		next := ssa.Value(nil)
		switch x := v.(type) {
		case *ssa.UnOp:
			if x.Op == token.MUL {
				if fa, ok := x.X.(*ssa.FieldAddr); ok {
					if base, ok := resolveLaunched(fa.X).(*ssa.Alloc); ok && base.Referrers() != nil {
						var vals []ssa.Value
						whole := false
						for _, r := range *base.Referrers() {
							switch u := r.(type) {
							case *ssa.FieldAddr:
								if u.Field == fa.Field && u.Referrers() != nil {
									for _, r2 := range *u.Referrers() {
										if st, ok := r2.(*ssa.Store); ok && st.Addr == ssa.Value(u) {
											vals = append(vals, st.Val)
										}
									}
								}
							case *ssa.Store:
								if u.Addr == ssa.Value(base) {
									whole = true
								}
							}
						}
						if len(vals) == 1 && !whole {
							next = vals[0]
						}
					}
				} else {
					next = x.X
				}
			}
		case *ssa.Alloc:
			if vals := storesInto(x); len(vals) == 1 {
				next = vals[0]
			}
		case *ssa.FreeVar:
			next = freeVarBinding(x)
		case *ssa.Parameter:
			next = soleArgument(x)
		}
		if next == nil {
			break
		}
		v = next
	}
	return v
}

// soleArgument: the one value passed for parameter p of a function literal at all its call / go / defer sites in the
// enclosing function (nil if there are none or several different ones).
func soleArgument(p *ssa.Parameter) ssa.Value {
	f := p.Parent()
	if f == nil || f.Parent() == nil {
		return nil
	}
	idx := paramIndex(f, p)
	var out ssa.Value
	n := 0
	for _, g := range funcsWithAnon(f.Parent()) {
		for _, c := range allCalls(g) {
			cc := c.Common()
			hit := cc.StaticCallee() == f
			if mc, ok := cc.Value.(*ssa.MakeClosure); ok && mc.Fn == ssa.Value(f) {
				hit = true
			}
			if !hit || idx >= len(cc.Args) {
				continue
			}
			n++
			if out != nil && out != cc.Args[idx] {
				return nil
			}
			out = cc.Args[idx]
		}
	}
	if n == 0 {
		return nil
	}
	return out
}

// freeVarBinding: the value bound to a free variable where its function literal is created.
func freeVarBinding(fv *ssa.FreeVar) ssa.Value {
	fn := fv.Parent()
	if fn == nil || fn.Parent() == nil {
		return nil
	}
	idx := -1
	for i, f := range fn.FreeVars {
		if f == fv {
			idx = i
		}
	}
	var out ssa.Value
	eachInstr(fn.Parent(), func(in ssa.Instruction) {
		if mc, ok := in.(*ssa.MakeClosure); ok && mc.Fn == ssa.Value(fn) && idx >= 0 && idx < len(mc.Bindings) {
			out = mc.Bindings[idx]
		}
	})
	return out
}

// ------------------------------------------------------------------ failures are kept

// failureScope: the functions whose treatment of failing calls a property depends on.
var failureScope = map[string]struct {
	id    string
	fns   []string
	text  string
	floor int
}{
	"C01": {"R01.19", []string{"(*option.Option).Save", "getoptions.parseCLIArgs", "(*getoptions.GetOpt).Parse", "(*getoptions.GetOpt).SetValue"},
		"text that does not convert, or that Save refuses, always ends in a parse error", 8},
	"C02": {"R02.16", []string{"(*option.Option).Save", "getoptions.parseCLIArgs"},
		"an element that does not convert (where a value is mandatory or attached) always ends in a parse error", 6},
	"C05": {"R05.17", []string{"getoptions.parseCLIArgs", "(*getoptions.GetOpt).Parse"},
		"an ambiguous abbreviation always ends in an error", 2},
	"C11": {"R11.18", []string{"(*getoptions.GetOpt).Dispatch", "(*getoptions.GetOpt).Parse", "getoptions.checkRequired"},
		"a missing required option always ends in an error", 3},
	"C16": {"R16.16", []string{"(*dag.Graph).DepthFirstSort", "dag.visit", "(*dag.Graph).Run", "(*dag.Graph).Validate", "(*dag.Graph).addTask", "(*dag.Graph).retrieveOrAddVertex",
		"(*dag.Graph).AddTask", "(*dag.Graph).TaskDependsOn", "(*dag.Graph).TaskRetries"},
		"a definition error or a cycle always reaches the caller of Run / Validate", 5},
}

// failureExceptions: call sites where a failing callee is deliberately not a failure of the caller (confirmed by reading).
var failureExceptions = map[string]string{
	"getoptions.parseCLIArgs/strconv.Atoi":       "look-ahead of the greedy value loop: a token that is not an int ends the value list and is interpreted normally",
	"getoptions.parseCLIArgs/strconv.ParseFloat": "look-ahead of the greedy value loop: a token that is not a float ends the value list and is interpreted normally",
}

func init() {
	for prop := range failureScope {
		prop := prop
		addRules(prop, func(w *World, r *Report) { rFailuresKept(w, r, prop) })
	}
}

// rFailuresKept: inside the functions of the scope, once a call to a library function (or a strconv conversion) has
// returned a non-nil error, the caller cannot end as if nothing had happened: a caller that returns an error returns a
// surely non-nil one on every path (that error, one that wraps it, a freshly made one, a package-level error value);
// a caller without an error result records the error in an error list (or panics) on every path.
func rFailuresKept(w *World, r *Report, prop string) {
	sc := failureScope[prop]
	ru := r.Rule(sc.id, "a failure is never turned into success ("+sc.text+"): in "+strings.Join(sc.fns, ", ")+", after any call to a library function or strconv conversion has returned a non-nil error, every path of the caller returns a surely non-nil error (or, in a function without an error result, records it in the graph's error list); the look-ahead conversions of the greedy value loop and the completion run are the confirmed exceptions", sc.floor)
	for _, name := range sc.fns {
		fn := w.Fn(name)
		if fn == nil && name == "dag.visit" {
			if d := w.Fn("(*dag.Graph).DepthFirstSort"); d != nil {
				fn = dfsVisitFn(d) // by role: may have become a method
			}
		}
		if fn == nil {
			base := name[strings.LastIndex(name, ".")+1:]
			if base != "" && !token.IsExported(base) {
				continue // an unexported helper that was merged into its callers: they are in the scope themselves
			}
			ru.Undecided("anchor/"+name, "-", "not found")
			continue
		}
		res := fn.Signature.Results()
		void := res.Len() == 0 || typeString(res.At(res.Len()-1).Type()) != "error"
		ig := buildIG(fn)
		for _, c := range allCalls(fn) {
			if c.Value() == nil {
				continue
			}
			cn := calleeName(c)
			callee := c.Common().StaticCallee()
			isLib := callee != nil && w.PkgOfFn(callee) != nil
			if !isLib && !strings.HasPrefix(cn, "strconv.") && cn != nDynCommandFn {
				continue
			}
			rs := c.Common().Signature().Results()
			if rs.Len() == 0 || typeString(rs.At(rs.Len()-1).Type()) != "error" {
				continue
			}
			key := "failure/" + short(fn) + "/" + cn
			if why, ok := failureExceptions[short(fn)+"/"+cn]; ok {
				ru.Present(key, w.IPos(c), "exception: "+why)
				continue
			}
			if cn == nParseCLI {
				if s, ok := constString(c.Common().Args[0]); !ok || s != "" {
					ru.Present(key+"/completion", w.IPos(c), "exception: the completion run prints the error and leaves through the exit path")
					continue
				}
			}
			var errV ssa.Value
			var def ssa.Instruction
			if rs.Len() == 1 {
				errV, def = c.Value(), c
			} else if c.Value().Referrers() != nil {
				for _, ref := range *c.Value().Referrers() {
					if ex, ok := ref.(*ssa.Extract); ok && ex.Index == rs.Len()-1 {
						errV, def = ex, ex
					}
				}
			}
			if errV == nil {
				ru.Bad(key, w.IPos(c), "the error result of "+cn+" is discarded")
				continue
			}
			records := func(in ssa.Instruction) bool {
				ac, ok := in.(*ssa.Call)
				if !ok || calleeName(ac) != "builtin:append" || len(ac.Call.Args) < 2 {
					return false
				}
				els, _, _ := elementsOf(ac.Call.Args[1], map[ssa.Value]bool{})
				for _, e := range els {
					if e == errV {
						return true
					}
					// single exit: the failures of the function meet in one variable that is recorded once
					if phi, ok := e.(*ssa.Phi); ok {
						for _, l := range phiLeaves(phi, map[ssa.Value]bool{}) {
							if l == errV {
								return true
							}
						}
					}
				}
				return false
			}
			var stop func(ssa.Instruction) bool
			if void {
				stop = records
			}
			ig.recordEdges = map[[2]*ssa.BasicBlock]bool{}
			reached, ok := ig.reachVSInit(ig.after(def), stop, nil, triEnv{errV: vsVal{t: 2}})
			edges := ig.recordEdges
			ig.recordEdges = nil
			if !ok {
				ru.Undecided(key, w.IPos(c), "path search exhausted")
				continue
			}
			bad := ""
			if reached[ig.idx[c.(ssa.Instruction)]] && !void {
				bad = "the call runs again before anything is returned (its next result replaces the error)"
			}
			for i, in := range ig.instrs {
				ret, isRet := in.(*ssa.Return)
				if !isRet || !reached[i] {
					continue
				}
				if void {
					bad = "the function can return (at " + w.IPos(ret) + ") without having recorded the error"
					continue
				}
				for _, v := range valuesFromEdges(ret.Results[len(ret.Results)-1], edges, map[ssa.Value]bool{}) {
					if !sureError(v, errV) {
						bad = "a path returns (at " + w.IPos(ret) + ") something that is not surely an error"
					}
				}
			}
			ru.Check(bad == "", key, w.IPos(c), "the failure reaches the caller", "after "+cn+" failed in "+short(fn)+": "+bad)
		}
	}
}

// sureError: v is certainly a non-nil error when errV is.
func sureError(v, errV ssa.Value) bool {
	if v == errV {
		return true
	}
	switch x := v.(type) {
	case *ssa.Call:
		n := calleeName(x)
		if n == "fmt.Errorf" || n == "errors.New" {
			return true
		}
		for _, a := range x.Call.Args {
			if a == errV {
				return true
			}
		}
	case *ssa.UnOp:
		if g, ok := x.X.(*ssa.Global); ok && x.Op == token.MUL && typeString(g.Type()) == "*error" {
			return true
		}
	case *ssa.MakeInterface:
		return true
	}
	return false
}

// ------------------------------------------------------------------ round 7

func init() {
	addRules("C07", func(w *World, r *Report) {
		subRule(w, r, rC01Splitter, "R07.12", "a token and its documented rewriting carry the same name and value: in every mode the tokeniser cuts them out of the token by submatch / one leading separator / per-rune split only (same obligations as C01 R01.2)", 5)
	})
	addRules("C17", func(w *World, r *Report) {
		subRule(w, r, rC10Call, "R17.15", "completing never runs a command function: the only call through a CommandFn is Dispatch's call of finalNode.CommandFn, and finalNode is set by a real parse only (same obligations as C10 R10.1)", 2)
	})
	addRules("C18", rHelpTopicEquality("R18.17"))
	addRules("C03", func(w *World, r *Report) {
		subRule(w, r, rC09Sites, "R03.16", "the tail is copied in bulk only at the terminator and at a require-order stop: everywhere else each token is looked at (a later `--` is a terminator, an option is an option) (same obligations as C09 R09.1)", 5)
	})
	addRules("C05", func(w *World, r *Report) {
		subRule(w, r, rC10Descent, "R05.15", "every option-looking token goes through the matcher: the splitter's verdict alone decides between option and plain text (same obligations as C10 R10.3)", 4)
	})
	addRules("C16", rFieldFootprint("R16.17", []string{"(*dag.Graph).DepthFirstSort", "dag.visit"}, map[string]bool{"Vertices": true, "ID": true, "Children": true}, nil,
		"the order and the cycle verdict are computed from the graph as it is now: DepthFirstSort and visit read nothing of graph or vertex but Vertices, ID and Children, and write no field (no memoised result, no per-vertex annotation)"),
		rFieldFootprint("R16.18", []string{"(*dag.Graph).getNextVertex"}, map[string]bool{"Vertices": true, "serial": true, "status": true, "Children": true, "ID": true}, nil,
			"whether a task is offered depends on its own status and on the statuses of its dependencies only: getNextVertex reads no other field of graph or vertex and writes none"))
}

// rFieldFootprint: the listed functions (located by name, visit also by role) touch only the allowed fields of the
// dag's Graph and Vertex: reads limited to `reads`, writes to `writes`.
func rFieldFootprint(id string, fns []string, reads, writes map[string]bool, text string) func(w *World, r *Report) {
	return func(w *World, r *Report) {
		ru := r.Rule(id, text, 1)
		for _, name := range fns {
			fn := w.Fn(name)
			if fn == nil && name == "dag.visit" {
				if d := w.Fn("(*dag.Graph).DepthFirstSort"); d != nil {
					fn = dfsVisitFn(d)
				}
			}
			if fn == nil {
				ru.Undecided("anchor/"+name, "-", "not found")
				continue
			}
			bad := ""
			for _, f := range funcsWithAnon(fn) {
				eachInstr(f, func(in ssa.Instruction) {
					fa, ok := in.(*ssa.FieldAddr)
					if !ok || fa.Referrers() == nil {
						return
					}
					ts := typeString(fa.X.Type())
					if ts != "*dag.Graph" && ts != "*dag.Vertex" {
						return
					}
					fname := fieldOfAddr(fa).Name()
					for _, ref := range *fa.Referrers() {
						switch x := ref.(type) {
						case *ssa.DebugRef:
						case *ssa.UnOp:
							if !reads[fname] && !writes[fname] {
								bad = "reads " + fname + " at " + w.IPos(fa)
							}
						case *ssa.Store:
							if x.Addr == ssa.Value(fa) && !writes[fname] {
								bad = "writes " + fname + " at " + w.IPos(x)
							}
						default:
							if !writes[fname] {
								bad = "takes the address of " + fname + " at " + w.IPos(fa)
							}
						}
					}
				})
			}
			ru.Check(bad == "", "footprint/"+short(fn), w.Pos(fn.Pos()), "touches only the expected fields", short(fn)+" "+bad+": its result now depends on (or it leaves behind) state other than the graph's current vertices, edges and statuses")
		}
	}
}

// ------------------------------------------------------------------ round 8

func init() {
	addRules("C06", func(w *World, r *Report) {
		subRule(w, r, rC04Lookahead, "R06.17", "what stands behind `--` sets nothing and marks nothing called: no value look-ahead passes the terminator (same obligations as C04 R04.3)", 2)
	})
	addRules("C16", func(w *World, r *Report) {
		subRule(w, r, rC14Completion, "R16.19", "a task that asks for its dependents to be skipped is not a failure of the run: completions are classified with errors.Is, wrapped sentinels included (same obligations as C14 R14.2)", 2)
	})
	addRules("C11", rHelpNameInherited("R11.19"))
	addRules("C18", rKindTables("R18.18"))
	ws := map[string]string{"C13": "R13.13", "C14": "R14.12", "C16": "R16.20", "C10": "R10.16", "C06": "R06.18", "C01": "R01.20"}
	for prop, id := range ws {
		prop, id := prop, id
		addRules(prop, func(w *World, r *Report) { rNoWholeOverwrite(w, r, prop, id) })
	}
}

// rNoWholeOverwrite: the library's state objects are never overwritten as a whole once they exist.
func rNoWholeOverwrite(w *World, r *Report, prop, id string) {
	types_ := map[string][]string{
		"C13": {"*dag.Vertex", "*dag.Graph"}, "C14": {"*dag.Vertex"}, "C16": {"*dag.Vertex", "*dag.Graph"},
		"C10": {"*getoptions.programTree", "*option.Option"}, "C06": {"*option.Option"}, "C01": {"*option.Option"},
	}[prop]
	ru := r.Rule(id, "existing state objects are updated field by field, never overwritten as a whole: no store of a complete "+strings.Join(types_, " / ")+" value through a pointer to an object that already exists (`*v = *newVertex(t)` would also wipe the fields the single-writer table protects: edges, retry budget, status; parsed values, Called)", 1)
	n := 0
	for _, fn := range w.Funcs {
		if w.PkgOfFn(fn) == nil {
			continue
		}
		eachInstr(fn, func(in ssa.Instruction) {
			st, ok := in.(*ssa.Store)
			if !ok {
				return
			}
			ts := typeString(st.Addr.Type())
			hit := false
			for _, t := range types_ {
				if ts == t {
					hit = true
				}
			}
			if !hit {
				return
			}
			if _, isStruct := st.Val.Type().Underlying().(*types.Struct); !isStruct {
				return
			}
			if _, fresh := rootOfAddr(st.Addr).(*ssa.Alloc); fresh {
				return // initialisation of the object being created
			}
			n++
			ru.Bad("whole-store/"+short(fn), w.IPos(st), short(fn)+" overwrites an existing "+strings.TrimPrefix(ts, "*")+" as a whole: every field the rest of the library keeps in it (edges, counters, status, values) is reset along with the one that was meant")
		})
	}
	if n == 0 {
		ru.OK("whole-store", "-", "no whole-struct store into an existing state object")
	}
}

// rHelpNameInherited (R11.19): a command declared after HelpCommand knows the help option's name.
func rHelpNameInherited(id string) func(w *World, r *Report) {
	return func(w *World, r *Report) {
		ru := r.Rule(id, "a command created after HelpCommand still answers `--help`: NewCommand gives the new node the HelpCommandName of the node it is created under (Dispatch and Parse test Called(HelpCommandName) of the selected node)", 1)
		fn := w.Fn("(*getoptions.GetOpt).NewCommand")
		f := w.Field("getoptions", "programTree", "HelpCommandName")
		if fn == nil || f == nil {
			ru.Undecided("anchor", "-", "NewCommand / HelpCommandName not found")
			return
		}
		good := false
		eachInstr(fn, func(in ssa.Instruction) {
			base, f2, val, ok := storeField(in)
			if !ok || f2 != f {
				return
			}
			if _, fresh := rootOfAddr(base).(*ssa.Alloc); !fresh {
				return
			}
			if b, ok := loadOfField(val, f); ok {
				// the parent: the receiver's programTree
				if pb, ok := loadOfFieldNamed(b, "programTree"); ok && pb == ssa.Value(fn.Params[0]) {
					good = true
				}
			}
		})
		ru.Check(good, "NewCommand/help-name", w.Pos(fn.Pos()), "HelpCommandName copied from the parent node", "NewCommand does not hand the help option's name to the new node: on commands declared after HelpCommand `--help` is not recognised as a help request (the required gate answers instead, or the command runs)")
	}
}

// rKindTables (R18.18): a lookup table over the option kinds used by the help renderers covers all twelve kinds.
func rKindTables(id string) func(w *World, r *Report) {
	return func(w *World, r *Report) {
		ru := r.Rule(id, "table coverage: every package-level map keyed by the option kind that the help renderers (package help, Option.Synopsis, helpOutput) consult has an entry for each of the twelve kinds (a kind without an entry would be rendered from the zero value - in practice: left out)", 0)
		kinds := optionKinds(w)
		n := 0
		for _, pkgName := range []string{"help", "getoptions", "option"} {
			p := w.Pkg(pkgName)
			if p == nil {
				continue
			}
			for _, file := range p.Syntax {
				for _, d := range file.Decls {
					gd, ok := d.(*ast.GenDecl)
					if !ok || gd.Tok != token.VAR {
						continue
					}
					for _, sp := range gd.Specs {
						vs := sp.(*ast.ValueSpec)
						for i, nm := range vs.Names {
							if i >= len(vs.Values) {
								continue
							}
							cl, ok := vs.Values[i].(*ast.CompositeLit)
							if !ok {
								continue
							}
							mt, ok := p.TypesInfo.TypeOf(cl).Underlying().(*types.Map)
							if !ok || typeString(mt.Key()) != "option.Type" {
								continue
							}
							// used by a renderer?
							obj := p.TypesInfo.Defs[nm]
							used := false
							for id2, o := range p.TypesInfo.Uses {
								if o != obj {
									continue
								}
								fname := w.Fset.Position(id2.Pos()).Filename
								if pkgName == "help" || strings.HasSuffix(fname, "user_help.go") {
									used = true
								}
								if pkgName == "option" {
									for _, fn := range w.Funcs {
										if short(fn) == "(*option.Option).Synopsis" && fn.Pos() <= id2.Pos() && id2.Pos() <= fn.Syntax().End() {
											used = true
										}
									}
								}
							}
							if !used {
								continue
							}
							n++
							covered := map[string]bool{}
							for _, el := range cl.Elts {
								if kv, ok := el.(*ast.KeyValueExpr); ok {
									if cv, ok := p.TypesInfo.Types[kv.Key]; ok && cv.Value != nil {
										covered[cv.Value.String()] = true
									}
								}
							}
							var missing []string
							for val, name := range kinds {
								if !covered[val] {
									missing = append(missing, name)
								}
							}
							sort.Strings(missing)
							ru.Check(len(missing) == 0, "kind-table/"+nm.Name, w.Pos(nm.Pos()), "all kinds have an entry", "options of kind "+strings.Join(missing, ", ")+" have no entry in the table "+nm.Name+" the help renderer consults: they would be rendered from the zero value (left out of the help)")
						}
					}
				}
			}
		}
		if n == 0 {
			ru.Present("kind-table/none", "-", "no lookup table over the option kind in help rendering")
		}
	}
}

// ------------------------------------------------------------------ round 9 (one-token changes)

func init() {
	addRules("C03", func(w *World, r *Report) {
		subRule(w, r, func(w *World, r *Report) { rInherit("R08.3")(w, r) }, "R03.17", "a command stops where its parent would: the settings the parser reads through the cursor are copied field for field into every child node (same obligations as C08 R08.3)", 4)
	}, func(w *World, r *Report) {
		subRule(w, r, rC07SingleDash, "R03.18", "a token is consumed with everything attached to it: in single-dash mode the attached text is left out only when it is empty (same obligations as C07 R07.5)", 2)
	})
	addRules("C10", func(w *World, r *Report) {
		subRule(w, r, func(w *World, r *Report) { rInherit("R08.3")(w, r) }, "R10.17", "the command selected does not depend on a setting leaking into another: child nodes inherit each setting from the same setting of the parent (same obligations as C08 R08.3)", 4)
	})
	addRules("C06", func(w *World, r *Report) {
		subRule(w, r, rC07NormalIsLong, "R06.19", "a name and its alias spelled with one or two dashes have the same effect: the long-option branch and the Normal-mode branch of the tokeniser are the same computation (same obligations as C07 R07.2)", 1)
	})
	addRules("C08", rPairLoopComplete("R08.16"))
	addRules("C11", rPairLoopComplete("R11.20"))
	addRules("C09", func(w *World, r *Report) {
		subRule(w, r, rC02Lookahead, "R09.11", "what ends a greedy value list (and so becomes the stop token) is exactly what Save would refuse: look-ahead and Save use the same conversion (same obligations as C02 R02.2)", 2)
	})
	for prop, id := range map[string]string{"C14": "R14.13", "C16": "R16.21"} {
		addRules(prop, rSerialWithholds(id))
	}
	for prop, id := range map[string]string{"C01": "R01.21", "C02": "R02.18", "C03": "R03.19", "C04": "R04.12", "C07": "R07.13", "C12": "R12.11"} {
		addRules(prop, rSplitterCalls(id))
	}
	addRules("C02", func(w *World, r *Report) {
		subRule(w, r, rC07Units, "R02.19", "how many tokens an occurrence takes does not depend on the encoding length of a one-character name (same obligations as C07 R07.3)", 1)
	})
	addRules("C05", func(w *World, r *Report) {
		subRule(w, r, rC07Bundling, "R05.16", "an abbreviation written with one dash keeps its attached value (same obligations as C07 R07.4)", 3)
	})
	addRules("C12", func(w *World, r *Report) {
		subRule(w, r, rC07Bundling, "R12.12", "a value given on the command line wins in every spelling: the bundled form keeps its attached value (same obligations as C07 R07.4)", 3)
	})
	addRules("C08", rParseReportsFinalNode("R08.17"))
	addRules("C16", rEmptyGraphOnly("R16.22"))
	addRules("C17", rBashTrim("R17.16"), rCompWord("R17.17"))
	addRules("C18", rLonesomeDash("R18.19"))
	addRules("C01", rRegexChoice("R01.22"))
	addRules("C07", rRegexChoice("R07.14"))
}

// rSerialWithholds: in serial mode a ready vertex is held back only because a vertex is running.
func rSerialWithholds(id string) func(w *World, r *Report) {
	return func(w *World, r *Report) {
		ru := r.Rule(id, "Run finishes in serial mode too: inside the serial-mode scan getNextVertex answers \"nothing to start, not done\" only for a vertex whose status is runInProgress (any other status held back there would never change and Run would poll forever)", 1)
		fn := w.Fn(nGetNext)
		if fn == nil {
			ru.Undecided("anchor", "-", "getNextVertex not found")
			return
		}
		st := enumConsts(w, "dag", "runStatus")
		n := 0
		for _, b := range fn.Blocks {
			ret, ok := b.Instrs[len(b.Instrs)-1].(*ssa.Return)
			if !ok || len(ret.Results) != 3 {
				continue
			}
			c1, ok1 := ret.Results[1].(*ssa.Const)
			c2, ok2 := ret.Results[2].(*ssa.Const)
			if !ok1 || !ok2 || c1.Value.String() != "false" || c2.Value.String() != "false" {
				continue
			}
			serial := false
			running := false
			for _, f := range factsAt(b) {
				if f.Op == token.ILLEGAL && f.Truth {
					if _, ok := loadOfFieldNamed(f.X, "serial"); ok {
						serial = true
					}
				}
				if f.Op == token.EQL && f.Y != nil {
					if _, ok := loadOfFieldNamed(f.X, "status"); ok {
						if k, ok := constInt(f.Y); ok && k == st["runInProgress"] {
							running = true
						}
					}
				}
			}
			if !serial {
				continue
			}
			n++
			ru.Check(running, "serial/withhold", w.IPos(ret), "held back because a vertex is in progress", "in serial mode getNextVertex withholds work for a vertex that is not running (e.g. one marked to be skipped): its status never changes, so Run never returns")
		}
		if n == 0 {
			ru.Present("serial/withhold/none", w.Pos(fn.Pos()), "no early withhold in the serial scan")
		}
	}
}

// rSplitterCalls: how the parser calls the tokeniser.
func rSplitterCalls(id string) func(w *World, r *Report) {
	return func(w *World, r *Report) {
		ru := r.Rule(id, "every token is classified under the mode the program selected and with the documented syntax: each call of the tokeniser in parseCLIArgs passes the parser's own mode parameter and the constant false for the Windows-style flag (with it a value such as /etc/hosts would look like an option and be left unconsumed)", 3)
		fn := w.Fn(nParseCLI)
		if fn == nil {
			ru.Undecided("anchor", "-", "parseCLIArgs not found")
			return
		}
		var modeParam *ssa.Parameter
		for _, p := range fn.Params {
			if typeString(p.Type()) == "getoptions.Mode" {
				modeParam = p
			}
		}
		n := 0
		for _, c := range callsTo(fn, nIsOption) {
			n++
			a := c.Common().Args
			good := len(a) == 3 && modeParam != nil && a[1] == ssa.Value(modeParam)
			why := ""
			if !good {
				why = "the mode handed to the tokeniser is not the parser's mode parameter (a node's own field is only ever set on the root)"
			}
			if len(a) == 3 {
				if k, ok := a[2].(*ssa.Const); !ok || k.Value == nil || k.Value.String() != "false" {
					good = false
					why = "the Windows-style flag is not the constant false"
				}
			}
			ru.Check(good, "splitter-call", w.IPos(c), "isOption(token, mode, false)", why+": tokens are classified differently from what the program configured")
		}
		if n == 0 {
			ru.Bad("splitter-call", w.Pos(fn.Pos()), "the parser does not call the tokeniser")
		}
	}
}

// rParseReportsFinalNode (R08.17): Parse applies the unknown mode of the node the parser ended at.
func rParseReportsFinalNode(id string) func(w *World, r *Report) {
	return func(w *World, r *Report) {
		ru := r.Rule(id, "unknown options are reported under the mode of the command they were met in: in Parse every read of unknownMode goes through the final node (the parser's result / gopt.finalNode), never through the root", 1)
		fn := w.Fn(nParse)
		if fn == nil {
			ru.Undecided("anchor", "-", "Parse not found")
			return
		}
		n := 0
		eachInstr(fn, func(in ssa.Instruction) {
			fa, ok := in.(*ssa.FieldAddr)
			if !ok || fieldOfAddr(fa).Name() != "unknownMode" {
				return
			}
			n++
			good := false
			if _, ok := loadOfFieldNamed(fa.X, "finalNode"); ok {
				good = true
			}
			if ex, ok := fa.X.(*ssa.Extract); ok && ex.Index == 0 {
				if c, ok := ex.Tuple.(*ssa.Call); ok && calleeName(c) == nParseCLI {
					good = true
				}
			}
			ru.Check(good, "Parse/unknown-mode", w.IPos(fa), "mode of the final node", "Parse reads the unknown mode of a node other than the one the parser ended at: a command's own Pass / Warn / Fail setting is ignored")
		})
		if n == 0 {
			ru.Bad("Parse/unknown-mode", w.Pos(fn.Pos()), "Parse does not consult the unknown mode")
		}
	}
}

// rEmptyGraphOnly (R16.22): Run returns without running anything only for the empty graph.
func rEmptyGraphOnly(id string) func(w *World, r *Report) {
	return func(w *World, r *Report) {
		ru := r.Rule(id, "every task of a non-empty graph gets its turn: the only return of Run that precedes the cycle check and the scheduler loop without reporting an error is the one for len(Vertices) == 0", 1)
		fn := w.Fn("(*dag.Graph).Run")
		if fn == nil {
			ru.Undecided("anchor", "-", "Run not found")
			return
		}
		var dfs ssa.Instruction
		for _, c := range callsTo(fn, "(*dag.Graph).DepthFirstSort") {
			dfs = c
		}
		if dfs == nil {
			ru.Undecided("anchor", w.Pos(fn.Pos()), "no cycle check in Run")
			return
		}
		ig := buildIG(fn)
		seen := ig.reachFrom([]int{0}, func(in ssa.Instruction) bool { return in == dfs })
		n := 0
		for i, in := range ig.instrs {
			ret, ok := in.(*ssa.Return)
			if !ok || !seen[i] || len(ret.Results) != 1 || !isNilConst(ret.Results[0]) {
				continue
			}
			n++
			good := false
			for _, f := range factsAt(ret.Block()) {
				if f.Op == token.EQL && f.Y != nil {
					if c, ok := lenOf(f.X); ok {
						if _, isV := loadOfFieldNamed(c, "Vertices"); isV {
							if k, ok := constInt(f.Y); ok && k == 0 {
								good = true
							}
						}
					}
				}
			}
			ru.Check(good, "Run/early-success", w.IPos(ret), "only for the empty graph", "Run can return nil before scheduling anything for a graph that has tasks: they are never started (and a cycle among them is not reported)")
		}
		if n == 0 {
			ru.Present("Run/early-success/none", w.Pos(fn.Pos()), "no early success return")
		}
	}
}

// rBashTrim (R17.16): the bash form of a `--name=value` candidate is everything after the first `=`.
func rBashTrim(id string) func(w *World, r *Report) {
	return func(w *World, r *Report) {
		ru := r.Rule(id, "a value that itself contains `=` is offered whole: wherever the completion code cuts a candidate or the typed word at `=` and takes the second piece, the cut is at the first `=` only (strings.SplitN(s, \"=\", 2)[1] or strings.Cut)", 0)
		fn := w.Fn(nParseCLI)
		if fn == nil {
			ru.Undecided("anchor", "-", "parseCLIArgs not found")
			return
		}
		n := 0
		eachInstr(fn, func(in ssa.Instruction) {
			ia, ok := in.(*ssa.IndexAddr)
			if !ok {
				return
			}
			c, ok := ia.X.(*ssa.Call)
			if !ok {
				return
			}
			cn := calleeName(c)
			if cn != "strings.Split" && cn != "strings.SplitN" {
				return
			}
			if sep, ok := constString(c.Call.Args[1]); !ok || sep != "=" {
				return
			}
			if k, ok := constInt(ia.Index); !ok || k != 1 {
				return
			}
			n++
			good := false
			if cn == "strings.SplitN" {
				if k, ok := constInt(c.Call.Args[2]); ok && k == 2 {
					good = true
				}
			}
			ru.Check(good, "cut-at-first-equals", w.IPos(c), "SplitN(s, \"=\", 2)[1]", "the text after `=` is cut again at a later `=`: a suggested value such as `env=dev` is offered as `env`")
		})
		if n == 0 {
			ru.Present("cut-at-first-equals/none", w.Pos(fn.Pos()), "no piece [1] of a split at `=` in the parser")
		}
	}
}

// rCompWord (R17.17): which argument is the word being completed.
func rCompWord(id string) func(w *World, r *Report) {
	return func(w *World, r *Report) {
		ru := r.Rule(id, "the word being completed is the one the shell names: in the completion branch of Parse the only element of args that is read is args[1] (bash calls the completion command with the command name, the word being completed and the previous word)", 1)
		fn := w.Fn(nParse)
		if fn == nil {
			ru.Undecided("anchor", "-", "Parse not found")
			return
		}
		var argsP *ssa.Parameter
		for _, p := range fn.Params {
			if typeString(p.Type()) == "[]string" {
				argsP = p
			}
		}
		n := 0
		eachInstr(fn, func(in ssa.Instruction) {
			ia, ok := in.(*ssa.IndexAddr)
			if !ok || argsP == nil || ia.X != ssa.Value(argsP) {
				return
			}
			n++
			k, isC := constInt(ia.Index)
			ru.Check(isC && k == 1, "comp-word", w.IPos(ia), "args[1]", "Parse looks at an argument other than args[1] to decide about the trailing empty word: with the arguments bash really passes the previous word is completed instead of the new one")
		})
		if n == 0 {
			ru.Present("comp-word/none", w.Pos(fn.Pos()), "Parse does not index its arguments")
		}
	}
}

// rLonesomeDash (R18.19): in the synopsis of an option every alias gets its dashes; only the alias `-` itself is left bare.
func rLonesomeDash(id string) func(w *World, r *Report) {
	return func(w *World, r *Report) {
		ru := r.Rule(id, "help shows each name the way it is typed: in Option.Synopsis the test that leaves the lonesome dash without extra dashes compares the alias being rendered (the loop element) with \"-\", not some other name of the option", 1)
		fn := w.Fn("(*option.Option).Synopsis")
		if fn == nil {
			ru.Undecided("anchor", "-", "Option.Synopsis not found")
			return
		}
		n := 0
		eachInstr(fn, func(in ssa.Instruction) {
			bo, ok := in.(*ssa.BinOp)
			if !ok || (bo.Op != token.EQL && bo.Op != token.NEQ) {
				return
			}
			x, y := bo.X, bo.Y
			if isConstStr(x, "-") {
				x, y = y, x
			}
			if !isConstStr(y, "-") {
				return
			}
			n++
			// x must be an element of the Aliases list: *(&aliases[i]) inside the range loop
			good := false
			if u, ok := x.(*ssa.UnOp); ok && u.Op == token.MUL {
				if ia, ok := u.X.(*ssa.IndexAddr); ok {
					if _, ok := loadOfFieldNamed(ia.X, "Aliases"); ok {
						good = true
					}
				}
			}
			ru.Check(good, "synopsis/lonesome-dash", w.IPos(bo), "alias == \"-\"", "the lonesome-dash test looks at something other than the alias being rendered: an alias `-` gets dashes (`--`) or every alias of an option named `-` loses them")
		})
		if n == 0 {
			ru.Present("synopsis/lonesome-dash/none", w.Pos(fn.Pos()), "no special case for `-`")
		}
	}
}

// rRegexChoice: which expression the tokeniser uses.
func rRegexChoice(id string) func(w *World, r *Report) {
	return func(w *World, r *Report) {
		ru := r.Rule(id, "the syntax that admits `/name` and `:value` is used only on request: in the tokeniser the expression whose prefix group admits `/` is applied only under windows == true, the other one only under windows == false", 2)
		fn := w.Fn(nIsOption)
		if fn == nil {
			ru.Undecided("anchor", "-", "isOption not found")
			return
		}
		var winP *ssa.Parameter
		for _, p := range fn.Params {
			if typeString(p.Type()) == "bool" {
				winP = p
			}
		}
		slash := map[*ssa.Global]bool{}
		for _, ri := range w.regexConstants() {
			if ri.Global != nil && ri.Err == nil {
				slash[ri.Global] = strings.Contains(ri.Pattern, "/")
			}
		}
		n := 0
		// the truth of the windows flag on the way into block b (through the edge from pred when given)
		flagAt := func(b *ssa.BasicBlock, pred *ssa.BasicBlock) (truth, known bool) {
			facts := factsAt(b)
			if pred != nil {
				facts = factsAt(pred)
				if iff, ok := pred.Instrs[len(pred.Instrs)-1].(*ssa.If); ok && pred.Succs[0] != pred.Succs[1] {
					facts = append(facts, condFacts(iff.Cond, pred.Succs[0] == b, iff)...)
				}
			}
			for _, f := range facts {
				if f.Op == token.ILLEGAL && winP != nil && f.X == ssa.Value(winP) {
					return f.Truth, true
				}
			}
			return false, false
		}
		check := func(g *ssa.Global, c ssa.Instruction, truth, known bool) {
			isWin, ok := slash[g]
			if !ok {
				return
			}
			n++
			ru.Check(known && truth == isWin, "regex-choice/"+g.Name(), w.IPos(c), "applied under the matching value of the windows flag", "the tokeniser applies "+g.Name()+" under the wrong value of its windows flag: `/` and `:` get a meaning (or lose it) that the caller did not ask for")
		}
		globalOf := func(v ssa.Value) *ssa.Global {
			if ld, ok := v.(*ssa.UnOp); ok {
				g, _ := ld.X.(*ssa.Global)
				return g
			}
			return nil
		}
		for _, c := range callsTo(fn, "(*regexp.Regexp).FindStringSubmatch") {
			recv := c.Common().Args[0]
			if g := globalOf(recv); g != nil {
				t, k := flagAt(c.Block(), nil)
				check(g, c, t, k)
				continue
			}
			// the expression is chosen first and applied once: re := a; if windows { re = b }; re.FindStringSubmatch(s)
			if phi, ok := recv.(*ssa.Phi); ok {
				for i, e := range phi.Edges {
					g := globalOf(e)
					if g == nil {
						continue
					}
					pred := phi.Block().Preds[i]
					t, k := flagAt(phi.Block(), pred)
					if !k {
						// the default taken when the flag's branch was skipped: the edge that bypasses `if windows {…}`
						if ld, ok := e.(*ssa.UnOp); ok {
							t, k = flagAt(ld.Block(), nil)
							if !k {
								// loaded before the test: it survives only on the test's other edge
								for j, e2 := range phi.Edges {
									if j != i && globalOf(e2) != nil {
										if t2, k2 := flagAt(phi.Block(), phi.Block().Preds[j]); k2 {
											t, k = !t2, true
										}
									}
								}
							}
						}
					}
					check(g, c, t, k)
				}
			}
		}
		if n < 2 {
			ru.Bad("regex-choice", w.Pos(fn.Pos()), "the two tokeniser expressions are not both applied")
		}
	}
}

// rNoTokenDropped (R04.13 / R03.20 / R09.12): the parser ends a successful real parse only with nothing left in the
// iterator: through the exhausted edge of the loop-head Next(), or after a bulk copy of the tail. A jump out of the main
// loop from anywhere else (`break ARGS_LOOP` where `break` was meant) would drop the rest of the command line - the
// terminator and everything behind it included - from remaining.
func rNoTokenDropped(id string) func(w *World, r *Report) {
	return func(w *World, r *Report) {
		ru := r.Rule(id, "no token is dropped: every path of a real parse to a return without error passes an exhausted edge of Next() (the loop head's, or the one behind the terminator) or a bulk copy of the tail", 1)
		m := parserOrFail(w, ru)
		if m == nil {
			return
		}
		if m.mainNextIf == nil {
			ru.Undecided("loop-head", w.Pos(m.fn.Pos()), "loop-head Next() test not found")
			return
		}
		cache := map[*ssa.Function]*helperSum{}
		bulk := map[ssa.Instruction]bool{}
		for _, e := range m.effects() {
			if e.Kind == effHelper {
				if _, ex := m.basicDisposition(e.Instr, cache); ex {
					bulk[e.Instr] = true
				}
			}
		}
		// Next() answered false: nothing is left (Next is absorbing, C03 R03.6)
		exhausted := func(term ssa.Instruction, k int) bool {
			iff, ok := term.(*ssa.If)
			if !ok || k != 1 {
				return false
			}
			c, ok := iff.Cond.(*ssa.Call)
			return ok && m.iterCall(c, nIterNext)
		}
		seen, _ := m.ig.reachVSInit([]int{0}, func(in ssa.Instruction) bool { return bulk[in] }, func(term ssa.Instruction, k int) bool {
			if !m.normalEdgeOK(term, k) {
				return false
			}
			return !exhausted(term, k)
		}, nil)
		if seen == nil {
			seen = m.ig.reachFromE([]int{0}, func(in ssa.Instruction) bool { return bulk[in] }, func(term ssa.Instruction, k int) bool {
				return m.normalEdgeOK(term, k) && !exhausted(term, k)
			})
		}
		n := 0
		for i, s := range seen {
			ret, ok := m.ig.instrs[i].(*ssa.Return)
			if !ok || !s || len(ret.Results) == 0 {
				continue
			}
			last := ret.Results[len(ret.Results)-1]
			if !isNilConst(last) && !types.Identical(last.Type(), types.Universe.Lookup("error").Type()) {
				continue
			}
			if !isNilConst(last) {
				nonNil := surelyNonNil(last)
				for _, f := range factsAt(ret.Block()) {
					if f.Op == token.NEQ && f.Y != nil && f.X == last && isNilConst(f.Y) {
						nonNil = true
					}
				}
				if nonNil {
					continue
				}
			}
			n++
			ru.Bad("main-loop/left-with-tokens", w.IPos(ret), "the parser can return without error while tokens are left in the iterator (the main loop is left from inside an iteration without a bulk copy of the tail): the rest of the command line disappears from remaining")
		}
		if n == 0 {
			ru.OK("main-loop/left-with-tokens", w.IPos(m.mainNextIf), "successful returns only after the iterator was exhausted or the tail copied")
		}
	}
}

func init() {
	for prop, id := range map[string]string{"C04": "R04.13", "C03": "R03.20", "C09": "R09.12"} {
		addRules(prop, rNoTokenDropped(id))
	}
}

func init() {
	addRules("C04", func(w *World, r *Report) {
		subRule(w, r, rC07Bundling, "R04.14", "an option whose value is attached never reaches for the next token - which may be `--`: the bundled form keeps its attached value (same obligations as C07 R07.4)", 3)
	}, func(w *World, r *Report) {
		subRule(w, r, rC07SingleDash, "R04.15", "an option whose value is glued to it never reaches for the next token - which may be `--`: single-dash mode leaves the value out only when nothing follows the first rune (same obligations as C07 R07.5)", 3)
	})
}

// rSplitterRejects (R01.24 / R03.22 / R07.15): the tokeniser answers "not an option" only for the terminator and for
// tokens its expression does not match. Decided per class of token (first character `-`; first character `/` with
// the windows flag) by the value-sensitive reach: with the length, the first byte, the HasPrefix tests and the flag
// fixed accordingly, no return of `false` may be reachable except through the "no match" edge of the expression or
// the `s == "--"` case. A shortcut in front of the expression (a length limit, a character test slightly too wide)
// that sends such a token away turns `--name=value` into a positional argument.
func rSplitterRejects(id string) func(w *World, r *Report) {
	return func(w *World, r *Report) {
		ru := r.Rule(id, "the tokeniser rejects only what its expression rejects: for a token that starts with `-` (or with `/` under the windows flag) every path to a `false` answer passes the no-match edge of FindStringSubmatch or the `--` case", 3)
		fn := w.Fn(nIsOption)
		if fn == nil || len(fn.Params) < 3 {
			ru.Undecided("anchor", "-", "isOption not found")
			return
		}
		s := fn.Params[0]
		var winP *ssa.Parameter
		for _, p := range fn.Params {
			if b, ok := p.Type().Underlying().(*types.Basic); ok && b.Kind() == types.Bool {
				winP = p
			}
		}
		ig := buildIG(fn)
		isS := func(v ssa.Value) bool { return v == ssa.Value(s) }
		allowed := func(term ssa.Instruction, k int) bool {
			iff, ok := term.(*ssa.If)
			if !ok {
				return true
			}
			for _, f := range condFacts(iff.Cond, k == 0, iff) {
				if f.Y == nil {
					continue
				}
				// s == "--"
				if f.Op == token.EQL && isS(f.X) {
					if c, ok := constString(f.Y); ok && c == "--" {
						return false
					}
				}
				// the token is not empty in any of the classes: len(s) == 0, s == ""
				if c, ok := lenOf(f.X); ok && isS(c) {
					if k0, ok := constInt(f.Y); ok && ((f.Op == token.EQL && k0 == 0) || (f.Op == token.LEQ && k0 == 0) || (f.Op == token.LSS && k0 == 1)) {
						return false
					}
				}
				if f.Op == token.EQL && isS(f.X) {
					if c, ok := constString(f.Y); ok && c == "" {
						return false
					}
				}
				// len(match) == 0 / <= 0 / < 1 on a submatch result
				if c, ok := lenOf(f.X); ok && isSubmatchResult(c, map[ssa.Value]bool{}) {
					if k0, ok := constInt(f.Y); ok && ((f.Op == token.EQL && k0 == 0) || (f.Op == token.LEQ && k0 == 0) || (f.Op == token.LSS && k0 == 1)) {
						return false
					}
				}
				if isNilConst(f.Y) && f.Op == token.EQL && isSubmatchResult(f.X, map[ssa.Value]bool{}) {
					return false
				}
			}
			return true
		}
		type class struct {
			name  string
			first byte
			win   bool
		}
		for _, cl := range []class{{"dash", '-', false}, {"dash/windows", '-', true}, {"slash/windows", '/', true}} {
			env := triEnv{}
			if winP != nil {
				env[winP] = vsVal{c: constant.MakeBool(cl.win)}
			}
			eachInstr(fn, func(in ssa.Instruction) {
				switch x := in.(type) {
				case *ssa.Call:
					switch calleeName(x) {
					case "strings.HasPrefix":
						if p, ok := constString(x.Call.Args[1]); ok && isS(x.Call.Args[0]) && len(p) == 1 {
							env[x] = vsVal{c: constant.MakeBool(p[0] == cl.first)}
						}
					}
				case *ssa.Index:
					if isS(x.X) {
						if k0, ok := constInt(x.Index); ok && k0 == 0 {
							env[x] = vsVal{c: constant.MakeInt64(int64(cl.first))}
						}
					}
				}
			})
			seen, ok := ig.reachVSInit([]int{0}, nil, allowed, env)
			if !ok {
				seen = ig.reachFromE([]int{0}, nil, allowed)
			}
			bad := ""
			for i, sn := range seen {
				ret, isRet := ig.instrs[i].(*ssa.Return)
				if !isRet || !sn || len(ret.Results) < 2 {
					continue
				}
				if c, ok := ret.Results[1].(*ssa.Const); ok && c.Value != nil && c.Value.Kind() == constant.Bool && !constant.BoolVal(c.Value) {
					bad = w.IPos(ret)
				}
			}
			ru.Check(bad == "", "splitter/rejects/"+cl.name, w.Pos(fn.Pos()), "`false` only behind the no-match edge or the `--` case", "the tokeniser can answer `not an option` (at "+bad+") for a token of this class that its expression would match: `--name=value` (long, odd, or merely unusual) becomes a positional argument and the option keeps its default")
		}
	}
}

func init() {
	for prop, id := range map[string]string{"C01": "R01.24", "C03": "R03.22", "C07": "R07.15"} {
		addRules(prop, rSplitterRejects(id))
	}
	addRules("C01", typestateRule("R01.23"))
	addRules("C06", typestateRule("R06.20"))
	addRules("C03", func(w *World, r *Report) {
		subRule(w, r, rC01Splitter, "R03.21", "a token is read the same way by every path of the tokeniser: name and attached value are cut out of the token by submatch / one leading separator / per-rune split only (same obligations as C01 R01.2)", 5)
	})
}

// rAttemptBeforeReport (R14.14 / R13.14 / R16.23): the goroutine that runs a task reports on the completion channel
// only after the task's function was called at least once. Decided by the value-sensitive reach with the retry budget
// fixed at its smallest value (Retries = 0: the loop `i = 0; i <= Retries` runs once): from the goroutine's entry no
// send on the completion channel may be reachable without passing the call. A check placed in front of the first
// attempt (`if ctx.Err() != nil { break }`) reports a task that never ran with the nil error the variable started with:
// its dependents are started and Run returns nil.
func rAttemptBeforeReport(id string) func(w *World, r *Report) {
	return func(w *World, r *Report) {
		ru := r.Rule(id, "a task is reported only after an attempt: in the goroutine that calls Task.Fn no send on the completion channel is reachable before the first call (retry budget fixed at 0)", 1)
		calls := taskFnCalls(w)
		if len(calls) == 0 {
			ru.Undecided("call-sites", "-", "no Task.Fn call site in package dag")
			return
		}
		for _, c := range calls {
			fn := c.Parent()
			ig := buildIG(fn)
			env := triEnv{}
			eachInstr(fn, func(in ssa.Instruction) {
				if ld, ok := in.(*ssa.UnOp); ok {
					if _, isR := loadOfFieldNamed(ld, "Retries"); isR {
						env[ld] = vsVal{c: constant.MakeInt64(0), sticky: true}
					}
				}
			})
			stop := func(in ssa.Instruction) bool { return in == ssa.Instruction(c) }
			seen, ok := ig.reachVSInit([]int{0}, stop, nil, env)
			if !ok {
				seen = ig.reachFromE([]int{0}, stop, nil)
			}
			bad := ""
			n := 0
			eachInstr(fn, func(in ssa.Instruction) {
				snd, ok := in.(*ssa.Send)
				if !ok || !isCompletionChan(snd.Chan.Type()) {
					return
				}
				n++
				if seen[ig.idx[in]] {
					bad = w.IPos(in)
				}
			})
			if n == 0 {
				ru.Bad("report/after-attempt", w.IPos(c), "the goroutine that calls the task never reports on the completion channel")
				continue
			}
			ru.Check(bad == "", "report/after-attempt", w.IPos(c), "every report follows a call of the task's function", "the completion message (at "+bad+") can be sent before the task's function was ever called: a task that did not run is reported with whatever the error variable held (nil) - its dependents start and Run returns nil")
		}
	}
}

func init() {
	for prop, id := range map[string]string{"C14": "R14.14", "C13": "R13.14", "C16": "R16.23"} {
		addRules(prop, rAttemptBeforeReport(id))
	}
	addRules("C12", typestateRule("R12.13"))
	addRules("C11", rNoTokenDropped("R11.21"))
	addRules("C07", func(w *World, r *Report) {
		subRule(w, r, rC10Descent, "R07.16", "a token that looks like an option is an option in every mode: nothing but the splitter decides that a dashed token is plain text (same obligations as C10 R10.3)", 2)
	})
}

// sliceOrigins: the values a slice value may share its backing array with: through phis, re-slicing, and the first
// operand of append (append writes into the spare capacity of its first operand).
func sliceOrigins(v ssa.Value, seen map[ssa.Value]bool) []ssa.Value {
	if v == nil || seen[v] {
		return nil
	}
	seen[v] = true
	switch x := v.(type) {
	case *ssa.Phi:
		var out []ssa.Value
		for _, e := range x.Edges {
			out = append(out, sliceOrigins(e, seen)...)
		}
		return out
	case *ssa.Slice:
		if _, isSlice := x.X.Type().Underlying().(*types.Slice); isSlice {
			return sliceOrigins(x.X, seen)
		}
	case *ssa.Call:
		if calleeName(x) == "builtin:append" && len(x.Call.Args) > 0 {
			return sliceOrigins(x.Call.Args[0], seen)
		}
	case *ssa.ChangeType:
		return sliceOrigins(x.X, seen)
	}
	return []ssa.Value{v}
}

// rCompletionsFresh (R20.11 / R17.18): the completion list that the parser sorts and edits in place is its own: no
// value it may share a backing array with is a slice held by the program tree, an option, or handed in by the caller.
// `completions = node.Suggestions` (no copy, "fast path") makes the sort and the bash trailing-space edit write into
// the tree: the same request answered twice gives different lists.
func rCompletionsFresh(id string) func(w *World, r *Report) {
	return func(w *World, r *Report) {
		ru := r.Rule(id, "answers do not depend on earlier requests: a slice that parseCLIArgs sorts or stores into shares no backing array with a field of the tree / an option or with a parameter (it is built by append from a literal or nil)", 1)
		fn := w.Fn(nParseCLI)
		if fn == nil {
			ru.Undecided("anchor", "-", "parseCLIArgs not found")
			return
		}
		n := 0
		check := func(in ssa.Instruction, sl ssa.Value, what string) {
			if _, isSlice := sl.Type().Underlying().(*types.Slice); !isSlice {
				return
			}
			n++
			bad := ""
			for _, o := range sliceOrigins(sl, map[ssa.Value]bool{}) {
				switch x := o.(type) {
				case *ssa.UnOp:
					if fa, ok := x.X.(*ssa.FieldAddr); ok && x.Op == token.MUL {
						bad = "field " + fieldOfAddr(fa).Name()
					}
				case *ssa.Parameter:
					bad = "parameter " + x.Name()
				case *ssa.Lookup:
					bad = "an element of a table"
				}
			}
			ru.Check(bad == "", "in-place/"+what, w.IPos(in), "the slice is the function's own", "a slice that may be "+bad+" itself (not a copy) is "+what+" in place: the tree (or the caller's slice) changes with every request")
		}
		for _, f := range funcsWithAnon(fn) {
			eachInstr(f, func(in ssa.Instruction) {
				switch x := in.(type) {
				case *ssa.Call:
					switch calleeBase(x) {
					case "sort.Strings", "sort.Ints", "sort.Float64s", "slices.Sort", "slices.SortFunc", "slices.SortStableFunc", "slices.Reverse", "sort.Slice", "sort.SliceStable":
						if len(x.Call.Args) > 0 {
							a := x.Call.Args[0]
							if mi, ok := a.(*ssa.MakeInterface); ok {
								a = mi.X
							}
							check(in, a, "sorted")
						}
					}
				case *ssa.Store:
					if ia, ok := x.Addr.(*ssa.IndexAddr); ok {
						check(in, ia.X, "written")
					}
				}
			})
		}
		if n == 0 {
			ru.Present("in-place", w.Pos(fn.Pos()), "parseCLIArgs sorts and edits no slice in place")
		}
	}
}

func init() {
	addRules("C20", rCompletionsFresh("R20.11"))
	addRules("C17", rCompletionsFresh("R17.18"))
	addRules("C14", func(w *World, r *Report) {
		subRule(w, r, rC13Readiness, "R14.15", "the dependents of a failed or skip-parents task are never offered: a vertex is offered only when none of its dependencies is pending or in progress, whatever else happened in the run (same obligations as C13 R13.2)", 4)
	})
}

// rOptionKeys (R06.21 / R05.18 / R10.18): the keys of a node's option table are declared spellings only. The reference
// callers of AddChildOption (the definers, the Alias modifier) are what they are; any other caller must register
// under a spelling it was given as a string parameter (a new definer) or an element of a variadic string parameter (a
// new alias-like modifier) - never under a key it computes (the first letter of the help option's name, a
// normalised name): such a key can collide with, or shadow in a child table, a name the program declared.
func rOptionKeys(id string) func(w *World, r *Report) {
	return func(w *World, r *Report) {
		ru := r.Rule(id, "option tables hold declared spellings only: every caller of AddChildOption outside the reference ones registers under one of its own string parameters (or an element of a variadic one), never under a computed key", 0)
		const add = "(*getoptions.programTree).AddChildOption"
		n := 0
		for _, fn := range w.Funcs {
			for _, c := range callsTo(fn, add) {
				root := fn
				for root.Parent() != nil {
					root = root.Parent()
				}
				if baselineCalls[short(root)+"\t"+add] {
					continue
				}
				n++
				key := c.Common().Args[1]
				good := false
				switch x := key.(type) {
				case *ssa.Parameter:
					good = true
				case *ssa.FreeVar:
					good = true
					_ = x
				case *ssa.UnOp:
					// element of a variadic parameter, or a captured parameter
					switch y := x.X.(type) {
					case *ssa.IndexAddr:
						_, isP := y.X.(*ssa.Parameter)
						_, isF := y.X.(*ssa.FreeVar)
						if u, ok := y.X.(*ssa.UnOp); ok {
							_, isF = u.X.(*ssa.FreeVar)
						}
						good = isP || isF
					case *ssa.FreeVar:
						good = true
					}
				case *ssa.Extract:
					// range over a variadic parameter
					if nx, ok := x.Tuple.(*ssa.Next); ok {
						if rg, ok := nx.Iter.(*ssa.Range); ok {
							_, good = rg.X.(*ssa.Parameter)
						}
					}
				}
				ru.Check(good, "AddChildOption/key/"+short(fn), w.IPos(c), "registered under a spelling the caller was given", "an option is registered under a key that "+short(root)+" computes (not a name or alias the program declared): it can collide with a declared spelling, and copied into the commands it replaces theirs")
			}
		}
		if n == 0 {
			ru.Present("AddChildOption/callers", "-", "only the reference callers register options")
		}
	}
}

// rRequireOrderFirst (R09.13): on the no-match edge of the parser the require-order stop comes before anything that
// can end the parse: with requireOrder set, no return is reachable from that edge before the bulk copy of the tail.
func rRequireOrderFirst(id string) func(w *World, r *Report) {
	return func(w *World, r *Report) {
		ru := r.Rule(id, "an unknown option is the stop point under require-order, whatever else could be said about it: from the no-match edge, with requireOrder set, every path reaches the bulk copy of the tail before any return", 1)
		m := parserOrFail(w, ru)
		if m == nil {
			return
		}
		iff, k, _ := m.noMatchIf()
		if iff == nil {
			ru.Undecided("no-match-test", w.Pos(m.fn.Pos()), "test len(matches) == 0 on the matcher result not found")
			return
		}
		cache := map[*ssa.Function]*helperSum{}
		bulk := map[ssa.Instruction]bool{}
		for _, e := range m.effects() {
			if e.Kind == effHelper {
				if _, ex := m.basicDisposition(e.Instr, cache); ex {
					bulk[e.Instr] = true
				}
			}
		}
		env := triEnv{}
		eachInstr(m.fn, func(in ssa.Instruction) {
			if ld, ok := in.(*ssa.UnOp); ok {
				if _, isRO := loadOfFieldNamed(ld, "requireOrder"); isRO {
					env[ld] = vsVal{c: constant.MakeBool(true), sticky: true}
				}
			}
		})
		stop := func(in ssa.Instruction) bool { return bulk[in] }
		seen, ok := m.ig.reachVSInit(m.ig.edgeStart(iff.Block(), k), stop, m.normalEdgeOK, env)
		if !ok {
			ru.Undecided("no-match/require-order-first", w.IPos(iff), "path search exhausted")
			return
		}
		bad := ""
		for i, sn := range seen {
			if ret, isRet := m.ig.instrs[i].(*ssa.Return); isRet && sn {
				bad = w.IPos(ret)
			}
		}
		ru.Check(bad == "", "no-match/require-order-first", w.IPos(iff), "the tail is copied before anything else can end the parse", "under require-order an unknown option can end the parse (return at "+bad+") before the tail is handed back: a `did you mean` error, a hook, a limit - the wrapped command line is lost")
	}
}

func init() {
	for prop, id := range map[string]string{"C06": "R06.21", "C05": "R05.18", "C10": "R10.18"} {
		addRules(prop, rOptionKeys(id))
	}
	addRules("C09", rRequireOrderFirst("R09.13"))
	addRules("C11", rSplitterCalls("R11.22"))
	addRules("C12", func(w *World, r *Report) {
		subRule(w, r, rC01Splitter, "R12.14", "the value read from the command line is the text that was typed: the tokeniser cuts name and attached value out of the token by submatch / one leading separator / per-rune split only (same obligations as C01 R01.2)", 5)
	})
}

// rOutputOnce (R15.11): a task's buffered output reaches the writer in one piece, when the attempt is over. The graph's
// output writer (Graph.bufferWriter) is read only behind the call of the task's function in the goroutine that runs
// the task - or in a function all of whose static callers are such sites. A writer object that flushes from its own
// Write method (a size limit, a timer) interleaves pieces of one task's output with another's.
func rOutputOnce(id string) func(w *World, r *Report) {
	return func(w *World, r *Report) {
		ru := r.Rule(id, "buffered output is written once per attempt: every read of Graph.bufferWriter is behind the call of Task.Fn in the task goroutine (or in a function called only from such places)", 1)
		calls := taskFnCalls(w)
		if len(calls) == 0 {
			ru.Undecided("call-sites", "-", "no Task.Fn call site in package dag")
			return
		}
		taskFn := calls[0].Parent()
		ig := buildIG(taskFn)
		before := ig.reachFromE([]int{0}, func(in ssa.Instruction) bool { return in == ssa.Instruction(calls[0]) }, nil)
		// okSite: the instruction runs only after an attempt, in the task goroutine
		var okSite func(in ssa.Instruction, depth int) bool
		okSite = func(in ssa.Instruction, depth int) bool {
			fn := in.Parent()
			if fn == taskFn {
				return !before[ig.idx[in]]
			}
			if depth > 3 {
				return false
			}
			// every static caller of fn must be an ok site; a function reachable some other way (interface method,
			// function value) is not
			n := 0
			for _, g := range w.Funcs {
				for _, c := range allCalls(g) {
					if c.Common().StaticCallee() == fn {
						n++
						if !okSite(c, depth+1) {
							return false
						}
					}
				}
			}
			if n == 0 {
				return false
			}
			// a method that satisfies io.Writer & co. can be called by anyone holding the value
			if fn.Signature.Recv() != nil {
				switch fn.Name() {
				case "Write", "WriteString", "WriteByte", "Close", "Sync":
					return false
				}
			}
			return true
		}
		n := 0
		for _, fn := range w.Funcs {
			if fn.Pkg == nil || shortName(fn.Pkg.Pkg.Path()) != "dag" {
				continue
			}
			eachInstr(fn, func(in ssa.Instruction) {
				ld, ok := in.(*ssa.UnOp)
				if !ok {
					return
				}
				if _, isBW := loadOfFieldNamed(ld, "bufferWriter"); !isBW {
					return
				}
				n++
				ru.Check(okSite(in, 0), "output/after-attempt", w.IPos(in), "the writer is used only when an attempt is over", "the graph's output writer is used (in "+short(fn)+") at a point that is not behind the task's call in its goroutine: output can be flushed while the task is still writing - the pieces of one task's output are no longer contiguous")
			})
		}
		if n == 0 {
			ru.Bad("output/after-attempt", w.Pos(taskFn.Pos()), "the graph's output writer is never used")
		}
	}
}

func init() { addRules("C15", rOutputOnce("R15.11")) }

// rParseErrorSources (R17.19): completion offers what the parser accepts - so a real parse fails only for what the
// parser itself reports, for a missing required option, or under the unknown-option policy. Every return of Parse with
// an error hands back the error of parseCLIArgs, the error of the required gate, or the policy's fmt.Errorf; a further
// validation step in Parse (mutually exclusive options, a limit) rejects command lines whose every word was offered.
func rParseErrorSources(id string) func(w *World, r *Report) {
	return func(w *World, r *Report) {
		ru := r.Rule(id, "what completion offers, Parse accepts: Parse returns an error only from parseCLIArgs, from the required gate, or from the unknown-option policy (no further validation that completion knows nothing about)", 3)
		fn := w.Fn(nParse)
		if fn == nil {
			ru.Undecided("anchor", "-", "Parse not found")
			return
		}
		var classify func(v ssa.Value, depth int) string
		classify = func(v ssa.Value, depth int) string {
			if depth > 4 {
				return ""
			}
			switch x := v.(type) {
			case *ssa.Const:
				if x.Value == nil {
					return "nil"
				}
			case *ssa.Extract:
				if c, ok := x.Tuple.(*ssa.Call); ok && calleeName(c) == nParseCLI {
					return "parser"
				}
			case *ssa.Call:
				switch calleeName(x) {
				case "getoptions.checkRequired":
					return "required gate"
				case "fmt.Errorf":
					if len(x.Call.Args) > 0 {
						if ld, ok := x.Call.Args[0].(*ssa.UnOp); ok {
							if g, ok := ld.X.(*ssa.Global); ok && g.Name() == "MessageOnUnknown" {
								return "unknown-option policy"
							}
						}
					}
					// a wrapped error of one of the sources
					if len(x.Call.Args) > 1 {
						els, _, _ := elementsOf(x.Call.Args[1], map[ssa.Value]bool{})
						for _, e := range els {
							if mi, ok := e.(*ssa.MakeInterface); ok {
								e = mi.X
							}
							if c := classify(e, depth+1); c != "" && c != "nil" {
								return c
							}
						}
					}
				default:
					// an inline required gate: option.CheckRequired / a helper's result
					if strings.HasSuffix(calleeName(x), ".CheckRequired") {
						return "required gate"
					}
					if calleeName(x) == "(error).Error" || strings.HasSuffix(calleeName(x), ".Error") {
						if len(x.Call.Args) > 0 {
							return classify(x.Call.Args[0], depth+1)
						}
						if x.Call.IsInvoke() {
							return classify(x.Call.Value, depth+1)
						}
					}
				}
			case *ssa.Phi:
				out := ""
				for _, e := range x.Edges {
					c := classify(e, depth+1)
					if c == "" {
						return ""
					}
					if c != "nil" {
						out = c
					}
				}
				if out == "" {
					out = "nil"
				}
				return out
			case *ssa.MakeInterface:
				return classify(x.X, depth+1)
			}
			return ""
		}
		n := 0
		eachInstr(fn, func(in ssa.Instruction) {
			ret, ok := in.(*ssa.Return)
			if !ok || len(ret.Results) < 2 {
				return
			}
			src := classify(ret.Results[len(ret.Results)-1], 0)
			if src == "nil" {
				return
			}
			n++
			ru.Check(src != "", "Parse/error-source", w.IPos(ret), "error of the "+src, "Parse can fail for a reason that is neither the parser's, nor a missing required option, nor the unknown-option policy: a command line assembled from offered completions is refused")
		})
		if n == 0 {
			ru.Bad("Parse/error-source", w.Pos(fn.Pos()), "Parse never returns an error")
		}
	}
}

func init() {
	addRules("C17", rParseErrorSources("R17.19"))
	addRules("C10", rSplitterCalls("R10.19"))
}

// rEveryDependencyAnEdge (R16.24): a declared dependency becomes an edge of the graph - so that a cycle, a
// self-dependency included, is found by the cycle check and reported as ErrorGraphHasCycle. In TaskDependsOn the only
// returns inside the loop over the dependencies are the reference ones: a vertex could not be retrieved (the error
// of retrieveOrAddVertex is not nil), or the edge exists already (an ID of vertex.Children equals the dependency's).
func rEveryDependencyAnEdge(id string) func(w *World, r *Report) {
	return func(w *World, r *Report) {
		ru := r.Rule(id, "every declared dependency is recorded as an edge: TaskDependsOn leaves the loop over the dependencies early only when a vertex cannot be retrieved (a nil task, an error of a call) or the edge is a duplicate", 2)
		fn := w.Fn("(*dag.Graph).TaskDependsOn")
		if fn == nil {
			ru.Undecided("anchor", "-", "TaskDependsOn not found")
			return
		}
		isRetrieveErr := func(v ssa.Value) bool {
			ex, ok := v.(*ssa.Extract)
			if !ok {
				return false
			}
			c, ok := ex.Tuple.(*ssa.Call)
			return ok && strings.HasSuffix(calleeName(c), ".retrieveOrAddVertex")
		}
		isChildID := func(v ssa.Value) bool {
			base, ok := loadOfFieldNamed(v, "ID")
			if !ok {
				return false
			}
			ld, ok := base.(*ssa.UnOp)
			if !ok {
				return false
			}
			ia, ok := ld.X.(*ssa.IndexAddr)
			if !ok {
				return false
			}
			_, isCh := loadOfFieldNamed(ia.X, "Children")
			return isCh
		}
		n := 0
		// the early exits: edges that leave a loop from its body (not through the header's own test), whether they
		// lead to a return or to a single exit behind the loop
		type exitEdge struct {
			b *ssa.BasicBlock
			k int
		}
		seen := map[exitEdge]bool{}
		var exits []exitEdge
		for _, h := range loopHeaders(fn) {
			loop := naturalLoop(h)
			for b := range loop {
				if b == h {
					continue
				}
				for k, sc := range b.Succs {
					if !loop[sc] && !seen[exitEdge{b, k}] {
						seen[exitEdge{b, k}] = true
						exits = append(exits, exitEdge{b, k})
					}
				}
			}
		}
		sort.Slice(exits, func(i, j int) bool {
			if exits[i].b.Index != exits[j].b.Index {
				return exits[i].b.Index < exits[j].b.Index
			}
			return exits[i].k < exits[j].k
		})
		for _, e := range exits {
			facts := append([]Fact(nil), factsAt(e.b)...)
			if iff, ok := e.b.Instrs[len(e.b.Instrs)-1].(*ssa.If); ok {
				facts = append(facts, condFacts(iff.Cond, e.k == 0, iff)...)
			}
			good := false
			for _, f := range facts {
				if f.Y == nil {
					continue
				}
				if f.Op == token.NEQ && isNilConst(f.Y) && isRetrieveErr(f.X) {
					good = true
				}
				// the retrieval written out in place: a nil task, or an error of the registration it falls back to
				if f.Op == token.NEQ && isNilConst(f.Y) && types.Identical(f.X.Type(), types.Universe.Lookup("error").Type()) {
					switch x := f.X.(type) {
					case *ssa.Call:
						good = true
					case *ssa.Extract:
						_, good = x.Tuple.(*ssa.Call)
					}
				}
				if f.Op == token.EQL && isNilConst(f.Y) && typeString(f.X.Type()) == "*dag.Task" {
					good = true
				}
				if f.Op == token.EQL && (isChildID(f.X) || isChildID(f.Y)) {
					good = true
				}
			}
			n++
			at := e.b.Succs[e.k]
			pos := w.Pos(fn.Pos())
			if len(at.Instrs) > 0 {
				pos = w.IPos(at.Instrs[len(at.Instrs)-1])
			}
			ru.Check(good, "TaskDependsOn/early-return", pos, "retrieval error or duplicate edge", "TaskDependsOn gives up on a dependency for a reason other than a retrieval error or a duplicate: the edge is never recorded, so a cycle through it (a task depending on itself, say) is not seen by the cycle check and is not reported as ErrorGraphHasCycle")
		}
		if n == 0 {
			ru.Bad("TaskDependsOn/early-return", w.Pos(fn.Pos()), "no error path found in TaskDependsOn")
		}
	}
}

func init() { addRules("C16", rEveryDependencyAnEdge("R16.24")) }

// ------------------------------------------------------------------ round 12

// rSaveArgsUntouched (R01.25 / R02.20 / R12.15): Save reads its argument list, it does not rewrite it: no store into an
// element of the parameter slice (nor of a re-slice of it). `a[i] = strings.TrimSpace(e)` at the top of Save changes
// every value that every kind stores afterwards - and the caller's slice with it.
func rSaveArgsUntouched(id string) func(w *World, r *Report) {
	return func(w *World, r *Report) {
		ru := r.Rule(id, "the values stored are the texts given: Save (and what it calls in its package) stores nothing into the elements of its argument list", 0)
		fn := w.Fn(nSave)
		if fn == nil || len(fn.Params) < 2 {
			ru.Undecided("anchor", "-", "Save not found")
			return
		}
		a := fn.Params[1]
		n := 0
		eachInstr(fn, func(in ssa.Instruction) {
			st, ok := in.(*ssa.Store)
			if !ok {
				return
			}
			ia, ok := st.Addr.(*ssa.IndexAddr)
			if !ok {
				return
			}
			for _, o := range sliceOrigins(ia.X, map[ssa.Value]bool{}) {
				if o == ssa.Value(a) {
					n++
					ru.Bad("Save/arguments-untouched", w.IPos(st), "Save overwrites an element of its argument list before using it: every kind then stores the rewritten text, not the one given (and the caller's slice changes)")
				}
			}
		})
		if n == 0 {
			ru.OK("Save/arguments-untouched", w.Pos(fn.Pos()), "no store into the argument list")
		}
	}
}

// rLookaheadKinds (R01.26 / R02.21): the well-formedness test of the greedy look-ahead exists for the kinds that take
// several values: for the scalar optional kinds a following non-option token is the option's value, and an ill-formed
// one is Save's conversion error - never silently left in place. With OptType fixed at each optional kind, no strconv
// conversion of the peeked token is reachable in the parser.
func rLookaheadKinds(id string) func(w *World, r *Report) {
	return func(w *World, r *Report) {
		ru := r.Rule(id, "an optional-value option takes the next non-option token whatever it looks like (ill-formed text is then a conversion error): with the kind fixed at IntOptionalType / Float64OptionalType / StringOptionalType no strconv test of the peeked token is reachable in the parser", 3)
		m := parserOrFail(w, ru)
		if m == nil {
			return
		}
		var loads []ssa.Value
		eachInstr(m.fn, func(in ssa.Instruction) {
			if ld, ok := in.(*ssa.UnOp); ok {
				if _, isK := loadOfFieldNamed(ld, "OptType"); isK {
					loads = append(loads, ld)
				}
			}
		})
		for _, k := range []string{"IntOptionalType", "Float64OptionalType", "StringOptionalType"} {
			kc, _ := w.Obj("option", k).(*types.Const)
			if kc == nil {
				ru.Undecided("look-ahead/"+k, "-", "kind constant not found")
				continue
			}
			env := triEnv{}
			for _, l := range loads {
				env[l] = vsVal{c: kc.Val(), sticky: true}
			}
			seen, ok := m.ig.reachVSInit([]int{0}, nil, m.normalEdgeOK, env)
			if !ok {
				ru.Undecided("look-ahead/"+k, w.Pos(m.fn.Pos()), "path search exhausted")
				continue
			}
			bad := ""
			for i, sn := range seen {
				if c, isCall := m.ig.instrs[i].(*ssa.Call); isCall && sn && strings.HasPrefix(calleeName(c), "strconv.") {
					bad = w.IPos(c)
				}
			}
			ru.Check(bad == "", "look-ahead/"+k, w.Pos(m.fn.Pos()), "no well-formedness test for this kind", "for an option of kind "+k+" the parser tests the following token with strconv (at "+bad+") and leaves it in place when the test fails: `--opt text` keeps the default without an error, and `text` becomes an argument")
		}
	}
}

// rArgsOnlyNonEmpty (R02.22 / R07.17 / R01.27): outside the single-dash arm the tokeniser attaches a value only when
// there is one: every store of a pair's Args is dominated by `<the text stored> != ""`. Testing the raw group
// (`match[3] != ""`) instead stores an empty value for `--opt=`: a multi-value option then counts "" as its first
// value, a numeric one fails to convert it.
func rArgsOnlyNonEmpty(id string) func(w *World, r *Report) {
	return func(w *World, r *Report) {
		ru := r.Rule(id, "`--opt=` attaches nothing: in the tokeniser a pair's Args is stored only under `text != \"\"` for the very text that is stored (the group with its one leading separator removed)", 3)
		fn := w.Fn(nIsOption)
		if fn == nil {
			ru.Undecided("anchor", "-", "isOption not found")
			return
		}
		n := 0
		eachInstr(fn, func(in ssa.Instruction) {
			st, ok := in.(*ssa.Store)
			if !ok {
				return
			}
			fa, ok := st.Addr.(*ssa.FieldAddr)
			if !ok || fieldOfAddr(fa).Name() != "Args" {
				return
			}
			// the list kept in a variable first (`nil` where nothing is attached, the one-element list elsewhere):
			// every edge that carries a list is judged where the list was built
			type site struct {
				e ssa.Value
				b *ssa.BasicBlock
			}
			var sites []site
			if phi, isPhi := st.Val.(*ssa.Phi); isPhi {
				for i, ev := range phi.Edges {
					if isNilConst(ev) {
						continue
					}
					els, _, _ := elementsOf(ev, map[ssa.Value]bool{})
					if len(els) != 1 {
						return
					}
					sites = append(sites, site{els[0], phi.Block().Preds[i]})
				}
				if len(sites) == 0 {
					return
				}
			} else {
				els, _, _ := elementsOf(st.Val, map[ssa.Value]bool{})
				if len(els) != 1 {
					return
				}
				sites = append(sites, site{els[0], st.Block()})
			}
			for _, sx := range sites {
				if bo, isCat := sx.e.(*ssa.BinOp); isCat && bo.Op == token.ADD {
					return // the single-dash value (rest of the runes + attached text): guarded by lengths, see R07.5
				}
			}
			n++
			good := true
			for _, sx := range sites {
				e := sx.e
				goodSite := false
				for _, f := range factsAt(sx.b) {
					if f.Op == token.NEQ && f.Y != nil {
						if s, ok := constString(f.Y); ok && s == "" && (f.X == e || sameLeaves(f.X, e)) {
							goodSite = true
						}
					}
					// len(text) > 0 / != 0
					if c, ok := lenOf(f.X); ok && f.Y != nil && (c == e || sameLeaves(c, e)) {
						if k, ok := constInt(f.Y); ok && ((f.Op == token.GTR && k == 0) || (f.Op == token.NEQ && k == 0) || (f.Op == token.GEQ && k == 1)) {
							goodSite = true
						}
					}
				}
				// the text is rest[k:] and len(rest) > k is established: it cannot be empty
				if sl, isSl := e.(*ssa.Slice); isSl && sl.High == nil && !goodSite {
					if k, isC := constInt(sl.Low); isC && k >= 0 && minLenAt(sx.b, sl.X) >= k+1 {
						goodSite = true
					}
				}
				if !goodSite {
					good = false
				}
			}
			ru.Check(good, "Args/non-empty", w.IPos(st), "stored only when the text is not empty", "a pair's Args is stored without `text != \"\"` on the text that is stored: `--opt=` attaches an empty value (the option counts it as given, a following value is no longer taken)")
		})
		if n == 0 {
			ru.Bad("Args/non-empty", w.Pos(fn.Pos()), "the tokeniser never attaches a value")
		}
	}
}

// sameLeaves: a and b are merges over the same set of leaf values.
func sameLeaves(a, b ssa.Value) bool {
	la, lb := phiLeaves(a, map[ssa.Value]bool{}), phiLeaves(b, map[ssa.Value]bool{})
	if len(la) == 0 || len(la) != len(lb) {
		return false
	}
	set := map[ssa.Value]bool{}
	for _, v := range la {
		set[v] = true
	}
	for _, v := range lb {
		if !set[v] {
			return false
		}
	}
	return true
}

// rTaskNotCopied (R15.12): the lock that keeps a shared Task from running twice at the same time lives in the Task
// value: a Task is created by NewTask only and never copied - no other function builds a Task value or loads one
// through a pointer (`*t`), which would give the copy a lock of its own.
func rTaskNotCopied(id string) func(w *World, r *Report) {
	return func(w *World, r *Report) {
		ru := r.Rule(id, "one Task, one lock: Task values are built by NewTask alone and never copied (no composite literal or new(Task) elsewhere, no load of a whole Task through a pointer)", 1)
		n := 0
		for _, fn := range w.Funcs {
			if fn.Pkg == nil || shortName(fn.Pkg.Pkg.Path()) != "dag" {
				continue
			}
			isCtor := short(fn) == "dag.NewTask"
			eachInstr(fn, func(in ssa.Instruction) {
				switch x := in.(type) {
				case *ssa.Alloc:
					if typeString(derefType(x.Type())) == "dag.Task" {
						n++
						// a placeholder without a function (what Graph.Task answers for an unknown ID) duplicates nothing
						placeholder := true
						if x.Referrers() != nil {
							for _, r := range *x.Referrers() {
								if fa, ok := r.(*ssa.FieldAddr); ok && fieldOfAddr(fa).Name() == "Fn" && fa.Referrers() != nil {
									for _, r2 := range *fa.Referrers() {
										if st, ok := r2.(*ssa.Store); ok && !isNilConst(st.Val) {
											placeholder = false
										}
									}
								}
								if st, ok := r.(*ssa.Store); ok && st.Addr == ssa.Value(x) {
									placeholder = false // a whole value stored into it
								}
							}
						}
						if placeholder && !isCtor {
							ru.Present("Task/placeholder/"+short(fn), w.IPos(x), "a Task without a function (nothing to run, nothing to exclude)")
							return
						}
						ru.Check(isCtor, "Task/built/"+short(fn), w.IPos(x), "built by NewTask", "a Task value is built outside NewTask (in "+short(fn)+"): it has a lock of its own, so the task it duplicates can run in two graphs at the same time")
					}
				case *ssa.UnOp:
					if x.Op == token.MUL && typeString(x.Type()) == "dag.Task" {
						n++
						ru.Bad("Task/copied/"+short(fn), w.IPos(x), "a whole Task is loaded through a pointer (copied, lock included): the copy no longer excludes the original")
					}
				}
			})
		}
		if n == 0 {
			ru.Bad("Task/built", "-", "no Task constructor found")
		}
	}
}

// rFlushEveryAttempt (R15.13): with output buffering on, what an attempt wrote reaches the writer before the
// goroutine moves on: from the return of Task.Fn, with g.bufferOutput set, every path passes the flush (the read of
// Graph.bufferWriter) before the next attempt or the completion message. A `break` placed between the call and the
// flush (do not retry after ErrorSkipParents) loses that attempt's output.
func rFlushEveryAttempt(id string) func(w *World, r *Report) {
	return func(w *World, r *Report) {
		ru := r.Rule(id, "every attempt's output is written: with bufferOutput set, from the return of Task.Fn every path reads Graph.bufferWriter (the flush) before the call is reached again or the completion message is sent", 1)
		calls := taskFnCalls(w)
		if len(calls) == 0 {
			ru.Undecided("call-sites", "-", "no Task.Fn call site in package dag")
			return
		}
		for _, c := range calls {
			fn := c.Parent()
			ig := buildIG(fn)
			env := triEnv{}
			eachInstr(fn, func(in ssa.Instruction) {
				if ld, ok := in.(*ssa.UnOp); ok {
					if _, isB := loadOfFieldNamed(ld, "bufferOutput"); isB {
						env[ld] = vsVal{c: constant.MakeBool(true), sticky: true}
					}
				}
			})
			stop := func(in ssa.Instruction) bool {
				ld, ok := in.(*ssa.UnOp)
				if !ok {
					return false
				}
				_, isBW := loadOfFieldNamed(ld, "bufferWriter")
				return isBW
			}
			seen, ok := ig.reachVSInit(ig.after(c), stop, nil, env)
			if !ok {
				seen = ig.reachFromE(ig.after(c), stop, nil)
			}
			bad := ""
			for i, sn := range seen {
				if !sn {
					continue
				}
				in := ig.instrs[i]
				if in == ssa.Instruction(c) {
					bad = "the next attempt"
				}
				if snd, isSend := in.(*ssa.Send); isSend && isCompletionChan(snd.Chan.Type()) {
					bad = "the completion message at " + w.IPos(in)
				}
			}
			ru.Check(bad == "", "attempt/flushed", w.IPos(c), "flushed before the next attempt and before the report", "with output buffering on, "+bad+" can be reached from the task's return without the buffered output having been written: that attempt's output never reaches the writer")
		}
	}
}

// rDefaultShown (R18.20): the default shown by the help is the default: option.New renders it with the plain verbs
// (%s between quotes, %d, %f, %t, %v); a verb that re-encodes the value (%q doubles backslashes, %x, %U) shows something
// the option does not hold.
func rDefaultShown(id string) func(w *World, r *Report) {
	return func(w *World, r *Report) {
		ru := r.Rule(id, "help shows the real default: every format that option.New uses to render DefaultStr consists of the verbs %s %d %f %t %v only", 0)
		fn := w.Fn("option.New")
		if fn == nil {
			ru.Undecided("anchor", "-", "option.New not found")
			return
		}
		n := 0
		eachInstr(fn, func(in ssa.Instruction) {
			st, ok := in.(*ssa.Store)
			if !ok {
				return
			}
			fa, ok := st.Addr.(*ssa.FieldAddr)
			if !ok || fieldOfAddr(fa).Name() != "DefaultStr" {
				return
			}
			for _, leaf := range phiLeaves(st.Val, map[ssa.Value]bool{}) {
				c, ok := leaf.(*ssa.Call)
				if !ok || calleeName(c) != "fmt.Sprintf" {
					continue
				}
				n++
				f, isConst := constString(c.Call.Args[0])
				bad := ""
				if isConst {
					for i := 0; i+1 < len(f); i++ {
						if f[i] != '%' {
							continue
						}
						j := i + 1
						for j < len(f) && strings.ContainsRune("+-# 0123456789.", rune(f[j])) {
							j++
						}
						if j < len(f) && f[j] != '%' && !strings.ContainsRune("sdftv", rune(f[j])) {
							bad = f[i : j+1]
						}
						if j < len(f) && f[i+1:j] != "" && strings.ContainsRune("sv", rune(f[j])) && strings.Contains(f[i+1:j], "#") {
							bad = f[i : j+1]
						}
						i = j
					}
				}
				ru.Check(isConst && bad == "", "DefaultStr/format", w.IPos(c), "plain verbs", "option.New renders the default with "+bad+": the help shows a re-encoded text (doubled backslashes, escapes), not the default the option holds")
			}
		})
		if n == 0 {
			ru.Present("DefaultStr/format", w.Pos(fn.Pos()), "no formatted default (defaults rendered otherwise)")
		}
	}
}

// rEveryCommandDescends (R18.21 / R10.21 / R11.24): a plain token that is the name of a child command selects that
// child - the help command included, whatever else the node has. In the parser the descent (cursor = child) is reached
// from the command scan's match without a further condition on the node (the number of its commands, the name being
// the help command's).
func rEveryCommandDescends(id string) func(w *World, r *Report) {
	return func(w *World, r *Report) {
		ru := r.Rule(id, "`<path> help` asks for help at every level: in the parser's scan over the node's commands nothing but the comparison of the name with the token stands between a command and the descent into it", 1)
		m := parserOrFail(w, ru)
		if m == nil {
			return
		}
		n := 0
		for _, mv := range m.cursorMoves() {
			n++
			b := mv.pred
			// the loop over ChildCommands that contains the move
			var hdr *ssa.BasicBlock
			for _, h := range loopHeaders(m.fn) {
				if naturalLoop(h)[b] || h.Dominates(b) {
					for _, in := range h.Instrs {
						if nx, ok := in.(*ssa.Next); ok {
							if rg, ok := nx.Iter.(*ssa.Range); ok {
								if _, isCC := loadOfFieldNamed(rg.X, "ChildCommands"); isCC && (hdr == nil || hdr.Dominates(h)) {
									hdr = h
								}
							}
						}
					}
				}
			}
			if hdr == nil {
				ru.Present("descent/every-command/lookup", w.IPos(mv.pred.Instrs[len(mv.pred.Instrs)-1]), "the command is looked up by name: no scan, nothing to skip")
				continue
			}
			bad := ""
			// every iteration of the scan compares the name with the token: no path from the loop body back to the
			// header avoids that test
			{
				loop := naturalLoop(hdr)
				var nameTests []ssa.Instruction
				for lb := range loop {
					if iff, ok := lb.Instrs[len(lb.Instrs)-1].(*ssa.If); ok && lb != hdr {
						for _, f := range condFactsRaw(iff.Cond, true, iff) {
							for _, v := range []ssa.Value{f.X, f.Y} {
								if c, ok := v.(*ssa.Call); ok && m.iterCall(c, nIterValue) {
									nameTests = append(nameTests, iff)
								}
							}
						}
					}
				}
				if len(nameTests) > 0 {
					var starts []int
					for _, sc := range hdr.Succs {
						if loop[sc] {
							starts = append(starts, m.ig.first[sc])
						}
					}
					isTest := func(in ssa.Instruction) bool {
						for _, t := range nameTests {
							if t == in {
								return true
							}
						}
						return false
					}
					seen := m.ig.reachFromE(starts, isTest, m.normalEdgeOK)
					if seen[m.ig.first[hdr]] {
						bad = w.IPos(hdr.Instrs[len(hdr.Instrs)-1]) + " (an iteration can end before the name is compared)"
					}
				}
			}
			for _, f := range factsAt(b) {
				if f.If == nil || !hdr.Dominates(f.If.Block()) || f.If.Block() == hdr {
					continue
				}
				// the name test: key (or the child's Name) compared with the token
				isName := false
				for _, v := range []ssa.Value{f.X, f.Y} {
					if v == nil {
						continue
					}
					if c, ok := v.(*ssa.Call); ok && m.iterCall(c, nIterValue) {
						isName = true
					}
				}
				if f.Y != nil && (f.Op == token.EQL) && isName {
					continue
				}
				if m.normalModePrune(f.If.Block(), 0) || m.normalModePrune(f.If.Block(), 1) {
					continue // completion-only
				}
				bad = w.IPos(f.If)
			}
			ru.Check(bad == "", "descent/every-command", w.IPos(mv.pred.Instrs[len(mv.pred.Instrs)-1]), "only the name decides", "a child command whose name equals the token is skipped under a further condition (at "+bad+"): at levels where it holds, `help` (or another command) becomes a plain argument")
		}
		if n == 0 {
			ru.Undecided("descent/every-command", w.Pos(m.fn.Pos()), "no command descent found")
		}
	}
}

func init() {
	for prop, id := range map[string]string{"C01": "R01.25", "C02": "R02.20", "C12": "R12.15"} {
		addRules(prop, rSaveArgsUntouched(id))
	}
	for prop, id := range map[string]string{"C01": "R01.26", "C02": "R02.21"} {
		addRules(prop, rLookaheadKinds(id))
	}
	for prop, id := range map[string]string{"C02": "R02.22", "C07": "R07.17", "C01": "R01.27"} {
		addRules(prop, rArgsOnlyNonEmpty(id))
	}
	addRules("C15", rTaskNotCopied("R15.12"), rFlushEveryAttempt("R15.13"))
	addRules("C18", rDefaultShown("R18.20"))
	for prop, id := range map[string]string{"C18": "R18.21", "C10": "R10.21", "C11": "R11.24"} {
		addRules(prop, rEveryCommandDescends(id))
	}
	addRules("C03", func(w *World, r *Report) {
		subRule(w, r, rC02Lookahead, "R03.23", "a value list ends where the next option begins: what follows is interpreted, not swallowed (same obligations as C02 R02.2)", 3)
	}, func(w *World, r *Report) {
		subRule(w, r, rC08Policy, "R03.24", "an unknown option is reported or passed on, never dropped: no success return of Parse bypasses the policy loop (same obligations as C08 R08.2)", 3)
	})
	addRules("C09", rSplitterRejects("R09.15"))
	addRules("C10", func(w *World, r *Report) {
		subRule(w, r, rC01TypedStore, "R10.20", "the values the command function sees are the values typed: decimal conversion, nothing stored on the error path (same obligations as C01 R01.4)", 8)
	})
	addRules("C11", func(w *World, r *Report) {
		subRule(w, r, rC07ModeFlow, "R11.23", "`--hel` is a help request in every mode: the mode reaches only the tokeniser, never the matcher (same obligations as C07 R07.1)", 4)
	})
	addRules("C16", func(w *World, r *Report) {
		subRule(w, r, rC13RetriesPerVertex, "R16.25", "declaring a retry budget declares the task: TaskRetries registers the vertex and stores the count whatever its value (same obligations as C13 R13.9)", 2)
	})
}

// ------------------------------------------------------------------ round 13

// rMatcherScansAll (R05.19 / R06.22 / R20.12): the matcher's prefix scan judges a name by the prefix test alone: inside
// its loop over the option table the only conditions are calls of strings.HasPrefix / CutPrefix on the key. A filter
// borrowed from the completion code (`if v.Called { continue }`) makes what an abbreviation resolves to depend on
// what was given before it.
func rMatcherScansAll(id string) func(w *World, r *Report) {
	return func(w *World, r *Report) {
		ru := r.Rule(id, "what an abbreviation matches depends on the declared names alone: in the matcher's scan over the option table the only test is the prefix test on the key", 1)
		fn := w.Fn(nMatcher)
		if fn == nil {
			ru.Undecided("anchor", "-", "matcher not found")
			return
		}
		n := 0
		for _, h := range loopHeaders(fn) {
			isScan := false
			for _, in := range h.Instrs {
				if nx, ok := in.(*ssa.Next); ok {
					if rg, ok := nx.Iter.(*ssa.Range); ok {
						if _, isCO := loadOfFieldNamed(rg.X, "ChildOptions"); isCO {
							isScan = true
						}
					}
				}
			}
			if !isScan {
				continue
			}
			n++
			bad := ""
			for b := range naturalLoop(h) {
				if b == h || len(b.Instrs) == 0 {
					continue
				}
				iff, ok := b.Instrs[len(b.Instrs)-1].(*ssa.If)
				if !ok {
					continue
				}
				okCond := false
				for _, f := range condFactsRaw(iff.Cond, true, iff) {
					v := f.X
					if ex, isEx := v.(*ssa.Extract); isEx {
						v = ex.Tuple
					}
					if c, isCall := v.(*ssa.Call); isCall {
						switch calleeName(c) {
						case "strings.HasPrefix", "strings.CutPrefix":
							okCond = true
						}
					}
					// key == entry: the exact test written inside the scan
					if f.Y != nil && f.Op == token.EQL {
						okCond = true
					}
				}
				if !okCond {
					bad = w.IPos(iff)
				}
			}
			ru.Check(bad == "", "scan/only-prefix-test", w.IPos(h.Instrs[0]), "every name is judged by the prefix test alone", "the matcher's scan skips names under a further condition (at "+bad+"): whether a prefix is unique, ambiguous or unknown then depends on more than the declared names (on what was called before, say)")
		}
		if n == 0 {
			ru.Present("scan/only-prefix-test", w.Pos(fn.Pos()), "no scan over the option table (names are looked up otherwise)")
		}
	}
}

// rOneTaskPerID (R15.14): TaskMap.Add hands back the very Task it stores: one NewTask call, its result both stored
// and returned. Two calls give the map and the caller two Tasks - two locks - for one ID.
func rOneTaskPerID(id string) func(w *World, r *Report) {
	return func(w *World, r *Report) {
		ru := r.Rule(id, "one Task per ID: TaskMap.Add builds the Task once and stores the value it returns", 1)
		fn := w.Fn("(*dag.TaskMap).Add")
		if fn == nil {
			ru.Undecided("anchor", "-", "TaskMap.Add not found")
			return
		}
		news := callsTo(fn, "dag.NewTask")
		if len(news) != 1 {
			ru.Bad("TaskMap.Add/one-task", w.Pos(fn.Pos()), fmt.Sprintf("%d NewTask calls in TaskMap.Add: the Task kept in the map and the Task handed to the caller are different values (each with its own lock)", len(news)))
			return
		}
		nt := news[0].Value()
		stored, returned := false, false
		eachInstr(fn, func(in ssa.Instruction) {
			switch x := in.(type) {
			case *ssa.MapUpdate:
				if x.Value == ssa.Value(nt) {
					stored = true
				}
			case *ssa.Return:
				for _, r := range x.Results {
					if r == ssa.Value(nt) {
						returned = true
					}
				}
			}
		})
		ru.Check(stored && returned, "TaskMap.Add/one-task", w.IPos(news[0]), "the Task built is the one stored and returned", "TaskMap.Add does not store and return the same Task value")
	}
}

// rSortStateOnce (R16.26): the visit marks of a sort are shared by all its roots: the map (and the result list) that
// DepthFirstSort hands to visit are created before its loop over the vertices, not inside it. A map re-created per root
// forgets what earlier roots traversed: vertices are listed once per root that reaches them.
func rSortStateOnce(id string) func(w *World, r *Report) {
	return func(w *World, r *Report) {
		ru := r.Rule(id, "every vertex is sorted once: the visit-status map and the result list of DepthFirstSort are created outside its loop over the vertices", 1)
		fn := w.Fn("(*dag.Graph).DepthFirstSort")
		if fn == nil {
			ru.Undecided("anchor", "-", "DepthFirstSort not found")
			return
		}
		n := 0
		eachInstr(fn, func(in ssa.Instruction) {
			mm, ok := in.(*ssa.MakeMap)
			if !ok {
				return
			}
			n++
			ru.Check(!blockInCycle(mm.Block()), "sort/state-once", w.IPos(mm), "created once per sort", "a map of visit marks is created inside the loop over the vertices: each root starts with a clean slate and vertices reached from several roots are listed several times")
		})
		if n == 0 {
			ru.Bad("sort/state-once", w.Pos(fn.Pos()), "DepthFirstSort creates no visit-status map")
		}
	}
}

// rDashNotOffered (R17.20): the lonesome dash is offered as itself or not at all: in the completion loop over the
// option names, from the `name == "-"` edge no candidate built from "--" is reachable before the next name.
func rDashNotOffered(id string) func(w *World, r *Report) {
	return func(w *World, r *Report) {
		ru := r.Rule(id, "`---` is never a candidate: in the completion loop over the option names, behind `name == \"-\"` nothing reaches the `--name` candidates before the next name is taken", 1)
		m := parserOrFail(w, ru)
		if m == nil {
			return
		}
		n := 0
		for _, b := range m.fn.Blocks {
			if len(b.Instrs) == 0 {
				continue
			}
			iff, ok := b.Instrs[len(b.Instrs)-1].(*ssa.If)
			if !ok || !m.inCompletionOnly(b) {
				continue
			}
			k := -1
			for _, f := range condFactsRaw(iff.Cond, true, iff) {
				if f.Y == nil || (f.Op != token.EQL && f.Op != token.NEQ) {
					continue
				}
				x, y := f.X, f.Y
				if _, isC := constString(x); isC {
					x, y = y, x
				}
				if c, ok := constString(y); ok && c == "-" {
					if _, isIter := x.(*ssa.Call); isIter {
						continue // the typed word compared with "-", not a name
					}
					k = 0
					if f.Op == token.NEQ {
						k = 1
					}
				}
			}
			if k < 0 {
				continue
			}
			// the enclosing loop
			var hdr *ssa.BasicBlock
			for _, h := range loopHeaders(m.fn) {
				if naturalLoop(h)[b] && (hdr == nil || naturalLoop(hdr)[h]) {
					hdr = h
				}
			}
			if hdr == nil {
				continue
			}
			n++
			seen := m.ig.reachFromE(m.ig.edgeStart(b, k), func(in ssa.Instruction) bool { return in == hdr.Instrs[0] }, nil)
			bad := ""
			for i, sn := range seen {
				if !sn {
					continue
				}
				if bo, ok := m.ig.instrs[i].(*ssa.BinOp); ok && bo.Op == token.ADD {
					if c, ok := constString(bo.X); ok && c == "--" {
						bad = w.IPos(bo)
					}
				}
				if c, ok := m.ig.instrs[i].(*ssa.Call); ok && calleeName(c) == "fmt.Sprintf" {
					if f, ok := constString(c.Call.Args[0]); ok && strings.HasPrefix(f, "--") {
						bad = w.IPos(c)
					}
				}
			}
			ru.Check(bad == "", "completion/dash", w.IPos(iff), "the dash never reaches the `--name` candidates", "behind `name == \"-\"` the completion loop goes on to build a `--name` candidate (at "+bad+"): a level that declares `-` offers `---`, which the parser rejects")
		}
		if n == 0 {
			ru.Present("completion/dash", w.Pos(m.fn.Pos()), "the completion loop has no special case for the lonesome dash")
		}
	}
}

// rHelpNodeParent (R11.25 / R18.22): the help command answers for the level it is attached to: the node that
// HelpCommand's walker creates has the walked node as its Parent (runHelp prints the help of Parent and looks topics
// up in Parent's commands).
func rHelpNodeParent(id string) func(w *World, r *Report) {
	return func(w *World, r *Report) {
		ru := r.Rule(id, "`<cmd> help` prints <cmd>'s help: the help node created for a level has that level's node as its Parent (and is attached to that node)", 1)
		n := 0
		for _, fn := range w.Funcs {
			if !strings.HasPrefix(short(fn), "(*getoptions.GetOpt).HelpCommand$") || len(fn.Params) == 0 {
				continue
			}
			var walked ssa.Value
			for _, p := range fn.Params {
				if isTreePtr(p.Type()) {
					walked = p
				}
			}
			if walked == nil {
				continue
			}
			eachInstr(fn, func(in ssa.Instruction) {
				base, f, v, ok := storeField(in)
				if !ok || f.Name() != "Parent" {
					return
				}
				if _, fresh := rootOfAddr(base).(*ssa.Alloc); !fresh {
					return
				}
				n++
				ru.Check(sameVal(v, walked), "help-node/parent", w.IPos(in), "Parent = the node the walker was called on", "the help node of a level is given another node as its Parent (the root's, say): below the root `<cmd> help` prints the wrong level's help and `<cmd> help <topic>` does not find <cmd>'s commands")
			})
		}
		if n == 0 {
			ru.Undecided("help-node/parent", "-", "no help node literal found in HelpCommand's walker")
		}
	}
}

func init() {
	for prop, id := range map[string]string{"C05": "R05.19", "C06": "R06.22", "C20": "R20.12"} {
		addRules(prop, rMatcherScansAll(id))
	}
	addRules("C15", rOneTaskPerID("R15.14"))
	addRules("C16", rSortStateOnce("R16.26"))
	addRules("C17", rDashNotOffered("R17.20"))
	addRules("C11", rHelpNodeParent("R11.25"))
	addRules("C18", rHelpNodeParent("R18.22"))
	addRules("C10", func(w *World, r *Report) {
		subRule(w, r, rC04Lookahead, "R10.22", "nothing behind `--` selects a command: the value look-ahead refuses the terminator, so no option swallows it and lets the parse run on (same obligations as C04 R04.3)", 2)
	})
	addRules("C14", func(w *World, r *Report) {
		subRule(w, r, rC16InsertOnly, "R14.16", "a task keeps its dependencies when it is added again: the vertex table is insert-only (same obligations as C16 R16.2)", 1)
	})
}

func init() {
	addRules("C02", rRegexChoice("R02.23"))
	addRules("C03", rRegexChoice("R03.25"))
}

// ------------------------------------------------------------------ round 14

func init() {
	for prop, id := range map[string]string{"C01": "R01.28", "C02": "R02.24", "C04": "R04.17"} {
		id := id
		addRules(prop, func(w *World, r *Report) {
			subRule(w, r, rC03Iterator, id, "the parser is handed every token, as typed, and knows where the list ends: the argument iterator returns elements verbatim and judges positions by idx and len alone (same obligations as C03 R03.6)", 5)
		})
	}
}

// rUnboundedByDefault (R14.17 / R15.15): a graph that was given no limit starts every ready task at once: the default
// NewGraph stores in maxParallel is a constant of at least the reference's 1_000_000. A small default makes the surplus
// goroutines of a big graph wait for a slot - and start their tasks after Run has seen a cancellation or a failure.
func rUnboundedByDefault(id string) func(w *World, r *Report) {
	return func(w *World, r *Report) {
		ru := r.Rule(id, "no hidden limit: NewGraph initialises maxParallel with a constant >= 1_000_000 (tasks that are ready are started, not queued behind a default bound)", 1)
		fn := w.Fn("dag.NewGraph")
		if fn == nil {
			ru.Undecided("anchor", "-", "NewGraph not found")
			return
		}
		n := 0
		eachInstr(fn, func(in ssa.Instruction) {
			if _, f, v, ok := storeField(in); ok && f.Name() == "maxParallel" {
				n++
				k, isC := constInt(v)
				ru.Check(isC && k >= 1000000, "NewGraph/maxParallel", w.IPos(in), "effectively unbounded", "NewGraph bounds the parallelism of a graph that asked for no bound: ready tasks queue behind the default and are started late (after a cancellation or a failure was observed)")
			}
		})
		if n == 0 {
			ru.Bad("NewGraph/maxParallel", w.Pos(fn.Pos()), "NewGraph does not initialise maxParallel: a zero capacity makes every task goroutine block for ever")
		}
	}
}

func init() {
	addRules("C14", rUnboundedByDefault("R14.17"))
	addRules("C15", rUnboundedByDefault("R15.15"))
	addRules("C03", func(w *World, r *Report) {
		subRule(w, r, rC04OptionalMin, "R03.26", "how many tokens an option takes is fixed by its kind: option.New gives every kind one value (mandatory or optional) or none (same obligations as C04 R04.5)", 3)
	})
	addRules("C07", func(w *World, r *Report) {
		subRule(w, r, rC04OptionalMin, "R07.18", "a flag never reaches for the next token, bundled or not: option.New gives flags the bounds (0,0) (same obligations as C04 R04.5)", 3)
	})
	addRules("C05", func(w *World, r *Report) {
		subRule(w, r, rC06Definers, "R05.20", "what is declared is registered: every definer (and its value-returning wrapper) hands the modifiers on, so declared aliases exist (same obligations as C06 R06.5)", 24)
	})
	addRules("C08", rC19NilMaps)
	addRules("C13", func(w *World, r *Report) {
		subRule(w, r, rC16InsertOnly, "R13.15", "a task keeps its dependencies when it is added again: the vertex table is insert-only (same obligations as C16 R16.2)", 1)
	})
	addRules("C02", rFieldWriters("R02.25", "option", "Option", "ValidValues",
		"the set of accepted values is declared by the ValidValues modifier only (a suggestion never restricts what the program reads)",
		"(*getoptions.GetOpt).ValidValues$"))
}

func init() {
	addRules("C07", rArgCountWriters("R07.19"))
	addRules("C10", func(w *World, r *Report) {
		subRule(w, r, rC11CheckRequired, "R10.23", "a command whose required options were given is run: CheckRequired reports an error exactly for a required option that was not supplied (same obligations as C11 R11.6)", 4)
	}, func(w *World, r *Report) {
		subRule(w, r, rC06Definers, "R10.24", "the command function sees the declared default of an option that was not given: every definer stores it through the pointer (same obligations as C06 R06.5)", 24)
	})
}

// rSynopsisArgIndex (R19.11): the helper a command function calls for its positional arguments names the missing one
// without panicking: every index into programTree.SynopsisArgs by SynopsisArgsIdx is dominated by
// len(SynopsisArgs) > SynopsisArgsIdx (the counter only grows from 0, and no write of it lies between the test and
// the index). `len(SynopsisArgs) > 0` is not enough once a command asks for more arguments than it declared.
func rSynopsisArgIndex(id string) func(w *World, r *Report) {
	return func(w *World, r *Report) {
		ru := r.Rule(id, "GetRequiredArg never indexes past the declared argument names: SynopsisArgs[SynopsisArgsIdx] only under len(SynopsisArgs) > SynopsisArgsIdx", 1)
		n := 0
		for _, fn := range w.Funcs {
			if w.PkgOfFn(fn) == nil {
				continue
			}
			var ig *IG
			eachInstr(fn, func(in ssa.Instruction) {
				ia, ok := in.(*ssa.IndexAddr)
				if !ok {
					return
				}
				if _, isSA := loadOfFieldNamed(ia.X, "SynopsisArgs"); !isSA {
					return
				}
				if _, isIdx := loadOfFieldNamed(ia.Index, "SynopsisArgsIdx"); !isIdx {
					return // a range loop or a constant: judged by the general panic obligations when reachable
				}
				n++
				good := false
				for _, f := range factsAt(ia.Block()) {
					if f.Y == nil {
						continue
					}
					x, y, op := f.X, f.Y, f.Op
					if op == token.LSS {
						x, y, op = y, x, token.GTR
					}
					if op != token.GTR {
						continue
					}
					c, ok := lenOf(x)
					if !ok {
						continue
					}
					_, a := loadOfFieldNamed(c, "SynopsisArgs")
					_, b := loadOfFieldNamed(y, "SynopsisArgsIdx")
					if a && b {
						good = true
					}
				}
				// no write of the counter between the test and the index
				if good {
					if ig == nil {
						ig = buildIG(fn)
					}
					eachInstr(fn, func(i2 ssa.Instruction) {
						if _, f, _, ok := storeField(i2); ok && f.Name() == "SynopsisArgsIdx" {
							if ig.reachPlain(ig.after(i2), nil)[ig.idx[in]] {
								good = false
							}
						}
					})
				}
				ru.Check(good, "SynopsisArgs/index/"+short(fn), w.IPos(ia), "indexed under len > idx", "SynopsisArgs is indexed by the argument counter without `len(SynopsisArgs) > SynopsisArgsIdx`: a command that asks for more required arguments than it named panics with index out of range when the command line runs short")
			})
		}
		if n == 0 {
			ru.Present("SynopsisArgs/index", "-", "SynopsisArgs is never indexed by the argument counter")
		}
	}
}

func init() { addRules("C19", rSynopsisArgIndex("R19.11")) }

func init() {
	addRules("C09", func(w *World, r *Report) {
		subRule(w, r, rC10CopyOptions, "R09.16", "what follows `help` under require-order is handed back untouched: the help command never receives the level's options (same obligations as C10 R10.5)", 3)
	})
}

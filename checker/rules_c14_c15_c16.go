package main

// C14 - failures, skips, cancellation.  C15 - concurrency bound, serial, shared tasks, buffered output.  C16 - Run finishes, cycles.

import (
	"fmt"
	"go/token"
	"go/types"
	"strings"

	"golang.org/x/tools/go/ssa"
)

func init() {
	register("C14", "other", []string{
		"decides: the goroutine that runs Task.Fn is launched only on the error-list-empty edge; the cancellation arm appends to that list on its first observation; the completion arm appends an error wrapping (%w) the task's error unless it is ErrorSkipParents, in which case every (transitive) parent is marked skip; the gated branch reports ErrorTaskSkipped, the skip branch reports nil; Run returns the error list iff it is non-empty",
		"'in-flight tasks are allowed to finish' is a liveness clause and is not decided",
	}, rC14Gate, rC14Completion, rC14Branches, rC14Result, func(w *World, r *Report) {
		subRule(w, r, rC16Edges, "R14.5", "skip propagation walks Parents while readiness walks Children: both lists are recorded symmetrically (same obligations as C16 R16.6)", 2)
	}, func(w *World, r *Report) {
		subRule(w, r, rC13Completion, "R14.6", "the error that reaches the scheduler is the task's last result (same obligations as C13 R13.5)", 4)
	}, func(w *World, r *Report) { subRule(w, r, rC13RetryLoop, "R14.7", "same obligations as C13 R13.4", 3) })
	register("C15", "other", []string{
		"decides: the semaphore is made with capacity maxParallel (only set to positive values), acquired before Task.Fn and released only in a deferred function; the per-Task mutex is taken before Fn and released by defer; every use of the output writer is inside a bufferMutex critical section; in serial mode nothing is offered while any vertex is in progress",
		"the bound itself follows from channel semantics (trusted)",
	}, rC15Semaphore, rC15TaskLock, rC15Buffer, rC15Serial)
	register("C16", "other", []string{
		"decides: the cycle check dominates the scheduler loop; the vertex table is insert-only (edges keep pointing at live vertices); no completion is lost (C13 R13.5); all-done is declared exactly when every vertex is counted done; every accepted offer launches a goroutine; edges are recorded symmetrically; the depth-first sort has the three-colour shape (cycle ⇒ ErrorGraphHasCycle, post-order append, every vertex visited)",
		"termination and work conservation as liveness properties are not decided, only these necessary conditions",
	}, rC16CycleCheck, rC16InsertOnly, func(w *World, r *Report) {
		subRule(w, r, rC13Completion, "R16.3", "no completion is lost (same obligations as C13 R13.5)", 4)
	}, rC16AllDone, rC16Launch, rC16Edges, rC16DFS, func(w *World, r *Report) {
		subRule(w, r, rC15Semaphore, "R16.8", "capacity is returned: one acquire per goroutine, released on exit (same obligations as C15 R15.1)", 5)
	})
}

// subRule re-runs another rule function and files its obligations under a new id.
func subRule(w *World, r *Report, f func(*World, *Report), id, text string, floor int) {
	sub := NewReport(r.Prop)
	f(w, sub)
	ru := r.Rule(id, text, floor)
	for _, o := range sub.Obls {
		ru.add(o.Status, o.Key, o.Pos, o.Detail, o.NonTrivial)
	}
}

// errListLen: v is len(g.errs.Errors).
func isErrListLen(v ssa.Value) bool {
	c, ok := v.(*ssa.Call)
	if !ok || calleeName(c) != "builtin:len" {
		return false
	}
	b, ok := loadOfFieldNamed(c.Call.Args[0], "Errors")
	if !ok {
		return false
	}
	_, ok = loadOfFieldNamed(b, "errs")
	return ok
}

// isErrListAppend: in stores append(load errs.Errors, x) into errs.Errors; returns the appended values.
func isErrListAppend(in ssa.Instruction) ([]ssa.Value, bool) {
	base, f, val, ok := storeField(in)
	if !ok || f.Name() != "Errors" {
		return nil, false
	}
	if _, ok := loadOfFieldNamed(base, "errs"); !ok {
		return nil, false
	}
	c, ok := val.(*ssa.Call)
	if !ok || calleeName(c) != "builtin:append" || len(c.Call.Args) != 2 {
		return nil, false
	}
	els, _, _ := elementsOf(c.Call.Args[1], map[ssa.Value]bool{})
	return els, true
}

// taskGo returns the go statement of Run that launches the goroutine calling Task.Fn.
func taskGo(w *World, run *ssa.Function) (*ssa.Go, *ssa.Function) {
	calls := taskFnCalls(w)
	if len(calls) != 1 {
		return nil, nil
	}
	target := calls[0].Parent()
	var out *ssa.Go
	eachInstr(run, func(in ssa.Instruction) {
		if g, ok := in.(*ssa.Go); ok {
			switch v := g.Call.Value.(type) {
			case *ssa.Function:
				if v == target {
					out = g
				}
			case *ssa.MakeClosure:
				if v.Fn == ssa.Value(target) {
					out = g
				}
			}
		}
	})
	return out, target
}

func rC14Gate(w *World, r *Report) {
	ru := r.Rule("R14.1", "the `go` that runs Task.Fn is dominated by the edge len(g.errs.Errors) == 0; the arm that observes ctx.Done() appends to that list the first time (so the gate is closed from then on); inside Run only the task-error arm and the cancellation arm append to the list", 4)
	run := w.Fn(nRun)
	if run == nil {
		ru.Undecided("anchor", "-", "Run not found")
		return
	}
	g, _ := taskGo(w, run)
	if g == nil {
		ru.Undecided("task-go", w.Pos(run.Pos()), "the go statement launching the task goroutine was not found")
		return
	}
	gated := false
	for _, f := range factsAt(g.Block()) {
		if f.Y == nil || !isErrListLen(f.X) {
			continue
		}
		k, _ := constInt(f.Y)
		if (f.Op == token.EQL && k == 0) || (f.Op == token.LSS && k == 1) || (f.Op == token.LEQ && k == 0) {
			gated = true
		}
	}
	ru.Check(gated, "launch/error-gate", w.IPos(g), "tasks are launched only while no error has been recorded", "a task can be launched after an error was recorded or cancellation was observed: dependents of a failed task would start")
	// cancellation arm
	var doneSel *ssa.Select
	eachInstr(run, func(in ssa.Instruction) {
		if sel, ok := in.(*ssa.Select); ok && len(sel.States) == 1 {
			if c, ok := sel.States[0].Chan.(*ssa.Call); ok && c.Call.IsInvoke() && c.Call.Method.Name() == "Done" {
				doneSel = sel
			}
		}
	})
	if doneSel == nil {
		ru.Bad("cancellation/poll", w.Pos(run.Pos()), "the scheduler loop does not poll ctx.Done()")
	} else {
		// the poll must be inside the loop, before the launch in every iteration
		ig := buildIG(run)
		var call ssa.Instruction
		for _, c := range callsTo(run, nGetNext) {
			call = c
		}
		if call != nil {
			ok, _ := ig.mustPass(ig.after(call), func(in ssa.Instruction) bool { return in == ssa.Instruction(doneSel) }, func(in ssa.Instruction) bool { return in == ssa.Instruction(g) })
			ru.Check(ok, "cancellation/poll-before-launch", w.IPos(doneSel), "ctx.Done() is polled between the offer and the launch", "a task can be launched without the context being polled in that round")
		}
		// on the received edge, with the handled flag false, the list is appended to
		var recvIf *ssa.If
		for _, ref := range *doneSel.Referrers() {
			if ex, ok := ref.(*ssa.Extract); ok && ex.Index == 0 {
				for _, r2 := range *ex.Referrers() {
					if bo, ok := r2.(*ssa.BinOp); ok {
						for _, r3 := range *bo.Referrers() {
							if iff, ok := r3.(*ssa.If); ok {
								recvIf = iff
							}
						}
					}
				}
			}
		}
		if recvIf == nil {
			ru.Bad("cancellation/arm", w.IPos(doneSel), "the result of the ctx.Done() poll is not tested")
		} else {
			appended := false
			notAppendedPath := false
			// flags false on entry: the first observation
			env := boolEnv{}
			for _, b := range run.Blocks {
				for _, in := range b.Instrs {
					if phi, ok := in.(*ssa.Phi); ok && isBoolType(phi.Type()) {
						env[phi] = 1
					}
				}
			}
			sawAppend := map[string]bool{}
			pe := &pathExplorer{stopBlock: func(b *ssa.BasicBlock) bool {
				return b == g.Block() || b == doneSel.Block() || b.Comment == "for.body" && b.Dominates(doneSel.Block())
			},
				onInstr: func(in ssa.Instruction, e boolEnv) {
					if _, ok := isErrListAppend(in); ok {
						appended = true
						sawAppend[e.key()] = true
					}
				},
				onArrive: func(_, _ *ssa.BasicBlock, _ int, e boolEnv) {},
			}
			pe.startEdge(recvIf.Block(), 0, env)
			_ = notAppendedPath
			// every path on the first observation passes the append: must-pass check on the instruction graph with the flag edge pruned
			seen := ig.reachPS(ig.edgeStart(recvIf.Block(), 0), func(in ssa.Instruction) bool {
				_, ok := isErrListAppend(in)
				return ok
			}, func(term ssa.Instruction, k int, e boolEnv) bool { return true })
			_ = seen
			// simpler: with all boolean flags false, no path from the received edge reaches the launch block or the loop head without an append
			reachedWithout := false
			pe2 := &pathExplorer{stopBlock: func(b *ssa.BasicBlock) bool {
				return b == g.Block() || (b.Dominates(doneSel.Block()) && b != recvIf.Block() && blockInCycle(b) && b.Comment == "for.body")
			},
				onArrive: func(_, _ *ssa.BasicBlock, _ int, e boolEnv) { reachedWithout = true }}
			pe2.onInstr = func(in ssa.Instruction, e boolEnv) {}
			// emulate "stop at append" by pruning: run explorer but treat blocks containing an append as stop blocks that do not count
			pe2.stopBlock = func(b *ssa.BasicBlock) bool {
				for _, in := range b.Instrs {
					if _, ok := isErrListAppend(in); ok {
						return true
					}
				}
				return b == g.Block() || b == doneSel.Block()
			}
			pe2.onArrive = func(_, to *ssa.BasicBlock, _ int, e boolEnv) {
				for _, in := range to.Instrs {
					if _, ok := isErrListAppend(in); ok {
						return
					}
				}
				reachedWithout = true
			}
			pe2.startEdge(recvIf.Block(), 0, env)
			if appended && !reachedWithout {
				ru.OK("cancellation/closes-gate", w.IPos(recvIf), "first observation of ctx.Done() appends to the error list")
			} else {
				ru.Bad("cancellation/closes-gate", w.IPos(recvIf), "observing cancellation does not (always) record an error: further tasks would be launched and Run could return nil")
			}
		}
	}
	// writers of the list inside Run
	n := 0
	eachInstr(run, func(in ssa.Instruction) {
		if _, ok := isErrListAppend(in); ok {
			n++
		}
	})
	// every write of the list inside Run (and its goroutines) is such an append: the list never shrinks
	for _, f2 := range funcsWithAnon(run) {
		eachInstr(f2, func(in ssa.Instruction) {
			if _, f, _, ok := storeField(in); ok && f.Name() == "Errors" {
				if _, isApp := isErrListAppend(in); !isApp {
					ru.Bad("error-list/non-append-write", w.IPos(in), "the error list is overwritten or truncated during Run: the launch gate could re-open after a failure or cancellation")
				}
			}
			if _, f, _, ok := storeField(in); ok && f.Name() == "errs" {
				ru.Bad("error-list/replaced", w.IPos(in), "the error list object is replaced during Run")
			}
		})
	}
	ru.Check(n == 2, "error-list/appends-in-Run", w.Pos(run.Pos()), "two append sites: task error and cancellation", fmt.Sprintf("%d append sites to the error list in Run, expected the task-error arm and the cancellation arm", n))
}

func rC14Completion(w *World, r *Report) {
	ru := r.Rule("R14.2", "completion arm: a non-nil error that is not ErrorSkipParents appends an error wrapping it with %w; ErrorSkipParents calls skipParents on the completed vertex, which marks every parent runSkip and recurses on it", 4)
	run := w.Fn(nRun)
	if run == nil {
		ru.Undecided("anchor", "-", "Run not found")
		return
	}
	st := enumConsts(w, "dag", "runStatus")
	// the errors.Is(msg.Error, ErrorSkipParents) test
	var isIf *ssa.If
	for _, b := range run.Blocks {
		if iff, ok := b.Instrs[len(b.Instrs)-1].(*ssa.If); ok {
			c := iff.Cond
			if u, ok := c.(*ssa.UnOp); ok && u.Op == token.NOT {
				c = u.X
			}
			if call, ok := c.(*ssa.Call); ok && calleeName(call) == "errors.Is" && isLoadOfGlobal(call.Call.Args[1], "dag.ErrorSkipParents") {
				isIf = iff
			}
		}
	}
	if isIf == nil {
		ru.Bad("skip-test", w.Pos(run.Pos()), "the completion arm does not distinguish ErrorSkipParents")
		return
	}
	skipK := 0
	if u, ok := isIf.Cond.(*ssa.UnOp); ok && u.Op == token.NOT {
		skipK = 1
	}
	// dominated by Error != nil
	nonNil := false
	for _, f := range factsAt(isIf.Block()) {
		if f.Op == token.NEQ && f.Y != nil && isNilConst(f.Y) {
			if _, ok := loadOfFieldNamed(f.X, "Error"); ok {
				nonNil = true
			}
		}
	}
	ru.Check(nonNil, "error-arm/non-nil", w.IPos(isIf), "only for a non-nil task error", "the error arm is not confined to non-nil errors")
	ig := buildIG(run)
	for _, b := range run.Blocks {
		iff, ok := b.Instrs[len(b.Instrs)-1].(*ssa.If)
		if !ok {
			continue
		}
		for k := 0; k < 2; k++ {
			for _, f := range condFacts(iff.Cond, k == 0, iff) {
				if f.Op == token.NEQ && f.Y != nil && isNilConst(f.Y) {
					if _, ok := loadOfFieldNamed(f.X, "Error"); ok {
						okAll, wit := ig.mustPass(ig.edgeStart(b, k), func(in ssa.Instruction) bool {
							if _, ok := isErrListAppend(in); ok {
								return true
							}
							c, ok := in.(*ssa.Call)
							return ok && calleeName(c) == nSkipPar
						}, func(in ssa.Instruction) bool { return in.Block().Comment == "for.body" && in == in.Block().Instrs[0] })
						if okAll {
							ru.OK("error-arm/every-error-handled", w.IPos(iff), "every non-nil task error is either recorded or is the ErrorSkipParents signal")
						} else {
							ru.Bad("error-arm/every-error-handled", w.IPos(wit), "some non-nil task errors are neither recorded nor treated as ErrorSkipParents: the failure is lost, dependents start and Run can return nil")
						}
					}
				}
			}
		}
	}
	// error edge: append wrapping
	seenErr := ig.reachFrom(ig.edgeStart(isIf.Block(), 1-skipK), func(in ssa.Instruction) bool { return in.Block().Comment == "for.body" && in == in.Block().Instrs[0] })
	wrapped := false
	for i, s := range seenErr {
		if !s {
			continue
		}
		if els, ok := isErrListAppend(ig.instrs[i]); ok {
			for _, e := range els {
				if c, ok := e.(*ssa.Call); ok && calleeName(c) == "fmt.Errorf" {
					if f, ok := constString(c.Call.Args[0]); ok && strings.Contains(f, "%w") {
						args, _, _ := elementsOf(c.Call.Args[1], map[ssa.Value]bool{})
						for _, a := range args {
							if ci, ok := a.(*ssa.ChangeInterface); ok {
								a = ci.X
							}
							if mi, ok := a.(*ssa.MakeInterface); ok {
								a = mi.X
							}
							if _, ok := loadOfFieldNamed(a, "Error"); ok {
								wrapped = true
							}
						}
					}
				}
			}
		}
	}
	ru.Check(wrapped, "error-arm/wrapped-append", w.IPos(isIf), "appends fmt.Errorf(\"…%w\", …, msg.Error)", "a failed task's error is not recorded wrapping the original (errors.Is/As on Run's result would fail)")
	// every path on the error edge appends
	okAll, _ := ig.mustPass(ig.edgeStart(isIf.Block(), 1-skipK), func(in ssa.Instruction) bool { _, ok := isErrListAppend(in); return ok }, func(in ssa.Instruction) bool {
		return in.Block().Comment == "for.body" && in == in.Block().Instrs[0]
	})
	ru.Check(okAll, "error-arm/always", w.IPos(isIf), "every path records the error", "a task error can be dropped")
	// skip edge: skipParents(g.Vertices[msg.ID])
	okSkip, _ := ig.mustPass(ig.edgeStart(isIf.Block(), skipK), func(in ssa.Instruction) bool {
		c, ok := in.(*ssa.Call)
		if !ok || calleeName(c) != nSkipPar {
			return false
		}
		lk, ok := c.Call.Args[0].(*ssa.Lookup)
		if !ok {
			return false
		}
		_, ok = loadOfFieldNamed(lk.X, "Vertices")
		return ok
	}, func(in ssa.Instruction) bool { return in.Block().Comment == "for.body" && in == in.Block().Instrs[0] })
	ru.Check(okSkip, "skip-arm/propagates", w.IPos(isIf), "skipParents(completed vertex)", "ErrorSkipParents does not mark the dependents as skipped")
	// and does not append
	seenSkip := ig.reachFrom(ig.edgeStart(isIf.Block(), skipK), func(in ssa.Instruction) bool { return in.Block().Comment == "for.body" && in == in.Block().Instrs[0] })
	app := false
	for i, s := range seenSkip {
		if _, ok := isErrListAppend(ig.instrs[i]); ok && s {
			app = true
		}
	}
	ru.Check(!app, "skip-arm/no-failure", w.IPos(isIf), "ErrorSkipParents alone does not make Run fail", "ErrorSkipParents is recorded as a failure")
	// skipParents body
	sp := w.Fn(nSkipPar)
	if sp == nil {
		ru.Undecided("skipParents", "-", "not found")
		return
	}
	var hdr *ssa.BasicBlock
	for _, h := range loopHeaders(sp) {
		if coll := rangeCollectionOfHeader(h); coll != nil {
			if b, ok := loadOfFieldNamed(coll, "Parents"); ok && b == ssa.Value(sp.Params[0]) {
				hdr = h
			}
		}
	}
	if hdr == nil {
		if why := skipParentsWorklist(sp, st["runSkip"]); why == "" {
			ru.OK("skipParents/mark-and-recurse", w.Pos(sp.Pos()), "work list: every parent of every dequeued vertex is marked runSkip and queued (once)")
		} else {
			ru.Bad("skipParents/loop", w.Pos(sp.Pos()), "does not range over all parents of the vertex"+why)
		}
		return
	}
	elem := rangeElem(hdr)
	igs := buildIG(sp)
	isMark := func(in ssa.Instruction) bool {
		base, f, v, ok := storeField(in)
		k, _ := constInt(v)
		return ok && f.Name() == "status" && base == elem && k == st["runSkip"]
	}
	isRec := func(in ssa.Instruction) bool {
		c, ok := in.(*ssa.Call)
		return ok && calleeName(c) == nSkipPar && c.Call.Args[0] == elem
	}
	isHead := func(in ssa.Instruction) bool { return in.Block() == hdr && in == hdr.Instrs[0] }
	ok1, _ := igs.mustPass(igs.edgeStart(hdr, 0), isMark, isHead)
	ok2, _ := igs.mustPass(igs.edgeStart(hdr, 0), isRec, isHead)
	for lb := range naturalLoop(hdr) {
		for _, li := range lb.Instrs {
			if _, isRet := li.(*ssa.Return); isRet {
				ok1 = false
			}
		}
		for _, sc := range lb.Succs {
			if !naturalLoop(hdr)[sc] && lb != hdr {
				ok1 = false
			}
		}
	}
	ru.Check(ok1 && ok2, "skipParents/mark-and-recurse", w.Pos(sp.Pos()), "every parent: status = runSkip; skipParents(parent)", "skip propagation does not reach every transitive dependent")
}

// skipParentsWorklist recognises the iterative form of skipParents: a queue that starts with the vertex, a loop that
// takes queue[0] off the front while the queue is not empty, and inside it a range over the Parents of that element in
// which every parent is marked runSkip and appended to the queue - unless a `seen` table says it was queued before -
// and which is left only when the parents are exhausted. Returns "" when recognised, else the reason (prefixed).
func skipParentsWorklist(sp *ssa.Function, runSkip int64) string {
	if len(sp.Params) != 1 {
		return " (unexpected signature)"
	}
	v := sp.Params[0]
	for _, h2 := range loopHeaders(sp) {
		coll := rangeCollectionOfHeader(h2)
		if coll == nil {
			continue
		}
		cur, ok := loadOfFieldNamed(coll, "Parents")
		if !ok {
			continue
		}
		ld, ok := cur.(*ssa.UnOp)
		if !ok || ld.Op != token.MUL {
			continue
		}
		ia, ok := ld.X.(*ssa.IndexAddr)
		if !ok {
			continue
		}
		if k, isC := constInt(ia.Index); !isC || k != 0 {
			continue
		}
		q, ok := ia.X.(*ssa.Phi)
		if !ok {
			continue
		}
		h1 := q.Block()
		outer, inner := naturalLoop(h1), naturalLoop(h2)
		if !outer[h2] {
			continue
		}
		// the outer loop runs while the queue is not empty and is left through its header only
		iff, ok := h1.Instrs[len(h1.Instrs)-1].(*ssa.If)
		if !ok {
			return " (work list: the loop over the queue has no test)"
		}
		okTest := false
		if bo, isB := iff.Cond.(*ssa.BinOp); isB {
			if c, isL := lenOf(bo.X); isL && c == ssa.Value(q) {
				if k, isC := constInt(bo.Y); isC && k == 0 && (bo.Op == token.GTR || bo.Op == token.NEQ) {
					okTest = true
				}
			}
		}
		if !okTest {
			return " (work list: the loop is not `for len(queue) > 0`)"
		}
		for b := range outer {
			for _, sc := range b.Succs {
				if !outer[sc] && b != h1 {
					return " (work list: the loop over the queue is left before the queue is empty)"
				}
			}
			for _, in := range b.Instrs {
				if _, isRet := in.(*ssa.Return); isRet {
					return " (work list: return inside the loop over the queue)"
				}
			}
		}
		// the queue starts with the vertex and loses exactly its first element per round
		var rest *ssa.Slice
		for _, in := range h1.Succs[0].Instrs {
			if sl, isSl := in.(*ssa.Slice); isSl && sl.X == ssa.Value(q) && sl.High == nil {
				if k, isC := constInt(sl.Low); isC && k == 1 {
					rest = sl
				}
			}
		}
		if rest == nil {
			for b := range outer {
				for _, in := range b.Instrs {
					if sl, isSl := in.(*ssa.Slice); isSl && sl.X == ssa.Value(q) && sl.High == nil {
						if k, isC := constInt(sl.Low); isC && k == 1 {
							rest = sl
						}
					}
				}
			}
		}
		if rest == nil {
			return " (work list: the dequeued element is not removed with queue[1:])"
		}
		var chainRoot func(x ssa.Value, seen map[ssa.Value]bool) bool
		chainRoot = func(x ssa.Value, seen map[ssa.Value]bool) bool {
			if seen[x] {
				return true
			}
			seen[x] = true
			switch y := x.(type) {
			case *ssa.Slice:
				return y == rest
			case *ssa.Phi:
				for _, e := range y.Edges {
					if !chainRoot(e, seen) {
						return false
					}
				}
				return true
			case *ssa.Call:
				if calleeName(y) == "builtin:append" {
					return chainRoot(y.Call.Args[0], seen)
				}
			}
			return false
		}
		for i, e := range q.Edges {
			if h1.Dominates(h1.Preds[i]) {
				if !chainRoot(e, map[ssa.Value]bool{}) {
					return " (work list: the queue is rebuilt from something other than queue[1:] plus appended parents)"
				}
				continue
			}
			els, _, okE := elementsOf(e, map[ssa.Value]bool{})
			has := false
			for _, el := range els {
				if el == ssa.Value(v) {
					has = true
				}
			}
			if !okE || !has {
				return " (work list: the queue does not start with the vertex)"
			}
		}
		// the range over the parents is left only when they are exhausted
		for b := range inner {
			for _, sc := range b.Succs {
				if !inner[sc] && b != h2 {
					return " (work list: the range over the parents is left early - the parents behind one that was seen are never marked)"
				}
			}
		}
		elem := rangeElem(h2)
		isMark := func(in ssa.Instruction) bool {
			base, f, val, ok := storeField(in)
			k, _ := constInt(val)
			return ok && f.Name() == "status" && base == elem && k == runSkip
		}
		isEnq := func(in ssa.Instruction) bool {
			c, ok := in.(*ssa.Call)
			if !ok || calleeName(c) != "builtin:append" || len(c.Call.Args) != 2 || !chainRoot(c.Call.Args[0], map[ssa.Value]bool{}) {
				return false
			}
			els, _, _ := elementsOf(c.Call.Args[1], map[ssa.Value]bool{})
			for _, el := range els {
				if el == elem {
					return true
				}
			}
			return false
		}
		// edges taken because the `seen` table already holds the parent
		seenEdge := func(term ssa.Instruction, k int) bool {
			i2, ok := term.(*ssa.If)
			if !ok {
				return false
			}
			for _, f := range condFacts(i2.Cond, k == 0, i2) {
				if f.Op != token.ILLEGAL || !f.Truth {
					continue
				}
				x := f.X
				if ex, isEx := x.(*ssa.Extract); isEx {
					x = ex.Tuple
				}
				if lk, isLk := x.(*ssa.Lookup); isLk {
					if _, isMap := lk.X.Type().Underlying().(*types.Map); isMap {
						if b, okID := loadOfFieldNamed(lk.Index, "ID"); okID && b == elem || lk.Index == elem {
							return true
						}
					}
				}
			}
			return false
		}
		g := buildIG(sp)
		isHead := func(in ssa.Instruction) bool { return in.Block() == h2 && in == h2.Instrs[0] }
		for _, via := range []func(ssa.Instruction) bool{isMark, isEnq} {
			reached := g.reachFromE(g.edgeStart(h2, 0), via, func(term ssa.Instruction, k int) bool { return !seenEdge(term, k) })
			for i, sn := range reached {
				if sn && isHead(g.instrs[i]) {
					return " (work list: a parent that was not seen before can be passed over without being marked runSkip and queued)"
				}
			}
		}
		// the table only ever records the vertex itself and parents that are being marked
		bad := ""
		eachInstr(sp, func(in ssa.Instruction) {
			mu, ok := in.(*ssa.MapUpdate)
			if !ok {
				return
			}
			if inner[mu.Block()] {
				okK := mu.Key == elem
				if b, okID := loadOfFieldNamed(mu.Key, "ID"); okID && b == elem {
					okK = true
				}
				if !okK {
					bad = " (work list: the `seen` table records something other than the parent at hand)"
				}
				return
			}
			okK := mu.Key == ssa.Value(v)
			if b, okID := loadOfFieldNamed(mu.Key, "ID"); okID && b == ssa.Value(v) {
				okK = true
			}
			if !okK {
				bad = " (work list: the `seen` table is pre-filled with something other than the vertex itself)"
			}
		})
		return bad
	}
	return " (nor is it a work list that ranges over the parents of every dequeued vertex)"
}

func rC14Branches(w *World, r *Report) {
	ru := r.Rule("R14.3", "the goroutine launched on the error-list-non-empty edge reports ErrorTaskSkipped; the one launched for a vertex in status runSkip reports nil; neither calls the task", 2)
	run := w.Fn(nRun)
	if run == nil {
		ru.Undecided("anchor", "-", "Run not found")
		return
	}
	st := enumConsts(w, "dag", "runStatus")
	tg, _ := taskGo(w, run)
	eachInstr(run, func(in ssa.Instruction) {
		g, ok := in.(*ssa.Go)
		if !ok || g == tg {
			return
		}
		var target *ssa.Function
		switch v := g.Call.Value.(type) {
		case *ssa.Function:
			target = v
		case *ssa.MakeClosure:
			target, _ = v.Fn.(*ssa.Function)
		}
		if target == nil {
			ru.Bad("branch-go", w.IPos(g), "unknown goroutine target")
			return
		}
		// what is sent
		var errVal ssa.Value
		for _, s := range doneSends(target) {
			if ld, ok := s.X.(*ssa.UnOp); ok {
				if a, ok := ld.X.(*ssa.Alloc); ok {
					stored := false
					eachInstr(target, func(i2 ssa.Instruction) {
						if base, f, v, ok := storeField(i2); ok && base == ssa.Value(a) && f.Name() == "Error" {
							errVal = v
							stored = true
						}
					})
					if !stored {
						// the literal leaves the field out: it holds the zero value, a nil error
						errVal = ssa.NewConst(nil, types.Universe.Lookup("error").Type())
					}
				}
			}
		}
		// classify the branch
		errGate, skipGate, notSkip := false, false, false
		for _, f := range factsAt(g.Block()) {
			if f.Y == nil {
				continue
			}
			k, _ := constInt(f.Y)
			if isErrListLen(f.X) && ((f.Op == token.NEQ && k == 0) || (f.Op == token.GTR && k == 0)) {
				errGate = true
			}
			if _, ok := loadOfFieldNamed(f.X, "status"); ok && f.Op == token.EQL && k == st["runSkip"] {
				skipGate = true
			}
			if _, ok := loadOfFieldNamed(f.X, "status"); ok && f.Op == token.NEQ && k == st["runSkip"] {
				notSkip = true
			}
		}
		switch {
		case skipGate:
			ru.Check(errVal != nil && isNilConst(errVal), "branch/skip", w.IPos(g), "skipped through ErrorSkipParents: completes with nil (not reported)", "a task skipped through ErrorSkipParents is reported as an error")
		case errGate:
			ru.Check(notSkip, "branch/gated-not-skip", w.IPos(g), "the error gate is consulted only for vertices that were not skipped through ErrorSkipParents", "a vertex skipped through ErrorSkipParents can take the error-gate branch and be reported as ErrorTaskSkipped (it must complete silently)")
			ru.Check(errVal != nil && isLoadOfGlobal(errVal, "dag.ErrorTaskSkipped"), "branch/gated", w.IPos(g), "not started after a failure: reported with ErrorTaskSkipped", "a task that was never started after a failure is not reported as ErrorTaskSkipped")
		default:
			ru.Bad("branch/unknown", w.IPos(g), "a goroutine is launched on a branch that is neither the skip nor the error-gate branch")
		}
		if len(taskFnCalls(w)) == 1 && taskFnCalls(w)[0].Parent() == target {
			ru.Bad("branch/calls-task", w.IPos(g), "the skip/gated goroutine calls the task")
		}
	})
}

func rC14Result(w *World, r *Report) {
	ru := r.Rule("R14.4", "after the scheduler loop Run returns the error list when it is non-empty and nil otherwise", 2)
	run := w.Fn(nRun)
	if run == nil {
		ru.Undecided("anchor", "-", "Run not found")
		return
	}
	var call ssa.Instruction
	for _, c := range callsTo(run, nGetNext) {
		call = c
	}
	if call == nil {
		ru.Undecided("loop", w.Pos(run.Pos()), "scheduler loop not found")
		return
	}
	eachInstr(run, func(in ssa.Instruction) {
		ret, ok := in.(*ssa.Return)
		if !ok || !call.Block().Dominates(ret.Block()) {
			return
		}
		nonEmpty, empty := false, false
		for _, f := range factsAt(ret.Block()) {
			if f.Y == nil || !isErrListLen(f.X) {
				continue
			}
			k, _ := constInt(f.Y)
			if (f.Op == token.NEQ || f.Op == token.GTR) && k == 0 {
				nonEmpty = true
			}
			if f.Op == token.EQL && k == 0 {
				empty = true
			}
		}
		v := ret.Results[0]
		switch {
		case isNilConst(v):
			ru.Check(empty, "result/nil", w.IPos(ret), "nil only when no error was recorded", "Run can return nil although errors were recorded")
		default:
			isList := false
			if mi, ok := v.(*ssa.MakeInterface); ok {
				if _, ok := loadOfFieldNamed(mi.X, "errs"); ok {
					isList = true
				}
			}
			ru.Check(nonEmpty && isList, "result/errors", w.IPos(ret), "the *Errors list when it is non-empty", "Run's error result is not the collected error list")
		}
	})
}

// ------------------------------------------------------------------ C15

func rC15Semaphore(w *World, r *Report) {
	ru := r.Rule("R15.1", "counting semaphore: made with capacity g.maxParallel (written only with positive values); in the task goroutine the send on it dominates the Task.Fn call, the matching receive happens only in a deferred function registered before the call, and nowhere else", 5)
	run := w.Fn(nRun)
	if run == nil {
		ru.Undecided("anchor", "-", "Run not found")
		return
	}
	_, target := taskGo(w, run)
	calls := taskFnCalls(w)
	if target == nil || len(calls) != 1 {
		ru.Undecided("task-goroutine", w.Pos(run.Pos()), "not found")
		return
	}
	fnCall := calls[0].(*ssa.Call)
	// semaphore make
	var mk *ssa.MakeChan
	eachInstr(run, func(in ssa.Instruction) {
		if m, ok := in.(*ssa.MakeChan); ok && typeString(m.Type()) == "chan struct{}" {
			mk = m
		}
	})
	if mk == nil {
		ru.Bad("semaphore/make", w.Pos(run.Pos()), "no semaphore channel is created")
		return
	}
	_, capOK := loadOfFieldNamed(mk.Size, "maxParallel")
	ru.Check(capOK, "semaphore/capacity", w.IPos(mk), "capacity = g.maxParallel", "the semaphore capacity is not the configured limit: "+mk.Size.String())
	// writers of maxParallel
	if f := w.Field("dag", "Graph", "maxParallel"); f != nil {
		for _, u := range w.fieldUses(f) {
			if u.Kind != "write" {
				continue
			}
			st := u.Instr.(*ssa.Store)
			switch short(u.Fn) {
			case "dag.NewGraph":
				k, ok := constInt(st.Val)
				ru.Check(ok && k > 0, "maxParallel/default", w.IPos(st), "positive default", "non-positive default limit")
			case "(*dag.Graph).SetMaxParallel":
				pos := false
				for _, fct := range factsAt(st.Block()) {
					if fct.Op == token.GTR && fct.Y != nil && fct.X == st.Val {
						if k, ok := constInt(fct.Y); ok && k >= 0 {
							pos = true
						}
					}
				}
				_, isParam := st.Val.(*ssa.Parameter)
				ru.Check(pos && isParam, "maxParallel/setter", w.IPos(st), "stores the given limit when it is positive", "SetMaxParallel does not store exactly the given positive limit")
			default:
				ru.Bad("maxParallel/writer/"+short(u.Fn), w.IPos(st), "unexpected writer of the limit")
			}
		}
	}
	// in the goroutine: send dominates call; channel is the captured semaphore
	isSem := func(v ssa.Value) bool { return typeString(v.Type()) == "chan struct{}" }
	var send *ssa.Send
	eachInstr(target, func(in ssa.Instruction) {
		if s, ok := in.(*ssa.Send); ok && isSem(s.Chan) {
			send = s
		}
	})
	if send == nil {
		ru.Bad("semaphore/acquire", w.Pos(target.Pos()), "the task goroutine does not acquire the semaphore")
		return
	}
	ig := buildIG(target)
	okDom, _ := ig.mustPass([]int{0}, func(in ssa.Instruction) bool { return in == ssa.Instruction(send) }, func(in ssa.Instruction) bool { return in == ssa.Instruction(fnCall) })
	ru.Check(okDom, "semaphore/acquire-before-fn", w.IPos(send), "acquired on every path before Task.Fn", "Task.Fn can run without holding a semaphore slot")
	ru.Check(!blockInCycle(send.Block()), "semaphore/acquire-once", w.IPos(send), "one slot per goroutine", "the semaphore is acquired inside a loop (one slot per attempt, released only at exit): a retried task can exhaust the capacity and block on itself")
	// receives: only in deferred closures of target
	recvFns := map[*ssa.Function]bool{}
	for _, f := range w.Funcs {
		eachInstr(f, func(in ssa.Instruction) {
			if u, ok := in.(*ssa.UnOp); ok && u.Op == token.ARROW && isSem(u.X) {
				recvFns[f] = true
			}
			if sel, ok := in.(*ssa.Select); ok {
				for _, s := range sel.States {
					if isSem(s.Chan) && s.Dir == types.RecvOnly {
						if c, isCall := s.Chan.(*ssa.Call); isCall && c.Call.IsInvoke() {
							continue // ctx.Done()
						}
						recvFns[f] = true
					}
				}
			}
		})
	}
	var deferred *ssa.Defer
	eachInstr(target, func(in ssa.Instruction) {
		if d, ok := in.(*ssa.Defer); ok {
			if mc, ok := d.Call.Value.(*ssa.MakeClosure); ok {
				if f, ok := mc.Fn.(*ssa.Function); ok && recvFns[f] {
					deferred = d
					delete(recvFns, f)
				}
			}
		}
	})
	for f := range recvFns {
		if f.Pkg != nil && shortName(f.Pkg.Pkg.Path()) == "dag" {
			ru.Bad("semaphore/release/"+short(f), w.Pos(f.Pos()), "the semaphore is released outside a deferred function of the task goroutine (a slot could be freed while the task still runs)")
		}
	}
	if deferred == nil {
		ru.Bad("semaphore/release", w.IPos(send), "no deferred release of the semaphore: slots are never returned or returned early")
	} else {
		okD, _ := ig.mustPass([]int{0}, func(in ssa.Instruction) bool { return in == ssa.Instruction(deferred) }, func(in ssa.Instruction) bool { return in == ssa.Instruction(fnCall) })
		after := ig.reachFrom(ig.after(send), nil)[ig.idx[deferred]]
		ru.Check(okD && after, "semaphore/release-deferred", w.IPos(deferred), "release registered with defer after the acquire and before Task.Fn", "the release is not registered between acquire and the task call")
	}
}

func rC15TaskLock(w *World, r *Report) {
	ru := r.Rule("R15.2", "per-Task mutex: v.Task.Lock() dominates the Task.Fn call and `defer v.Task.Unlock()` is registered in between; Lock/Unlock wrap the Task's own mutex", 3)
	calls := taskFnCalls(w)
	if len(calls) != 1 {
		ru.Undecided("task-call", "-", "not found")
		return
	}
	fnCall := calls[0].(*ssa.Call)
	fn := fnCall.Parent()
	ig := buildIG(fn)
	isTaskOfV := func(v ssa.Value) bool {
		b, ok := loadOfFieldNamed(v, "Task")
		if !ok {
			return false
		}
		_, ok = b.(*ssa.Parameter)
		return ok
	}
	var lock ssa.Instruction
	for _, c := range callsTo(fn, "(*dag.Task).Lock") {
		if isTaskOfV(c.Common().Args[0]) {
			lock = c
		}
	}
	var unlock *ssa.Defer
	eachInstr(fn, func(in ssa.Instruction) {
		if d, ok := in.(*ssa.Defer); ok && calleeName(d) == "(*dag.Task).Unlock" && isTaskOfV(d.Call.Args[0]) {
			unlock = d
		}
	})
	if lock == nil {
		ru.Bad("task-lock/acquire", w.IPos(fnCall), "the task goroutine does not lock the Task: a Task shared by two graphs could run twice at the same time")
	} else {
		ok, _ := ig.mustPass([]int{0}, func(in ssa.Instruction) bool { return in == lock }, func(in ssa.Instruction) bool { return in == ssa.Instruction(fnCall) })
		ru.Check(ok, "task-lock/acquire", w.IPos(lock), "locked on every path before Task.Fn", "Task.Fn can run without the Task lock")
		ru.Check(!blockInCycle(lock.Block()), "task-lock/acquire-once", w.IPos(lock), "locked once per goroutine", "the Task lock is taken inside a loop while it is only released at exit: the second attempt deadlocks")
	}
	if unlock == nil {
		ru.Bad("task-lock/release", w.IPos(fnCall), "the Task lock is not released by defer (or is released before the task finished)")
	} else if lock != nil {
		ok, _ := ig.mustPass(ig.after(lock), func(in ssa.Instruction) bool { return in == ssa.Instruction(unlock) }, func(in ssa.Instruction) bool { return in == ssa.Instruction(fnCall) })
		ru.Check(ok, "task-lock/release", w.IPos(unlock), "defer Unlock registered between Lock and Task.Fn", "the unlock is not registered before the task call")
	}
	// non-deferred Unlock calls in the goroutine
	for _, c := range callsTo(fn, "(*dag.Task).Unlock") {
		if _, isDefer := c.(*ssa.Defer); !isDefer {
			ru.Bad("task-lock/early-release", w.IPos(c), "the Task lock is released by a plain call")
		}
	}
	// the Task stored in the vertex is the caller's own *Task (its mutex is what is shared between graphs)
	if at := w.Fn("(*dag.Graph).addTask"); at != nil {
		n := 0
		good := true
		eachInstr(at, func(in ssa.Instruction) {
			if _, f, v, ok := storeField(in); ok && f.Name() == "Task" {
				n++
				if v != ssa.Value(at.Params[1]) {
					good = false
				}
			}
		})
		ru.Check(good && n > 0, "task-lock/shared-object", w.Pos(at.Pos()), "the vertex keeps the caller's *Task", "the graph stores a private copy of the Task: graphs sharing a Task no longer share its lock")
	}
	// wrappers
	for _, t := range []struct{ wrap, inner string }{{"(*dag.Task).Lock", "(*sync.Mutex).Lock"}, {"(*dag.Task).Unlock", "(*sync.Mutex).Unlock"}} {
		f := w.Fn(t.wrap)
		good := false
		if f != nil {
			for _, c := range callsTo(f, t.inner) {
				if fa, ok := c.Common().Args[0].(*ssa.FieldAddr); ok && fa.X == ssa.Value(f.Params[0]) {
					good = true
				}
			}
		}
		ru.Check(good, "task-lock/wrapper/"+t.wrap, "-", "wraps the Task's own mutex", t.wrap+" does not operate on the Task's mutex")
	}
}

func rC15Buffer(w *World, r *Report) {
	ru := r.Rule("R15.3", "buffered output: every use of g.bufferWriter happens between g.bufferMutex.Lock() and the matching Unlock() (so one attempt's output reaches the writer as one block)", 1)
	f := w.Field("dag", "Graph", "bufferWriter")
	if f == nil {
		ru.Undecided("anchor", "-", "field not found")
		return
	}
	isMu := func(c ssa.CallInstruction, name string) bool {
		if calleeName(c) != name {
			return false
		}
		fa, ok := c.Common().Args[0].(*ssa.FieldAddr)
		return ok && fieldOfAddr(fa).Name() == "bufferMutex"
	}
	n := 0
	for _, u := range w.fieldUses(f) {
		if u.Kind != "read" {
			continue
		}
		n++
		fn := u.Fn
		ig := buildIG(fn)
		isLock := func(in ssa.Instruction) bool {
			c, ok := in.(ssa.CallInstruction)
			return ok && isMu(c, "(*sync.Mutex).Lock")
		}
		isUnlock := func(in ssa.Instruction) bool {
			c, ok := in.(ssa.CallInstruction)
			return ok && isMu(c, "(*sync.Mutex).Unlock")
		}
		// the writer value's uses: the calls that write
		ld := u.Instr.(ssa.Value)
		for _, ref := range *ld.Referrers() {
			if _, isDbg := ref.(*ssa.DebugRef); isDbg {
				continue
			}
			// held at ref: every path entry->ref passes Lock, and no path Lock->ref passes Unlock... (Lock then ref without Unlock in between)
			okLock, _ := ig.mustPass([]int{0}, isLock, func(in ssa.Instruction) bool { return in == ref })
			heldOK := true
			// from every Unlock, ref reachable only through a Lock
			for i, in := range ig.instrs {
				if isUnlock(in) {
					seen := ig.reachFrom(ig.succ[i], isLock)
					if seen[ig.idx[ref]] {
						heldOK = false
					}
				}
			}
			// released afterwards
			okRel, _ := ig.mustPass(ig.after(ref), isUnlock, func(in ssa.Instruction) bool {
				switch in.(type) {
				case *ssa.Return, *ssa.Send:
					return true
				}
				return false
			})
			ru.Check(okLock && heldOK && okRel, "buffer-write/"+short(fn), w.IPos(ref), "written under bufferMutex", "the shared output writer is used outside the bufferMutex critical section: outputs of concurrent tasks can interleave")
		}
	}
	if n == 0 {
		ru.Bad("buffer-write", "-", "the buffered output is never flushed to the writer")
	}
}

func rC15Serial(w *World, r *Report) {
	ru := r.Rule("R15.4", "serial mode (finite evaluation): with g.serial set, every offer (ok == true) is preceded by a complete scan of all vertices that returns ok == false as soon as a vertex is in progress", 3)
	fn := w.Fn(nGetNext)
	if fn == nil {
		ru.Undecided("anchor", "-", "getNextVertex not found")
		return
	}
	st := enumConsts(w, "dag", "runStatus")
	// the serial scan: a map-range loop over g.Vertices dominated by the true edge of g.serial
	var scan *ssa.BasicBlock
	for _, h := range loopHeaders(fn) {
		isVerts := false
		for _, in := range h.Instrs {
			if nx, ok := in.(*ssa.Next); ok {
				if rg, ok := nx.Iter.(*ssa.Range); ok {
					if _, ok := loadOfFieldNamed(rg.X, "Vertices"); ok {
						isVerts = true
					}
				}
			}
		}
		if !isVerts {
			continue
		}
		for _, f := range factsAt(h) {
			if f.Op == token.ILLEGAL && f.Truth {
				if _, ok := loadOfFieldNamed(f.X, "serial"); ok {
					scan = h
				}
			}
		}
	}
	if scan == nil {
		ru.Bad("serial-scan", w.Pos(fn.Pos()), "no scan of all vertices under g.serial")
		return
	}
	elem := rangeElem(scan)
	// (1) vertex in progress => every path returns ok=false before the next element
	bad := false
	n := 0
	pe := &pathExplorer{assume: assumeFieldOf(elem, "status", st["runInProgress"], nil), stopBlock: func(b *ssa.BasicBlock) bool { return b == scan },
		onArrive: func(_, _ *ssa.BasicBlock, _ int, _ boolEnv) { bad = true },
		onReturn: func(ret *ssa.Return, _ boolEnv) {
			n++
			if len(ret.Results) != 3 {
				bad = true
				return
			}
			if c, ok := ret.Results[2].(*ssa.Const); !ok || c.Value.String() != "false" {
				bad = true
			}
			if c, ok := ret.Results[1].(*ssa.Const); !ok || c.Value.String() != "false" {
				bad = true
			}
		}}
	pe.startEdge(scan, 0, boolEnv{})
	ru.Check(!bad && n > 0, "serial-scan/in-progress-blocks", w.IPos(scan.Instrs[0]), "a vertex in progress ⇒ nothing is offered", "in serial mode a vertex can be offered while another one is in progress")
	// (2) with serial assumed, every offer passes the scan's exit edge
	ig := buildIG(fn)
	exitStart := ig.edgeStart(scan, 1)
	isExit := func(in ssa.Instruction) bool {
		return len(exitStart) > 0 && ig.idx[in] == exitStart[0] && len(in.Block().Preds) >= 1
	}
	seen := ig.reachFromE([]int{0}, func(in ssa.Instruction) bool { return in.Block() == scan }, func(term ssa.Instruction, k int) bool {
		if iff, ok := term.(*ssa.If); ok {
			for _, f := range condFacts(iff.Cond, k == 0, iff) {
				if f.Op == token.ILLEGAL && !f.Truth {
					if _, ok := loadOfFieldNamed(f.X, "serial"); ok {
						return false
					}
				}
			}
		}
		return true
	})
	_ = isExit
	offerReached := false
	for i, s := range seen {
		if ret, ok := ig.instrs[i].(*ssa.Return); ok && s && len(ret.Results) == 3 {
			if c, ok := ret.Results[2].(*ssa.Const); !ok || c.Value.String() != "false" {
				offerReached = true
			}
		}
	}
	ru.Check(!offerReached, "serial-scan/dominates-offers", w.IPos(scan.Instrs[0]), "with serial set no offer is reachable without completing the scan", "with serial set a vertex can be offered without the in-progress scan")
	// (3) the scan covers every vertex: no conditional skip other than the in-progress tests (loop body returns or continues)
	loop := naturalLoop(scan)
	okBody := true
	for b := range loop {
		if iff, ok := b.Instrs[len(b.Instrs)-1].(*ssa.If); ok && b != scan {
			isStatusTest, isRangeTest := false, false
			for _, f := range condFacts(iff.Cond, true, iff) {
				if _, ok := loadOfFieldNamed(f.X, "status"); ok {
					isStatusTest = true
				}
				if f.Op == token.LSS {
					isRangeTest = true
				}
			}
			if !isStatusTest && !isRangeTest {
				okBody = false
			}
		}
	}
	ru.Check(okBody, "serial-scan/all-vertices", w.IPos(scan.Instrs[0]), "the scan has no filter", "the serial scan skips some vertices")
}

// ------------------------------------------------------------------ C16

func rC16CycleCheck(w *World, r *Report) {
	ru := r.Rule("R16.1", "the DepthFirstSort call, with its error returned, dominates the scheduler loop (and so every launch)", 1)
	run := w.Fn(nRun)
	if run == nil {
		ru.Undecided("anchor", "-", "Run not found")
		return
	}
	var dfs *ssa.Call
	for _, c := range callsTo(run, "(*dag.Graph).DepthFirstSort") {
		dfs = c.(*ssa.Call)
	}
	var sched ssa.Instruction
	for _, c := range callsTo(run, nGetNext) {
		sched = c
	}
	if dfs == nil {
		ru.Bad("cycle-check", w.Pos(run.Pos()), "Run does not check for cycles before scheduling: a cyclic graph would never finish")
		return
	}
	if sched == nil {
		ru.Undecided("scheduler", w.Pos(run.Pos()), "scheduler loop not found")
		return
	}
	// decided by the value-sensitive reach (the error may travel through a merge before it is tested, and the
	// check may sit behind an empty-graph test): (1) with the error of DepthFirstSort not nil, neither the scheduler
	// nor a go statement is reachable from the call, and every return reachable hands that error back; (2) without
	// passing the call, neither is reachable from the entry
	var errV ssa.Value
	if dfs.Referrers() != nil {
		for _, r := range *dfs.Referrers() {
			if ex, ok := r.(*ssa.Extract); ok && ex.Index == 1 {
				errV = ex
			}
		}
	}
	ig := buildIG(run)
	isLaunch := func(in ssa.Instruction) bool {
		_, isGo := in.(*ssa.Go)
		return isGo || in == sched
	}
	good, ret := errV != nil, false
	if errV != nil {
		seen, ok := ig.reachVSInit(ig.after(dfs), nil, nil, triEnv{errV: vsVal{t: 2}})
		if !ok {
			seen = ig.reachFrom(ig.after(dfs), nil)
		}
		for i, sn := range seen {
			if !sn {
				continue
			}
			if isLaunch(ig.instrs[i]) {
				good = false
			}
			if r2, isRet := ig.instrs[i].(*ssa.Return); isRet && len(r2.Results) > 0 {
				carries := false
				for _, leaf := range phiLeaves(r2.Results[0], map[ssa.Value]bool{}) {
					if leaf == errV {
						carries = true
					}
				}
				if carries {
					ret = true
				} else {
					good = false
				}
			}
		}
		before, ok := ig.reachVSInit([]int{0}, func(in ssa.Instruction) bool { return in == ssa.Instruction(dfs) }, nil, nil)
		if !ok {
			before = ig.reachFrom([]int{0}, func(in ssa.Instruction) bool { return in == ssa.Instruction(dfs) })
		}
		for i, sn := range before {
			if sn && isLaunch(ig.instrs[i]) {
				good = false
			}
		}
	}
	ru.Check(good && ret, "cycle-check", w.IPos(dfs), "scheduler loop entered only when DepthFirstSort returned no error; the error is returned", "the scheduler can start although the cycle check failed (or its error is dropped)")
}

func rC16InsertOnly(w *World, r *Report) {
	ru := r.Rule("R16.2", "the vertex table is insert-only: every store g.Vertices[k] = … is dominated by the failed lookup of the same key, so edges recorded earlier keep pointing at the table's current vertices", 1)
	n := 0
	for _, fn := range w.Funcs {
		if fn.Pkg == nil || shortName(fn.Pkg.Pkg.Path()) != "dag" {
			continue
		}
		eachInstr(fn, func(in ssa.Instruction) {
			mu, ok := in.(*ssa.MapUpdate)
			if !ok {
				return
			}
			if _, ok := loadOfFieldNamed(mu.Map, "Vertices"); !ok {
				return
			}
			n++
			guarded := false
			for _, f := range factsAt(in.Block()) {
				if f.Op == token.ILLEGAL && !f.Truth {
					if ex, ok := f.X.(*ssa.Extract); ok && ex.Index == 1 {
						if lk, ok := ex.Tuple.(*ssa.Lookup); ok && lk.CommaOk && sameVal(lk.Index, mu.Key) {
							if _, ok := loadOfFieldNamed(lk.X, "Vertices"); ok {
								guarded = true
							}
						}
					}
				}
			}
			ru.Check(guarded, "vertex-insert/"+short(fn), w.IPos(mu), "inserted only when the key is absent", "an existing vertex can be replaced: vertices that depend on it keep the stale one, whose status never changes, and Run never finishes")
		})
	}
	if n == 0 {
		ru.Bad("vertex-insert", "-", "no vertex is ever inserted")
	}
}

func rC16AllDone(w *World, r *Report) {
	ru := r.Rule("R16.4", "all-done (finite evaluation): the done counter starts at 0, grows by exactly one for a vertex whose status is runDone and not at all otherwise; allDone is returned exactly when the counter equals the table size after the complete scan", 6)
	fn := w.Fn(nGetNext)
	if fn == nil {
		ru.Undecided("anchor", "-", "getNextVertex not found")
		return
	}
	st := enumConsts(w, "dag", "runStatus")
	// the allDone return: second result const true
	var doneRet *ssa.Return
	eachInstr(fn, func(in ssa.Instruction) {
		if ret, ok := in.(*ssa.Return); ok && len(ret.Results) == 3 {
			if c, ok := ret.Results[1].(*ssa.Const); ok && c.Value != nil && c.Value.String() == "true" {
				doneRet = ret
			}
		}
	})
	var counter *ssa.Phi
	counterOf := func(x, y ssa.Value) *ssa.Phi {
		for _, pair := range [][2]ssa.Value{{x, y}, {y, x}} {
			if phi, ok := pair[0].(*ssa.Phi); ok {
				if c, ok := pair[1].(*ssa.Call); ok && calleeName(c) == "builtin:len" {
					if _, ok := loadOfFieldNamed(c.Call.Args[0], "Vertices"); ok {
						return phi
					}
				}
			}
		}
		return nil
	}
	if doneRet == nil {
		// expression form: return nil, counter == len(g.Vertices), false
		eachInstr(fn, func(in ssa.Instruction) {
			if ret, ok := in.(*ssa.Return); ok && len(ret.Results) == 3 {
				if bo, ok := ret.Results[1].(*ssa.BinOp); ok && bo.Op == token.EQL {
					if phi := counterOf(bo.X, bo.Y); phi != nil {
						doneRet, counter = ret, phi
					}
				}
			}
		})
	}
	if doneRet == nil {
		ru.Bad("all-done/return", w.Pos(fn.Pos()), "completion is never signalled")
		return
	}
	for _, f := range factsAt(doneRet.Block()) {
		// counter == len, or counter >= len: the counter grows by at most one per vertex of the scan (checked below),
		// so it never exceeds the table size and the two tests agree
		if (f.Op == token.EQL || f.Op == token.GEQ || f.Op == token.LEQ) && f.Y != nil {
			pairs := [][2]ssa.Value{{f.X, f.Y}, {f.Y, f.X}}
			if f.Op == token.GEQ {
				pairs = pairs[:1]
			} else if f.Op == token.LEQ {
				pairs = pairs[1:]
			}
			for _, pair := range pairs {
				if phi, ok := pair[0].(*ssa.Phi); ok {
					if c, ok := pair[1].(*ssa.Call); ok && calleeName(c) == "builtin:len" {
						if _, ok := loadOfFieldNamed(c.Call.Args[0], "Vertices"); ok {
							counter = phi
						}
					}
				}
			}
		}
	}
	if counter == nil {
		ru.Bad("all-done/condition", w.IPos(doneRet), "allDone is not conditioned on counter == len(g.Vertices)")
		return
	}
	hdr := counter.Block()
	elem := rangeElem(hdr)
	if elem == nil {
		ru.Bad("all-done/scan", w.IPos(counter), "the counter is not maintained by the scan over the vertex table")
		return
	}
	for i, p := range hdr.Preds {
		if !hdr.Dominates(p) {
			k, ok := constInt(counter.Edges[i])
			ru.Check(ok && k == 0, "all-done/counter-init", w.IPos(counter), "starts at 0", "the done counter does not start at 0")
		}
	}
	// the return is after the loop exit
	ru.Check(edgeDominates(hdr, 1, doneRet.Block()), "all-done/after-scan", w.IPos(doneRet), "decided after the complete scan", "allDone can be returned before all vertices were counted")
	for name, val := range st {
		kinds := map[string]bool{}
		pe := &pathExplorer{assume: assumeFieldOf(elem, "status", val, nil), stopBlock: func(b *ssa.BasicBlock) bool { return b == hdr },
			onArrive: func(_, _ *ssa.BasicBlock, pi int, _ boolEnv) {
				e := counter.Edges[pi]
				switch {
				case e == ssa.Value(counter):
					kinds["same"] = true
				default:
					if bo, ok := e.(*ssa.BinOp); ok && bo.Op == token.ADD && bo.X == ssa.Value(counter) {
						if k, ok := constInt(bo.Y); ok && k == 1 {
							kinds["+1"] = true
							return
						}
					}
					kinds["other"] = true
				}
			}}
		pe.startEdge(hdr, 0, boolEnv{})
		key := "all-done/count/" + name
		switch {
		case kinds["other"]:
			ru.Bad(key, w.IPos(counter), "the counter is changed by something other than +1")
		case name == "runDone" && (kinds["same"] || !kinds["+1"]):
			ru.Bad(key, w.IPos(counter), "a done vertex is not always counted: Run would never finish")
		case name != "runDone" && kinds["+1"]:
			ru.Bad(key, w.IPos(counter), "a vertex that is "+name+" is counted as done: Run could finish early")
		default:
			ru.OK(key, w.IPos(counter), fmt.Sprintf("counter %v", sortedKeys(kinds)))
		}
	}
}

func rC16Launch(w *World, r *Report) {
	ru := r.Rule("R16.5", "every accepted offer launches a goroutine before the next scheduling round (an in-progress vertex always has a goroutine that will report its completion)", 1)
	run := w.Fn(nRun)
	if run == nil {
		ru.Undecided("anchor", "-", "Run not found")
		return
	}
	var call *ssa.Call
	for _, c := range callsTo(run, nGetNext) {
		call = c.(*ssa.Call)
	}
	if call == nil {
		ru.Undecided("scheduler", w.Pos(run.Pos()), "not found")
		return
	}
	var ok3 ssa.Value
	for _, ref := range *call.Referrers() {
		if ex, isEx := ref.(*ssa.Extract); isEx && ex.Index == 2 {
			ok3 = ex
		}
	}
	ig := buildIG(run)
	for _, b := range run.Blocks {
		if iff, isIf := b.Instrs[len(b.Instrs)-1].(*ssa.If); isIf && iff.Cond == ok3 {
			good, wit := ig.mustPass(ig.edgeStart(b, 0), func(in ssa.Instruction) bool { _, g := in.(*ssa.Go); return g }, func(in ssa.Instruction) bool {
				if in == ssa.Instruction(call) {
					return true
				}
				_, isRet := in.(*ssa.Return)
				return isRet
			})
			if good {
				ru.OK("accepted-offer/launch", w.IPos(iff), "every path launches a goroutine for the offered vertex")
			} else {
				ru.Bad("accepted-offer/launch", w.IPos(wit), "an offered vertex can be marked in progress without a goroutine being started for it: Run would wait forever")
			}
			// the goroutine receives the offered vertex and the done channel
			eachInstr(run, func(in ssa.Instruction) {
				if g, ok := in.(*ssa.Go); ok {
					hasV, hasDone := false, false
					for _, a := range g.Call.Args {
						if ex, ok := a.(*ssa.Extract); ok && ex.Tuple == ssa.Value(call) && ex.Index == 0 {
							hasV = true
						}
						if isCompletionChan(a.Type()) {
							hasDone = true
						}
						// the channel handed over inside a struct that Run allocates and fills once
						if pt, ok := a.Type().Underlying().(*types.Pointer); ok {
							if st, ok := pt.Elem().Underlying().(*types.Struct); ok {
								if al, ok := resolveLaunched(a).(*ssa.Alloc); ok && al.Parent() == run && al.Referrers() != nil {
									for _, r := range *al.Referrers() {
										if fa, ok := r.(*ssa.FieldAddr); ok && isCompletionChan(st.Field(fa.Field).Type()) && fa.Referrers() != nil {
											for _, r2 := range *fa.Referrers() {
												if s2, ok := r2.(*ssa.Store); ok {
													if _, isMake := resolveLaunched(s2.Val).(*ssa.MakeChan); isMake {
														hasDone = true
													}
												}
											}
										}
									}
								}
							}
						}
					}
					ru.Check(hasV && hasDone, "launch/arguments", w.IPos(g), "launched with the offered vertex and the completion channel", "a goroutine is launched for a vertex other than the offered one")
				}
			})
		}
	}
}

func rC16Edges(w *World, r *Report) {
	ru := r.Rule("R16.6", "edge symmetry: every append to a vertex's Children is paired in the same block with the mirrored append to the other vertex's Parents, and both vertices are the table's current entries (results of retrieveOrAddVertex)", 2)
	n := 0
	for _, fn := range w.Funcs {
		if fn.Pkg == nil || shortName(fn.Pkg.Pkg.Path()) != "dag" {
			continue
		}
		eachInstr(fn, func(in ssa.Instruction) {
			base, f, val, ok := storeField(in)
			if !ok || (f.Name() != "Children" && f.Name() != "Parents") {
				return
			}
			if _, isAlloc := base.(*ssa.Alloc); isAlloc {
				return // initial literal
			}
			c, ok := val.(*ssa.Call)
			if !ok || calleeName(c) != "builtin:append" {
				ru.Bad("edge/"+f.Name(), w.IPos(in), "an edge list is overwritten")
				return
			}
			els, _, _ := elementsOf(c.Call.Args[1], map[ssa.Value]bool{})
			if len(els) != 1 {
				ru.Bad("edge/"+f.Name(), w.IPos(in), "unexpected append shape")
				return
			}
			other := els[0]
			if f.Name() != "Children" {
				return
			}
			n++
			// mirrored store in the same block
			mirrored := false
			for _, in2 := range in.Block().Instrs {
				b2, f2, v2, ok := storeField(in2)
				if !ok || f2.Name() != "Parents" || b2 != other {
					continue
				}
				if c2, ok := v2.(*ssa.Call); ok && calleeName(c2) == "builtin:append" {
					e2, _, _ := elementsOf(c2.Call.Args[1], map[ssa.Value]bool{})
					if len(e2) == 1 && e2[0] == base {
						mirrored = true
					}
				}
			}
			fromTable := func(v ssa.Value) bool {
				// the result of retrieveOrAddVertex, or - when that helper is written out in place - a lookup in the
				// graph's own vertex table on every path (a phi of such lookups)
				leaves := phiLeaves(v, map[ssa.Value]bool{})
				if len(leaves) == 0 {
					return false
				}
				for _, leaf := range leaves {
					okLeaf := false
					switch x := leaf.(type) {
					case *ssa.Extract:
						if x.Index == 0 {
							switch t := x.Tuple.(type) {
							case *ssa.Call:
								okLeaf = calleeName(t) == "(*dag.Graph).retrieveOrAddVertex"
							case *ssa.Lookup:
								_, okLeaf = loadOfFieldNamed(t.X, "Vertices")
							}
						}
					case *ssa.Lookup:
						_, okLeaf = loadOfFieldNamed(x.X, "Vertices")
					}
					if !okLeaf {
						return false
					}
				}
				return true
			}
			ru.Check(mirrored, "edge/mirrored", w.IPos(in), "Children and Parents updated together", "a dependency is recorded in Children without the mirrored Parents entry (skip propagation / readiness would disagree)")
			ru.Check(fromTable(base) && fromTable(other), "edge/table-entries", w.IPos(in), "both ends are the table's vertices", "an edge is attached to a vertex that is not the table's current entry")
		})
	}
	if n == 0 {
		ru.Bad("edge", "-", "no dependency edge is ever recorded")
	}
	// retrieveOrAddVertex returns the table entry
	if fn := w.Fn("(*dag.Graph).retrieveOrAddVertex"); fn != nil {
		good := true
		eachInstr(fn, func(in ssa.Instruction) {
			if ret, ok := in.(*ssa.Return); ok && isNilConst(ret.Results[1]) {
				for _, leaf := range phiLeaves(ret.Results[0], map[ssa.Value]bool{}) {
					lkOK := false
					if ex, ok := leaf.(*ssa.Extract); ok {
						leaf = ex.Tuple
					}
					if lk, ok := leaf.(*ssa.Lookup); ok {
						if _, ok := loadOfFieldNamed(lk.X, "Vertices"); ok {
							lkOK = true
						}
					}
					if !lkOK {
						good = false
					}
				}
			}
		})
		ru.Check(good, "retrieveOrAddVertex", w.Pos(fn.Pos()), "returns g.Vertices[id]", "retrieveOrAddVertex can return a vertex that is not in the table")
	}
}

func rC16DFS(w *World, r *Report) {
	ru := r.Rule("R16.7", "depth-first sort shape: visit returns nil for a traversed vertex, an error wrapping ErrorGraphHasCycle for one on the current path, marks visited before descending into every child (propagating errors), marks traversed and appends the vertex afterwards; DepthFirstSort starts a visit from every unvisited vertex and returns the first error", 7)
	d := w.Fn("(*dag.Graph).DepthFirstSort")
	// visit, by role: the recursive function DepthFirstSort calls with a vertex, returning an error (whatever its
	// name, and whether its bookkeeping travels as parameters or in a receiver)
	var v *ssa.Function
	vIdx := -1
	if d != nil {
		for _, c := range allCalls(d) {
			f := c.Common().StaticCallee()
			if f == nil || f.Blocks == nil || f.Pkg != d.Pkg || f.Signature.Results().Len() != 1 || typeString(f.Signature.Results().At(0).Type()) != "error" {
				continue
			}
			idx := -1
			for i, p := range f.Params {
				if typeString(p.Type()) == "*dag.Vertex" {
					idx = i
				}
			}
			rec := false
			for _, c2 := range allCalls(f) {
				if c2.Common().StaticCallee() == f {
					rec = true
				}
			}
			if idx >= 0 && rec {
				v, vIdx = f, idx
			}
		}
	}
	if v == nil || d == nil {
		ru.Undecided("anchor", "-", "visit / DepthFirstSort not found")
		return
	}
	selfCalls := func(fn *ssa.Function) []ssa.CallInstruction {
		var out []ssa.CallInstruction
		for _, c := range allCalls(fn) {
			if c.Common().StaticCallee() == v {
				out = append(out, c)
			}
		}
		return out
	}
	vs := enumConsts(w, "dag", "visitStatus")
	ig := buildIG(v)
	statusFact := func(f Fact, val int64) bool {
		if f.Op != token.EQL || f.Y == nil {
			return false
		}
		k, ok := constInt(f.Y)
		if !ok || k != val {
			return false
		}
		_, isLk := f.X.(*ssa.Lookup)
		return isLk
	}
	var loopHdr *ssa.BasicBlock
	for _, h := range loopHeaders(v) {
		if coll := rangeCollectionOfHeader(h); coll != nil {
			if _, ok := loadOfFieldNamed(coll, "Children"); ok {
				loopHdr = h
			}
		}
	}
	if loopHdr == nil {
		ru.Bad("visit/children-loop", w.Pos(v.Pos()), "visit does not descend into the children")
		return
	}
	// traversed => return nil ; visited => cycle error
	okTrav, okCyc := false, false
	for _, b := range v.Blocks {
		iff, ok := b.Instrs[len(b.Instrs)-1].(*ssa.If)
		if !ok {
			continue
		}
		for _, f := range condFacts(iff.Cond, true, iff) {
			for name, want := range map[string]int64{"traversed": vs["traversed"], "visited": vs["visited"]} {
				if !statusFact(f, want) || !b.Dominates(loopHdr) {
					continue
				}
				seen := ig.reachFrom(ig.edgeStart(b, 0), nil)
				all, n := true, 0
				for i, s := range seen {
					if ret, ok := ig.instrs[i].(*ssa.Return); ok && s {
						n++
						if name == "traversed" && !isNilConst(ret.Results[0]) {
							all = false
						}
						if name == "visited" {
							c, ok := ret.Results[0].(*ssa.Call)
							if !ok || calleeName(c) != "fmt.Errorf" {
								all = false
							} else {
								f0, _ := constString(c.Call.Args[0])
								els, _, _ := elementsOf(c.Call.Args[1], map[ssa.Value]bool{})
								wraps := false
								for _, e := range els {
									if ci, ok := e.(*ssa.ChangeInterface); ok && isLoadOfGlobal(ci.X, "dag.ErrorGraphHasCycle") {
										wraps = true
									}
								}
								if !strings.HasPrefix(f0, "%w") || !wraps {
									all = false
								}
							}
						}
					}
					if _, isMU := ig.instrs[i].(*ssa.MapUpdate); isMU && s {
						all = false
					}
				}
				if all && n > 0 {
					if name == "traversed" {
						okTrav = true
					} else {
						okCyc = true
					}
				}
			}
		}
	}
	ru.Check(okTrav, "visit/traversed", w.Pos(v.Pos()), "already traversed ⇒ nil, nothing appended", "a finished vertex is visited again (it would appear twice)")
	ru.Check(okCyc, "visit/cycle", w.Pos(v.Pos()), "vertex on the current path ⇒ error wrapping ErrorGraphHasCycle", "a back edge is not reported as ErrorGraphHasCycle")
	// mark visited before the loop, traversed + append after
	isMark := func(val int64) func(ssa.Instruction) bool {
		return func(in ssa.Instruction) bool {
			mu, ok := in.(*ssa.MapUpdate)
			if !ok {
				return false
			}
			k, ok := constInt(mu.Value)
			return ok && k == val
		}
	}
	isHdr := func(in ssa.Instruction) bool { return in.Block() == loopHdr && in == loopHdr.Instrs[0] }
	ok1, _ := ig.mustPass([]int{0}, isMark(vs["visited"]), isHdr)
	ru.Check(ok1, "visit/mark-visited", w.Pos(v.Pos()), "marked visited before descending", "the vertex is not marked as on-path before its children are visited: cycles would recurse forever")
	isAppendV := func(in ssa.Instruction) bool {
		c, ok := in.(*ssa.Call)
		if !ok || calleeName(c) != "builtin:append" || len(c.Call.Args) != 2 {
			return false
		}
		els, _, _ := elementsOf(c.Call.Args[1], map[ssa.Value]bool{})
		return len(els) == 1 && els[0] == ssa.Value(v.Params[vIdx])
	}
	isNilRet := func(in ssa.Instruction) bool {
		ret, ok := in.(*ssa.Return)
		return ok && isNilConst(ret.Results[0])
	}
	ok2, _ := ig.mustPass(ig.edgeStart(loopHdr, 1), isMark(vs["traversed"]), isNilRet)
	ok3, _ := ig.mustPass(ig.edgeStart(loopHdr, 1), isAppendV, isNilRet)
	ru.Check(ok2 && ok3, "visit/post-order", w.Pos(v.Pos()), "after all children: marked traversed and appended", "the vertex is not appended after its dependencies (or not marked finished)")
	// no append before the loop exit
	pre := ig.reachFrom([]int{0}, func(in ssa.Instruction) bool { return in.Block() == loopHdr })
	early := false
	for i, s := range pre {
		if s && isAppendV(ig.instrs[i]) {
			early = true
		}
	}
	body := ig.reachFrom(ig.edgeStart(loopHdr, 0), func(in ssa.Instruction) bool { return in.Block() == loopHdr })
	for i, s := range body {
		if s && isAppendV(ig.instrs[i]) {
			early = true
		}
	}
	ru.Check(!early, "visit/no-pre-order", w.Pos(v.Pos()), "nothing appended before the children", "the vertex is appended before its dependencies")
	// recursion on every child with error propagation
	elem := rangeElem(loopHdr)
	var rec *ssa.Call
	for _, c := range selfCalls(v) {
		if cc, ok := c.(*ssa.Call); ok && vIdx < len(cc.Call.Args) && cc.Call.Args[vIdx] == elem {
			rec = cc
		}
	}
	if rec == nil {
		ru.Bad("visit/recursion", w.Pos(v.Pos()), "children are not visited")
	} else {
		okRec, _ := ig.mustPass(ig.edgeStart(loopHdr, 0), func(in ssa.Instruction) bool { return in == ssa.Instruction(rec) }, isHdr)
		prop := false
		eachInstr(v, func(in ssa.Instruction) {
			if ret, ok := in.(*ssa.Return); ok && ret.Results[0] == ssa.Value(rec) {
				prop = true
			}
		})
		ru.Check(okRec && prop, "visit/recursion", w.IPos(rec), "every child visited, error propagated", "a child can be skipped or its cycle error dropped")
	}
	// the result starts empty: everything DepthFirstSort returns was appended by a finished visit
	{
		startsEmpty, found := true, false
		eachInstr(d, func(in ssa.Instruction) {
			var init ssa.Value
			switch x := in.(type) {
			case *ssa.Store:
				// sorted := …  (a local whose address is handed to visit, or a field of a sorter object)
				if typeString(x.Val.Type()) == "[]*dag.Vertex" {
					if _, isCall := x.Val.(*ssa.Call); !isCall {
						init = x.Val
					}
				}
			}
			if init == nil {
				return
			}
			found = true
			switch v := init.(type) {
			case *ssa.MakeSlice:
				if k, ok := constInt(v.Len); !ok || k != 0 {
					startsEmpty = false
				}
			default:
				els, sp, ok := elementsOf(init, map[ssa.Value]bool{})
				if !ok || len(sp) > 0 || len(els) > 0 {
					startsEmpty = false
				}
			}
		})
		if found {
			ru.Check(startsEmpty, "DepthFirstSort/result-starts-empty", w.Pos(d.Pos()), "the sorted list starts with no entries", "the sorted list is created with entries already in it (e.g. make with a length instead of a capacity): the result contains vertices that were never visited (nil)")
		}
	}
	// DepthFirstSort
	var calls []*ssa.Call
	for _, c := range selfCalls(d) {
		if cc, ok := c.(*ssa.Call); ok {
			calls = append(calls, cc)
		}
	}
	if len(calls) != 1 {
		ru.Bad("DepthFirstSort/visit", w.Pos(d.Pos()), "DepthFirstSort does not call visit exactly once per vertex")
		return
	}
	inLoop := false
	for _, h := range loopHeaders(d) {
		if naturalLoop(h)[calls[0].Block()] {
			for _, in := range h.Instrs {
				if nx, ok := in.(*ssa.Next); ok {
					if rg, ok := nx.Iter.(*ssa.Range); ok {
						if _, ok := loadOfFieldNamed(rg.X, "Vertices"); ok {
							inLoop = true
						}
					}
				}
			}
		}
	}
	retErr := false
	eachInstr(d, func(in ssa.Instruction) {
		if ret, ok := in.(*ssa.Return); ok && len(ret.Results) == 2 {
			for _, leaf := range phiLeaves(ret.Results[1], map[ssa.Value]bool{}) {
				if leaf == ssa.Value(calls[0]) {
					retErr = true
				}
			}
		}
	})
	// success return is after the full loop and returns the sorted list
	ru.Check(inLoop && retErr, "DepthFirstSort/all-vertices", w.Pos(d.Pos()), "visit started from every vertex of the table; first error returned", "not every vertex is the start of a visit, or the cycle error is dropped")
}

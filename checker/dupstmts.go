package main

// dupstmts.go - repeated assignments. A merge, or a tool, sometimes leaves the same assignment twice in a row
// (`opt.Option = match[2]` / `opt.Option = match[2]`). When the right-hand side is free of calls, receives and
// increments the second statement stores what the first just stored; in the in-memory overlay it is dropped, so
// that rules comparing two regions instruction by instruction, or counting the writers of a field, see the code as it
// would be written once. Nothing else is touched: a repeated call (`sort.Strings(x)` twice) stays.

import (
	"go/ast"
	"go/token"
	"strings"

	"golang.org/x/tools/go/packages"
)

func dropRepeatedAssignments(w *World, repo string, overlay map[string][]byte, extraEnv []string) (*World, map[string][]byte) {
	in := &inliner{w: w, overlay: map[string][]byte{}}
	for k, v := range overlay {
		in.overlay[k] = v
	}
	edits := map[string][]textEdit{}
	n := 0
	for _, p := range w.Pkgs {
		for _, file := range p.Syntax {
			es := repeatedAssignmentEdits(in, p, file)
			if len(es) > 0 {
				fname, _ := in.rawOff(file.Pos())
				edits[fname] = append(edits[fname], es...)
				n += len(es)
			}
		}
	}
	if n == 0 {
		return w, overlay
	}
	nov, err := in.applyEdits(edits)
	if err != nil {
		return w, overlay
	}
	next, err := loadWorldRaw(repo, nov, extraEnv)
	if err != nil {
		return w, overlay
	}
	next.Notes = append(w.Notes, "an assignment repeated verbatim right after itself (pure right-hand side) is read once")
	return next, nov
}

func pureExpr(e ast.Expr) bool {
	pure := true
	ast.Inspect(e, func(n ast.Node) bool {
		switch x := n.(type) {
		case *ast.CallExpr, *ast.FuncLit:
			pure = false
		case *ast.UnaryExpr:
			if x.Op == token.ARROW {
				pure = false
			}
		}
		return pure
	})
	return pure
}

func repeatedAssignmentEdits(in *inliner, p *packages.Package, file *ast.File) []textEdit {
	var edits []textEdit
	ast.Inspect(file, func(n ast.Node) bool {
		var list []ast.Stmt
		switch x := n.(type) {
		case *ast.BlockStmt:
			list = x.List
		case *ast.CaseClause:
			list = x.Body
		case *ast.CommClause:
			list = x.Body
		}
		for i := 0; i+1 < len(list); i++ {
			a, ok1 := list[i].(*ast.AssignStmt)
			b, ok2 := list[i+1].(*ast.AssignStmt)
			// x := T{F: e} directly followed by x.F = e
			if ok1 && ok2 && a.Tok == token.DEFINE && b.Tok == token.ASSIGN && len(a.Lhs) == 1 && len(a.Rhs) == 1 && len(b.Lhs) == 1 && len(b.Rhs) == 1 {
				x, isId := a.Lhs[0].(*ast.Ident)
				lit, isLit := a.Rhs[0].(*ast.CompositeLit)
				if u, isU := a.Rhs[0].(*ast.UnaryExpr); isU && u.Op == token.AND {
					lit, isLit = u.X.(*ast.CompositeLit)
				}
				sel, isSel := b.Lhs[0].(*ast.SelectorExpr)
				if isId && isLit && isSel && pureExpr(b.Rhs[0]) {
					if bx, ok := sel.X.(*ast.Ident); ok && bx.Name == x.Name {
						for _, el := range lit.Elts {
							kv, ok := el.(*ast.KeyValueExpr)
							if !ok {
								continue
							}
							if k, ok := kv.Key.(*ast.Ident); ok && k.Name == sel.Sel.Name &&
								strings.Join(strings.Fields(in.nodeText(kv.Value)), " ") == strings.Join(strings.Fields(in.nodeText(b.Rhs[0])), " ") {
								// keep the statement, drop the initialiser (a literal with one keyed element less)
								_, s := in.rawOff(kv.Pos())
								_, e := in.rawOff(kv.End())
								src := in.src(func() string { f, _ := in.rawOff(kv.Pos()); return f }())
								for e < len(src) && (src[e] == ' ' || src[e] == '\t') {
									e++
								}
								if e < len(src) && src[e] == ',' {
									e++
								}
								edits = append(edits, textEdit{s, e, ""})
							}
						}
						continue
					}
				}
			}
			if !ok1 || !ok2 || a.Tok != token.ASSIGN || b.Tok != token.ASSIGN {
				continue
			}
			ta, tb := strings.Join(strings.Fields(in.nodeText(a)), " "), strings.Join(strings.Fields(in.nodeText(b)), " ")
			if ta != tb || ta == "" {
				continue
			}
			ok := true
			for _, e := range append(append([]ast.Expr{}, a.Lhs...), a.Rhs...) {
				if !pureExpr(e) {
					ok = false
				}
			}
			if !ok {
				continue
			}
			_, s := in.rawOff(b.Pos())
			_, e := in.rawOff(b.End())
			edits = append(edits, textEdit{s, e, "{}"})
			i++
		}
		return true
	})
	return edits
}

package main

// flatten.go - the reverse of "group a few fields into a sub-struct". A behaviour-preserving edit may move some
// fields of a reference struct into a new unexported struct held by value in one field
// (`programTree.parsing parseSettings{mode, unknownMode, requireOrder}`); every rule that looks a field up by name
// would lose it. Before the rules run such a field is dissolved again in the in-memory overlay: the fields of the
// new type take the place of the holding field, `x.parsing.mode` becomes `x.mode`, `parsing: parseSettings{a: e}`
// inside a literal of the outer type becomes `a: e`, and a whole copy `a.parsing = b.parsing` becomes the
// field-wise copy. It applies only when the inner type is NOT in the reference table, is used nowhere else (no
// variables, parameters, methods), its field names do not clash with the outer struct's, and every occurrence of the
// holding field has one of the forms above; otherwise the tree is left as written.

import (
	"fmt"
	"go/ast"
	"go/token"
	"go/types"
	"sort"
	"strings"

	"golang.org/x/tools/go/packages"
)

type flatCand struct {
	outer     *types.Named
	field     *types.Var
	inner     *types.Named
	innerSt   *types.Struct
	fieldNode *ast.Field
	innerSpec *ast.TypeSpec
	pkg       *packages.Package
	reason    string
}

func flattenGroups(w *World, repo string, overlay map[string][]byte, extraEnv []string) (*World, map[string][]byte) {
	cur, ov := w, overlay
	for round := 0; round < 3; round++ {
		in := &inliner{w: cur, overlay: map[string][]byte{}}
		for k, v := range ov {
			in.overlay[k] = v
		}
		edits, notes := flattenRound(in)
		if len(edits) == 0 {
			return cur, ov
		}
		nov, err := in.applyEdits(edits)
		if err != nil {
			cur.Notes = append(cur.Notes, "field groups not dissolved: "+err.Error())
			return cur, ov
		}
		next, err := loadWorldRaw(repo, nov, extraEnv)
		if err != nil {
			msg := err.Error()
			if len(msg) > 400 {
				msg = msg[:400]
			}
			cur.Notes = append(cur.Notes, "field groups not dissolved (the rewritten program does not load): "+msg)
			return cur, ov
		}
		next.Notes = append(cur.Notes, notes...)
		cur, ov = next, nov
	}
	return cur, ov
}

func flattenRound(in *inliner) (map[string][]textEdit, []string) {
	w := in.w
	edits := map[string][]textEdit{}
	var notes []string
	for _, p := range w.Pkgs {
		// candidates: a field of a reference struct whose type is a new struct type of the same package, held by value
		var cands []*flatCand
		for _, file := range p.Syntax {
			for _, d := range file.Decls {
				gd, ok := d.(*ast.GenDecl)
				if !ok || gd.Tok != token.TYPE {
					continue
				}
				for _, sp := range gd.Specs {
					ts := sp.(*ast.TypeSpec)
					stAst, ok := ts.Type.(*ast.StructType)
					if !ok || ts.TypeParams != nil {
						continue
					}
					tn, _ := p.TypesInfo.Defs[ts.Name].(*types.TypeName)
					if tn == nil || !baselineTypes[shortName(p.PkgPath)+"."+tn.Name()] {
						continue
					}
					outer, _ := tn.Type().(*types.Named)
					for _, fld := range stAst.Fields.List {
						if len(fld.Names) != 1 {
							continue
						}
						fv, _ := p.TypesInfo.Defs[fld.Names[0]].(*types.Var)
						if fv == nil {
							continue
						}
						inner, ok := fv.Type().(*types.Named)
						if !ok || inner.Obj().Pkg() != p.Types || baselineTypes[shortName(p.PkgPath)+"."+inner.Obj().Name()] {
							continue
						}
						ist, ok := inner.Underlying().(*types.Struct)
						if !ok || ist.NumFields() == 0 || inner.TypeArgs() != nil {
							continue
						}
						cands = append(cands, &flatCand{outer: outer, field: fv, inner: inner, innerSt: ist, fieldNode: fld, pkg: p})
					}
				}
			}
		}
		if len(cands) == 0 {
			continue
		}
		for _, c := range cands {
			es, why := flattenOne(in, p, c)
			if why != "" {
				notes = append(notes, fmt.Sprintf("field group %s.%s (%s) is analysed as written: %s", c.outer.Obj().Name(), c.field.Name(), c.inner.Obj().Name(), why))
				continue
			}
			for f, e := range es {
				edits[f] = append(edits[f], e...)
			}
			notes = append(notes, fmt.Sprintf("field group %s.%s (new type %s) is read as the fields it holds", c.outer.Obj().Name(), c.field.Name(), c.inner.Obj().Name()))
		}
	}
	sort.Strings(notes)
	if len(edits) == 0 {
		return nil, nil
	}
	return edits, notes
}

func flattenOne(in *inliner, p *packages.Package, c *flatCand) (map[string][]textEdit, string) {
	info := p.TypesInfo
	// no methods on the inner type
	if c.inner.NumMethods() > 0 {
		return nil, "the new type has methods"
	}
	// field names must not clash
	ost := c.outer.Underlying().(*types.Struct)
	names := map[string]bool{}
	for i := 0; i < ost.NumFields(); i++ {
		names[ost.Field(i).Name()] = true
	}
	for i := 0; i < c.innerSt.NumFields(); i++ {
		f := c.innerSt.Field(i)
		if f.Embedded() || names[f.Name()] {
			return nil, "a field name of the group clashes with the outer struct"
		}
	}
	edits := map[string][]textEdit{}
	add := func(file string, e textEdit) { edits[file] = append(edits[file], e) }
	handled := map[ast.Node]bool{}
	why := ""
	for _, file := range p.Syntax {
		fname, _ := in.rawOff(file.Pos())
		parent := map[ast.Node]ast.Node{}
		var stack []ast.Node
		ast.Inspect(file, func(n ast.Node) bool {
			if n == nil {
				stack = stack[:len(stack)-1]
				return true
			}
			if len(stack) > 0 {
				parent[n] = stack[len(stack)-1]
			}
			stack = append(stack, n)
			return true
		})
		ast.Inspect(file, func(n ast.Node) bool {
			if why != "" {
				return false
			}
			switch x := n.(type) {
			case *ast.TypeSpec:
				if info.Defs[x.Name] == types.Object(c.inner.Obj()) {
					c.innerSpec = x
					return false // the declaration of the inner type itself
				}
			case *ast.Ident:
				// any other mention of the inner type: its literals inside outer literals are handled below
				if info.Uses[x] == types.Object(c.inner.Obj()) {
					cl, ok := parent[x].(*ast.CompositeLit)
					if ok && cl.Type == ast.Expr(x) {
						if kv, ok := parent[cl].(*ast.KeyValueExpr); ok && kv.Value == ast.Expr(cl) {
							if k, ok := kv.Key.(*ast.Ident); ok && info.Uses[k] == types.Object(c.field) {
								return true
							}
						}
					}
					if fld, ok := parent[x].(*ast.Field); ok && fld == c.fieldNode {
						return true
					}
					why = "the new type is used outside the holding field (" + in.w.Pos(x.Pos()) + ")"
				}
			case *ast.SelectorExpr:
				if info.Uses[x.Sel] != types.Object(c.field) {
					return true
				}
				if handled[x] {
					return true
				}
				switch pn := parent[x].(type) {
				case *ast.SelectorExpr:
					// x.F.g -> x.g
					if pn.X == ast.Expr(x) {
						if sel := info.Selections[pn]; sel != nil && sel.Kind() == types.FieldVal {
							_, a := in.rawOff(x.X.End())
							_, b := in.rawOff(x.Sel.End())
							add(fname, textEdit{a, b, ""})
							return true
						}
					}
					why = "the group is used as a whole (" + in.w.Pos(x.Pos()) + ")"
				case *ast.AssignStmt:
					// a.F = b.F  ->  field-wise copy
					if pn.Tok == token.ASSIGN && len(pn.Lhs) == 1 && len(pn.Rhs) == 1 {
						l, ok1 := pn.Lhs[0].(*ast.SelectorExpr)
						r, ok2 := pn.Rhs[0].(*ast.SelectorExpr)
						if ok1 && ok2 && info.Uses[l.Sel] == types.Object(c.field) && info.Uses[r.Sel] == types.Object(c.field) && simpleChain(l.X) && simpleChain(r.X) {
							handled[l], handled[r] = true, true
							lx, rx := in.nodeText(l.X), in.nodeText(r.X)
							var ls, rs []string
							for i := 0; i < c.innerSt.NumFields(); i++ {
								ls = append(ls, lx+"."+c.innerSt.Field(i).Name())
								rs = append(rs, rx+"."+c.innerSt.Field(i).Name())
							}
							_, a := in.rawOff(pn.Pos())
							_, b := in.rawOff(pn.End())
							add(fname, textEdit{a, b, strings.Join(ls, ", ") + " = " + strings.Join(rs, ", ")})
							return true
						}
					}
					why = "the group is assigned or read as a whole (" + in.w.Pos(x.Pos()) + ")"
				default:
					why = "the group is used as a whole (" + in.w.Pos(x.Pos()) + ")"
				}
			case *ast.KeyValueExpr:
				k, ok := x.Key.(*ast.Ident)
				if !ok || info.Uses[k] != types.Object(c.field) {
					return true
				}
				if src, ok := ast.Unparen(x.Value).(*ast.SelectorExpr); ok && info.Uses[src.Sel] == types.Object(c.field) && simpleChain(src.X) {
					// F: y.F  ->  g1: y.g1, g2: y.g2 (the whole group copied from another object)
					handled[src] = true
					sx := in.nodeText(src.X)
					var parts []string
					for i := 0; i < c.innerSt.NumFields(); i++ {
						parts = append(parts, c.innerSt.Field(i).Name()+": "+sx+"."+c.innerSt.Field(i).Name())
					}
					_, a := in.rawOff(x.Pos())
					_, b := in.rawOff(x.End())
					add(fname, textEdit{a, b, strings.Join(parts, ", ")})
					return false
				}
				cl, ok := ast.Unparen(x.Value).(*ast.CompositeLit)
				if !ok || len(cl.Elts) == 0 {
					why = "the group is initialised by something other than a non-empty keyed literal (" + in.w.Pos(x.Pos()) + ")"
					return false
				}
				for _, el := range cl.Elts {
					if _, ok := el.(*ast.KeyValueExpr); !ok {
						why = "positional literal of the group (" + in.w.Pos(x.Pos()) + ")"
						return false
					}
				}
				// F: T{g1: e1, g2: e2}  ->  g1: e1, g2: e2   (keep the inner elements' text as it is)
				_, a := in.rawOff(x.Pos())
				_, b := in.rawOff(cl.Elts[0].Pos())
				add(fname, textEdit{a, b, strings.Repeat("\n", strings.Count(string(in.src(fname)[a:b]), "\n"))})
				_, e1 := in.rawOff(cl.Elts[len(cl.Elts)-1].End())
				_, e2 := in.rawOff(x.End())
				// a trailing comma inside the inner literal would double up with the outer one: drop what follows the
				// last element; the directive keeps the following tokens on their lines
				add(fname, textEdit{e1, e2, in.dir(x.End())})
			}
			return true
		})
	}
	if why != "" {
		return nil, why
	}
	if c.innerSpec == nil {
		return nil, "declaration of the new type not found"
	}
	// the holding field is replaced by the fields of the group (source text of the inner field list, one line)
	ist, ok := c.innerSpec.Type.(*ast.StructType)
	if !ok {
		return nil, "the new type is not declared as a struct literal"
	}
	var parts []string
	for _, fld := range ist.Fields.List {
		var ns []string
		for _, nm := range fld.Names {
			ns = append(ns, nm.Name)
		}
		if len(ns) == 0 {
			return nil, "embedded field in the group"
		}
		parts = append(parts, strings.Join(ns, ", ")+" "+strings.Join(strings.Fields(in.nodeText(fld.Type)), " "))
	}
	ff, a := in.rawOff(c.fieldNode.Pos())
	_, b := in.rawOff(c.fieldNode.Type.End())
	add(ff, textEdit{a, b, strings.Join(parts, "; ")})
	return edits, ""
}

// simpleChain: identifiers and field selections only (evaluating it twice is harmless).
func simpleChain(e ast.Expr) bool {
	switch x := e.(type) {
	case *ast.Ident:
		return true
	case *ast.SelectorExpr:
		return simpleChain(x.X)
	case *ast.ParenExpr:
		return simpleChain(x.X)
	}
	return false
}

package main

// thorough.go - the thorough tier: (a) the verdict is re-derived under other build configurations,
// (b) the sensitivity corpus: every variant under mutants/ that targets the property is applied to the
// *current* sources through an in-memory overlay (go/packages Overlay; nothing is written to disk, nothing is
// executed) and the rules are re-run on it. Broken variants must be reported, equivalent ones must stay silent.
// The corpus outcome is recorded in the evidence and never changes the verdict on /repo.

import (
	"encoding/json"
	"fmt"
	"os"
	"os/exec"
	"path/filepath"
	"runtime"
	"runtime/debug"
	"sort"
	"strings"
	"sync"
)

type mutant struct {
	ID     string   `json:"id"`
	Props  []string `json:"properties"`
	File   string   `json:"file"`
	Old    string   `json:"old"`
	New    string   `json:"new"`
	Edits  []edit   `json:"edits,omitempty"` // additional edits (file/old/new)
	Expect string   `json:"expect"`          // "fire" | "silent"
	Rule   string   `json:"rule,omitempty"`  // rule expected to fire (prefix match), informational
	Note   string   `json:"note,omitempty"`
	Suite  string   `json:"suite,omitempty"` // "survives" | "killed" | "" (measured by hand once)
}

type edit struct {
	File string `json:"file"`
	Old  string `json:"old"`
	New  string `json:"new"`
}

type mutantOutcome struct {
	ID      string   `json:"id"`
	Expect  string   `json:"expect"`
	Outcome string   `json:"outcome"` // fired | silent | skipped | load-error
	Rules   []string `json:"rules_fired,omitempty"`
	OK      bool     `json:"as_expected"`
	Note    string   `json:"note,omitempty"`
}

// thoroughWorkers: how many scratch trees are analysed at the same time (each holds one type-checked copy of the library).
func thoroughWorkers() int {
	n := runtime.NumCPU() / 4
	if n < 1 {
		n = 1
	}
	if n > 4 {
		n = 4
	}
	return n
}

func loadMutants(dir string) ([]mutant, error) {
	files, _ := filepath.Glob(filepath.Join(dir, "*.json"))
	sort.Strings(files)
	var out []mutant
	for _, f := range files {
		b, err := os.ReadFile(f)
		if err != nil {
			return nil, err
		}
		var ms []mutant
		if err := json.Unmarshal(b, &ms); err != nil {
			var m mutant
			if err2 := json.Unmarshal(b, &m); err2 != nil {
				return nil, fmt.Errorf("%s: %v", f, err)
			}
			ms = []mutant{m}
		}
		out = append(out, ms...)
	}
	return out, nil
}

func (m mutant) overlay(repo string) (map[string][]byte, error) {
	edits := append([]edit{{m.File, m.Old, m.New}}, m.Edits...)
	ov := map[string][]byte{}
	for _, e := range edits {
		p := filepath.Join(repo, e.File)
		src, ok := ov[p]
		if !ok {
			b, err := os.ReadFile(p)
			if err != nil {
				return nil, err
			}
			src = b
		}
		if strings.Count(string(src), e.Old) != 1 {
			return nil, fmt.Errorf("edit does not apply exactly once to %s", e.File)
		}
		ov[p] = []byte(strings.Replace(string(src), e.Old, e.New, 1))
	}
	return ov, nil
}

func runMutant(repo string, m mutant, prop string) mutantOutcome {
	out := mutantOutcome{ID: m.ID, Expect: m.Expect, Note: m.Note}
	ov, err := m.overlay(repo)
	if err != nil {
		out.Outcome = "skipped"
		out.OK = true
		out.Note = err.Error()
		return out
	}
	w, err := LoadWorld(repo, ov, nil)
	if err != nil {
		out.Outcome = "load-error"
		out.Note = firstLines(err.Error(), 4)
		out.OK = false
		return out
	}
	rep := runProp(w, prop)
	rep.finish(nil)
	rules := map[string]bool{}
	for _, o := range rep.Obls {
		if o.Status == stViolated || o.Status == stUndecided {
			rules[o.Rule] = true
		}
	}
	out.Rules = sortedKeys(rules)
	if len(rules) > 0 {
		out.Outcome = "fired"
	} else {
		out.Outcome = "silent"
	}
	out.OK = (m.Expect == "fire") == (len(rules) > 0)
	return out
}

func runThorough(w *World, repo, mutDir, prop string, withConfigs bool) map[string]interface{} {
	// the thorough tier loads the tree hundreds of times in one process: collect eagerly, several thorough runs may
	// share the machine
	debug.SetGCPercent(30)
	res := map[string]interface{}{}
	if withConfigs {
		// (a) other build configurations: same verdict expected
		var cfgs []map[string]interface{}
		for _, env := range [][]string{{"GOOS=windows", "GOARCH=amd64"}, {"GOOS=linux", "GOARCH=386"}, {"GOOS=darwin", "GOARCH=arm64"}} {
			entry := map[string]interface{}{"env": strings.Join(env, " ")}
			w2, err := LoadWorld(repo, nil, append(env, "CGO_ENABLED=0"))
			if err != nil {
				entry["error"] = firstLines(err.Error(), 3)
			} else {
				rep := runProp(w2, prop)
				rep.finish(nil)
				total, ok, bad, und, _, _ := rep.counts()
				entry["obligations"] = total
				entry["discharged"] = ok
				entry["violated"] = bad + und
			}
			cfgs = append(cfgs, entry)
		}
		res["other_configurations"] = cfgs
	}
	// (b) sensitivity corpus
	ms, err := loadMutants(mutDir)
	if err != nil {
		res["sensitivity_error"] = err.Error()
		return res
	}
	var outs []mutantOutcome
	fired, expFire, silent, expSilent, skipped, wrong := 0, 0, 0, 0, 0, 0
	for _, m := range ms {
		match := false
		for _, p := range m.Props {
			if p == prop {
				match = true
			}
		}
		if !match {
			continue
		}
		o := runMutant(repo, m, prop)
		outs = append(outs, o)
		switch {
		case o.Outcome == "skipped":
			skipped++
		case m.Expect == "fire":
			expFire++
			if o.Outcome == "fired" {
				fired++
			}
		default:
			expSilent++
			if o.Outcome == "silent" {
				silent++
			}
		}
		if !o.OK {
			wrong++
			fmt.Printf("   sensitivity: variant %s expected %s, got %s %v %s\n", m.ID, m.Expect, o.Outcome, o.Rules, o.Note)
		} else if os.Getenv("GOCHK_VERBOSE") != "" {
			fmt.Printf("   sensitivity: variant %s: %s %v (as expected)\n", m.ID, o.Outcome, o.Rules)
		}
	}
	res["sensitivity"] = map[string]interface{}{
		"broken_variants_reported":   fmt.Sprintf("%d/%d", fired, expFire),
		"equivalent_variants_silent": fmt.Sprintf("%d/%d", silent, expSilent),
		"skipped_not_applicable":     skipped,
		"unexpected":                 wrong,
		"outcomes":                   outs,
	}
	fmt.Printf("   sensitivity corpus for %s: broken variants reported %d/%d, equivalent variants silent %d/%d, skipped %d\n", prop, fired, expFire, silent, expSilent, skipped)
	return res
}

// ---------------------------------------------------------------- seeded changes (written by independent sub-agents)

type seedMeta struct {
	ID         string              `json:"id"`
	Property   string              `json:"property"`
	DetectedBy map[string][]string `json:"detected_by"`
}

// runSeeds applies every seeded change that concerns the property to a throw-away copy of the current tree (under the
// system temp dir, removed at once), re-runs the property's rules on the copy (statically) and records the outcome.
func runSeeds(repo, verifDir, prop string) map[string]interface{} {
	metas, _ := filepath.Glob(filepath.Join(verifDir, "seeded", "*", "meta.json"))
	sort.Strings(metas)
	type outcome struct {
		ID      string   `json:"id"`
		Outcome string   `json:"outcome"`
		Rules   []string `json:"rules_fired,omitempty"`
	}
	var outs []outcome
	reported, total, skipped := 0, 0, 0
	for _, mf := range metas {
		b, err := os.ReadFile(mf)
		if err != nil {
			continue
		}
		var sm seedMeta
		if json.Unmarshal(b, &sm) != nil {
			continue
		}
		if _, ok := sm.DetectedBy[prop]; !ok && sm.Property != prop {
			continue
		}
		tmp, err := os.MkdirTemp("", "gochk-seed-")
		if err != nil {
			continue
		}
		o := outcome{ID: sm.ID}
		func() {
			defer os.RemoveAll(tmp)
			defer debug.FreeOSMemory() // one loaded tree per seeded change: give it back before the next one
			cp := exec.Command("cp", "-r", repo+"/.", tmp)
			if out, err := cp.CombinedOutput(); err != nil {
				o.Outcome = "skipped: copy failed " + string(out)
				return
			}
			os.RemoveAll(filepath.Join(tmp, ".git"))
			ap := exec.Command("git", "apply", "--unsafe-paths", "--directory="+tmp, filepath.Join(filepath.Dir(mf), "patch.diff"))
			ap.Dir = tmp
			if out, err := ap.CombinedOutput(); err != nil {
				o.Outcome = "skipped: patch no longer applies to the current tree"
				_ = out
				return
			}
			w, err := LoadWorld(tmp, nil, nil)
			if err != nil {
				o.Outcome = "load-error"
				return
			}
			rep := runProp(w, prop)
			rep.finish(nil)
			rules := map[string]bool{}
			for _, ob := range rep.Obls {
				if ob.Status == stViolated || ob.Status == stUndecided {
					rules[ob.Rule] = true
				}
			}
			o.Rules = sortedKeys(rules)
			if len(rules) > 0 {
				o.Outcome = "reported"
			} else {
				o.Outcome = "silent"
			}
		}()
		switch {
		case strings.HasPrefix(o.Outcome, "skipped"):
			skipped++
		default:
			total++
			if o.Outcome == "reported" {
				reported++
			} else {
				fmt.Printf("   seeded change %s: %s for %s\n", sm.ID, o.Outcome, prop)
			}
		}
		outs = append(outs, o)
	}
	fmt.Printf("   seeded changes concerning %s: reported %d/%d, skipped %d\n", prop, reported, total, skipped)
	return map[string]interface{}{"reported": fmt.Sprintf("%d/%d", reported, total), "skipped": skipped, "outcomes": outs}
}

// runBenign applies every behaviour-preserving refactoring under benign/ (written by independent sub-agents, each verified
// against the repository's suite) to a throw-away copy of the current tree and expects the property's rules to stay silent.
func runBenign(repo, verifDir, prop string) map[string]interface{} {
	patches, _ := filepath.Glob(filepath.Join(verifDir, "benign", "*.diff"))
	sort.Strings(patches)
	silent, total, skipped := 0, 0, 0
	var alarms []string
	type res struct {
		skipped bool
		fired   []string
		name    string
	}
	results := make([]res, len(patches))
	var wg sync.WaitGroup
	sem := make(chan struct{}, thoroughWorkers())
	for i, pf := range patches {
		i, pf := i, pf
		wg.Add(1)
		sem <- struct{}{}
		go func() {
			defer wg.Done()
			defer func() { <-sem }()
			r := res{name: filepath.Base(pf), skipped: true}
			defer func() { results[i] = r }()
			tmp, err := os.MkdirTemp("", "gochk-benign-")
			if err != nil {
				return
			}
			defer os.RemoveAll(tmp)
			defer debug.FreeOSMemory()
			if _, err := exec.Command("cp", "-r", repo+"/.", tmp).CombinedOutput(); err != nil {
				return
			}
			os.RemoveAll(filepath.Join(tmp, ".git"))
			ap := exec.Command("git", "apply", "--unsafe-paths", "--directory="+tmp, pf)
			ap.Dir = tmp
			if _, err := ap.CombinedOutput(); err != nil {
				return
			}
			w, err := LoadWorld(tmp, nil, nil)
			if err != nil {
				return
			}
			rep := runProp(w, prop)
			rep.finish(nil)
			fired := map[string]bool{}
			for _, ob := range rep.Obls {
				if ob.Status == stViolated || ob.Status == stUndecided {
					fired[ob.Rule] = true
				}
			}
			r.skipped = false
			r.fired = sortedKeys(fired)
		}()
	}
	wg.Wait()
	for _, r := range results {
		if r.skipped {
			skipped++
			continue
		}
		total++
		if len(r.fired) == 0 {
			silent++
		} else {
			alarms = append(alarms, r.name+": "+strings.Join(r.fired, ","))
			fmt.Printf("   benign refactoring %s raises %v under %s\n", r.name, r.fired, prop)
		}
	}
	fmt.Printf("   benign refactorings under %s: silent %d/%d, skipped %d\n", prop, silent, total, skipped)
	return map[string]interface{}{"silent": fmt.Sprintf("%d/%d", silent, total), "skipped": skipped, "false_alarms": alarms}
}

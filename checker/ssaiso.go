package main

// ssaiso.go - structural equality of two SSA regions (sibling agreement decided on the intermediate representation
// rather than on syntax): the code reachable from block a and the code reachable from block b are the same
// computation when there is a bijection between their blocks and the values they define under which every
// instruction has the same operation, the same types, the same constants and corresponding operands, and every
// operand defined outside the regions is the very same value. Control structure (if / switch / guard clauses) and
// local names do not matter; what is executed does.

import (
	"fmt"
	"go/types"

	"golang.org/x/tools/go/ssa"
)

func blocksFrom(a *ssa.BasicBlock) map[*ssa.BasicBlock]bool {
	out := map[*ssa.BasicBlock]bool{a: true}
	stack := []*ssa.BasicBlock{a}
	for len(stack) > 0 {
		b := stack[len(stack)-1]
		stack = stack[:len(stack)-1]
		for _, s := range b.Succs {
			if !out[s] {
				out[s] = true
				stack = append(stack, s)
			}
		}
	}
	return out
}

type isoState struct {
	ra, rb map[*ssa.BasicBlock]bool
	bm     map[*ssa.BasicBlock]*ssa.BasicBlock
	vm     map[ssa.Value]ssa.Value
	why    string
}

func (st *isoState) fail(format string, args ...interface{}) bool {
	if st.why == "" {
		st.why = fmt.Sprintf(format, args...)
	}
	return false
}

func inRegion(v ssa.Value, r map[*ssa.BasicBlock]bool) bool {
	in, ok := v.(ssa.Instruction)
	return ok && in.Block() != nil && r[in.Block()]
}

func (st *isoState) valueEq(x, y ssa.Value) bool {
	if x == nil || y == nil {
		return x == y
	}
	if m, ok := st.vm[x]; ok {
		if m != y {
			return st.fail("operand %s corresponds to %s, not %s", x.Name(), m.Name(), y.Name())
		}
		return true
	}
	cx, okx := x.(*ssa.Const)
	cy, oky := y.(*ssa.Const)
	if okx || oky {
		if !(okx && oky) || !types.Identical(cx.Type(), cy.Type()) {
			return st.fail("constant versus non-constant operand")
		}
		if (cx.Value == nil) != (cy.Value == nil) || (cx.Value != nil && cx.Value.ExactString() != cy.Value.ExactString()) {
			return st.fail("constants differ: %s vs %s", cx, cy)
		}
		return true
	}
	ia, ib := inRegion(x, st.ra), inRegion(y, st.rb)
	if ia != ib {
		return st.fail("operand %s is local to one branch only", x.Name())
	}
	if ia {
		// forward reference (loop): assume and verify when the definition is reached
		st.vm[x] = y
		return true
	}
	if x != y {
		return st.fail("different outside operands %s / %s", x.Name(), y.Name())
	}
	return true
}

func realInstrs(b *ssa.BasicBlock) []ssa.Instruction {
	var out []ssa.Instruction
	for _, in := range b.Instrs {
		if _, ok := in.(*ssa.DebugRef); ok {
			continue
		}
		out = append(out, in)
	}
	return out
}

func (st *isoState) instrEq(a, b ssa.Instruction) bool {
	if fmt.Sprintf("%T", a) != fmt.Sprintf("%T", b) {
		return st.fail("%T versus %T", a, b)
	}
	if va, ok := a.(ssa.Value); ok {
		vb := b.(ssa.Value)
		if !types.Identical(va.Type(), vb.Type()) {
			return st.fail("result types differ: %s vs %s", va.Type(), vb.Type())
		}
		if m, ok := st.vm[va]; ok && m != vb {
			return st.fail("value %s was matched with %s", va.Name(), m.Name())
		}
		st.vm[va] = vb
	}
	switch x := a.(type) {
	case *ssa.BinOp:
		if x.Op != b.(*ssa.BinOp).Op {
			return st.fail("operators differ")
		}
	case *ssa.UnOp:
		y := b.(*ssa.UnOp)
		if x.Op != y.Op || x.CommaOk != y.CommaOk {
			return st.fail("operators differ")
		}
	case *ssa.FieldAddr:
		if x.Field != b.(*ssa.FieldAddr).Field {
			return st.fail("different fields")
		}
	case *ssa.Field:
		if x.Field != b.(*ssa.Field).Field {
			return st.fail("different fields")
		}
	case *ssa.Extract:
		if x.Index != b.(*ssa.Extract).Index {
			return st.fail("different tuple components")
		}
	case *ssa.TypeAssert:
		y := b.(*ssa.TypeAssert)
		if x.CommaOk != y.CommaOk || !types.Identical(x.AssertedType, y.AssertedType) {
			return st.fail("different assertions")
		}
	case *ssa.Lookup:
		if x.CommaOk != b.(*ssa.Lookup).CommaOk {
			return st.fail("different lookups")
		}
	case *ssa.Alloc:
		if x.Heap != b.(*ssa.Alloc).Heap {
			// escape analysis detail of the builder, not behaviour
		}
	case *ssa.Call:
		y := b.(*ssa.Call)
		if x.Call.IsInvoke() != y.Call.IsInvoke() || x.Call.Method != y.Call.Method {
			return st.fail("different calls")
		}
	case *ssa.Select, *ssa.Go, *ssa.Defer, *ssa.RunDefers, *ssa.Panic:
		return st.fail("unsupported instruction %T", a)
	case *ssa.Phi:
		return true // edges are compared once all blocks are matched
	}
	var ra, rb []*ssa.Value
	ra = a.Operands(ra)
	rb = b.Operands(rb)
	if len(ra) != len(rb) {
		return st.fail("operand counts differ")
	}
	for i := range ra {
		if !st.valueEq(*ra[i], *rb[i]) {
			return false
		}
	}
	return true
}

func (st *isoState) blockEq(a, b *ssa.BasicBlock) bool {
	if m, ok := st.bm[a]; ok {
		if m != b {
			return st.fail("block %d corresponds to %d, not %d", a.Index, m.Index, b.Index)
		}
		return true
	}
	if a == b {
		// a shared continuation: identical as long as nothing branch-local flows into it
		for _, in := range a.Instrs {
			if _, ok := in.(*ssa.Phi); ok {
				return st.fail("the branches merge into a block with phis")
			}
		}
		st.bm[a] = b
		return true
	}
	st.bm[a] = b
	ia, ib := realInstrs(a), realInstrs(b)
	if len(ia) != len(ib) {
		return st.fail("blocks %d and %d have %d and %d instructions", a.Index, b.Index, len(ia), len(ib))
	}
	for i := range ia {
		if !st.instrEq(ia[i], ib[i]) {
			return false
		}
	}
	if len(a.Succs) != len(b.Succs) {
		return st.fail("different control flow")
	}
	for i := range a.Succs {
		if !st.blockEq(a.Succs[i], b.Succs[i]) {
			return false
		}
	}
	return true
}

// regionIso decides whether the code from a and the code from b are the same computation.
func regionIso(a, b *ssa.BasicBlock) (bool, string) {
	st := &isoState{ra: blocksFrom(a), rb: blocksFrom(b), bm: map[*ssa.BasicBlock]*ssa.BasicBlock{}, vm: map[ssa.Value]ssa.Value{}}
	if !st.blockEq(a, b) {
		return false, st.why
	}
	// phis: corresponding edges from corresponding predecessors
	for ba, bb := range st.bm {
		if ba == bb {
			continue
		}
		for _, in := range ba.Instrs {
			pa, ok := in.(*ssa.Phi)
			if !ok {
				break
			}
			pbv, ok := st.vm[pa]
			if !ok {
				return false, "unmatched phi"
			}
			pb := pbv.(*ssa.Phi)
			if ba == a {
				return false, "the branch entry merges values (phi at the entry block)"
			}
			if len(pa.Edges) != len(pb.Edges) {
				return false, "phis with different arity"
			}
			for i, pred := range ba.Preds {
				mp, ok := st.bm[pred]
				if !ok {
					return false, "phi edge from an unmatched block"
				}
				j := -1
				for k, q := range bb.Preds {
					if q == mp {
						j = k
					}
				}
				if j < 0 || !st.valueEq(pa.Edges[i], pb.Edges[j]) {
					if st.why == "" {
						st.why = "phi edges differ"
					}
					return false, st.why
				}
			}
		}
	}
	// every assumed correspondence of branch-local values must have been confirmed by a definition
	for x, y := range st.vm {
		if inRegion(x, st.ra) {
			xi := x.(ssa.Instruction)
			yi, ok := y.(ssa.Instruction)
			if !ok || st.bm[xi.Block()] != yi.Block() {
				return false, "a branch-local value corresponds to a value of another block"
			}
		}
	}
	return true, fmt.Sprintf("%d block(s), %d value(s) in bijection", len(st.bm), len(st.vm))
}

// regionEntries: blocks of region r with a predecessor outside r (or none), from which a return is reachable inside r.
func regionEntries(r map[*ssa.BasicBlock]bool) []*ssa.BasicBlock {
	var out []*ssa.BasicBlock
	for b := range r {
		entry := len(b.Preds) == 0
		for _, p := range b.Preds {
			if !r[p] {
				entry = true
			}
		}
		if !entry {
			continue
		}
		// return reachable within r
		seen := map[*ssa.BasicBlock]bool{b: true}
		stack := []*ssa.BasicBlock{b}
		found := false
		for len(stack) > 0 {
			c := stack[len(stack)-1]
			stack = stack[:len(stack)-1]
			if len(c.Instrs) > 0 {
				if _, ok := c.Instrs[len(c.Instrs)-1].(*ssa.Return); ok {
					found = true
				}
			}
			for _, s := range c.Succs {
				if r[s] && !seen[s] {
					seen[s] = true
					stack = append(stack, s)
				}
			}
		}
		if found {
			out = append(out, b)
		}
	}
	return out
}

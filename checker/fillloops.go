package main

// fillloops.go - a pre-sized slice filled by index. `x := make([]T, len(c)); for i, e := range c { …; x[i] = E }` and
// `x := make([]T, len(m)); i := 0; for k := range m { x[i] = E; i++ }` build the same slice as `x := []T{}` (or
// `make([]T, 0, len(c))`) grown by `x = append(x, E)` once per iteration - the form the reference tree uses and the
// rules about accumulators (order, completeness, element provenance) know. The indexed form is rewritten to the append
// form in the in-memory overlay when it is exactly that: the slice is made with the length of the ranged collection
// right before the loop (only the counter's declaration may stand between), the loop body contains no break, continue,
// return or goto, stores into x exactly once, as a statement of the body itself (not nested), at the range index or at
// a counter that is incremented by the next statement and used nowhere else, and the function uses x's elements
// nowhere between the make and the end of the loop.

import (
	"go/ast"
	"go/token"
	"go/types"
	"strings"

	"golang.org/x/tools/go/packages"
)

func fillLoopsToAppends(w *World, repo string, overlay map[string][]byte, extraEnv []string) (*World, map[string][]byte) {
	in := &inliner{w: w, overlay: map[string][]byte{}}
	for k, v := range overlay {
		in.overlay[k] = v
	}
	edits := map[string][]textEdit{}
	n := 0
	for _, p := range w.Pkgs {
		for _, file := range p.Syntax {
			es := fillLoopEdits(in, p, file)
			if len(es) > 0 {
				fname, _ := in.rawOff(file.Pos())
				edits[fname] = append(edits[fname], es...)
				n++
			}
		}
	}
	if n == 0 {
		return w, overlay
	}
	nov, err := in.applyEdits(edits)
	if err != nil {
		return w, overlay
	}
	next, err := loadWorldRaw(repo, nov, extraEnv)
	if err != nil {
		return w, overlay
	}
	next.Notes = append(w.Notes, "a slice made with the length of a collection and filled by index, once per iteration of the loop over that collection, is read as the append loop it replaces")
	return next, nov
}

func fillLoopEdits(in *inliner, p *packages.Package, file *ast.File) []textEdit {
	info := p.TypesInfo
	text := func(n ast.Node) string { return strings.Join(strings.Fields(in.nodeText(n)), " ") }
	var edits []textEdit
	ast.Inspect(file, func(n ast.Node) bool {
		blk, ok := n.(*ast.BlockStmt)
		if !ok {
			return true
		}
		for si := 0; si+1 < len(blk.List); si++ {
			// x := make([]T, len(C))
			def, ok := blk.List[si].(*ast.AssignStmt)
			if !ok || def.Tok != token.DEFINE || len(def.Lhs) != 1 || len(def.Rhs) != 1 {
				continue
			}
			x, ok := def.Lhs[0].(*ast.Ident)
			if !ok {
				continue
			}
			mk, ok := def.Rhs[0].(*ast.CallExpr)
			if !ok || len(mk.Args) != 2 {
				continue
			}
			if f, ok := mk.Fun.(*ast.Ident); !ok || f.Name != "make" || info.Uses[f] != types.Universe.Lookup("make") {
				continue
			}
			if _, isSlice := info.TypeOf(mk.Args[0]).Underlying().(*types.Slice); !isSlice {
				continue
			}
			ln, ok := mk.Args[1].(*ast.CallExpr)
			if !ok || len(ln.Args) != 1 {
				continue
			}
			if f, ok := ln.Fun.(*ast.Ident); !ok || f.Name != "len" || info.Uses[f] != types.Universe.Lookup("len") {
				continue
			}
			coll := text(ln.Args[0])
			// optional: i := 0
			next := si + 1
			var counter *ast.Ident
			var counterDecl ast.Stmt
			if cd, ok := blk.List[next].(*ast.AssignStmt); ok && cd.Tok == token.DEFINE && len(cd.Lhs) == 1 && len(cd.Rhs) == 1 {
				if id, ok := cd.Lhs[0].(*ast.Ident); ok {
					if lit, ok := cd.Rhs[0].(*ast.BasicLit); ok && lit.Value == "0" {
						counter, counterDecl = id, cd
						next++
					}
				}
			}
			if next >= len(blk.List) {
				continue
			}
			rs, ok := blk.List[next].(*ast.RangeStmt)
			if !ok || text(rs.X) != coll {
				continue
			}
			// no jumps in the body
			jumps := false
			ast.Inspect(rs.Body, func(m ast.Node) bool {
				switch m.(type) {
				case *ast.BranchStmt, *ast.ReturnStmt, *ast.FuncLit, *ast.GoStmt, *ast.DeferStmt:
					jumps = true
				}
				return !jumps
			})
			if jumps {
				continue
			}
			// exactly one store x[idx] = E, as a statement of the body
			var store *ast.AssignStmt
			storeAt := -1
			nStores := 0
			for bi, st := range rs.Body.List {
				as, ok := st.(*ast.AssignStmt)
				if !ok || as.Tok != token.ASSIGN || len(as.Lhs) != 1 || len(as.Rhs) != 1 {
					continue
				}
				ix, ok := as.Lhs[0].(*ast.IndexExpr)
				if !ok {
					continue
				}
				if id, ok := ix.X.(*ast.Ident); ok && info.Uses[id] == info.Defs[x] {
					store, storeAt = as, bi
					nStores++
				}
			}
			if nStores != 1 {
				continue
			}
			// every other mention of x inside the loop disqualifies (reads of elements, nested stores)
			mentions := 0
			ast.Inspect(rs.Body, func(m ast.Node) bool {
				if id, ok := m.(*ast.Ident); ok && info.Uses[id] == info.Defs[x] {
					mentions++
				}
				return true
			})
			if mentions != 1 {
				continue
			}
			idx := store.Lhs[0].(*ast.IndexExpr).Index
			idxId, ok := idx.(*ast.Ident)
			if !ok {
				continue
			}
			var incStmt ast.Stmt
			switch {
			case counter == nil:
				// the range index (slices and arrays only: a map's key is not a position)
				key, ok := rs.Key.(*ast.Ident)
				if !ok || rs.Tok != token.DEFINE || info.Uses[idxId] != info.Defs[key] {
					continue
				}
				switch info.TypeOf(rs.X).Underlying().(type) {
				case *types.Slice, *types.Array:
				default:
					continue
				}
				// the index must not be written in the body
				written := false
				ast.Inspect(rs.Body, func(m ast.Node) bool {
					switch y := m.(type) {
					case *ast.AssignStmt:
						for _, l := range y.Lhs {
							if id, ok := l.(*ast.Ident); ok && info.Uses[id] == info.Defs[key] {
								written = true
							}
						}
					case *ast.IncDecStmt:
						if id, ok := y.X.(*ast.Ident); ok && info.Uses[id] == info.Defs[key] {
							written = true
						}
					}
					return true
				})
				if written {
					continue
				}
			default:
				if info.Uses[idxId] != info.Defs[counter] || storeAt+1 >= len(rs.Body.List) {
					continue
				}
				inc, ok := rs.Body.List[storeAt+1].(*ast.IncDecStmt)
				if !ok || inc.Tok != token.INC {
					continue
				}
				if id, ok := inc.X.(*ast.Ident); !ok || info.Uses[id] != info.Defs[counter] {
					continue
				}
				incStmt = inc
				// the counter is used nowhere else in the function
				uses := 0
				for id, o := range info.Uses {
					if o == info.Defs[counter] {
						_ = id
						uses++
					}
				}
				if uses != 2 {
					continue
				}
			}
			// rewrite
			_, a := in.rawOff(mk.Args[1].Pos())
			edits = append(edits, textEdit{a, a, "0, "})
			_, s1 := in.rawOff(store.Pos())
			_, e1 := in.rawOff(store.End())
			edits = append(edits, textEdit{s1, e1, x.Name + " = append(" + x.Name + ", " + in.nodeText(store.Rhs[0]) + ")"})
			if incStmt != nil {
				_, s2 := in.rawOff(incStmt.Pos())
				_, e2 := in.rawOff(incStmt.End())
				edits = append(edits, textEdit{s2, e2, "{}"})
				_, s3 := in.rawOff(counterDecl.Pos())
				_, e3 := in.rawOff(counterDecl.End())
				edits = append(edits, textEdit{s3, e3, "{}"})
			} else if key, ok := rs.Key.(*ast.Ident); ok {
				// the index may have no other use: keep the loop compiling
				uses := 0
				for _, o := range info.Uses {
					if o == info.Defs[key] {
						uses++
					}
				}
				if uses == 1 {
					_, s4 := in.rawOff(key.Pos())
					_, e4 := in.rawOff(key.End())
					edits = append(edits, textEdit{s4, e4, "_"})
				}
			}
			si = next
		}
		return true
	})
	return edits
}

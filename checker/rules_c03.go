package main

// C03 - remaining arguments are conserved.

import (
	"fmt"
	"go/token"
	"go/types"
	"strings"

	"golang.org/x/tools/go/ssa"
)

func init() {
	register("C03", "other", []string{
		"decides the structural necessary conditions (every token gets a disposition, pass-through appends happen at most once per token, verbatim, in iterator order, and survive command descent); does not decide that 'consumed' dispositions consume the right tokens (C01/C02)",
		"sliceiterator.Iterator is only used through its methods (checked: R03.6) and go/ssa models the control flow faithfully",
	}, rC03Writers, rC03Once, rC03Handoff, typestateRule("R03.4"), rC03ParseReturn, rC03Iterator, passThroughRule("R03.7"), rArgsUnmodified("R03.8"))
}

// parserOrFail builds the model for parseCLIArgs and reports unresolved anchors as undecided.
func parserOrFail(w *World, ru *Rule) *parserModel {
	fn := w.Fn(nParseCLI)
	if fn == nil {
		ru.Undecided("anchor", "-", "function parseCLIArgs not found: anchor unresolved")
		return nil
	}
	m := newParserModel(w, fn, nil)
	if len(m.errs) > 0 || m.mainNext == nil || m.mainNextIf == nil || m.cursorPhi == nil {
		ru.Undecided("anchor", w.Pos(fn.Pos()), "parser roles unresolved: "+strings.Join(m.errs, "; ")+fmt.Sprintf(" mainNext=%v mainNextIf=%v cursorPhi=%v", m.mainNext != nil, m.mainNextIf != nil, m.cursorPhi != nil))
		return nil
	}
	return m
}

// R03.1: who may write the remaining accumulator, and what is appended.
func rC03Writers(w *World, r *Report) {
	ru := r.Rule("R03.1", "programTree.ChildText is written only by the parser and its bulk-copy helper; every element appended is iterator.Value() verbatim or a whole-slice carry-over of another node's ChildText", 4)
	f := w.Field("getoptions", "programTree", "ChildText")
	if f == nil {
		ru.Undecided("anchor", "-", "field programTree.ChildText not found")
		return
	}
	allowedWriters := map[string]string{
		nParseCLI:  "the parser appends positionals / pass-through tokens",
		nStoreRest: "bulk copy of the tail after '--' / require-order stop",
	}
	for _, u := range w.fieldUses(f) {
		if u.Kind == "read" {
			continue
		}
		key := short(u.Fn) + "/" + u.Kind
		if u.Kind == "addr-escapes" {
			ru.Bad(key, w.IPos(u.Instr), "address of ChildText escapes: "+describeInstr(u.Instr))
			continue
		}
		if _, ok := allowedWriters[short(u.Fn)]; !ok {
			ru.Bad(key, w.IPos(u.Instr), "new writer of the remaining accumulator outside the parser: "+short(u.Fn))
			continue
		}
		st := u.Instr.(*ssa.Store)
		// value must be append(load X.ChildText, elems...) with elems = Value() verbatim or load Y.ChildText
		first, rest, ok := isAppendOf(st.Val, f)
		if !ok {
			ru.Bad(key, w.IPos(u.Instr), "ChildText is overwritten by something that is not an append: "+describeInstr(u.Instr))
			continue
		}
		if _, ok := loadOfField(first, f); !ok {
			ru.Bad(key, w.IPos(u.Instr), "append does not extend an existing ChildText (first operand "+first.String()+"): earlier tokens would be lost or reordered")
			continue
		}
		bad := ""
		for _, x := range rest {
			p := NewProv(w, u.Fn)
			p.opaque[nIterValue] = true
			p.Slice(x)
			if b := p.BadOps(func(kind string, in ssa.Instruction) bool {
				if kind == "call:"+nIterValue {
					return true
				}
				return false
			}); len(b) > 0 {
				bad += "transformer on the appended value: " + strings.Join(b, ", ") + "; "
			}
			if b := p.BadSrcs(func(s provSrc) bool {
				switch s.Kind {
				case "field":
					return s.Field == f
				case "param":
					return isIterPtr(s.V.Type())
				case "stop", "zero":
					return true
				case "unknown":
					return false
				}
				// the iterator itself (receiver of Value) ends in sliceiterator.New(&args)
				if s.Kind == "fresh" || s.Kind == "const" {
					return s.Kind == "const" && s.V.(*ssa.Const).Value == nil
				}
				return false
			}); len(b) > 0 {
				// receiver chain of Value(): iterator := sliceiterator.New(&args) -> param args; accept those
				var rest []string
				for _, s := range b {
					if strings.HasPrefix(s, "param:getoptions.parseCLIArgs:args") || strings.HasPrefix(s, "const:") {
						continue
					}
					rest = append(rest, s)
				}
				if len(rest) > 0 {
					bad += "appended value comes from: " + strings.Join(rest, ", ") + "; "
				}
			}
		}
		if bad != "" {
			ru.Bad(key, w.IPos(u.Instr), bad)
		} else {
			ru.OK(key, w.IPos(u.Instr), "append(ChildText, iterator.Value() | other.ChildText...) verbatim")
		}
	}
}

// R03.2: at most once per token.
func rC03Once(w *World, r *Report) {
	ru := r.Rule("R03.2", "no pass-through append can execute twice for one token: every CFG cycle through an append-to-ChildText site contains an iterator advance, or the site is guarded by a once-flag", 4)
	f := w.Field("getoptions", "programTree", "ChildText")
	for _, name := range []string{nParseCLI, nStoreRest} {
		fn := w.Fn(name)
		if fn == nil {
			ru.Undecided("anchor/"+name, "-", "function not found")
			continue
		}
		var it ssa.Value
		for _, p := range fn.Params {
			if isIterPtr(p.Type()) {
				it = p
			}
		}
		m := newParserModel(w, fn, it)
		if m.iter == nil {
			ru.Undecided("anchor/"+name, w.Pos(fn.Pos()), "no iterator in "+name)
			continue
		}
		isNext := func(in ssa.Instruction) bool { return m.iterCall(in, nIterNext) }
		eachInstr(fn, func(in ssa.Instruction) {
			base, fld, _, ok := storeField(in)
			if !ok || fld != f || !isTreePtr(base.Type()) {
				return
			}
			key := name + "/append"
			if !m.ig.inCycleAvoiding(in, isNext) {
				ru.OK(key, w.IPos(in), "every cycle through this append advances the iterator")
				return
			}
			// once-flag idiom
			if ok, why := onceFlagGuard(m, in, isNext); ok {
				ru.OK(key, w.IPos(in), "guarded by a once-flag: "+why)
			} else {
				ru.Bad(key, w.IPos(in), "this append can run more than once for the same token (cycle without iterator advance, "+why+"): the token would be duplicated in the remaining list")
			}
		})
	}
}

// onceFlagGuard checks the idiom: `if !flag { site; flag = true }` with flag a loop-header phi initialised false.
func onceFlagGuard(m *parserModel, site ssa.Instruction, isNext func(ssa.Instruction) bool) (bool, string) {
	sb := site.Block()
	for _, f := range factsAt(sb) {
		if f.Op != token.ILLEGAL || f.Truth {
			continue
		}
		phi, ok := f.X.(*ssa.Phi)
		if !ok {
			continue
		}
		h := phi.Block()
		// preds of h reachable from the site without passing h or a Next: must carry const true
		g := m.ig
		reachS := g.reachFrom(g.after(site), func(in ssa.Instruction) bool { return isNext(in) || in.Block() == h })
		reachH := g.reachFrom([]int{g.first[h]}, isNext)
		okAll := true
		sawTrue := false
		for i, p := range h.Preds {
			last := p.Instrs[len(p.Instrs)-1]
			e := phi.Edges[i]
			isTrue := false
			if c, ok := e.(*ssa.Const); ok && c.Value != nil && c.Value.String() == "true" {
				isTrue = true
			}
			if reachS[g.idx[last]] {
				if !isTrue {
					okAll = false
				} else {
					sawTrue = true
				}
			} else if reachH[g.idx[last]] {
				if !isTrue && e != ssa.Value(phi) {
					okAll = false
				}
			}
		}
		if okAll && sawTrue {
			return true, "flag " + phi.Comment + " is set on every way back from the append and never reset before the next token"
		}
		return false, "flag " + phi.Comment + " is not reliably set after the append"
	}
	return false, "no once-flag"
}

// R03.3: accumulators are handed over when the cursor moves to a command node.
func rC03Handoff(w *World, r *Report) {
	ru := r.Rule("R03.3", "at every reassignment of the parse cursor each accumulator that Parse later reads from the final node (ChildText, UnknownOptions) is carried into the new node, old elements included", 1)
	m := parserOrFail(w, ru)
	if m == nil {
		return
	}
	handoff(w, ru, m, "C03")
}

// handoff checks the carry-over of the accumulator fields at each cursor move.
func handoff(w *World, ru *Rule, m *parserModel, prop string) {
	accs := m.accumulators()
	if len(accs) == 0 {
		ru.Undecided("accumulators", w.Pos(m.fn.Pos()), "no accumulator field discovered (fields written through the cursor in the parser and read by Parse from the returned node)")
		return
	}
	moves := 0
	for _, mv := range m.cursorMoves() {
		e, pred := mv.val, mv.pred
		moves++
		for _, acc := range accs {
			if prop == "C03" && acc != m.fChildText {
				continue
			}
			if prop == "C08" && acc != m.fUnknownOptions {
				continue
			}
			key := "cursor-move/" + acc.Name()
			// there must be, in a block that dominates pred and is dominated by the match test, a store
			// new.acc = append(load new.acc | nothing, load old.acc...) where new == e and old == cursor phi
			found := false
			for _, b := range m.fn.Blocks {
				if !b.Dominates(pred) {
					continue
				}
				for _, in := range b.Instrs {
					base, f, val, ok := storeField(in)
					if !ok || f != acc || base != e {
						continue
					}
					c, ok := val.(*ssa.Call)
					if !ok || calleeName(c) != "builtin:append" {
						continue
					}
					// old accumulator among the appended operands (or as the first operand)
					for _, a := range c.Call.Args {
						if b2, ok := loadOfField(a, acc); ok && b2 == ssa.Value(m.cursorPhi) {
							found = true
						}
					}
				}
			}
			if found {
				ru.OK(key, w.IPos(pred.Instrs[len(pred.Instrs)-1]), "the "+acc.Name()+" collected so far is appended into the new node before the cursor moves")
			} else {
				ru.Bad(key, w.IPos(pred.Instrs[len(pred.Instrs)-1]), "cursor is reassigned without carrying "+acc.Name()+" into the new node: what was collected before the command name is lost (Parse only reads the final node)")
			}
		}
	}
	if moves == 0 {
		ru.Undecided("cursor-move", w.Pos(m.fn.Pos()), "no cursor reassignment found: command descent changed shape")
	}
}

// accumulators: slice fields of programTree stored through a cursor in the parser and read in Parse.
func (m *parserModel) accumulators() (out []*typesVar) {
	parse := m.w.Fn(nParse)
	if parse == nil {
		return nil
	}
	for _, f := range []*typesVar{m.fChildText, m.fUnknownOptions} {
		if f == nil {
			continue
		}
		written, read := false, false
		for _, u := range m.w.fieldUses(f) {
			if u.Kind == "write" && (u.Fn == m.fn || short(u.Fn) == nStoreRest) {
				written = true
			}
			if u.Kind == "read" && u.Fn == parse {
				read = true
			}
		}
		if written && read {
			out = append(out, f)
		}
	}
	return out
}

// R03.4: no token is dropped (typestate) + lemmas L1, L2 + helper summary.
func typestateRule(id string) func(w *World, r *Report) {
	return func(w *World, r *Report) { typestateRuleImpl(id, w, r) }
}

func typestateRuleImpl(id string, w *World, r *Report) {
	ru := r.Rule(id, "token typestate: after every iterator advance the new current token receives a disposition (saved as value, appended verbatim, bulk-copied, recorded as unknown, consumed as command name, terminator, error return) before the next advance or a success return", 3)
	m := parserOrFail(w, ru)
	if m == nil {
		return
	}
	cfg, ok := normalParseTS(w, ru, m)
	if !ok {
		return
	}
	viols := runTypestate(cfg)
	if len(viols) == 0 {
		ru.OK("parseCLIArgs/no-token-dropped", w.Pos(m.fn.Pos()), fmt.Sprintf("%d iterator advances, %d blocks: no Next()/success return is reachable with an unaccounted token", len(m.nextCalls), len(m.fn.Blocks)))
	}
	for _, v := range viols {
		ru.Bad("parseCLIArgs/no-token-dropped", w.IPos(v.At), v.What)
	}
}

// normalParseTS builds the typestate configuration of the parser for completionMode == "" and
// reports the lemmas it relies on.
func normalParseTS(w *World, ru *Rule, m *parserModel) (*tsConfig, bool) {
	cache := map[*ssa.Function]*helperSum{}
	ok := true
	// lemma L0: Parse runs the real parse with completionMode == ""
	if parse := w.Fn(nParse); parse != nil {
		found := false
		for _, c := range callsTo(parse, nParseCLI) {
			if s, isC := constString(c.Common().Args[0]); isC && s == "" {
				found = true
			}
		}
		if found {
			ru.OK("L0/normal-parse-passes-empty-completion-mode", w.Pos(parse.Pos()), "Parse calls parseCLIArgs(\"\", …) for the real parse; completion-only edges are pruned")
		} else {
			ru.Undecided("L0/normal-parse-passes-empty-completion-mode", w.Pos(parse.Pos()), "no parseCLIArgs(\"\", …) call in Parse")
			ok = false
		}
	} else {
		ru.Undecided("L0/normal-parse-passes-empty-completion-mode", "-", "Parse not found")
		ok = false
	}
	// lemma L1: isOption returns a non-empty pair list whenever it reports true
	nonEmpty := map[*ssa.BasicBlock]loopInfo{}
	pl := m.pairLoop()
	if pl == nil || pl.preheader == nil {
		ru.Undecided("L1/pair-loop", w.Pos(m.fn.Pos()), "range loop over the pairs returned by isOption not found")
		ok = false
	} else {
		if good, why := isOptionNonEmpty(w); good {
			ru.OK("L1/isOption-true-implies-non-empty", w.Pos(w.Fn(nIsOption).Pos()), why)
			nonEmpty[pl.header] = loopInfo{preheader: pl.preheader, exitSucc: 1}
		} else {
			ru.Bad("L1/isOption-true-implies-non-empty", w.Pos(w.Fn(nIsOption).Pos()), "isOption can report an option with an empty pair list; such a token would be dropped by the parser: "+why)
			ok = false
		}
	}
	// lemma L2: the table lookup by the matcher's result always succeeds
	lkIf, lk := m.lookupOkIf()
	if lkIf == nil {
		ru.Undecided("L2/lookup", w.Pos(m.fn.Pos()), "lookup of the matched name in the cursor's ChildOptions not found")
		ok = false
	} else {
		if good, why := matcherReturnsKeys(w, m, lk); good {
			ru.OK("L2/matcher-returns-table-keys", w.IPos(lk), why)
		} else {
			ru.Bad("L2/matcher-returns-table-keys", w.IPos(lk), why)
			ok = false
			lkIf = nil
		}
	}
	// helper summary
	if h := w.Fn(nStoreRest); h != nil {
		s := w.helperSummary(h, cache)
		if s.disposes && s.exhausts {
			ru.OK("helper/storeRemainingAsText", w.Pos(h.Pos()), "summary computed: accounts for the entry token and every later one (verbatim append), returns only when Next() is false")
		} else {
			ru.Bad("helper/storeRemainingAsText", w.Pos(h.Pos()), fmt.Sprintf("bulk-copy helper does not copy everything: disposes=%v exhausts=%v %s", s.disposes, s.exhausts, s.why))
		}
	}
	moves := map[ssa.Instruction]bool{}
	for _, mv := range m.cursorMoves() {
		pred := mv.pred
		// the move must happen under key == Value()
		if m.underCommandMatch(pred) {
			moves[pred.Instrs[len(pred.Instrs)-1]] = true
		}
	}
	cfg := &tsConfig{m: m, entry: tsDisposed, nonEmptyLoops: nonEmpty,
		disposition: func(in ssa.Instruction) (bool, bool) {
			if moves[in] {
				return true, false
			}
			return m.basicDisposition(in, cache)
		},
		pruneEdge: func(b *ssa.BasicBlock, k int) bool {
			if m.normalModePrune(b, k) {
				return true
			}
			if lkIf != nil && b == lkIf.Block() && k == 1 {
				return true
			}
			return false
		},
		okReturn: func(ret *ssa.Return) bool {
			n := len(ret.Results)
			return n > 0 && !isNilConst(ret.Results[n-1])
		},
	}
	// the terminator edge disposes of the "--" token itself
	if m.termIf != nil {
		tb := m.termIf.Block().Succs[m.termTrue]
		if len(tb.Preds) == 1 && len(tb.Instrs) > 0 {
			first := tb.Instrs[0]
			old := cfg.disposition
			cfg.disposition = func(in ssa.Instruction) (bool, bool) {
				if in == first {
					return true, false
				}
				return old(in)
			}
			// first may itself be the Next() call: handled before dispositions in the transfer, so mark via edge
			if c, isCall := first.(*ssa.Call); isCall && m.iterCall(c, nIterNext) {
				oldPrune := cfg.pruneEdge
				_ = oldPrune
				cfg.edgeDisposes = func(b *ssa.BasicBlock, k int) bool { return b == m.termIf.Block() && k == m.termTrue }
			}
		} else {
			cfg.edgeDisposes = func(b *ssa.BasicBlock, k int) bool { return b == m.termIf.Block() && k == m.termTrue }
		}
	}
	return cfg, ok
}

// underCommandMatch: block b is dominated by the true edge of `key == iterator.Value()` where key ranges over ChildCommands.
func (m *parserModel) underCommandMatch(b *ssa.BasicBlock) bool {
	if m.commandLookupAt(b) != nil {
		return true
	}
	for _, f := range factsAt(b) {
		if f.Op != token.EQL || f.Y == nil {
			continue
		}
		x, y := f.X, f.Y
		if c, ok := x.(*ssa.Call); ok && m.iterCall(c, nIterValue) {
			x, y = y, x
		}
		c, ok := y.(*ssa.Call)
		if !ok || !m.iterCall(c, nIterValue) {
			continue
		}
		if m.isRangeKeyOf(x, m.fChildCommands) {
			return true
		}
	}
	return false
}

// isRangeKeyOf: v is the key of a range over load(cursor.field).
func (m *parserModel) isRangeKeyOf(v ssa.Value, field *typesVar) bool {
	ex, ok := v.(*ssa.Extract)
	if !ok || ex.Index != 1 {
		return false
	}
	nx, ok := ex.Tuple.(*ssa.Next)
	if !ok {
		return false
	}
	rg, ok := nx.Iter.(*ssa.Range)
	if !ok {
		return false
	}
	base, ok := loadOfField(rg.X, field)
	return ok && isTreePtr(base.Type())
}

// isOptionNonEmpty: every `return X, true` of isOption returns a provably non-empty X.
func isOptionNonEmpty(w *World) (bool, string) {
	fn := w.Fn(nIsOption)
	if fn == nil {
		return false, "isOption not found"
	}
	groups := regexGroupsNonEmpty(w)
	nonEmptyStr := func(v ssa.Value) bool {
		// match[i] where match is a FindStringSubmatch result, group i cannot be empty, under len(match) > 0
		ld, ok := v.(*ssa.UnOp)
		if !ok || ld.Op != token.MUL {
			return false
		}
		ia, ok := ld.X.(*ssa.IndexAddr)
		if !ok {
			return false
		}
		idx, ok := constInt(ia.Index)
		if !ok {
			return false
		}
		rxs := submatchRegexes(w, ia.X, map[ssa.Value]bool{})
		if len(rxs) == 0 {
			return false
		}
		for _, g := range rxs {
			ne, known := groups[g]
			if !known || int(idx) >= len(ne) || !ne[idx] {
				return false
			}
		}
		// len(match) > 0 must dominate
		for _, f := range factsAt(ld.Block()) {
			if lenFact(f, ia.X, 1) {
				return true
			}
		}
		return false
	}
	n := 0
	for _, b := range fn.Blocks {
		for _, in := range b.Instrs {
			ret, ok := in.(*ssa.Return)
			if !ok || len(ret.Results) != 2 {
				continue
			}
			tuples := returnTuplesBy(ret.Results, 1, 64)
			if tuples == nil {
				return false, "results merged in too many ways at " + w.IPos(ret)
			}
			for _, t := range tuples {
				c, ok := t[1].(*ssa.Const)
				if !ok {
					return false, "second result is not a constant at " + w.IPos(ret)
				}
				if c.Value == nil || c.Value.String() != "true" {
					continue
				}
				n++
				if ok, why := w.provablyNonEmpty(t[0], nonEmptyStr, 0); !ok {
					return false, fmt.Sprintf("return at %s: %s", w.IPos(ret), why)
				}
			}
		}
	}
	if n == 0 {
		return false, "no `return _, true` found"
	}
	return true, fmt.Sprintf("all %d `return pairs, true` sites return a provably non-empty list (literal, or per-character loop over a non-empty regexp group)", n)
}

// lenFact: fact establishes len(x) >= min.
func lenFact(f Fact, x ssa.Value, min int64) bool {
	if f.Y == nil {
		return false
	}
	c, ok := f.X.(*ssa.Call)
	if !ok || calleeName(c) != "builtin:len" || c.Call.Args[0] != x {
		return false
	}
	k, ok := constInt(f.Y)
	if !ok {
		return false
	}
	switch f.Op {
	case token.GTR:
		return k+1 >= min
	case token.GEQ:
		return k >= min
	case token.NEQ:
		return k == 0 && min <= 1
	case token.EQL:
		return k >= min
	}
	return false
}

// matcherReturnsKeys: every element getAliasNameFromPartialEntry returns is a key of n.ChildOptions, and the
// parser looks the first element up in the ChildOptions of the same node it passed to the matcher.
func matcherReturnsKeys(w *World, m *parserModel, lk *ssa.Lookup) (bool, string) {
	fn := w.Fn(nMatcher)
	if fn == nil {
		return false, "matcher getAliasNameFromPartialEntry not found"
	}
	// parser side: index is elem 0 of a matcher call result; the call's node argument == base of the lookup's map
	ld, ok := lk.Index.(*ssa.UnOp)
	if !ok {
		return false, "lookup key is not an element of the matcher result"
	}
	ia, ok := ld.X.(*ssa.IndexAddr)
	if !ok {
		return false, "lookup key is not an element of the matcher result"
	}
	call, ok := ia.X.(*ssa.Call)
	if !ok || calleeName(call) != nMatcher {
		return false, "lookup key does not come from the matcher"
	}
	base, _ := loadOfField(lk.X, m.fChildOptions)
	if call.Call.Args[0] != base {
		return false, "the matcher is asked about a different node than the one whose table is used for the lookup"
	}
	// matcher side
	var node *ssa.Parameter
	for _, p := range fn.Params {
		if isTreePtr(p.Type()) {
			node = p
		}
	}
	if node == nil {
		return false, "matcher has no node parameter"
	}
	isTable := func(v ssa.Value) bool {
		b, ok := loadOfField(v, m.fChildOptions)
		return ok && b == ssa.Value(node)
	}
	for _, b := range fn.Blocks {
		for _, in := range b.Instrs {
			ret, ok := in.(*ssa.Return)
			if !ok {
				continue
			}
			els, spreads, ok := elementsOf(ret.Results[0], map[ssa.Value]bool{})
			if !ok || len(spreads) > 0 {
				return false, "matcher result shape not understood at " + w.IPos(ret)
			}
			for _, e := range els {
				// (a) range key of the table
				if ex, ok := e.(*ssa.Extract); ok && ex.Index == 1 {
					if nx, ok := ex.Tuple.(*ssa.Next); ok {
						if rg, ok := nx.Iter.(*ssa.Range); ok && isTable(rg.X) {
							continue
						}
					}
				}
				// (b) a value v put into the result under a successful lookup table[v]: at the return itself, or at every
				// place where v is stored into a slice literal (the operand of an append feeding a single exit)
				lookupOKAt := func(blk *ssa.BasicBlock) bool {
					for _, f := range factsAt(blk) {
						if f.Op == token.ILLEGAL && f.Truth {
							if ex, ok := f.X.(*ssa.Extract); ok && ex.Index == 1 {
								if l2, ok := ex.Tuple.(*ssa.Lookup); ok && l2.CommaOk && isTable(l2.X) && l2.Index == e {
									return true
								}
							}
						}
					}
					return false
				}
				okLookup := lookupOKAt(b)
				if !okLookup {
					sites, all := 0, true
					eachInstr(fn, func(i2 ssa.Instruction) {
						st, ok := i2.(*ssa.Store)
						if !ok || st.Val != e {
							return
						}
						if _, isLit := rootOfAddr(st.Addr).(*ssa.Alloc); !isLit {
							return
						}
						sites++
						if !lookupOKAt(st.Block()) {
							all = false
						}
					})
					okLookup = sites > 0 && all
				}
				if !okLookup {
					return false, fmt.Sprintf("matcher may return %s which is not known to be a key of the node's option table (at %s)", e.String(), w.IPos(ret))
				}
			}
		}
	}
	return true, "every name the matcher returns is a key of the same node's ChildOptions (range key, or the entry under a successful lookup); the `ok` test in the parser cannot fail"
}

// R03.5: Parse returns the final node's accumulated text unmodified.
func rC03ParseReturn(w *World, r *Report) {
	ru := r.Rule("R03.5", "every success return of Parse in normal mode returns the ChildText of the node returned by the parser, unmodified", 1)
	fn := w.Fn(nParse)
	if fn == nil {
		ru.Undecided("anchor", "-", "Parse not found")
		return
	}
	var node ssa.Value
	for _, c := range callsTo(fn, nParseCLI) {
		if s, ok := constString(c.Common().Args[0]); ok && s == "" {
			for _, ref := range *c.Value().Referrers() {
				if ex, ok := ref.(*ssa.Extract); ok && ex.Index == 0 {
					node = ex
				}
			}
		}
	}
	if node == nil {
		ru.Undecided("anchor", w.Pos(fn.Pos()), "result node of the normal-mode parseCLIArgs call not found")
		return
	}
	f := w.Field("getoptions", "programTree", "ChildText")
	for _, b := range fn.Blocks {
		for _, in := range b.Instrs {
			ret, ok := in.(*ssa.Return)
			if !ok || len(ret.Results) != 2 {
				continue
			}
			if !isNilConst(ret.Results[1]) || isNilConst(ret.Results[0]) {
				continue // error return, or completion's (nil, nil)
			}
			base, ok := loadOfField(ret.Results[0], f)
			if ok && (base == node || sameFinalNode(base, node)) {
				ru.OK("Parse/success-return", w.IPos(ret), "returns node.ChildText of the parser's result node")
			} else {
				ru.Bad("Parse/success-return", w.IPos(ret), "success return does not hand back the parser node's ChildText unmodified: "+ret.Results[0].String())
			}
		}
	}
}

// sameFinalNode: base is a load of gopt.finalNode, which Parse stores from node.
func sameFinalNode(base, node ssa.Value) bool {
	ld, ok := base.(*ssa.UnOp)
	if !ok || ld.Op != token.MUL {
		return false
	}
	fa, ok := ld.X.(*ssa.FieldAddr)
	if !ok || fieldOfAddr(fa).Name() != "finalNode" {
		return false
	}
	// a store finalNode = node must exist in the function
	found := false
	eachInstr(ld.Parent(), func(in ssa.Instruction) {
		if _, f, v, ok := storeField(in); ok && f.Name() == "finalNode" && v == node {
			found = true
		}
	})
	return found
}

// positionOnlyResults: in the iterator method cal every branch condition, and every returned value at the result
// positions in used, is computed from the receiver's idx, len(*data) and constants alone.
func positionOnlyResults(cal *ssa.Function, fIdx, fData *types.Var, used []int, depth int) bool {
	if depth > 2 || cal.Blocks == nil {
		return false
	}
	recv := cal.Params[0]
	var pos func(v ssa.Value, d int) bool
	pos = func(v ssa.Value, d int) bool {
		if d > 8 {
			return false
		}
		switch x := v.(type) {
		case *ssa.Const:
			return true
		case *ssa.BinOp:
			return pos(x.X, d+1) && pos(x.Y, d+1)
		case *ssa.Phi:
			for _, e := range x.Edges {
				if !pos(e, d+1) {
					return false
				}
			}
			return true
		case *ssa.UnOp:
			if x.Op == token.NOT || x.Op == token.SUB {
				return pos(x.X, d+1)
			}
			if x.Op == token.MUL {
				if b, ok := loadOfField(x, fIdx); ok && b == ssa.Value(recv) {
					return true
				}
			}
			return false
		case *ssa.Call:
			if calleeName(x) == "builtin:len" && len(x.Call.Args) == 1 {
				if l2, ok := x.Call.Args[0].(*ssa.UnOp); ok && l2.Op == token.MUL {
					if b, ok := loadOfField(l2.X, fData); ok && b == ssa.Value(recv) {
						return true
					}
				}
				return false
			}
			if c2 := staticCallee(x); c2 != nil && len(x.Call.Args) > 0 && x.Call.Args[0] == ssa.Value(recv) && c2.Signature.Recv() != nil && c2.Signature.Results().Len() == 1 {
				return positionOnlyResults(c2, fIdx, fData, []int{0}, depth+1)
			}
			return false
		case *ssa.Extract:
			if c, ok := x.Tuple.(*ssa.Call); ok {
				if c2 := staticCallee(c); c2 != nil && len(c.Call.Args) > 0 && c.Call.Args[0] == ssa.Value(recv) && c2.Signature.Recv() != nil {
					return positionOnlyResults(c2, fIdx, fData, []int{x.Index}, depth+1)
				}
			}
			return false
		}
		return false
	}
	ok := true
	eachInstr(cal, func(in ssa.Instruction) {
		switch x := in.(type) {
		case *ssa.If:
			if !pos(x.Cond, 0) {
				ok = false
			}
		case *ssa.Return:
			for _, i := range used {
				if i >= len(x.Results) || !pos(x.Results[i], 0) {
					ok = false
				}
			}
		case *ssa.Store, *ssa.MapUpdate, *ssa.Go, *ssa.Defer, *ssa.Panic:
			ok = false
		}
	})
	return ok
}

// R03.6: the iterator hands tokens out verbatim, in order, and Next is absorbing at the end.
func rC03Iterator(w *World, r *Report) {
	ru := r.Rule("R03.6", "sliceiterator: Value/PeekNextValue return the element at idx / idx+1 of the backing slice unmodified; Next advances idx by exactly one and is absorbing at the end; only Next and Reset write idx; the library never calls Reset", 5)
	fIdx := w.Field("sliceiterator", "Iterator", "idx")
	fData := w.Field("sliceiterator", "Iterator", "data")
	if fIdx == nil || fData == nil {
		ru.Undecided("anchor", "-", "Iterator fields not found")
		return
	}
	for _, u := range w.fieldUses(fIdx) {
		if u.Kind == "read" {
			continue
		}
		n := short(u.Fn)
		switch n {
		case nIterNext, "(*sliceiterator.Iterator).Reset", nIterNew:
			ru.Present("idx-writer/"+n, w.IPos(u.Instr), "expected writer of idx")
		default:
			ru.Bad("idx-writer/"+n, w.IPos(u.Instr), "unexpected writer of the iterator position: "+n)
		}
	}
	for _, u := range w.fieldUses(fData) {
		if u.Kind != "read" && short(u.Fn) != nIterNew {
			ru.Bad("data-writer/"+short(u.Fn), w.IPos(u.Instr), "unexpected writer of the iterator's backing slice")
		}
	}
	// no caller of Reset in the library
	for _, fn := range w.Funcs {
		for _, c := range callsTo(fn, "(*sliceiterator.Iterator).Reset") {
			if _, fresh := c.Common().Args[0].(*ssa.Alloc); fresh && short(fn) == nIterNew {
				ru.Present("reset-call/"+short(fn), w.IPos(c), "the constructor rewinds the iterator it has just built: nothing was consumed yet")
				continue
			}
			ru.Bad("reset-call/"+short(fn), w.IPos(c), "the library rewinds the argv iterator: tokens would be processed twice")
		}
	}
	// Value: every non-constant return is (*a.data)[a.idx]
	// the position predicates judge positions, not contents: Next, ExistsNext and IsLast call nothing but len() of the
	// backing slice and never look at an element (a blank or empty token is a token; capacity is not length)
	for _, name := range []string{nIterNext, "(*sliceiterator.Iterator).ExistsNext", "(*sliceiterator.Iterator).IsLast"} {
		fn := w.Fn(name)
		if fn == nil {
			continue // not every version has all three
		}
		bad := ""
		// a hook that is nil unless the program installs one (a field the reference tree does not have) may be told
		// about the step: what happens under `hook != nil` is not part of the position logic
		underHook := func(b *ssa.BasicBlock) bool {
			for _, f := range factsAt(b) {
				if f.Op == token.NEQ && f.Y != nil && isNilConst(f.Y) {
					if ld, ok := f.X.(*ssa.UnOp); ok && ld.Op == token.MUL {
						if fa, ok := ld.X.(*ssa.FieldAddr); ok && !isBaselineField(fieldOfAddr(fa)) {
							return true
						}
					}
				}
			}
			return false
		}
		eachInstr(fn, func(in ssa.Instruction) {
			if underHook(in.Block()) {
				return
			}
			switch x := in.(type) {
			case ssa.CallInstruction:
				good := false
				if calleeName(x) == "builtin:len" && len(x.Common().Args) == 1 {
					if l2, ok := x.Common().Args[0].(*ssa.UnOp); ok && l2.Op == token.MUL {
						_, good = loadOfField(l2.X, fData)
					}
				}
				if !good {
					// a sibling accessor whose answer (the results the caller looks at) is itself decided from the
					// position and the length alone
					if cal := staticCallee(x); cal != nil && cal != fn && len(cal.Params) > 0 && cal.Signature.Recv() != nil && types.Identical(cal.Signature.Recv().Type(), fn.Signature.Recv().Type()) {
						var used []int
						if v, isVal := x.(ssa.Value); isVal && v.Referrers() != nil {
							for _, ref := range *v.Referrers() {
								switch e := ref.(type) {
								case *ssa.Extract:
									if e.Referrers() != nil && len(*e.Referrers()) > 0 {
										used = append(used, e.Index)
									}
								case *ssa.DebugRef:
								default:
									used = append(used, 0)
								}
							}
						}
						good = positionOnlyResults(cal, fIdx, fData, used, 0)
					}
				}
				if !good {
					bad = w.IPos(in) + " (" + calleeName(x) + ")"
				}
			case *ssa.IndexAddr, *ssa.Index:
				bad = w.IPos(in) + " (reads an element)"
			}
		})
		ru.Check(bad == "", name+"/position-only", w.Pos(fn.Pos()), "decided from idx and len(*data) alone", "whether a token follows is decided from something other than the position and the length of the argument list (at "+bad+"): an empty or blank token, or spare capacity of the slice, changes where the command line ends")
	}
	checkElemReturn := func(name string, off int64) {
		fn := w.Fn(name)
		if fn == nil {
			ru.Undecided("anchor/"+name, "-", "not found")
			return
		}
		n := 0
		for _, b := range fn.Blocks {
			for _, in := range b.Instrs {
				ret, ok := in.(*ssa.Return)
				if !ok {
					continue
				}
				for _, v := range phiLeaves(ret.Results[0], map[ssa.Value]bool{}) { // a single exit merges the cases in a phi
					if s, ok := constString(v); ok {
						if s != "" {
							ru.Bad(name+"/return", w.IPos(ret), "returns a constant other than the empty string")
						}
						continue
					}
					n++
					ld, ok := v.(*ssa.UnOp)
					var ia *ssa.IndexAddr
					if ok {
						ia, ok = ld.X.(*ssa.IndexAddr)
					}
					good := false
					if ok {
						// index = load idx (+ off)
						idx := ia.Index
						if off != 0 {
							if bo, ok := idx.(*ssa.BinOp); ok && bo.Op == token.ADD {
								if k, ok := constInt(bo.Y); ok && k == off {
									idx = bo.X
								}
							}
						}
						_, okIdx := loadOfField(idx, fIdx)
						// collection = load(load data)
						okData := false
						if l2, ok := ia.X.(*ssa.UnOp); ok && l2.Op == token.MUL {
							_, okData = loadOfField(l2.X, fData)
						}
						good = okIdx && okData
					}
					if good {
						ru.OK(name+"/return", w.IPos(ret), fmt.Sprintf("returns (*data)[idx+%d] unmodified", off))
					} else {
						ru.Bad(name+"/return", w.IPos(ret), "does not return the backing element verbatim: "+v.String())
					}
				}
			}
		}
		if n == 0 {
			ru.Bad(name+"/return", w.Pos(fn.Pos()), "no element return found")
		}
	}
	checkElemReturn(nIterValue, 0)
	checkElemReturn(nIterPeek, 1)
	// Next: single store idx = load idx + 1, guarded by idx < len; returns idx < len
	if fn := w.Fn(nIterNext); fn != nil {
		stores := 0
		good := true
		eachInstr(fn, func(in ssa.Instruction) {
			if _, f, val, ok := storeField(in); ok && f == fIdx {
				stores++
				bo, ok := val.(*ssa.BinOp)
				if !ok || bo.Op != token.ADD {
					good = false
					return
				}
				if k, ok := constInt(bo.Y); !ok || k != 1 {
					good = false
				}
				if _, ok := loadOfField(bo.X, fIdx); !ok {
					good = false
				}
				// guard idx < len(data)
				guarded := false
				for _, f := range factsAt(in.Block()) {
					if f.Op == token.LSS {
						if _, ok := loadOfField(f.X, fIdx); ok {
							guarded = true
						}
					}
				}
				if !guarded {
					good = false
				}
			}
		})
		if stores == 1 && good {
			ru.OK("Next/advance", w.Pos(fn.Pos()), "idx advances by exactly one and only while idx < len (absorbing at the end)")
		} else {
			ru.Bad("Next/advance", w.Pos(fn.Pos()), fmt.Sprintf("Next does not advance by exactly one under idx < len (stores=%d)", stores))
		}
	} else {
		ru.Undecided("anchor/Next", "-", "not found")
	}
}

// commandLookupAt: block b is dominated by the success edge of `node, ok := cursor.ChildCommands[iterator.Value()]`
// (the direct-lookup idiom of the command scan); returns the lookup.
func (m *parserModel) commandLookupAt(b *ssa.BasicBlock) *ssa.Lookup {
	for _, f := range factsAt(b) {
		if f.Op != token.ILLEGAL || !f.Truth {
			continue
		}
		ex, ok := f.X.(*ssa.Extract)
		if !ok || ex.Index != 1 {
			continue
		}
		lk, ok := ex.Tuple.(*ssa.Lookup)
		if !ok || !lk.CommaOk {
			continue
		}
		base, ok := loadOfField(lk.X, m.fChildCommands)
		if !ok || !isTreePtr(base.Type()) {
			continue
		}
		if c, ok := lk.Index.(*ssa.Call); ok && m.iterCall(c, nIterValue) {
			return lk
		}
	}
	return nil
}

// isCommandScan: the instruction starts the scan of the cursor's commands (range over ChildCommands, or a direct lookup by the current token).
func (m *parserModel) isCommandScan(in ssa.Instruction) bool {
	switch x := in.(type) {
	case *ssa.Range:
		_, ok := loadOfField(x.X, m.fChildCommands)
		return ok
	case *ssa.Lookup:
		if _, ok := loadOfField(x.X, m.fChildCommands); ok {
			if c, ok := x.Index.(*ssa.Call); ok && m.iterCall(c, nIterValue) {
				return true
			}
		}
	}
	return false
}
